import Cppcheck.Model.LibValid
/-
Helper lemmas for C30 (core Lean only).
-/
namespace Cppcheck.LibValid
open Cppcheck.Wire

/-! ## A. digits -/

theorem lt10_cases {d : Nat} (h : d < 10) :
    d = 0 ∨ d = 1 ∨ d = 2 ∨ d = 3 ∨ d = 4 ∨ d = 5 ∨ d = 6 ∨ d = 7 ∨ d = 8 ∨ d = 9 := by omega

theorem digitVal_digitChar {d : Nat} (h : d < 10) : digitVal (digitChar d) = some d := by
  rcases lt10_cases h with h|h|h|h|h|h|h|h|h|h <;> subst h <;> rfl

theorem isDigit_digitChar {d : Nat} (h : d < 10) : isDigit (digitChar d) = true := by
  rcases lt10_cases h with h|h|h|h|h|h|h|h|h|h <;> subst h <;> rfl

theorem isNameChar_digitChar {d : Nat} (h : d < 10) : isNameChar (digitChar d) = true := by
  rcases lt10_cases h with h|h|h|h|h|h|h|h|h|h <;> subst h <;> rfl

theorem natDigits_lt10 (n : Nat) : ∀ d ∈ natDigits n, d < 10 := by
  fun_induction natDigits n with
  | case1 n h => intro d hd; simp at hd; omega
  | case2 n h ih =>
    intro d hd
    simp at hd
    rcases hd with hd | hd
    · exact ih d hd
    · omega

theorem natDigits_ne_nil (n : Nat) : natDigits n ≠ [] := by
  fun_induction natDigits n with
  | case1 n h => simp
  | case2 n h ih => simp

def foldDigits (acc : Nat) (ds : List Nat) : Nat := ds.foldl (fun a d => a * 10 + d) acc

theorem foldDigits_natDigits (n : Nat) : foldDigits 0 (natDigits n) = n := by
  fun_induction natDigits n with
  | case1 n h => simp [foldDigits]
  | case2 n h ih =>
    unfold foldDigits at *
    rw [List.foldl_append, ih]
    simp
    omega

/-- the first digit is non-zero unless the number is 0 (written `0`) -/
theorem natDigits_head (n : Nat) : ∃ d ds, natDigits n = d :: ds ∧ d < 10 ∧ (d = 0 → n = 0 ∧ ds = []) := by
  fun_induction natDigits n with
  | case1 n h => exact ⟨n, [], rfl, h, fun h0 => ⟨h0, rfl⟩⟩
  | case2 n h ih =>
    obtain ⟨d, ds, e, hd, hz⟩ := ih
    refine ⟨d, ds ++ [n % 10], by rw [e]; rfl, hd, ?_⟩
    intro h0
    have := (hz h0).1
    omega


/-! ## B. digitsGo on rendered numbers -/

theorem digitsGo_digits (base : Nat) (hb : 10 ≤ base) (ds : List Nat) (hds : ∀ d ∈ ds, d < 10) (acc cnt : Nat) (r : Str) :
    digitsGo base acc cnt (ds.map digitChar ++ r)
      = digitsGo base (ds.foldl (fun a d => a * base + d) acc) (cnt + ds.length) r := by
  induction ds generalizing acc cnt with
  | nil => simp
  | cons d ds ih =>
    have hd : d < 10 := hds d (by simp)
    simp only [List.map_cons, List.cons_append, digitsGo, digitVal_digitChar hd]
    have : d < base := by omega
    simp only [this, if_true]
    rw [ih (fun d hd => hds d (by simp [hd]))]
    simp only [List.foldl_cons, List.length_cons]
    congr 1
    omega

/-- a string that is empty or starts with a non-digit -/
def NoDigitStart (r : Str) : Prop := ∀ c r', r = c :: r' → digitVal c = none

theorem digitsGo_stop (base acc cnt : Nat) (r : Str) (h : NoDigitStart r) : digitsGo base acc cnt r = (acc, cnt, r) := by
  cases r with
  | nil => rfl
  | cons c r' => simp [digitsGo, h c r' rfl]

theorem digitsGo_renderNat (n : Nat) (r : Str) (h : NoDigitStart r) :
    digitsGo 10 0 0 (renderNat n ++ r) = (n, (natDigits n).length, r) := by
  unfold renderNat
  rw [digitsGo_digits 10 (by omega) _ (natDigits_lt10 n), digitsGo_stop _ _ _ _ h]
  have := foldDigits_natDigits n
  unfold foldDigits at this
  simp [this]

theorem noDigitStart_nil : NoDigitStart [] := by intro c r h; cases h

theorem renderNat_ne_nil (n : Nat) : renderNat n ≠ [] := by
  unfold renderNat
  simp [natDigits_ne_nil]

theorem renderNat_allDigits (n : Nat) : ∀ c ∈ renderNat n, isDigit c = true := by
  intro c hc
  unfold renderNat at hc
  simp at hc
  obtain ⟨d, hd, rfl⟩ := hc
  exact isDigit_digitChar (natDigits_lt10 n d hd)

/-- shape of a rendered natural number: first digit, rest, and the first digit is `0` only for `0` -/
theorem renderNat_shape (n : Nat) :
    ∃ d ds, renderNat n = digitChar d :: ds ∧ d < 10 ∧ (∀ c ∈ ds, isDigit c = true) ∧ (d = 0 → n = 0 ∧ ds = []) := by
  obtain ⟨d, ds, e, hd, hz⟩ := natDigits_head n
  refine ⟨d, ds.map digitChar, by simp [renderNat, e], hd, ?_, ?_⟩
  · intro c hc
    have := renderNat_allDigits n c (by simp [renderNat, e]; right; simpa using hc)
    exact this
  · intro h0
    have := hz h0
    simp [this]

theorem isDigit_cases {c : Char} (h : isDigit c = true) : ∃ d, d < 10 ∧ c = digitChar d := by
  unfold isDigit at h
  simp at h
  have e : c = Char.ofNat c.toNat := (Char.ofNat_toNat c).symm
  obtain ⟨h1, h2⟩ := h
  have hk : c.toNat = 48 ∨ c.toNat = 49 ∨ c.toNat = 50 ∨ c.toNat = 51 ∨ c.toNat = 52 ∨ c.toNat = 53 ∨ c.toNat = 54
      ∨ c.toNat = 55 ∨ c.toNat = 56 ∨ c.toNat = 57 := by omega
  rcases hk with hk|hk|hk|hk|hk|hk|hk|hk|hk|hk <;> rw [hk] at e
  · exact ⟨0, by omega, e⟩
  · exact ⟨1, by omega, e⟩
  · exact ⟨2, by omega, e⟩
  · exact ⟨3, by omega, e⟩
  · exact ⟨4, by omega, e⟩
  · exact ⟨5, by omega, e⟩
  · exact ⟨6, by omega, e⟩
  · exact ⟨7, by omega, e⟩
  · exact ⟨8, by omega, e⟩
  · exact ⟨9, by omega, e⟩

/-- everything the proofs need to know about a digit character, by enumeration -/
theorem digit_facts {c : Char} (h : isDigit c = true) :
    isNameChar c = true ∧ (c == '-') = false ∧ (c == '+') = false ∧ (c == ':') = false ∧ (c == ',') = false
    ∧ (c == '.') = false ∧ (c == 'e') = false ∧ (c == 'E') = false ∧ (c == '!') = false ∧ (c == '_') = false
    ∧ (c == 'P') = false ∧ (c == 'p') = false ∧ (∃ d, d < 10 ∧ digitVal c = some d) := by
  obtain ⟨d, hd, rfl⟩ := isDigit_cases h
  rcases lt10_cases hd with h|h|h|h|h|h|h|h|h|h <;> subst h <;>
    refine ⟨rfl, rfl, rfl, rfl, rfl, rfl, rfl, rfl, rfl, rfl, rfl, rfl, ?_⟩
  · exact ⟨0, by omega, rfl⟩
  · exact ⟨1, by omega, rfl⟩
  · exact ⟨2, by omega, rfl⟩
  · exact ⟨3, by omega, rfl⟩
  · exact ⟨4, by omega, rfl⟩
  · exact ⟨5, by omega, rfl⟩
  · exact ⟨6, by omega, rfl⟩
  · exact ⟨7, by omega, rfl⟩
  · exact ⟨8, by omega, rfl⟩
  · exact ⟨9, by omega, rfl⟩

/-! ## C. classification of a rendered integer -/

def AllDigits (s : Str) : Prop := ∀ c ∈ s, isDigit c = true

theorem isDecGo_digits (s : Str) (h : AllDigits s) (seen : Bool) : isDecGo seen s = (seen || !s.isEmpty) := by
  induction s generalizing seen with
  | nil => simp [isDecGo]
  | cons c r ih =>
    have hc : isDigit c = true := h c (by simp)
    simp [isDecGo, hc, ih (fun c hc => h c (by simp [hc]))]

theorem isDecimalFloatGo_digits (s : Str) (h : AllDigits s) : isDecimalFloatGo .baseDigits1 s = false := by
  induction s with
  | nil => simp [isDecimalFloatGo]
  | cons c r ih =>
    have hc : isDigit c = true := h c (by simp)
    obtain ⟨-, -, -, -, -, h5, h6, h7, -⟩ := digit_facts hc
    simp [isDecimalFloatGo, hc, h5, h6, h7, ih (fun c hc => h c (by simp [hc]))]

theorem not_mem_of_allDigits (s : Str) (h : AllDigits s) (c : Char) (hc : isDigit c = false) : c ∉ s := by
  intro hm
  have := h c hm
  rw [this] at hc
  cases hc

theorem allDigits_renderNat (n : Nat) : AllDigits (renderNat n) := renderNat_allDigits n

theorem peek_renderNat (n : Nat) : isDigit (peek (renderNat n)) = true := by
  obtain ⟨d, ds, e, hd, -, -⟩ := renderNat_shape n
  rw [e]; exact isDigit_digitChar hd

theorem stripSign_digits (s : Str) (h : isDigit (peek s) = true) : stripSign s = s := by
  cases s with
  | nil => rfl
  | cons c r =>
    obtain ⟨-, h1, h2, -⟩ := digit_facts (c := c) h
    simp [stripSign, h1, h2]

theorem numberLike_renderInt (n : Int) : numberLike (renderInt n) = true := by
  unfold renderInt
  obtain ⟨d, ds, e, hd, -, -⟩ := renderNat_shape n.natAbs
  split
  · simp [numberLike, e, isDigit_digitChar hd]
  · simp [numberLike, e, isDigit_digitChar hd]

theorem stripSign_renderInt (n : Int) : stripSign (renderInt n) = renderNat n.natAbs := by
  unfold renderInt
  split
  · simp [stripSign]
  · exact stripSign_digits _ (peek_renderNat _)

theorem renderInt_ne_nil (n : Int) : renderInt n ≠ [] := by
  unfold renderInt
  split
  · simp
  · exact renderNat_ne_nil _

theorem isDec_renderInt (n : Int) : isDec (renderInt n) = true := by
  unfold isDec
  rw [stripSign_renderInt, isDecGo_digits _ (allDigits_renderNat _)]
  have h1 := renderInt_ne_nil n
  have h2 := renderNat_ne_nil n.natAbs
  cases h : renderInt n with
  | nil => exact absurd h h1
  | cons a b =>
    cases h' : renderNat n.natAbs with
    | nil => exact absurd h' h2
    | cons a' b' => simp

theorem isOctDigit_of_digitChar_zero : isOctDigit (digitChar 0) = true := rfl

theorem isOct_renderInt (n : Int) : isOct (renderInt n) = false := by
  unfold isOct
  rw [stripSign_renderInt]
  obtain ⟨d, ds, e, hd, hds, hz⟩ := renderNat_shape n.natAbs
  rw [e]
  by_cases h0 : d = 0
  · obtain ⟨-, hnil⟩ := hz h0
    subst h0; subst hnil
    simp [isOctGo, digitChar]
  · have : (digitChar d == '0') = false := by
      rcases lt10_cases hd with h|h|h|h|h|h|h|h|h|h <;> subst h <;> first | (exact absurd rfl h0) | rfl
    simp [isOctGo, this]

theorem isDecimalFloat_renderInt (n : Int) : isDecimalFloat (renderInt n) = false := by
  unfold isDecimalFloat
  rw [stripSign_renderInt]
  obtain ⟨d, ds, e, hd, hds, hz⟩ := renderNat_shape n.natAbs
  rw [e]
  have hc := isDigit_digitChar hd
  obtain ⟨-, -, -, -, -, h5, -⟩ := digit_facts hc
  simp [isDecimalFloatGo, hc, h5, isDecimalFloatGo_digits ds hds]

theorem isFloat_renderInt (n : Int) : isFloat (renderInt n) = false := isDecimalFloat_renderInt n

theorem underscore_not_mem_renderInt (n : Int) : '_' ∉ renderInt n := by
  unfold renderInt
  split
  · intro h
    simp at h
    exact not_mem_of_allDigits _ (allDigits_renderNat _) '_' rfl h
  · exact not_mem_of_allDigits _ (allDigits_renderNat _) '_' rfl

theorem isNumber_renderInt (n : Int) : isNumber (renderInt n) = true := by
  unfold isNumber isInt
  simp [numberLike_renderInt, isDec_renderInt, underscore_not_mem_renderInt]

theorem peek_renderInt_neg {n : Int} (h : n < 0) : renderInt n = '-' :: renderNat n.natAbs := by
  simp [renderInt, h]

theorem renderInt_nonneg {n : Int} (h : ¬ n < 0) : renderInt n = renderNat n.natAbs := by
  simp [renderInt, h]

theorem peek_digit_not_sign {s : Str} (h : isDigit (peek s) = true) : (peek s == '-') = false ∧ (peek s == '+') = false := by
  obtain ⟨-, h1, h2, -⟩ := digit_facts h
  exact ⟨h1, h2⟩

theorem natDigits_length_pos (n : Nat) : (natDigits n).length ≠ 0 := by
  have := natDigits_ne_nil n
  cases h : natDigits n with
  | nil => exact absurd h this
  | cons a b => simp

theorem stoull_renderInt (n : Int) (h : in65 n = true) :
    stoull 10 (renderInt n) = some ((if n < 0 then two64 - n.natAbs else n.natAbs), []) := by
  unfold in65 two64 at h
  simp at h
  unfold stoull
  by_cases hn : n < 0
  · rw [peek_renderInt_neg hn]
    have hd := digitsGo_renderNat n.natAbs [] noDigitStart_nil
    simp only [List.append_nil] at hd
    simp only [peek, beq_self_eq_true, Bool.true_or, if_true, List.drop_succ_cons, List.drop_zero, hd]
    have hl := natDigits_length_pos n.natAbs
    have h2 : ¬ (n.natAbs ≥ two64) := by unfold two64; omega
    simp only [hn, if_true]
    simp [hl, h2]
    unfold two64; omega
  · rw [renderInt_nonneg hn]
    obtain ⟨p1, p2⟩ := peek_digit_not_sign (peek_renderNat n.natAbs)
    have hd := digitsGo_renderNat n.natAbs [] noDigitStart_nil
    simp only [List.append_nil] at hd
    simp only [p1, p2, Bool.or_self, Bool.false_eq_true, if_false, hd]
    have hl := natDigits_length_pos n.natAbs
    have h2 : ¬ (n.natAbs ≥ two64) := by unfold two64; omega
    simp [hl, h2, hn]

/-- a bound of magnitude below 2^64 is read modulo 2^64 -/
theorem toBigNumber_renderInt_wrap (n : Int) (h : in65 n = true) : toBigNumber (renderInt n) = some (wrap64 n) := by
  unfold toBigNumber
  rw [isOct_renderInt, isFloat_renderInt, stoull_renderInt n h]
  have h' := h
  unfold in65 two64 at h'
  simp at h'
  simp only [Bool.false_eq_true, if_false, List.isEmpty_nil, Bool.true_or, if_true]
  unfold toSigned two64 two63 wrap64
  by_cases hn : n < 0
  · simp only [hn, if_true]
    split
    · congr 1; omega
    · congr 1; omega
  · simp only [hn, if_false]
    split
    · congr 1; omega
    · congr 1; omega

theorem wrap64_of_inInt64 (n : Int) (h : inInt64 n = true) : wrap64 n = n := by
  unfold inInt64 int64Min int64Max at h
  simp at h
  unfold wrap64
  omega

theorem in65_of_inInt64 (n : Int) (h : inInt64 n = true) : in65 n = true := by
  unfold inInt64 int64Min int64Max at h
  simp at h
  unfold in65 two64
  simp
  omega

theorem toBigNumber_renderInt (n : Int) (h : inInt64 n = true) : toBigNumber (renderInt n) = some n := by
  rw [toBigNumber_renderInt_wrap n (in65_of_inInt64 n h), wrap64_of_inInt64 n h]

/-! ## D. lexer on rendered text -/

/-- a string that is empty or starts with a character that ends a name/number run -/
def SepStart (r : Str) : Prop := ∀ c r', r = c :: r' → isNameChar c = false

theorem lexGo_run (ds : Str) (h : ∀ c ∈ ds, isNameChar c = true) (cur r : Str) :
    lexGo cur (ds ++ r) = lexGo (cur ++ ds) r := by
  induction ds generalizing cur with
  | nil => simp
  | cons c ds ih =>
    have hc : isNameChar c = true := h c (by simp)
    simp only [List.cons_append, lexGo, hc, if_true]
    rw [ih (fun c hc => h c (by simp [hc]))]
    simp

theorem lexGo_flush (cur : Str) (hcur : cur ≠ []) (r : Str) (h : SepStart r) : lexGo cur r = cur :: lexGo [] r := by
  cases r with
  | nil =>
    cases cur with
    | nil => exact absurd rfl hcur
    | cons a b => simp [lexGo]
  | cons c r' =>
    have hc := h c r' rfl
    cases cur with
    | nil => exact absurd rfl hcur
    | cons a b =>
      simp only [lexGo, hc]
      simp
      split <;> simp

theorem lex_digits (ds : Str) (hne : ds ≠ []) (h : AllDigits ds) (r : Str) (hr : SepStart r) :
    lexGo [] (ds ++ r) = ds :: lexGo [] r := by
  rw [lexGo_run ds (fun c hc => (digit_facts (h c hc)).1)]
  simpa using lexGo_flush ds hne r hr

theorem lex_op (c : Char) (hc : isNameChar c = false) (h32 : ¬ c.toNat ≤ 32) (r : Str) :
    lexGo [] (c :: r) = [c] :: lexGo [] r := by
  simp [lexGo, hc, h32]

theorem sepStart_nil : SepStart [] := by intro c r h; cases h
theorem sepStart_colon (r : Str) : SepStart (':' :: r) := by intro c r' h; cases h; rfl
theorem sepStart_comma (r : Str) : SepStart (',' :: r) := by intro c r' h; cases h; rfl


def intPre (n : Int) : List Str := if n < 0 then [minusTok, renderNat n.natAbs] else [renderNat n.natAbs]

def Range.pre : Range → List Str
  | .single n => intPre n
  | .closed lo hi => intPre lo ++ colonTok :: intPre hi
  | .from lo => intPre lo ++ [colonTok]
  | .upto hi => colonTok :: intPre hi

def preAll : List Range → List Str
  | [] => []
  | r :: rs => r.pre ++ commaTok :: preAll rs

/-- the text handed to the tokeniser: every range followed by a comma -/
def renderAll : List Range → Str
  | [] => []
  | r :: rs => r.render ++ ',' :: renderAll rs

theorem renderRanges_append_comma (rs : List Range) (h : rs ≠ []) : renderRanges rs ++ [','] = renderAll rs := by
  induction rs with
  | nil => exact absurd rfl h
  | cons r rs ih =>
    cases rs with
    | nil => simp [renderRanges, renderAll]
    | cons r' rs' =>
      have := ih (by simp)
      simp only [renderRanges, renderAll, List.append_assoc, List.cons_append] at this ⊢
      rw [this]

theorem lex_int (n : Int) (r : Str) (hr : SepStart r) : lexGo [] (renderInt n ++ r) = intPre n ++ lexGo [] r := by
  unfold renderInt intPre
  split
  · rw [List.cons_append, lex_op '-' rfl (by decide), lex_digits _ (renderNat_ne_nil _) (allDigits_renderNat _) r hr]
    rfl
  · rw [lex_digits _ (renderNat_ne_nil _) (allDigits_renderNat _) r hr]
    rfl

theorem lex_range (r : Range) (R : Str) (hR : SepStart R) : lexGo [] (r.render ++ R) = r.pre ++ lexGo [] R := by
  cases r with
  | single n => exact lex_int n R hR
  | closed lo hi =>
    simp only [Range.render, Range.pre, List.append_assoc, List.cons_append]
    rw [lex_int lo _ (sepStart_colon _), lex_op ':' rfl (by decide), lex_int hi R hR]
    rfl
  | «from» lo =>
    simp only [Range.render, Range.pre, List.append_assoc, List.cons_append, List.nil_append]
    rw [lex_int lo _ (sepStart_colon _), lex_op ':' rfl (by decide)]
    rfl
  | upto hi =>
    simp only [Range.render, Range.pre, List.cons_append]
    rw [lex_op ':' rfl (by decide), lex_int hi R hR]
    rfl

theorem lex_all (rs : List Range) : lex (renderAll rs) = preAll rs := by
  unfold lex
  induction rs with
  | nil => rfl
  | cons r rs ih =>
    simp only [renderAll, preAll]
    rw [lex_range r _ (sepStart_comma _), lex_op ',' rfl (by decide), ih]
    rfl


/-! ## E. combineOperators / fixDot leave such token lists alone -/

/-- a token on which combineOperators does nothing: not `.`, and not ending in an exponent letter -/
def Plain (t : Str) : Prop :=
  (t == dotTok) = false ∧ (lastChar t == 'E') = false ∧ (lastChar t == 'e') = false
    ∧ (lastChar t == 'P') = false ∧ (lastChar t == 'p') = false ∧ fixDot t = t

theorem combineExp_plain (t : Str) (rest : List Str) (h : Plain t) : combineExp t rest = (t, rest) := by
  obtain ⟨-, h1, h2, h3, h4, -⟩ := h
  unfold combineExp
  split
  · simp [h1, h2, h3, h4]
  · rfl

theorem combineTok_plain (ro : List Str) (t : Str) (rest : List Str) (h : Plain t) : combineTok ro t rest = (ro, t, rest) := by
  unfold combineTok
  simp [h.1, combineExp_plain t rest h]

theorem combine_plain (toks : List Str) (h : ∀ t ∈ toks, Plain t) (ro : List Str) : combine ro toks = ro.reverse ++ toks := by
  induction toks generalizing ro with
  | nil => simp [combine]
  | cons t rest ih =>
    rw [combine, combineTok_plain ro t rest (h t (by simp))]
    simp only
    rw [ih (fun t ht => h t (by simp [ht]))]
    simp

theorem lastChar_mem (s : Str) (h : s ≠ []) : lastChar s ∈ s := by
  induction s with
  | nil => exact absurd rfl h
  | cons c r ih =>
    cases r with
    | nil => simp [lastChar]
    | cons d r' =>
      have := ih (by simp)
      simp only [lastChar]
      exact List.mem_cons_of_mem _ this

theorem plain_digits (s : Str) (hne : s ≠ []) (h : AllDigits s) : Plain s := by
  have hl := h _ (lastChar_mem s hne)
  obtain ⟨-, -, -, -, -, -, h6, h7, -, -, h10, h11, -⟩ := digit_facts hl
  refine ⟨?_, h7, h6, h10, h11, ?_⟩
  · cases s with
    | nil => exact absurd rfl hne
    | cons c r =>
      have hc := h c (by simp)
      obtain ⟨-, -, -, -, -, h5, -⟩ := digit_facts hc
      cases hcd : (c :: r == dotTok)
      · rfl
      · have := eq_of_beq hcd
        simp [dotTok] at this
        rw [this.1] at h5
        cases h5
  · cases s with
    | nil => rfl
    | cons c r =>
      have hc := h c (by simp)
      obtain ⟨-, -, -, -, -, h5, -⟩ := digit_facts hc
      cases r with
      | nil => rfl
      | cons d r' => simp [fixDot, h5]

theorem plain_minus : Plain minusTok := by refine ⟨rfl, rfl, rfl, rfl, rfl, rfl⟩
theorem plain_colon : Plain colonTok := by refine ⟨rfl, rfl, rfl, rfl, rfl, rfl⟩
theorem plain_comma : Plain commaTok := by refine ⟨rfl, rfl, rfl, rfl, rfl, rfl⟩

theorem plain_intPre (n : Int) : ∀ t ∈ intPre n, Plain t := by
  intro t ht
  unfold intPre at ht
  split at ht
  · simp at ht
    rcases ht with rfl | rfl
    · exact plain_minus
    · exact plain_digits _ (renderNat_ne_nil _) (allDigits_renderNat _)
  · simp at ht
    subst ht
    exact plain_digits _ (renderNat_ne_nil _) (allDigits_renderNat _)

theorem plain_range (r : Range) : ∀ t ∈ r.pre, Plain t := by
  intro t ht
  cases r with
  | single n => exact plain_intPre n t ht
  | closed lo hi =>
    simp [Range.pre] at ht
    rcases ht with h | rfl | h
    · exact plain_intPre lo t h
    · exact plain_colon
    · exact plain_intPre hi t h
  | «from» lo =>
    simp [Range.pre] at ht
    rcases ht with h | rfl
    · exact plain_intPre lo t h
    · exact plain_colon
  | upto hi =>
    simp [Range.pre] at ht
    rcases ht with rfl | h
    · exact plain_colon
    · exact plain_intPre hi t h

theorem plain_all (rs : List Range) : ∀ t ∈ preAll rs, Plain t := by
  induction rs with
  | nil => intro t ht; cases ht
  | cons r rs ih =>
    intro t ht
    simp [preAll] at ht
    rcases ht with h | rfl | h
    · exact plain_range r t h
    · exact plain_comma
    · exact ih t h

theorem map_fixDot_plain (toks : List Str) (h : ∀ t ∈ toks, Plain t) : toks.map fixDot = toks := by
  induction toks with
  | nil => rfl
  | cons t r ih =>
    simp only [List.map_cons]
    rw [(h t (by simp)).2.2.2.2.2, ih (fun t ht => h t (by simp [ht]))]


/-! ## G. the `- %num%` merge -/

theorem mergeMinus_other (t : Str) (ht : (t == minusTok) = false) (R : List Str) : mergeMinus (t :: R) = t :: mergeMinus R := by
  cases R with
  | nil => simp [mergeMinus]
  | cons a R' => simp [mergeMinus, ht]

theorem renderNat_ne_minus (m : Nat) : (renderNat m == minusTok) = false := by
  obtain ⟨d, ds, e, hd, -, -⟩ := renderNat_shape m
  rw [e]
  obtain ⟨-, h1, -⟩ := digit_facts (isDigit_digitChar hd)
  cases h : (digitChar d :: ds == minusTok)
  · rfl
  · have := eq_of_beq h
    simp [minusTok] at this
    rw [this.1] at h1
    cases h1

theorem isNumber_renderNat (m : Nat) : isNumber (renderNat m) = true := by
  have := isNumber_renderInt (m : Int)
  rwa [renderInt_nonneg (by omega), Int.natAbs_natCast] at this

theorem mergeMinus_int (n : Int) (R : List Str) : mergeMinus (intPre n ++ R) = renderInt n :: mergeMinus R := by
  unfold intPre
  split
  · rename_i hn
    simp only [List.cons_append, List.nil_append, mergeMinus, isNumber_renderNat, beq_self_eq_true, Bool.and_self, if_true]
    rw [peek_renderInt_neg hn]
    rfl
  · rename_i hn
    rw [renderInt_nonneg hn]
    exact mergeMinus_other _ (renderNat_ne_minus _) R

theorem mergeMinus_range (r : Range) (R : List Str) : mergeMinus (r.pre ++ R) = r.toks ++ mergeMinus R := by
  cases r with
  | single n => exact mergeMinus_int n R
  | closed lo hi =>
    simp only [Range.pre, Range.toks, List.append_assoc, List.cons_append, List.nil_append]
    rw [mergeMinus_int, mergeMinus_other colonTok rfl, mergeMinus_int]
  | «from» lo =>
    simp only [Range.pre, Range.toks, List.append_assoc, List.cons_append, List.nil_append]
    rw [mergeMinus_int, mergeMinus_other colonTok rfl]
  | upto hi =>
    simp only [Range.pre, Range.toks, List.cons_append, List.nil_append]
    rw [mergeMinus_other colonTok rfl, mergeMinus_int]

theorem mergeMinus_all (rs : List Range) : mergeMinus (preAll rs) = rangesToks rs := by
  induction rs with
  | nil => rfl
  | cons r rs ih =>
    simp only [preAll, rangesToks]
    rw [mergeMinus_range, mergeMinus_other commaTok rfl, ih]

/-- tokenisation of a rendered expression -/
theorem tokenize_renderRanges (rs : List Range) (h : rs ≠ []) : tokenize (renderRanges rs) = rangesToks rs := by
  unfold tokenize
  rw [renderRanges_append_comma rs h, lex_all, combine_plain _ (plain_all rs), List.reverse_nil, List.nil_append,
    map_fixDot_plain _ (plain_all rs), mergeMinus_all]

/-! ## H. the acceptance loop on the token list of a rendered expression -/

theorem isNumber_colon : isNumber colonTok = false := rfl
theorem isNumber_comma : isNumber commaTok = false := rfl

theorem ne_colon_of_isNumber {t : Str} (h : isNumber t = true) : (t == colonTok) = false := by
  cases h' : (t == colonTok)
  · rfl
  · have := eq_of_beq h'; subst this; cases h

theorem ne_comma_of_isNumber {t : Str} (h : isNumber t = true) : (t == commaTok) = false := by
  cases h' : (t == commaTok)
  · rfl
  · have := eq_of_beq h'; subst this; cases h

theorem intStep_comma (x : Int) (prev : Option Str) (R : List Str) : intStep x prev commaTok R = none := by
  unfold intStep
  have h1 : (commaTok == colonTok) = false := rfl
  cases R with
  | nil => simp [isNumber_comma, clause, h1]
  | cons a R' =>
    cases R' with
    | nil => simp [isNumber_comma, clause, h1]
    | cons b R'' => simp [isNumber_comma, clause, h1]

theorem intStep_colon_blocked (x : Int) (p : Str) (hp : (p == commaTok) = false) (R : List Str) :
    intStep x (some p) colonTok R = none := by
  unfold intStep
  have hp' : ¬ p = commaTok := by intro h; subst h; simp at hp
  cases R with
  | nil => simp [isNumber_colon, clause]
  | cons a R' =>
    cases R' with
    | nil => simp [isNumber_colon, clause, hp']
    | cons b R'' => simp [isNumber_colon, clause, hp']

theorem intStep_colon_open (x : Int) (prev : Option Str) (hprev : prev = none ∨ prev = some commaTok)
    (H : Str) (hi : Int) (hH : isNumber H = true) (vH : toBigNumber H = some hi) (R : List Str) :
    intStep x prev colonTok (H :: R) = if x ≤ hi then some (.ok true) else none := by
  unfold intStep
  have hp : (prev == none || prev == some commaTok) = true := by
    rcases hprev with h | h <;> subst h <;> simp
  cases R with
  | nil =>
    simp only [isNumber_colon, hp, hH, vH]
    by_cases hx : x ≤ hi <;> simp [clause, hx]
  | cons b R' =>
    simp only [isNumber_colon, hp, hH, vH]
    by_cases hx : x ≤ hi <;> simp [clause, hx]

theorem head_comma_ne_colon (R : List Str) : ((commaTok :: R).head? == some colonTok) = false := rfl
theorem head_colon_eq_colon (R : List Str) : ((colonTok :: R).head? == some colonTok) = true := rfl

/-- a single value (not preceded by `:`), followed by `,` -/
theorem intStep_num_comma (x : Int) (prev : Option Str) (hp : (prev == some colonTok) = false) (T : Str) (a : Int)
    (hT : isNumber T = true) (vT : toBigNumber T = some a) (R : List Str) :
    intStep x prev T (commaTok :: R) = if x = a then some (.ok true) else none := by
  unfold intStep
  have h1 : (commaTok == colonTok) = false := rfl
  have h2 := ne_colon_of_isNumber hT
  cases R with
  | nil =>
    simp only [hT, vT, h1, h2, hp, isNumber_comma, head_comma_ne_colon]
    by_cases hx : x = a
    · simp [clause, hx]
    · have hb : (x == a) = false := by simpa using hx
      simp [clause, hx, hb]
  | cons b R' =>
    simp only [hT, vT, h1, h2, hp, isNumber_comma, head_comma_ne_colon]
    by_cases hx : x = a
    · simp [clause, hx]
    · have hb : (x == a) = false := by simpa using hx
      simp [clause, hx, hb]

/-- the upper bound of a range (preceded by `:`) is not a single value -/
theorem intStep_num_comma_bound (x : Int) (T : Str) (hT : isNumber T = true) (R : List Str) :
    intStep x (some colonTok) T (commaTok :: R) = none := by
  unfold intStep
  have h1 : (commaTok == colonTok) = false := rfl
  have h2 := ne_colon_of_isNumber hT
  cases R with
  | nil => simp [hT, h1, h2, isNumber_comma, clause]
  | cons b R' => simp [hT, h1, h2, isNumber_comma, clause]

theorem intStep_num_from (x : Int) (prev : Option Str) (T : Str) (a : Int) (hT : isNumber T = true)
    (vT : toBigNumber T = some a) (R : List Str) :
    intStep x prev T (colonTok :: commaTok :: R) = if a ≤ x then some (.ok true) else none := by
  unfold intStep
  have h2 := ne_colon_of_isNumber hT
  simp only [hT, vT, h2, isNumber_comma, isNumber_colon, head_colon_eq_colon]
  by_cases hx2 : a ≤ x <;> simp [clause, hx2]

theorem intStep_num_closed (x : Int) (prev : Option Str) (T H : Str) (a b : Int) (hT : isNumber T = true)
    (vT : toBigNumber T = some a) (hH : isNumber H = true) (vH : toBigNumber H = some b) (R : List Str) :
    intStep x prev T (colonTok :: H :: R) = if a ≤ x ∧ x ≤ b then some (.ok true) else none := by
  unfold intStep
  have h2 := ne_colon_of_isNumber hT
  have h3 := ne_comma_of_isNumber hH
  simp only [hT, vT, hH, vH, h2, h3, isNumber_colon, head_colon_eq_colon]
  by_cases hx2 : a ≤ x
  · by_cases hx3 : x ≤ b <;> simp [clause, hx2, hx3]
  · simp [clause, hx2]

theorem scanInt_cons (x : Int) (prev : Option Str) (t : Str) (rest : List Str) :
    scanInt x prev (t :: rest) = match intStep x prev t rest with | some r => r | none => scanInt x (some t) rest := by
  rfl

theorem scanInt_comma (x : Int) (prev : Option Str) (R : List Str) :
    scanInt x prev (commaTok :: R) = scanInt x (some commaTok) R := by
  rw [scanInt_cons, intStep_comma]

theorem prev_ne_colon {prev : Option Str} (hprev : prev = none ∨ prev = some commaTok) : (prev == some colonTok) = false := by
  rcases hprev with h | h <;> subst h <;> rfl

/-- one rendered range followed by its comma: accepted iff the value is in the range whose bounds are the values
`val n` that MathLib::toBigNumber gives to the bound tokens -/
theorem scanInt_range (x : Int) (prev : Option Str) (hprev : prev = none ∨ prev = some commaTok)
    (r : Range) (val : Int → Int) (hv : ∀ n ∈ r.bounds, toBigNumber (renderInt n) = some (val n)) (R : List Str) :
    scanInt x prev (r.toks ++ commaTok :: R)
      = if (r.mapB val).memB x = true then .ok true else scanInt x (some commaTok) R := by
  cases r with
  | single n =>
    have hn := hv n (by simp [Range.bounds])
    simp only [Range.toks, List.cons_append, List.nil_append, Range.mapB]
    rw [scanInt_cons, intStep_num_comma x prev (prev_ne_colon hprev) _ _ (isNumber_renderInt n) hn]
    by_cases hx : x = val n
    · simp [hx, Range.memB]
    · simp [hx, Range.memB, scanInt_comma]
  | closed lo hi =>
    have hlo := hv lo (by simp [Range.bounds])
    have hhi := hv hi (by simp [Range.bounds])
    simp only [Range.toks, List.cons_append, List.nil_append, Range.mapB]
    rw [scanInt_cons, intStep_num_closed x prev _ _ _ _ (isNumber_renderInt lo) hlo (isNumber_renderInt hi) hhi]
    by_cases h1 : val lo ≤ x ∧ x ≤ val hi
    · simp [h1, Range.memB]
    · have : Range.memB x (.closed (val lo) (val hi)) = false := by
        simp only [Range.memB, Bool.and_eq_false_iff, decide_eq_false_iff_not]
        by_cases h : val lo ≤ x
        · exact Or.inr (fun h' => h1 ⟨h, h'⟩)
        · exact Or.inl h
      simp only [h1, if_false, this]
      rw [scanInt_cons, intStep_colon_blocked x _ (ne_comma_of_isNumber (isNumber_renderInt lo))]
      simp only
      rw [scanInt_cons, intStep_num_comma_bound x _ (isNumber_renderInt hi)]
      simp [scanInt_comma]
  | «from» lo =>
    have hlo := hv lo (by simp [Range.bounds])
    simp only [Range.toks, List.cons_append, List.nil_append, Range.mapB]
    rw [scanInt_cons, intStep_num_from x prev _ _ (isNumber_renderInt lo) hlo]
    by_cases h1 : val lo ≤ x
    · simp [h1, Range.memB]
    · have : Range.memB x (.from (val lo)) = false := by simp [Range.memB, h1]
      simp only [h1, if_false, this]
      rw [scanInt_cons, intStep_colon_blocked x _ (ne_comma_of_isNumber (isNumber_renderInt lo))]
      simp [scanInt_comma]
  | upto hi =>
    have hhi := hv hi (by simp [Range.bounds])
    simp only [Range.toks, List.cons_append, List.nil_append, Range.mapB]
    rw [scanInt_cons, intStep_colon_open x prev hprev _ _ (isNumber_renderInt hi) hhi]
    by_cases h1 : x ≤ val hi
    · simp [h1, Range.memB]
    · have : Range.memB x (.upto (val hi)) = false := by simp [Range.memB, h1]
      simp only [h1, if_false, this]
      rw [scanInt_cons, intStep_num_comma_bound x _ (isNumber_renderInt hi)]
      simp [scanInt_comma]

theorem scanInt_ranges (x : Int) (rs : List Range) (val : Int → Int)
    (hv : ∀ r ∈ rs, ∀ n ∈ r.bounds, toBigNumber (renderInt n) = some (val n)) (prev : Option Str)
    (hprev : prev = none ∨ prev = some commaTok) :
    scanInt x prev (rangesToks rs) = .ok ((rs.map (Range.mapB val)).any (Range.memB x)) := by
  induction rs generalizing prev with
  | nil => simp [rangesToks, scanInt]
  | cons r rs ih =>
    simp only [rangesToks]
    rw [scanInt_range x prev hprev r val (hv r (by simp)), ih (fun r' hr' => hv r' (by simp [hr'])) (some commaTok) (Or.inr rfl)]
    by_cases h : (r.mapB val).memB x = true
    · simp [h]
    · simp [h]

/-! ## I. the load-time check accepts every rendered expression -/

def cleanSt (range : Bool) : VState := { error := false, range := range, hasDot := false, hasE := false }

theorem peek_append_digits (ds r : Str) (h : AllDigits ds) (hne : ds ≠ []) : isDigit (peek (ds ++ r)) = true := by
  cases ds with
  | nil => exact absurd rfl hne
  | cons c ds' => exact h c (by simp)

theorem cg_digits (ds : Str) (h : AllDigits ds) (r : Str) (hr : (peek r == '-') = false) (st : VState) :
    compliantGo st (ds ++ r) = compliantGo st r := by
  induction ds with
  | nil => rfl
  | cons c ds ih =>
    have hc : isDigit c = true := h c (by simp)
    have hds : AllDigits ds := fun c hc => h c (by simp [hc])
    have hp : (peek (ds ++ r) == '-') = false := by
      cases ds with
      | nil => simpa using hr
      | cons d ds' => exact (digit_facts (hds d (by simp))).2.1
    simp only [List.cons_append, compliantGo, hc, if_true, hp, Bool.or_false]
    exact ih hds

theorem peek_renderInt_cases (n : Int) (r : Str) :
    (peek (renderInt n ++ r) == '.') = false ∧ (peek (renderInt n ++ r) == '\x00') = false := by
  unfold renderInt
  split
  · exact ⟨rfl, rfl⟩
  · obtain ⟨d, ds, e, hd, -, -⟩ := renderNat_shape n.natAbs
    rw [e]
    have := isDigit_digitChar hd
    refine ⟨(digit_facts this).2.2.2.2.2.1, ?_⟩
    rcases lt10_cases hd with h|h|h|h|h|h|h|h|h|h <;> subst h <;> rfl

theorem cg_int (n : Int) (r : Str) (hr : (peek r == '-') = false) (st : VState) :
    compliantGo st (renderInt n ++ r) = compliantGo st r := by
  unfold renderInt
  split
  · have hp := peek_append_digits (renderNat n.natAbs) r (allDigits_renderNat _) (renderNat_ne_nil _)
    have h1 : isDigit '-' = false := rfl
    have h2 : ('-' == ':') = false := rfl
    simp only [List.cons_append, compliantGo, h1, h2, hp]
    simp only [Bool.false_eq_true, if_false, beq_self_eq_true, Bool.true_or, if_true, Bool.not_true, Bool.or_false]
    exact cg_digits _ (allDigits_renderNat _) r hr st
  · exact cg_digits _ (allDigits_renderNat _) r hr st

def Range.hasColon : Range → Bool
  | .single _ => false
  | _ => true

/-- what may follow a rendered range: the end of the text or a comma -/
def EndOrComma (R : Str) : Prop := R = [] ∨ ∃ R', R = ',' :: R'

theorem endOrComma_peek {R : Str} (h : EndOrComma R) : (peek R == '-') = false ∧ (peek R == '.') = false := by
  rcases h with rfl | ⟨R', rfl⟩ <;> exact ⟨rfl, rfl⟩

theorem cg_range (r : Range) (R : Str) (hR : EndOrComma R) :
    compliantGo (cleanSt false) (r.render ++ R) = compliantGo (cleanSt r.hasColon) R := by
  obtain ⟨hR1, hR2⟩ := endOrComma_peek hR
  have h1 : isDigit ':' = false := rfl
  cases r with
  | single n => exact cg_int n R hR1 _
  | closed lo hi =>
    simp only [Range.render, List.append_assoc, List.cons_append]
    rw [cg_int lo _ rfl]
    simp only [compliantGo, h1, (peek_renderInt_cases hi R).1, cleanSt]
    simp only [Bool.false_eq_true, if_false, beq_self_eq_true, if_true, Bool.or_self]
    exact cg_int hi R hR1 _
  | «from» lo =>
    simp only [Range.render, List.append_assoc, List.cons_append, List.nil_append]
    rw [cg_int lo _ rfl]
    simp only [compliantGo, h1, hR2, cleanSt]
    simp [Range.hasColon]
  | upto hi =>
    simp only [Range.render, List.cons_append]
    simp only [compliantGo, h1, (peek_renderInt_cases hi R).1, cleanSt]
    simp only [Bool.false_eq_true, if_false, beq_self_eq_true, if_true, Bool.or_self]
    exact cg_int hi R hR1 _

theorem peek_range (r : Range) (R : Str) : (peek (r.render ++ R) == '.') = false := by
  cases r with
  | single n => exact (peek_renderInt_cases n R).1
  | closed lo hi => simp only [Range.render, List.append_assoc]; exact (peek_renderInt_cases lo _).1
  | «from» lo => simp only [Range.render, List.append_assoc]; exact (peek_renderInt_cases lo _).1
  | upto hi => rfl

theorem peek_renderRanges (rs : List Range) (h : rs ≠ []) : (peek (renderRanges rs) == '.') = false := by
  cases rs with
  | nil => exact absurd rfl h
  | cons r rs =>
    cases rs with
    | nil => simpa [renderRanges] using peek_range r []
    | cons r' rs' => simp only [renderRanges]; exact peek_range r _

theorem cg_ranges (rs : List Range) (h : rs ≠ []) : compliantGo (cleanSt false) (renderRanges rs) = true := by
  induction rs with
  | nil => exact absurd rfl h
  | cons r rs ih =>
    cases rs with
    | nil =>
      have := cg_range r [] (Or.inl rfl)
      simp only [List.append_nil] at this
      simp only [renderRanges, this]
      simp [compliantGo, cleanSt]
    | cons r' rs' =>
      simp only [renderRanges]
      rw [cg_range r _ (Or.inr ⟨_, rfl⟩)]
      have h1 : isDigit ',' = false := rfl
      have h2 : (',' == ':') = false := rfl
      have h3 : (',' == '-') = false := rfl
      have h4 : (',' == '+') = false := rfl
      simp only [compliantGo, h1, h2, h3, h4, peek_renderRanges (r' :: rs') (by simp), cleanSt]
      simp only [Bool.false_eq_true, if_false, Bool.or_self, beq_self_eq_true, if_true]
      exact ih (by simp)

theorem renderRanges_ne_nil (rs : List Range) (h : rs ≠ []) : renderRanges rs ≠ [] := by
  cases rs with
  | nil => exact absurd rfl h
  | cons r rs =>
    have hr : r.render ≠ [] := by
      cases r <;> simp [Range.render, renderInt_ne_nil]
    cases rs with
    | nil => simpa [renderRanges] using hr
    | cons r' rs' => simp [renderRanges, hr]

theorem isCompliant_renderRanges (rs : List Range) (h : rs ≠ []) : isCompliant (renderRanges rs) = true := by
  unfold isCompliant
  have hne := renderRanges_ne_nil rs h
  have hp := peek_renderRanges rs h
  cases hs : renderRanges rs with
  | nil => exact absurd hs hne
  | cons c s' =>
    rw [hs] at hp
    simp only [peek] at hp
    simp only [hp]
    rw [← hs]
    exact cg_ranges rs h

/-! ## J. parser of the documented grammar -/

theorem decodeIntTok_renderInt (n : Int) : decodeIntTok (renderInt n) = some n := by
  unfold decodeIntTok
  by_cases hn : n < 0
  · rw [peek_renderInt_neg hn]
    have hd := digitsGo_renderNat n.natAbs [] noDigitStart_nil
    simp only [List.append_nil] at hd
    simp only [peek, beq_self_eq_true, if_true, List.drop_succ_cons, List.drop_zero, hd]
    have hl := natDigits_length_pos n.natAbs
    have hv : -(n.natAbs : Int) = n := by omega
    simp [hl, hv]
  · rw [renderInt_nonneg hn]
    obtain ⟨p1, -⟩ := peek_digit_not_sign (peek_renderNat n.natAbs)
    have hd := digitsGo_renderNat n.natAbs [] noDigitStart_nil
    simp only [List.append_nil] at hd
    simp only [p1, Bool.false_eq_true, if_false, hd]
    have hl := natDigits_length_pos n.natAbs
    have hv : (n.natAbs : Int) = n := by omega
    simp [hl, hv]

theorem parseIntTok_renderInt (n : Int) : parseIntTok (renderInt n) = some n := by
  unfold parseIntTok
  rw [decodeIntTok_renderInt]
  simp

theorem parseIntTok_sound {t : Str} {n : Int} (h : parseIntTok t = some n) : t = renderInt n := by
  unfold parseIntTok at h
  split at h
  · split at h
    · rename_i hc
      injection h with h
      subst h
      exact (eq_of_beq hc).symm
    · cases h
  · cases h

theorem parseIntTok_comma : parseIntTok commaTok = none := by decide
theorem parseIntTok_colon : parseIntTok colonTok = none := by decide


theorem renderInt_ne_colon (n : Int) : (renderInt n == colonTok) = false := ne_colon_of_isNumber (isNumber_renderInt n)
theorem renderInt_ne_colon' (n : Int) : ¬ renderInt n = colonTok := by
  intro h; have := renderInt_ne_colon n; rw [h] at this; cases this
theorem comma_ne_colon : ¬ commaTok = colonTok := by decide

theorem parseRange_toks (r : Range) (R : List Str) : parseRange (r.toks ++ commaTok :: R) = some (r, commaTok :: R) := by
  cases r with
  | single n =>
    simp only [Range.toks, List.cons_append, List.nil_append, parseRange, renderInt_ne_colon, parseIntTok_renderInt]
    simp [comma_ne_colon]
  | closed lo hi =>
    simp only [Range.toks, List.cons_append, List.nil_append, parseRange, renderInt_ne_colon, parseIntTok_renderInt]
    simp
  | «from» lo =>
    simp only [Range.toks, List.cons_append, List.nil_append, parseRange, renderInt_ne_colon, parseIntTok_renderInt,
      parseIntTok_comma]
    simp
  | upto hi =>
    simp only [Range.toks, List.cons_append, List.nil_append, parseRange, parseIntTok_renderInt]
    simp

theorem rangeToks_cons (r : Range) (R : List Str) : ∃ t ts, r.toks ++ commaTok :: R = t :: ts := by
  cases r <;> simp [Range.toks]

theorem parseRanges_toks (rs : List Range) (fuel : Nat) (h : rs.length ≤ fuel) : parseRanges fuel (rangesToks rs) = some rs := by
  induction rs generalizing fuel with
  | nil => cases fuel <;> rfl
  | cons r rs ih =>
    cases fuel with
    | zero => simp at h
    | succ fuel =>
      simp only [rangesToks]
      obtain ⟨t, ts, e⟩ := rangeToks_cons r (rangesToks rs)
      have hp := parseRange_toks r (rangesToks rs)
      rw [e] at hp ⊢
      simp only [parseRanges, hp]
      have : rs.length ≤ fuel := by simp at h; omega
      simp [ih fuel this]

theorem rangeToks_length (r : Range) : 1 ≤ r.toks.length := by cases r <;> simp [Range.toks]

theorem rangesToks_length (rs : List Range) : rs.length ≤ (rangesToks rs).length := by
  induction rs with
  | nil => simp [rangesToks]
  | cons r rs ih =>
    have := rangeToks_length r
    simp [rangesToks]
    omega

theorem parseRange_sound {toks : List Str} {r : Range} {rest : List Str} (h : parseRange toks = some (r, rest)) :
    toks = r.toks ++ rest := by
  cases toks with
  | nil => simp [parseRange] at h
  | cons a R =>
    simp only [parseRange] at h
    split at h
    · rename_i ha
      have ha' := eq_of_beq ha
      subst ha'
      cases R with
      | nil => simp at h
      | cons b R' =>
        simp only at h
        split at h
        · rename_i hi hb
          injection h with h
          injection h with h1 h2
          subst h1; subst h2
          simp [Range.toks, parseIntTok_sound hb]
        · cases h
    · split at h
      · cases h
      · rename_i n hn
        have hn' := parseIntTok_sound hn
        cases R with
        | nil =>
          simp only at h
          injection h with h; injection h with h1 h2; subst h1; subst h2
          simp [Range.toks, hn']
        | cons c R' =>
          simp only at h
          split at h
          · rename_i hc
            have hc' := eq_of_beq hc
            subst hc'
            cases R' with
            | nil =>
              simp only at h
              injection h with h; injection h with h1 h2; subst h1; subst h2
              simp [Range.toks, hn']
            | cons d R'' =>
              simp only at h
              split at h
              · rename_i hi hd
                injection h with h; injection h with h1 h2; subst h1; subst h2
                simp [Range.toks, hn', parseIntTok_sound hd]
              · injection h with h; injection h with h1 h2; subst h1; subst h2
                simp [Range.toks, hn']
          · injection h with h; injection h with h1 h2; subst h1; subst h2
            simp [Range.toks, hn']

theorem parseRanges_sound (fuel : Nat) (toks : List Str) (rs : List Range) (h : parseRanges fuel toks = some rs) :
    toks = rangesToks rs := by
  induction fuel generalizing toks rs with
  | zero =>
    cases toks with
    | nil => simp [parseRanges] at h; subst h; rfl
    | cons t ts => simp [parseRanges] at h
  | succ fuel ih =>
    cases toks with
    | nil => simp [parseRanges] at h; subst h; rfl
    | cons t ts =>
      simp only [parseRanges] at h
      split at h
      · rename_i r c rest hp
        split at h
        · rename_i hc
          have hc' := eq_of_beq hc
          subst hc'
          split at h
          · rename_i rs' hrs
            injection h with h
            subst h
            have := ih rest rs' hrs
            rw [parseRange_sound hp, this]
            rfl
          · cases h
        · cases h
      · cases h


/-! ## K. no `.` in a rendered expression (the int path is taken) -/

theorem dot_not_mem_renderInt (n : Int) : '.' ∉ renderInt n := by
  unfold renderInt
  split
  · intro h
    simp at h
    exact not_mem_of_allDigits _ (allDigits_renderNat _) '.' rfl h
  · exact not_mem_of_allDigits _ (allDigits_renderNat _) '.' rfl

theorem dot_not_mem_range (r : Range) : '.' ∉ r.render := by
  cases r <;> simp [Range.render, dot_not_mem_renderInt]

theorem dot_not_mem_renderRanges (rs : List Range) : '.' ∉ renderRanges rs := by
  induction rs with
  | nil => simp [renderRanges]
  | cons r rs ih =>
    cases rs with
    | nil => simpa [renderRanges] using dot_not_mem_range r
    | cons r' rs' =>
      simp only [renderRanges, List.mem_append, List.mem_cons, not_or]
      exact ⟨dot_not_mem_range r, by decide, ih⟩

/-- Library::isIntArgValid on a rendered expression, for any reading `val` of the bound tokens -/
theorem isIntArgValid_renderRanges_val (rs : List Range) (hne : rs ≠ []) (val : Int → Int)
    (hv : ∀ r ∈ rs, ∀ n ∈ r.bounds, toBigNumber (renderInt n) = some (val n)) (x : Int) :
    isIntArgValid (renderRanges rs) x = .ok ((rs.map (Range.mapB val)).any (Range.memB x)) := by
  unfold isIntArgValid
  have h1 : (renderRanges rs).isEmpty = false := by
    cases h : renderRanges rs with
    | nil => exact absurd h (renderRanges_ne_nil rs hne)
    | cons a b => rfl
  have h2 : (renderRanges rs).contains '.' = false := by
    simpa using dot_not_mem_renderRanges rs
  simp only [h1, h2, Bool.false_eq_true, if_false]
  rw [tokenize_renderRanges rs hne]
  exact scanInt_ranges x rs val hv none (Or.inl rfl)

theorem Range.mapB_id (r : Range) : r.mapB (fun n => n) = r := by cases r <;> rfl

theorem Range.bounded_iff (r : Range) : r.bounded = r.bounds.all inInt64 := by
  cases r <;> simp [Range.bounded, Range.bounds]

/-- Library::isIntArgValid on a rendered expression whose bounds fit int64: exactly the code denotation -/
theorem isIntArgValid_renderRanges (rs : List Range) (hne : rs ≠ []) (hb : rs.all Range.bounded = true) (x : Int) :
    isIntArgValid (renderRanges rs) x = .ok (rs.any (Range.memB x)) := by
  have := isIntArgValid_renderRanges_val rs hne (fun n => n) (by
    intro r hr n hn
    have h1 := List.all_eq_true.mp hb r hr
    rw [Range.bounded_iff] at h1
    exact toBigNumber_renderInt n (List.all_eq_true.mp h1 n hn)) x
  rw [this]
  have hm : ∀ l : List Range, l.map (Range.mapB fun n => n) = l := by
    intro l
    induction l with
    | nil => rfl
    | cons r l ih => simp [Range.mapB_id, ih]
  rw [hm]

/-! ## L. float path with integer bounds -/

theorem roundHalfEven_of_dvd (a b : Nat) (hb : 0 < b) (h : b ∣ a) : roundHalfEven a b = a / b := by
  unfold roundHalfEven
  have : a % b = 0 := Nat.mod_eq_zero_of_dvd h
  simp [this, hb]

theorem scale_pos : 0 < scale := by unfold scale; exact Nat.pow_pos (by omega)

theorem two53_le_scale : two53 ≤ scale := by
  unfold two53 scale
  have : (9007199254740992 : Nat) = 2 ^ 53 := by decide
  rw [this]
  exact Nat.pow_le_pow_right (by omega) (by omega)

theorem roundToDouble_exact (m : Nat) (h0 : 0 < m) (h : m < two53) : roundToDouble m 1 = some (m * scale) := by
  unfold roundToDouble
  simp only [Nat.div_one, Nat.one_mul]
  have hf : ¬ (m * scale < two53) := by
    have := two53_le_scale
    have : scale ≤ m * scale := Nat.le_mul_of_pos_left _ h0
    omega
  simp only [hf, if_false]
  -- the spacing g = 2^j divides m * 2^1074 because j ≤ 1074
  have hlt : m * scale < 2 ^ 1127 := by
    have h1 : m < 2 ^ 53 := by
      unfold two53 at h
      have : (9007199254740992 : Nat) = 2 ^ 53 := by decide
      omega
    have : m * scale < 2 ^ 53 * 2 ^ 1074 := by unfold scale; exact Nat.mul_lt_mul_of_pos_right h1 (Nat.pow_pos (by omega))
    rwa [← Nat.pow_add] at this
  have hne : m * scale ≠ 0 := by have := scale_pos; exact Nat.mul_ne_zero (by omega) (by omega)
  have hlog : Nat.log2 (m * scale) < 1127 := (Nat.log2_lt hne).mpr hlt
  have hj : Nat.log2 (m * scale) - 52 ≤ 1074 := by omega
  have hdvd : 2 ^ (Nat.log2 (m * scale) - 52) ∣ m * scale := by
    unfold scale
    exact Nat.dvd_trans (Nat.pow_dvd_pow 2 hj) (Nat.dvd_mul_left _ _)
  have hg : 0 < 2 ^ (Nat.log2 (m * scale) - 52) := Nat.pow_pos (by omega)
  rw [roundHalfEven_of_dvd _ _ hg hdvd, Nat.div_mul_cancel hdvd]
  have : ¬ (m * scale ≥ 2 ^ 2098) := by
    have : (2:Nat) ^ 1127 ≤ 2 ^ 2098 := Nat.pow_le_pow_right (by omega) (by omega)
    omega
  simp [this]


theorem parseDecimal_renderInt (n : Int) :
    parseDecimal (renderInt n) = some (decide (n < 0), n.natAbs, (natDigits n.natAbs).length, 0, []) := by
  unfold parseDecimal decDigits
  have hd := digitsGo_renderNat n.natAbs [] noDigitStart_nil
  simp only [List.append_nil] at hd
  have hl := natDigits_length_pos n.natAbs
  by_cases hn : n < 0
  · rw [peek_renderInt_neg hn]
    simp only [peek, beq_self_eq_true, Bool.true_or, if_true, List.drop_succ_cons, List.drop_zero, hd]
    simp [hl, hn]
  · rw [renderInt_nonneg hn]
    obtain ⟨p1, p2⟩ := peek_digit_not_sign (peek_renderNat n.natAbs)
    simp only [p1, p2, Bool.or_self, Bool.false_eq_true, if_false, hd]
    have q1 : (peek ([] : Str) == '.') = false := rfl
    have q2 : (peek ([] : Str) == 'e') = false := rfl
    have q3 : (peek ([] : Str) == 'E') = false := rfl
    simp only [q1, q2, q3, Bool.false_eq_true, if_false, Bool.or_self]
    simp [hl, hn]

theorem in53_natAbs {n : Int} (h : in53 n = true) : n.natAbs < two53 := by
  unfold in53 at h
  simp at h
  omega

theorem toDouble_renderInt (n : Int) (h : in53 n = true) : toDouble (renderInt n) = some (n * (scale : Int)) := by
  unfold toDouble
  rw [parseDecimal_renderInt]
  simp only [List.isEmpty_nil, Bool.not_true, Bool.false_eq_true, if_false]
  by_cases h0 : n.natAbs = 0
  · have : n = 0 := by omega
    subst this
    simp only [Int.natAbs_zero, beq_self_eq_true, if_true, Int.zero_mul]
  · have hb := in53_natAbs h
    have hr := roundToDouble_exact n.natAbs (by omega) hb
    have e1 : (n.natAbs == 0) = false := by simpa using h0
    simp only [e1, Bool.false_eq_true, if_false]
    have e2 : ¬ ((0 : Int) > 400) := by omega
    have e3 : ¬ ((0 : Int) + ((natDigits n.natAbs).length : Int) < -400) := by omega
    simp only [e2, e3, if_false]
    simp only [ge_iff_le, Int.le_refl, if_true, Int.toNat_zero, Nat.pow_zero, Nat.mul_one, hr]
    by_cases hn : n < 0
    · simp only [hn, decide_true, if_true]
      have e : -((n.natAbs * scale : Nat) : Int) = n * (scale : Int) := by
        rw [Int.natCast_mul]
        have : (n.natAbs : Int) = -n := by omega
        rw [this, Int.neg_mul, Int.neg_neg]
      rw [e]
    · simp only [hn, decide_false, Bool.false_eq_true, if_false]
      have e : ((n.natAbs * scale : Nat) : Int) = n * (scale : Int) := by
        rw [Int.natCast_mul]
        have : (n.natAbs : Int) = n := by omega
        rw [this]
      rw [e]


theorem isNumber_bang : isNumber bangTok = false := rfl

theorem ne_bang_of_isNumber {t : Str} (h : isNumber t = true) : (t == bangTok) = false := by
  cases h' : (t == bangTok)
  · rfl
  · have := eq_of_beq h'; subst this; cases h

theorem floatStep_comma (x : Dbl) (prev : Option Str) (R : List Str) : floatStep x prev commaTok R = none := by
  unfold floatStep
  have h1 : (commaTok == colonTok) = false := rfl
  have h2 : (commaTok == bangTok) = false := rfl
  cases R with
  | nil => simp [isNumber_comma, clause, h1]
  | cons a R' =>
    cases R' with
    | nil => simp [isNumber_comma, clause, h1, h2]
    | cons b R'' => simp [isNumber_comma, clause, h1, h2]

theorem floatStep_colon_blocked (x : Dbl) (p : Str) (hp : (p == commaTok) = false) (R : List Str) :
    floatStep x (some p) colonTok R = none := by
  unfold floatStep
  have hp' : ¬ p = commaTok := by intro h; subst h; simp at hp
  have h2 : (colonTok == bangTok) = false := rfl
  cases R with
  | nil => simp [isNumber_colon, clause]
  | cons a R' =>
    cases R' with
    | nil => simp [isNumber_colon, clause, hp', h2]
    | cons b R'' => simp [isNumber_colon, clause, hp', h2]

theorem floatStep_colon_open (x : Dbl) (prev : Option Str) (hprev : prev = none ∨ prev = some commaTok)
    (H : Str) (hi : Dbl) (hH : isNumber H = true) (vH : toDouble H = some hi) (R : List Str) :
    floatStep x prev colonTok (H :: R) = if x ≤ hi then some (.ok true) else none := by
  unfold floatStep
  have hp : (prev == none || prev == some commaTok) = true := by
    rcases hprev with h | h <;> subst h <;> simp
  have h2 : (colonTok == bangTok) = false := rfl
  cases R with
  | nil =>
    simp only [isNumber_colon, hp, hH, vH, h2]
    by_cases hx : x ≤ hi <;> simp [clause, hx]
  | cons b R' =>
    simp only [isNumber_colon, hp, hH, vH, h2]
    by_cases hx : x ≤ hi <;> simp [clause, hx]

theorem floatStep_num_comma (x : Dbl) (prev : Option Str) (T : Str) (hT : isNumber T = true) (fT : isFloat T = false)
    (R : List Str) : floatStep x prev T (commaTok :: R) = none := by
  unfold floatStep
  have h1 : (commaTok == colonTok) = false := rfl
  have h2 := ne_colon_of_isNumber hT
  have h3 := ne_bang_of_isNumber hT
  cases R with
  | nil => simp [hT, fT, h1, h2, h3, isNumber_comma, clause]
  | cons b R' => simp [hT, fT, h1, h2, h3, isNumber_comma, clause]

theorem floatStep_num_from (x : Dbl) (prev : Option Str) (T : Str) (a : Dbl) (hT : isNumber T = true)
    (fT : isFloat T = false) (vT : toDouble T = some a) (R : List Str) :
    floatStep x prev T (colonTok :: commaTok :: R) = if a ≤ x then some (.ok true) else none := by
  unfold floatStep
  have h2 := ne_colon_of_isNumber hT
  have h3 := ne_bang_of_isNumber hT
  simp only [hT, fT, vT, h2, h3, isNumber_comma, isNumber_colon]
  by_cases hx2 : a ≤ x <;> simp [clause, hx2]

theorem floatStep_num_closed (x : Dbl) (prev : Option Str) (T H : Str) (a b : Dbl) (hT : isNumber T = true)
    (fT : isFloat T = false) (vT : toDouble T = some a) (hH : isNumber H = true) (vH : toDouble H = some b) (R : List Str) :
    floatStep x prev T (colonTok :: H :: R) = if a ≤ x ∧ x ≤ b then some (.ok true) else none := by
  unfold floatStep
  have h2 := ne_colon_of_isNumber hT
  have h3 := ne_comma_of_isNumber hH
  have h4 := ne_bang_of_isNumber hT
  simp only [hT, fT, vT, hH, vH, h2, h3, h4, isNumber_colon]
  by_cases hx2 : a ≤ x
  · by_cases hx3 : x ≤ b <;> simp [clause, hx2, hx3]
  · simp [clause, hx2]

theorem scanFloat_cons (x : Dbl) (prev : Option Str) (t : Str) (rest : List Str) :
    scanFloat x prev (t :: rest) = match floatStep x prev t rest with | some r => r | none => scanFloat x (some t) rest := by
  rfl

theorem scanFloat_comma (x : Dbl) (prev : Option Str) (R : List Str) :
    scanFloat x prev (commaTok :: R) = scanFloat x (some commaTok) R := by
  rw [scanFloat_cons, floatStep_comma]

theorem Range.bounded53_closed {a b : Int} (h : (Range.closed a b).bounded53 = true) : in53 a = true ∧ in53 b = true := by
  simpa [Range.bounded53] using h

theorem scanFloat_range (x : Dbl) (prev : Option Str) (hprev : prev = none ∨ prev = some commaTok)
    (r : Range) (hb : r.bounded53 = true) (R : List Str) :
    scanFloat x prev (r.toks ++ commaTok :: R) = if r.memFloatB x = true then .ok true else scanFloat x (some commaTok) R := by
  cases r with
  | single n =>
    simp only [Range.toks, List.cons_append, List.nil_append]
    rw [scanFloat_cons, floatStep_num_comma x prev _ (isNumber_renderInt n) (isFloat_renderInt n)]
    simp [Range.memFloatB, scanFloat_comma]
  | closed lo hi =>
    obtain ⟨hlo, hhi⟩ := Range.bounded53_closed hb
    simp only [Range.toks, List.cons_append, List.nil_append]
    rw [scanFloat_cons, floatStep_num_closed x prev _ _ _ _ (isNumber_renderInt lo) (isFloat_renderInt lo)
      (toDouble_renderInt lo hlo) (isNumber_renderInt hi) (toDouble_renderInt hi hhi)]
    by_cases h1 : lo * (scale : Int) ≤ x ∧ x ≤ hi * (scale : Int)
    · simp [h1, Range.memFloatB]
    · have : Range.memFloatB x (.closed lo hi) = false := by
        simp only [Range.memFloatB, Bool.and_eq_false_iff, decide_eq_false_iff_not]
        by_cases h : lo * (scale : Int) ≤ x
        · exact Or.inr (fun h' => h1 ⟨h, h'⟩)
        · exact Or.inl h
      simp only [h1, if_false, this]
      rw [scanFloat_cons, floatStep_colon_blocked x _ (ne_comma_of_isNumber (isNumber_renderInt lo))]
      simp only
      rw [scanFloat_cons, floatStep_num_comma x _ _ (isNumber_renderInt hi) (isFloat_renderInt hi)]
      simp [scanFloat_comma]
  | «from» lo =>
    have hlo : in53 lo = true := hb
    simp only [Range.toks, List.cons_append, List.nil_append]
    rw [scanFloat_cons, floatStep_num_from x prev _ _ (isNumber_renderInt lo) (isFloat_renderInt lo) (toDouble_renderInt lo hlo)]
    by_cases h1 : lo * (scale : Int) ≤ x
    · simp [h1, Range.memFloatB]
    · have : Range.memFloatB x (.from lo) = false := by simp [Range.memFloatB, h1]
      simp only [h1, if_false, this]
      rw [scanFloat_cons, floatStep_colon_blocked x _ (ne_comma_of_isNumber (isNumber_renderInt lo))]
      simp [scanFloat_comma]
  | upto hi =>
    have hhi : in53 hi = true := hb
    simp only [Range.toks, List.cons_append, List.nil_append]
    rw [scanFloat_cons, floatStep_colon_open x prev hprev _ _ (isNumber_renderInt hi) (toDouble_renderInt hi hhi)]
    by_cases h1 : x ≤ hi * (scale : Int)
    · simp [h1, Range.memFloatB]
    · have : Range.memFloatB x (.upto hi) = false := by simp [Range.memFloatB, h1]
      simp only [h1, if_false, this]
      rw [scanFloat_cons, floatStep_num_comma x _ _ (isNumber_renderInt hi) (isFloat_renderInt hi)]
      simp [scanFloat_comma]

theorem scanFloat_ranges (x : Dbl) (rs : List Range) (hb : rs.all Range.bounded53 = true) (prev : Option Str)
    (hprev : prev = none ∨ prev = some commaTok) :
    scanFloat x prev (rangesToks rs) = .ok (rs.any (Range.memFloatB x)) := by
  induction rs generalizing prev with
  | nil => simp [rangesToks, scanFloat]
  | cons r rs ih =>
    simp only [List.all_cons, Bool.and_eq_true] at hb
    simp only [rangesToks]
    rw [scanFloat_range x prev hprev r hb.1, ih hb.2 (some commaTok) (Or.inr rfl)]
    by_cases h : r.memFloatB x = true
    · simp [h]
    · simp [h]

theorem isFloatArgValid_renderRanges (rs : List Range) (hne : rs ≠ []) (hb : rs.all Range.bounded53 = true) (x : Dbl) :
    isFloatArgValid (renderRanges rs) x = .ok (rs.any (Range.memFloatB x)) := by
  unfold isFloatArgValid
  have h1 : (renderRanges rs).isEmpty = false := by
    cases h : renderRanges rs with
    | nil => exact absurd h (renderRanges_ne_nil rs hne)
    | cons a b => rfl
  simp only [h1, Bool.false_eq_true, if_false]
  rw [tokenize_renderRanges rs hne]
  exact scanFloat_ranges x rs hb none (Or.inl rfl)

/-! ## M. the alphabet of the load-time check -/

def inAlphabet (c : Char) : Bool :=
  isDigit c || c == ':' || c == '-' || c == '+' || c == ',' || c == '.' || c == 'E' || c == 'e' || c == '!'

theorem compliantGo_alphabet (s : Str) (st : VState) (h : compliantGo st s = true) : ∀ c ∈ s, inAlphabet c = true := by
  induction s generalizing st with
  | nil => intro c hc; cases hc
  | cons a r ih =>
    intro c hc
    unfold compliantGo at h
    simp only at h
    have key : inAlphabet a = true ∧ ∃ st', compliantGo st' r = true := by
      unfold inAlphabet
      split at h
      · rename_i h1; exact ⟨by simp [h1], _, h⟩
      · split at h
        · rename_i h1 h2; exact ⟨by simp [h2], _, h⟩
        · split at h
          · rename_i h1 h2 h3
            refine ⟨?_, _, h⟩
            simp only [Bool.or_eq_true] at h3
            rcases h3 with h3 | h3 <;> simp [h3]
          · split at h
            · rename_i _ _ _ h4; exact ⟨by simp [h4], _, h⟩
            · split at h
              · rename_i _ _ _ _ h5; exact ⟨by simp [h5], _, h⟩
              · split at h
                · rename_i _ _ _ _ _ h6
                  refine ⟨?_, _, h⟩
                  simp only [Bool.or_eq_true] at h6
                  rcases h6 with h6 | h6 <;> simp [h6]
                · split at h
                  · rename_i _ _ _ _ _ _ h7; exact ⟨by simp [h7], _, h⟩
                  · cases h
    obtain ⟨ha, st', hst⟩ := key
    simp at hc
    rcases hc with rfl | hc
    · exact ha
    · exact ih st' hst c hc

theorem isCompliant_alphabet (s : Str) (h : isCompliant s = true) : s ≠ [] ∧ ∀ c ∈ s, inAlphabet c = true := by
  unfold isCompliant at h
  cases s with
  | nil => cases h
  | cons a r => exact ⟨by simp, compliantGo_alphabet _ _ h⟩


/-! ## N. argument-check tables -/

theorem lookup_insertSorted (m : List (Int × ArgChecks)) (k : Int) (a : ArgChecks) (k' : Int) :
    lookup (insertSorted k a m) k' = if k' = k then some a else lookup m k' := by
  induction m with
  | nil =>
    simp only [insertSorted, lookup]
    by_cases h : k' = k
    · subst h; simp
    · have : ¬ k = k' := fun e => h e.symm
      simp [h, this]
  | cons p r ih =>
    obtain ⟨kp, ap⟩ := p
    simp only [insertSorted]
    by_cases h1 : k < kp
    · simp only [h1, if_true, lookup]
      by_cases h : k' = k
      · subst h; simp
      · have : ¬ k = k' := fun e => h e.symm
        simp [h, this]
    · simp only [h1, if_false]
      by_cases h2 : k = kp
      · subst h2
        simp only [beq_self_eq_true, if_true, lookup]
        by_cases h : k' = k
        · subst h; simp
        · have : ¬ k = k' := fun e => h e.symm
          simp [h, this]
      · have h2' : (k == kp) = false := by simpa using h2
        simp only [h2', Bool.false_eq_true, if_false, lookup, ih]
        by_cases h3 : kp = k'
        · subst h3
          have : ¬ kp = k := fun e => h2 e.symm
          simp [this]
        · simp [h3]

/-- the loader step for one `<arg>` element -/
def loadStep (m : List (Int × ArgChecks)) (d : ArgDecl) : List (Int × ArgChecks) :=
  insertSorted d.nr (applyDecl ((lookup m d.nr).getD {}) d) m

theorem loadArgs_eq (ds : List ArgDecl) : loadArgs ds = ds.foldl loadStep [] := rfl

/-- `notbool` of the entry stored under key `k` (false when there is none) -/
def nbAt (m : List (Int × ArgChecks)) (k : Int) : Bool := match lookup m k with | some a => a.notbool | none => false
def nnAt (m : List (Int × ArgChecks)) (k : Int) : Bool := match lookup m k with | some a => a.notnull | none => false
def hasAt (m : List (Int × ArgChecks)) (k : Int) : Bool := (lookup m k).isSome

theorem nbAt_loadStep (m : List (Int × ArgChecks)) (d : ArgDecl) (k : Int) :
    nbAt (loadStep m d) k = if k = d.nr then (nbAt m k || d.notbool) else nbAt m k := by
  unfold nbAt loadStep
  rw [lookup_insertSorted]
  by_cases h : k = d.nr
  · subst h
    simp only [if_true]
    cases lookup m d.nr <;> simp [applyDecl]
  · simp [h]

theorem nnAt_loadStep (m : List (Int × ArgChecks)) (d : ArgDecl) (k : Int) :
    nnAt (loadStep m d) k = if k = d.nr then (nnAt m k || d.notnull) else nnAt m k := by
  unfold nnAt loadStep
  rw [lookup_insertSorted]
  by_cases h : k = d.nr
  · subst h
    simp only [if_true]
    cases lookup m d.nr <;> simp [applyDecl]
  · simp [h]

theorem hasAt_loadStep (m : List (Int × ArgChecks)) (d : ArgDecl) (k : Int) :
    hasAt (loadStep m d) k = (hasAt m k || decide (k = d.nr)) := by
  unfold hasAt loadStep
  rw [lookup_insertSorted]
  by_cases h : k = d.nr <;> simp [h]

theorem nbAt_foldl (ds : List ArgDecl) (m : List (Int × ArgChecks)) (k : Int) :
    nbAt (ds.foldl loadStep m) k = (nbAt m k || ds.any (fun d => decide (d.nr = k) && d.notbool)) := by
  induction ds generalizing m with
  | nil => simp
  | cons d ds ih =>
    simp only [List.foldl_cons, ih, nbAt_loadStep, List.any_cons]
    by_cases h : k = d.nr
    · subst h; simp [Bool.or_assoc]
    · have : ¬ d.nr = k := fun e => h e.symm
      simp [h, this]

theorem nnAt_foldl (ds : List ArgDecl) (m : List (Int × ArgChecks)) (k : Int) :
    nnAt (ds.foldl loadStep m) k = (nnAt m k || ds.any (fun d => decide (d.nr = k) && d.notnull)) := by
  induction ds generalizing m with
  | nil => simp
  | cons d ds ih =>
    simp only [List.foldl_cons, ih, nnAt_loadStep, List.any_cons]
    by_cases h : k = d.nr
    · subst h; simp [Bool.or_assoc]
    · have : ¬ d.nr = k := fun e => h e.symm
      simp [h, this]

theorem hasAt_foldl (ds : List ArgDecl) (m : List (Int × ArgChecks)) (k : Int) :
    hasAt (ds.foldl loadStep m) k = (hasAt m k || ds.any (fun d => decide (d.nr = k))) := by
  induction ds generalizing m with
  | nil => simp
  | cons d ds ih =>
    simp only [List.foldl_cons, ih, hasAt_loadStep, List.any_cons]
    by_cases h : k = d.nr
    · subst h; simp
    · have : ¬ d.nr = k := fun e => h e.symm
      simp [h, this]

end Cppcheck.LibValid

import Cppcheck.Model.CondTypeRange
import Cppcheck.Proofs.CondOpposite
/-
C03 — soundness of the models of `checkCompareValueOutOfTypeRange` and `comparison()` (helper lemmas).
-/
namespace Cppcheck.CondExpr

/-- the verdict table of `checkCompareValueOutOfTypeRange` is right for every value of the interval it was given -/
theorem rangeVerdict_sound {op : BinOp} {i : Nat} {k lo hi : Int} {b : Bool}
    (h : rangeVerdict op i k lo hi = some b) (hlo : lo ≤ 0) (hhi : 0 ≤ hi) (x : Int) (h1 : lo ≤ x) (h2 : x ≤ hi) :
    (if i = 0 then cmpZ op k x else cmpZ op x k) = b := by
  unfold rangeVerdict at h
  by_cases hi0 : i = 0
  · subst hi0
    cases op <;> simp at h ⊢ <;> simp [cmpZ] <;> (try split at h) <;> (try split at h) <;> (try split at h) <;>
      simp_all <;> (first | omega | trace_state; sorry)
  · have : (i == 0) = false := by simpa using hi0
    simp only [this, hi0, if_false] at h ⊢
    cases op <;> simp at h ⊢ <;> simp [cmpZ] <;> (try split at h) <;> (try split at h) <;> (try split at h) <;>
      simp_all <;> omega

end Cppcheck.CondExpr

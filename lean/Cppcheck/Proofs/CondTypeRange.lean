import Cppcheck.Model.CondTypeRange
import Cppcheck.Proofs.CondOpposite
/-
C03 — soundness of the models of `checkCompareValueOutOfTypeRange` and `comparison()` (helper lemmas).
-/
namespace Cppcheck.CondExpr

/-- the verdict table of `checkCompareValueOutOfTypeRange` is right for every value of the interval it was given -/
theorem rangeVerdict_sound {op : BinOp} {i : Nat} {k lo hi : Int} {b : Bool}
    (h : rangeVerdict op i k lo hi = some b) (hlo : lo ≤ 0) (hhi : 0 ≤ hi) (x : Int) (h1 : lo ≤ x) (h2 : x ≤ hi) :
    (if i = 0 then cmpZ op k x else cmpZ op x k) = b := by
  unfold rangeVerdict at h
  by_cases hi0 : i = 0
  · subst hi0
    cases op <;> simp only [cmpZ] <;> simp at h <;> obtain ⟨hk, h⟩ := h <;> (repeat' split at h) <;>
      (first
        | (simp at h; done)
        | (simp only [Option.some.injEq] at h; subst h; simp; omega)
        | (simp only [Option.some.injEq] at h; subst h; simp; constructor <;> intro <;> omega)
        | (simp only [Option.some.injEq] at h; subst h; rfl)
        | (exact h.2.symm)
        | (obtain ⟨h, rfl⟩ := h; simp; omega))
  · have : (i == 0) = false := by simpa using hi0
    simp only [this, hi0, if_false] at h ⊢
    cases op <;> simp only [cmpZ] <;> simp at h <;> obtain ⟨hk, h⟩ := h <;> (repeat' split at h) <;>
      (first
        | (simp at h; done)
        | (simp only [Option.some.injEq] at h; subst h; simp; omega)
        | (simp only [Option.some.injEq] at h; subst h; simp; constructor <;> intro <;> omega)
        | (simp only [Option.some.injEq] at h; subst h; rfl)
        | (exact h.2.symm)
        | (obtain ⟨h, rfl⟩ := h; simp; omega))

/-- the interval computed from a value type covers the C type with that value type, and {0,1} for `bool` -/
theorem typeInterval_covers {tvt : VT} {vvt : Option VT} {lo hi : Int} (h : typeInterval tvt vvt = some (lo, hi)) :
    lo ≤ 0 ∧ 0 ≤ hi ∧ (tvt.sign ≠ .signed → 1 ≤ hi) ∧ ∀ t : Ty, toVT t = tvt → ∀ x, inRange t x → lo ≤ x ∧ x ≤ hi := by
  obtain ⟨sg, ty⟩ := tvt
  have key : ∀ (t : Ty), toVT t = ⟨sg, ty⟩ → (t.signed = true ↔ sg = .signed) ∧ (t.signed = false ↔ sg = .unsigned) ∧ ty = t.rank.idx + 1 := by
    intro t ht
    obtain ⟨r, s⟩ := t
    simp only [toVT, VT.mk.injEq] at ht
    obtain ⟨rfl, rfl⟩ := ht
    cases s <;> simp
  match ty, h, key with
  | 0, h, key =>
    cases sg <;> simp [typeInterval, typeBits] at h <;> obtain ⟨rfl, rfl⟩ := h <;>
      (refine ⟨by simp, by simp, by simp, fun t ht => ?_⟩; have := (key t ht).2.2; omega)
  | 1, h, key =>
    cases sg <;> simp [typeInterval, typeBits] at h <;> obtain ⟨rfl, rfl⟩ := h <;>
      (refine ⟨by simp, by simp, by simp, fun t ht x hx => ?_⟩
       obtain ⟨k1, k2, k3⟩ := key t ht
       obtain ⟨r, s⟩ := t
       cases r <;> simp [Rank.idx] at k3
       cases s <;> simp at k1 k2 <;> simp [inRange, tmin, tmax, Ty.bits, Rank.bits] at hx ⊢ <;> omega)
  | 2, h, key =>
    cases sg <;> simp [typeInterval, typeBits] at h <;> obtain ⟨rfl, rfl⟩ := h <;>
      (refine ⟨by simp, by simp, by simp, fun t ht x hx => ?_⟩
       obtain ⟨k1, k2, k3⟩ := key t ht
       obtain ⟨r, s⟩ := t
       cases r <;> simp [Rank.idx] at k3
       cases s <;> simp at k1 k2 <;> simp [inRange, tmin, tmax, Ty.bits, Rank.bits] at hx ⊢ <;> omega)
  | 3, h, key =>
    cases sg <;> simp [typeInterval, typeBits] at h <;> obtain ⟨rfl, rfl⟩ := h <;>
      (refine ⟨by simp, by (try split) <;> simp, by (try split) <;> simp, fun t ht x hx => ?_⟩
       obtain ⟨k1, k2, k3⟩ := key t ht
       obtain ⟨r, s⟩ := t
       cases r <;> simp [Rank.idx] at k3
       cases s <;> simp at k1 k2 <;> simp [inRange, tmin, tmax, Ty.bits, Rank.bits] at hx ⊢ <;> (try split) <;> omega)
  | 4, h, _ => simp [typeInterval, typeBits] at h
  | 5, h, _ => simp [typeInterval, typeBits] at h
  | n + 6, h, _ => simp [typeInterval, typeBits] at h

theorem annOK_bin {S a op l r} (h : annOK S (.bin a op l r) = true) : annOK S l = true ∧ annOK S r = true := by
  simp only [annOK, Bool.and_eq_true] at h
  exact ⟨h.1.1.1, h.1.1.2⟩

/-- values of a token whose value type is `vtOK` lie in the interval computed from that value type -/
theorem vtOK_interval {S ρ e tvt vvt lo hi Y} (hv : vtOK S e = true) (ht : e.ann.vt = some tvt)
    (hi' : typeInterval tvt vvt = some (lo, hi)) (he : eval S ρ e = some Y) : lo ≤ 0 ∧ 0 ≤ hi ∧ lo ≤ Y ∧ Y ≤ hi := by
  obtain ⟨c1, c2, c3, c4⟩ := typeInterval_covers hi'
  refine ⟨c1, c2, ?_⟩
  simp only [vtOK, ht, Bool.or_eq_true, Bool.and_eq_true, beq_iff_eq, bne_iff_ne] at hv
  rcases hv with hv | ⟨⟨_, hsg⟩, hb⟩
  · exact c4 _ hv.symm Y (eval_inRange S ρ e Y he)
  · have := c3 hsg
    rcases (isBoolVal_eval hb he).1 with rfl | rfl <;> omega

theorem outOfRange_sound {S ρ a op l r v b}
    (hc : op.isCmp = true) (gl : annOK S l = true) (gr : annOK S r = true) (hs : cmpSafe S (.bin a op l r) = true)
    (hvl : vtOK S l = true) (hvr : vtOK S r = true)
    (h : outOfRange op 0 l r = some b ∨ outOfRange op 1 r l = some b)
    (he : eval S ρ (.bin a op l r) = some v) : v = b2i b := by
  rcases h with h | h
  · unfold outOfRange at h
    split at h
    · rename_i kiv tvt hk ht
      split at h
      · simp at h
      · split at h
        · simp at h
        · split at h
          · simp at h
          · rename_i lo hi hint
            obtain ⟨X, Y, hX, hY, e, cX, _⟩ := cmp_exact hs hc (Or.inl (by simp [hk])) he
            have q := known_eq gl hk hX cX
            obtain ⟨b1, b2, b3, b4⟩ := vtOK_interval hvr ht hint hY
            have := rangeVerdict_sound h b1 b2 Y b3 b4
            simp only [if_true] at this
            rw [e, ← q, this]
    · simp at h
  · unfold outOfRange at h
    split at h
    · rename_i kiv tvt hk ht
      split at h
      · simp at h
      · split at h
        · simp at h
        · split at h
          · simp at h
          · rename_i lo hi hint
            obtain ⟨X, Y, hX, hY, e, _, cY⟩ := cmp_exact hs hc (Or.inr (by simp [hk])) he
            have q := known_eq gr hk hY cY
            obtain ⟨b1, b2, b3, b4⟩ := vtOK_interval hvl ht hint hX
            have := rangeVerdict_sound h b1 b2 X b3 b4
            simp only [Nat.succ_ne_zero, if_false] at this
            rw [e, ← q, this]
    · simp at h

theorem and_absorb (p a : Nat) : a &&& (p &&& a) = p &&& a := by
  rw [Nat.and_comm p a, ← Nat.and_assoc, Nat.and_self]

theorem or_absorb (p a : Nat) : a ||| (p ||| a) = p ||| a := by
  rw [Nat.or_comm p a, ← Nat.or_assoc, Nat.or_self]

/-- `comparison()`: `(X & num1) op num2` -/
theorem bitAnd_verdict_sound {op : BinOp} {uns : Bool} {n1 n2 : Int} {b : Bool}
    (h : bitCmpVerdict .band op uns n1 n2 = some b) (h2 : 0 ≤ n2) (p : Nat) :
    cmpZ op ((p &&& n1.toNat : Nat) : Int) n2 = b := by
  unfold bitCmpVerdict at h
  split at h
  · simp at h
  · rename_i hn1
    have hle : ((p &&& n1.toNat : Nat) : Int) ≤ n1 := by
      have := @Nat.and_le_right p n1.toNat
      omega
    have hne : (n1.toNat &&& n2.toNat) ≠ n2.toNat → ((p &&& n1.toNat : Nat) : Int) ≠ n2 := by
      intro q e
      apply q
      have e' : p &&& n1.toNat = n2.toNat := by omega
      rw [← e', and_absorb]
    cases op <;> simp at h <;> simp only [cmpZ]
    case eq => obtain ⟨q, rfl⟩ := h; have := hne q; simp [this]
    case ne => obtain ⟨q, rfl⟩ := h; have := hne q; simp [this]
    case lt => obtain ⟨q, h⟩ := h; have hb : b = true := by first | exact h | (rw [← h]; rfl)
               subst hb; simp; omega
    case ge => obtain ⟨q, rfl⟩ := h; simp; omega
    case le => obtain ⟨q, rfl⟩ := h; simp; omega
    case gt => obtain ⟨q, h⟩ := h; have hb : b = false := by first | exact h | (rw [← h]; rfl)
               subst hb; simp; omega

/-- `comparison()`: `(X | num1) op num2`, first operand of the `|` unsigned -/
theorem bitOr_verdict_sound {op : BinOp} {n1 n2 : Int} {b : Bool}
    (h : bitCmpVerdict .bor op true n1 n2 = some b) (h2 : 0 ≤ n2) (p : Nat) :
    cmpZ op ((p ||| n1.toNat : Nat) : Int) n2 = b := by
  unfold bitCmpVerdict at h
  split at h
  · simp at h
  · rename_i hn1
    have hle : n1 ≤ ((p ||| n1.toNat : Nat) : Int) := by
      have := @Nat.right_le_or p n1.toNat
      omega
    have hne : (n1.toNat ||| n2.toNat) ≠ n2.toNat → ((p ||| n1.toNat : Nat) : Int) ≠ n2 := by
      intro q e
      apply q
      have e' : p ||| n1.toNat = n2.toNat := by omega
      rw [← e', or_absorb]
    cases op <;> simp at h <;> simp only [cmpZ]
    case eq => obtain ⟨q, rfl⟩ := h; have := hne q; simp [this]
    case ne => obtain ⟨q, rfl⟩ := h; have := hne q; simp [this]
    case lt => obtain ⟨q, h⟩ := h; have hb : b = false := by first | exact h | (rw [← h]; rfl)
               subst hb; simp; omega
    case ge => obtain ⟨q, rfl⟩ := h; simp; omega
    case le => obtain ⟨q, h⟩ := h; have hb : b = false := by first | exact h | (rw [← h]; rfl)
               subst hb; simp; omega
    case gt => obtain ⟨q, h⟩ := h; have hb : b = true := by first | exact h | (rw [← h]; rfl)
               subst hb; simp; omega

theorem inRange_uac_nonneg_right (ta tb : Ty) (v : Int) (h : inRange tb v) (h0 : 0 ≤ v) :
    inRange (uac ta tb) v ∧ v < 2 ^ (uac ta tb).bits := by
  obtain ⟨ra, sa⟩ := ta
  obtain ⟨rb, sb⟩ := tb
  cases ra <;> cases sa <;> cases rb <;> cases sb <;>
    simp [uac, promote, Rank.idx, tInt, inRange, tmin, tmax, Ty.bits, Rank.bits] at * <;> omega

theorem inRange_uac_nonneg_left (ta tb : Ty) (v : Int) (h : inRange ta v) (h0 : 0 ≤ v) :
    inRange (uac ta tb) v ∧ v < 2 ^ (uac ta tb).bits := by
  rw [uac_comm]; exact inRange_uac_nonneg_right tb ta v h h0

theorem toI64_nonneg (t : Ty) (v : Int) (h : inRange t v) (h0 : 0 ≤ toI64 v) : toI64 v = v := by
  obtain ⟨r, s⟩ := t
  cases r <;> cases s <;> simp [inRange, tmin, tmax, Ty.bits, Rank.bits, toI64] at * <;> omega

/-- `X & n` with a non-negative constant `n` in either position -/
theorem band_const {T : Ty} {A n : Int} (hr : inRange T n ∧ n < 2 ^ T.bits) (h0 : 0 ≤ n) :
    ∃ p : Nat, wrap T (Int.ofNat (pat T A &&& pat T n)) = ((p &&& n.toNat : Nat) : Int) ∧
               wrap T (Int.ofNat (pat T n &&& pat T A)) = ((p &&& n.toNat : Nat) : Int) := by
  have hp : pat T n = n.toNat := by
    unfold pat
    rw [Int.emod_eq_of_lt h0 hr.2]
  refine ⟨pat T A, ?_⟩
  have hle := @Nat.and_le_right (pat T A) n.toNat
  have hin : inRange T ((pat T A &&& n.toNat : Nat) : Int) := by
    obtain ⟨⟨h1, h2⟩, _⟩ := hr
    constructor
    · have : tmin T ≤ 0 := by unfold tmin; split <;> simp; exact Int.pow_nonneg (by decide)
      omega
    · omega
  rw [hp, Nat.and_comm n.toNat]
  exact ⟨wrap_of_inRange _ _ hin, wrap_of_inRange _ _ hin⟩

/-- value of a number token with a non-negative `toBigNumber` -/
theorem lit_num {S ρ an sp n1 Y} (g : annOK S (.lit an sp) = true) (hn : an.num = some n1) (h0 : 0 ≤ n1)
    (h : eval S ρ (.lit an sp) = some Y) : Y = n1 ∧ inRange (S.lty sp) Y := by
  simp only [annOK, Bool.and_eq_true, beq_iff_eq, decide_eq_true_eq] at g
  obtain ⟨⟨⟨⟨⟨r, _⟩, k⟩, _⟩, _⟩, nk⟩ := g
  rw [hn, k] at nk
  simp only [Option.some.injEq] at nk
  simp only [eval, Option.some.injEq] at h
  rw [wrap_of_inRange _ _ r] at h
  subst h
  rw [nk] at h0
  exact ⟨by rw [nk, toI64_nonneg _ _ r h0], r⟩

/-- value of `x & n1` / `n1 & x` for a number token with non-negative value n1 -/
theorem band_node_val {S ρ a' x an sp e V n1}
    (he : e = .bin a' .band x (.lit an sp) ∨ e = .bin a' .band (.lit an sp) x)
    (g : annOK S e = true) (hnum : an.num = some n1) (hn1 : 0 ≤ n1) (hV : eval S ρ e = some V) :
    ∃ p : Nat, V = ((p &&& n1.toNat : Nat) : Int) := by
  rcases he with rfl | rfl
  · obtain ⟨A, B, hA, hB, hv'⟩ := eval_bin_cop (by rfl) hV
    obtain ⟨_, glit⟩ := annOK_bin g
    obtain ⟨rfl, rB⟩ := lit_num glit hnum hn1 hB
    simp only [evalBin, BinOp.isShift, Bool.false_eq_true, if_false, Option.some.injEq] at hv'
    have hr := inRange_uac_nonneg_right (tyOf S x) (tyOf S (.lit an sp)) B (by simpa [tyOf] using rB) hn1
    rw [wrap_of_inRange _ _ hr.1] at hv'
    obtain ⟨p, hp, _⟩ := @band_const _ (wrap (uac (tyOf S x) (tyOf S (.lit an sp))) A) B hr hn1
    exact ⟨p, by rw [← hv', hp]⟩
  · obtain ⟨A, B, hA, hB, hv'⟩ := eval_bin_cop (by rfl) hV
    obtain ⟨glit, _⟩ := annOK_bin g
    obtain ⟨rfl, rA⟩ := lit_num glit hnum hn1 hA
    simp only [evalBin, BinOp.isShift, Bool.false_eq_true, if_false, Option.some.injEq] at hv'
    have hr := inRange_uac_nonneg_left (tyOf S (.lit an sp)) (tyOf S x) A (by simpa [tyOf] using rA) hn1
    rw [wrap_of_inRange _ _ hr.1] at hv'
    obtain ⟨p, _, hp⟩ := @band_const _ (wrap (uac (tyOf S (.lit an sp)) (tyOf S x)) B) A hr hn1
    exact ⟨p, by rw [← hv', hp]⟩

theorem bitCmpVerdict_n1 {bitop op : BinOp} {uns : Bool} {n1 n2 : Int} {b : Bool}
    (hv : bitCmpVerdict bitop op uns n1 n2 = some b) : 0 ≤ n1 := by
  unfold bitCmpVerdict at hv
  split at hv
  · simp at hv
  · omega

/-- `comparison()` on `(x & n1) op r` / `(n1 & x) op r` with the Known value on the right: the verdict holds -/
theorem bitand_cmp_sound {S ρ a op a' x an sp l r v n1 n2 b uns}
    (hl : l = .bin a' .band x (.lit an sp) ∨ l = .bin a' .band (.lit an sp) x)
    (hc : op.isCmp = true) (gl : annOK S l = true) (gr : annOK S r = true) (hs : cmpSafe S (.bin a op l r) = true)
    (hk : r.ann.known = some n2) (hn2 : 0 ≤ n2) (hnum : an.num = some n1)
    (hv : bitCmpVerdict .band op uns n1 n2 = some b)
    (he : eval S ρ (.bin a op l r) = some v) : v = b2i b := by
  obtain ⟨X, Y, hX, hY, e, _, cY⟩ := cmp_exact hs hc (Or.inr (by simp [hk])) he
  have q := known_eq gr hk hY cY
  obtain ⟨p, rfl⟩ := band_node_val hl gl hnum (bitCmpVerdict_n1 hv) hX
  rw [e, ← q, bitAnd_verdict_sound hv hn2 p]

/-- the same with the Known value on the left (`l op (x & n1)`): since e82cb03 the verdict is computed for the
    comparator turned around, and it holds -/
theorem bitand_cmp_sound_left {S ρ a op a' x an sp l r v n1 n2 b uns}
    (hr : r = .bin a' .band x (.lit an sp) ∨ r = .bin a' .band (.lit an sp) x)
    (hc : op.isCmp = true) (gl : annOK S l = true) (gr : annOK S r = true) (hs : cmpSafe S (.bin a op l r) = true)
    (hk : l.ann.known = some n2) (hn2 : 0 ≤ n2) (hnum : an.num = some n1)
    (hv : bitCmpVerdict .band (flipOp op) uns n1 n2 = some b)
    (he : eval S ρ (.bin a op l r) = some v) : v = b2i b := by
  obtain ⟨X, Y, hX, hY, e, cX, _⟩ := cmp_exact hs hc (Or.inl (by simp [hk])) he
  have q := known_eq gl hk hX cX
  obtain ⟨p, rfl⟩ := band_node_val hr gr hnum (bitCmpVerdict_n1 hv) hY
  rw [e, ← q, ← cmpZ_flip, bitAnd_verdict_sound hv hn2 p]

/-! ### bit-or -/

/-- `A | n` of two non-negative values of `T` is their natural-number `|||`, and stays in `T` -/
theorem bor_const (T : Ty) (A n : Int) (hA : inRange T A) (hn : inRange T n) (a0 : 0 ≤ A) (n0 : 0 ≤ n) :
    wrap T (Int.ofNat (pat T A ||| pat T n)) = ((A.toNat ||| n.toNat : Nat) : Int) := by
  have key : ∀ k : Nat, (2 : Int) ^ k ≤ 2 ^ T.bits → tmax T = 2 ^ k - 1 →
      wrap T (Int.ofNat (pat T A ||| pat T n)) = ((A.toNat ||| n.toNat : Nat) : Int) := by
    intro k hpowle ht
    have hAk : A < 2 ^ k := by have := hA.2; omega
    have hnk : n < 2 ^ k := by have := hn.2; omega
    have pA : pat T A = A.toNat := by unfold pat; rw [Int.emod_eq_of_lt a0 (by omega)]
    have pn : pat T n = n.toNat := by unfold pat; rw [Int.emod_eq_of_lt n0 (by omega)]
    have hAn : A.toNat < 2 ^ k := by
      have : ((A.toNat : Nat) : Int) < ((2 ^ k : Nat) : Int) := by rw [Int.toNat_of_nonneg a0]; simpa using hAk
      exact Int.ofNat_lt.mp this
    have hnn : n.toNat < 2 ^ k := by
      have : ((n.toNat : Nat) : Int) < ((2 ^ k : Nat) : Int) := by rw [Int.toNat_of_nonneg n0]; simpa using hnk
      exact Int.ofNat_lt.mp this
    have hor := Nat.or_lt_two_pow hAn hnn
    have horI : ((A.toNat ||| n.toNat : Nat) : Int) < 2 ^ k := by
      have := Int.ofNat_lt.mpr hor; simpa using this
    rw [pA, pn]
    apply wrap_of_inRange
    constructor
    · have : tmin T ≤ 0 := by unfold tmin; split <;> simp; exact Int.pow_nonneg (by decide)
      have h0 : (0 : Int) ≤ ((A.toNat ||| n.toNat : Nat) : Int) := Int.natCast_nonneg _
      exact Int.le_trans this h0
    · show ((A.toNat ||| n.toNat : Nat) : Int) ≤ tmax T
      rw [ht]; omega
  obtain ⟨r, s⟩ := T
  cases r <;> cases s
  · exact key 8 (by simp [Ty.bits, Rank.bits]) (by simp [tmax, Ty.bits, Rank.bits])
  · exact key 7 (by simp [Ty.bits, Rank.bits]) (by simp [tmax, Ty.bits, Rank.bits])
  · exact key 16 (by simp [Ty.bits, Rank.bits]) (by simp [tmax, Ty.bits, Rank.bits])
  · exact key 15 (by simp [Ty.bits, Rank.bits]) (by simp [tmax, Ty.bits, Rank.bits])
  · exact key 32 (by simp [Ty.bits, Rank.bits]) (by simp [tmax, Ty.bits, Rank.bits])
  · exact key 31 (by simp [Ty.bits, Rank.bits]) (by simp [tmax, Ty.bits, Rank.bits])
  · exact key 64 (by simp [Ty.bits, Rank.bits]) (by simp [tmax, Ty.bits, Rank.bits])
  · exact key 63 (by simp [Ty.bits, Rank.bits]) (by simp [tmax, Ty.bits, Rank.bits])
  · exact key 64 (by simp [Ty.bits, Rank.bits]) (by simp [tmax, Ty.bits, Rank.bits])
  · exact key 63 (by simp [Ty.bits, Rank.bits]) (by simp [tmax, Ty.bits, Rank.bits])

/-- value of `x | n1` for a non-negative `x` and a number token with non-negative value n1 -/
theorem bor_node_val {S ρ a' x an sp V n1}
    (g : annOK S (.bin a' .bor x (.lit an sp)) = true) (hnum : an.num = some n1) (hn1 : 0 ≤ n1)
    (hx0 : ∀ X, eval S ρ x = some X → 0 ≤ X)
    (hV : eval S ρ (.bin a' .bor x (.lit an sp)) = some V) :
    ∃ p : Nat, V = ((p ||| n1.toNat : Nat) : Int) := by
  obtain ⟨A, B, hA, hB, hv'⟩ := eval_bin_cop (by rfl) hV
  obtain ⟨_, glit⟩ := annOK_bin g
  obtain ⟨rfl, rB⟩ := lit_num glit hnum hn1 hB
  have a0 := hx0 A hA
  simp only [evalBin, BinOp.isShift, Bool.false_eq_true, if_false, Option.some.injEq] at hv'
  have hrB := inRange_uac_nonneg_right (tyOf S x) (tyOf S (.lit an sp)) B (by simpa [tyOf] using rB) hn1
  have hrA := inRange_uac_nonneg_left (tyOf S x) (tyOf S (.lit an sp)) A (eval_inRange S ρ x A hA) a0
  rw [wrap_of_inRange _ _ hrB.1, wrap_of_inRange _ _ hrA.1, bor_const _ A B hrA.1 hrB.1 a0 hn1] at hv'
  exact ⟨A.toNat, hv'.symm⟩

/-- `comparison()` on `(x | n1) op r`, x non-negative (unsigned), Known value on the right: the verdict holds -/
theorem bitor_cmp_sound {S ρ a op a' x an sp r v n1 n2 b}
    (hc : op.isCmp = true) (gl : annOK S (.bin a' .bor x (.lit an sp)) = true) (gr : annOK S r = true)
    (hs : cmpSafe S (.bin a op (.bin a' .bor x (.lit an sp)) r) = true)
    (hx0 : ∀ X, eval S ρ x = some X → 0 ≤ X)
    (hk : r.ann.known = some n2) (hn2 : 0 ≤ n2) (hnum : an.num = some n1)
    (hv : bitCmpVerdict .bor op true n1 n2 = some b)
    (he : eval S ρ (.bin a op (.bin a' .bor x (.lit an sp)) r) = some v) : v = b2i b := by
  obtain ⟨X, Y, hX, hY, e, _, cY⟩ := cmp_exact hs hc (Or.inr (by simp [hk])) he
  have q := known_eq gr hk hY cY
  obtain ⟨p, rfl⟩ := bor_node_val gl hnum (bitCmpVerdict_n1 hv) hx0 hX
  rw [e, ← q, bitOr_verdict_sound hv hn2 p]

/-- the same with the Known value on the left -/
theorem bitor_cmp_sound_left {S ρ a op a' x an sp l v n1 n2 b}
    (hc : op.isCmp = true) (gl : annOK S l = true) (gr : annOK S (.bin a' .bor x (.lit an sp)) = true)
    (hs : cmpSafe S (.bin a op l (.bin a' .bor x (.lit an sp))) = true)
    (hx0 : ∀ X, eval S ρ x = some X → 0 ≤ X)
    (hk : l.ann.known = some n2) (hn2 : 0 ≤ n2) (hnum : an.num = some n1)
    (hv : bitCmpVerdict .bor (flipOp op) true n1 n2 = some b)
    (he : eval S ρ (.bin a op l (.bin a' .bor x (.lit an sp))) = some v) : v = b2i b := by
  obtain ⟨X, Y, hX, hY, e, cX, _⟩ := cmp_exact hs hc (Or.inl (by simp [hk])) he
  have q := known_eq gl hk hX cX
  obtain ⟨p, rfl⟩ := bor_node_val gr hnum (bitCmpVerdict_n1 hv) hx0 hY
  rw [e, ← q, ← cmpZ_flip, bitOr_verdict_sound hv hn2 p]

/-- an operand whose value type is unsigned (and `vtOK`) never has a negative value -/
theorem unsigned_vt_nonneg {S ρ x X} (hv : vtOK S x = true)
    (hu : unsFlag x = true)
    (hX : eval S ρ x = some X) : 0 ≤ X := by
  unfold vtOK at hv
  unfold unsFlag at hu
  cases hvt : x.ann.vt with
  | none => rw [hvt] at hu; simp at hu
  | some vt =>
    rw [hvt] at hv hu
    simp only [Bool.or_eq_true, Bool.and_eq_true, beq_iff_eq, bne_iff_ne] at hv hu
    rcases hv with hv | ⟨_, hb⟩
    · have hr := eval_inRange S ρ x X hX
      have hsg : (tyOf S x).signed = false := by
        cases hs : (tyOf S x).signed with
        | false => rfl
        | true => rw [hv] at hu; simp [toVT, hs] at hu
      unfold inRange tmin at hr
      rw [hsg] at hr
      simpa using hr.1
    · rcases (isBoolVal_eval hb hX).1 with rfl | rfl <;> decide

/-! ### from `findings` to the verdict theorems -/

theorem vtAll_root {S e} (h : vtAll S e = true) : vtOK S e = true := by
  cases e <;> simp only [vtAll, Bool.and_eq_true] at h
  · exact h
  · exact h
  · exact h.1
  · exact h.1.1

theorem vtAll_bin {S a op l r} (h : vtAll S (.bin a op l r) = true) : vtAll S l = true ∧ vtAll S r = true := by
  simp only [vtAll, Bool.and_eq_true] at h
  exact ⟨h.1.2, h.2⟩

/-- the side conditions of a condition pass down to every comparison token below it -/
theorem cmpNodes_sub {S : Sem} : ∀ (c : Expr) {op l r}, (op, l, r) ∈ cmpNodes c → annOK S c = true → cmpSafe S c = true →
    vtAll S c = true →
    op.isCmp = true ∧ annOK S l = true ∧ annOK S r = true ∧ (∀ a, cmpSafe S (.bin a op l r) = true) ∧
      vtAll S l = true ∧ vtAll S r = true
  | .lit _ _, _, _, _, h, _, _, _ => by simp [cmpNodes] at h
  | .var _ _, _, _, _, h, _, _, _ => by simp [cmpNodes] at h
  | .un a o e, op, l, r, h, ga, gs, gv => by
    simp only [cmpNodes] at h
    simp only [annOK, Bool.and_eq_true] at ga
    simp only [cmpSafe] at gs
    simp only [vtAll, Bool.and_eq_true] at gv
    exact cmpNodes_sub e h ga.1.1 gs gv.2
  | .bin a o x y, op, l, r, h, ga, gs, gv => by
    simp only [cmpNodes, List.mem_append] at h
    obtain ⟨gx, gy⟩ := annOK_bin ga
    have gs' := gs
    simp only [cmpSafe, Bool.and_eq_true] at gs'
    obtain ⟨vx, vy⟩ := vtAll_bin gv
    rcases h with (h | h) | h
    · exact cmpNodes_sub x h gx gs'.1.1 vx
    · split at h
      · rename_i hc
        simp only [List.mem_singleton, Prod.mk.injEq] at h
        obtain ⟨rfl, rfl, rfl⟩ := h
        exact ⟨hc, gx, gy, fun a' => by simpa only [cmpSafe] using gs, vx, vy⟩
      · simp at h
    · exact cmpNodes_sub y h gy gs'.1.2 vy

theorem rangeFinding_sound {S ρ a op l r f v} (h : rangeFinding op l r = some f)
    (hc : op.isCmp = true) (gl : annOK S l = true) (gr : annOK S r = true) (hs : cmpSafe S (.bin a op l r) = true)
    (hvl : vtOK S l = true) (hvr : vtOK S r = true) (he : eval S ρ (.bin a op l r) = some v) : v = b2i f.verdict := by
  unfold rangeFinding at h
  simp only at h
  split at h
  · rename_i b hb
    simp only [Option.some.injEq] at h
    subst h
    exact outOfRange_sound hc gl gr hs hvl hvr (Or.inl hb) he
  · split at h
    · rename_i b hb
      simp only [Option.some.injEq] at h
      subst h
      exact outOfRange_sound hc gl gr hs hvl hvr (Or.inr hb) he
    · simp at h

/-- what a comparisonError finding of `expr1 op expr2` was computed from -/
theorem aux_mem {op : BinOp} {e1 e2 : Expr} {f : Finding} (hf : f ∈ bitCmpFindingsAux op e1 e2) :
    ∃ a bitop x y n1 n2, e1 = .bin a bitop x y ∧ (bitop = .band ∨ bitop = .bor) ∧ e2.ann.known = some n2 ∧ 0 ≤ n2 ∧
      n1 ∈ numChildren bitop e1 ∧ bitCmpVerdict bitop op (unsFlag x) n1 n2 = some f.verdict := by
  unfold bitCmpFindingsAux at hf
  split at hf
  · simp at hf
  · rename_i n2 hk
    split at hf
    · simp at hf
    · rename_i hn2
      split at hf
      · rename_i a bitop x y
        split at hf
        · rename_i hb
          simp only [List.mem_filterMap] at hf
          obtain ⟨n1, hn1, hm⟩ := hf
          split at hm
          · rename_i b hv
            simp only [Option.some.injEq] at hm
            subst hm
            refine ⟨a, bitop, x, y, n1, n2, rfl, ?_, hk, by omega, hn1, hv⟩
            simpa using hb
          · simp at hm
        · simp at hf
      · simp at hf

theorem numChildren_shape_right {bitop : BinOp} {a' x an sp} (hp : plainOperand bitop x = true) :
    numChildren bitop (.bin a' bitop x (.lit an sp)) = [an.num.getD 0] := by
  cases x <;> simp [numChildren, plainOperand] at hp ⊢
  rename_i o _ _
  intro h; exact absurd h (by simpa using hp)

theorem numChildren_shape_left {bitop : BinOp} {a' x an sp} (hp : plainOperand bitop x = true) :
    numChildren bitop (.bin a' bitop (.lit an sp) x) = [an.num.getD 0] := by
  cases x <;> simp [numChildren, plainOperand] at hp ⊢
  rename_i o _ _
  intro h; exact absurd h (by simpa using hp)

theorem lit_num_some {S an sp} (g : annOK S (.lit an sp) = true) : ∃ k, an.num = some k := by
  simp only [annOK, Bool.and_eq_true, beq_iff_eq] at g
  exact ⟨_, by rw [g.2, g.1.1.1.2]⟩

/-- a comparisonError finding computed for `e1 op e2` (e1 one of the covered bit tests) holds for the comparison it was
    computed from, in either operand order of the program text -/
theorem aux_shape_sound {S : Sem} {ρ : Env} {op : BinOp} {e1 e2 : Expr} {f : Finding}
    (hsh : bitShape e1 = true) (hf : f ∈ bitCmpFindingsAux op e1 e2)
    (g1 : annOK S e1 = true) (g2 : annOK S e2 = true) (w1 : vtAll S e1 = true) :
    (∀ a v, op.isCmp = true → cmpSafe S (.bin a op e1 e2) = true → eval S ρ (.bin a op e1 e2) = some v → v = b2i f.verdict) ∧
    (∀ a op' v, op = flipOp op' → op'.isCmp = true → cmpSafe S (.bin a op' e2 e1) = true →
      eval S ρ (.bin a op' e2 e1) = some v → v = b2i f.verdict) := by
  obtain ⟨a0, bitop, x0, y0, n1, n2, he1, _, hk, hn2, hn1, hv⟩ := aux_mem hf
  unfold bitShape at hsh
  split at hsh
  · -- x & n
    rename_i a' x an sp
    cases he1
    obtain ⟨_, glit⟩ := annOK_bin g1
    obtain ⟨k, hnum⟩ := lit_num_some glit
    rw [numChildren_shape_right hsh, hnum] at hn1
    simp only [Option.getD_some, List.mem_singleton] at hn1
    subst hn1
    refine ⟨fun a v hc hs he => bitand_cmp_sound (Or.inl rfl) hc g1 g2 hs hk hn2 hnum hv he,
            fun a op' v ho hc hs he => ?_⟩
    subst ho
    exact bitand_cmp_sound_left (Or.inl rfl) hc g2 g1 hs hk hn2 hnum hv he
  · -- n & x
    rename_i a' an sp x _
    cases he1
    obtain ⟨glit, _⟩ := annOK_bin g1
    obtain ⟨k, hnum⟩ := lit_num_some glit
    rw [numChildren_shape_left hsh, hnum] at hn1
    simp only [Option.getD_some, List.mem_singleton] at hn1
    subst hn1
    refine ⟨fun a v hc hs he => bitand_cmp_sound (Or.inr rfl) hc g1 g2 hs hk hn2 hnum hv he,
            fun a op' v ho hc hs he => ?_⟩
    subst ho
    exact bitand_cmp_sound_left (Or.inr rfl) hc g2 g1 hs hk hn2 hnum hv he
  · -- x | n, x unsigned
    rename_i a' x an sp
    simp only [Expr.bin.injEq] at he1
    obtain ⟨rfl, rfl, rfl, rfl⟩ := he1
    simp only [Bool.and_eq_true] at hsh
    obtain ⟨hp, hu⟩ := hsh
    obtain ⟨_, glit⟩ := annOK_bin g1
    obtain ⟨k, hnum⟩ := lit_num_some glit
    rw [numChildren_shape_right hp, hnum] at hn1
    simp only [Option.getD_some, List.mem_singleton] at hn1
    subst hn1
    rw [hu] at hv
    have hx0 : ∀ X, eval S ρ x = some X → 0 ≤ X :=
      fun X hX => unsigned_vt_nonneg (vtAll_root (vtAll_bin w1).1) hu hX
    refine ⟨fun a v hc hs he => bitor_cmp_sound hc g1 g2 hs hx0 hk hn2 hnum hv he,
            fun a op' v ho hc hs he => ?_⟩
    subst ho
    exact bitor_cmp_sound_left hc g2 g1 hs hx0 hk hn2 hnum hv he
  · simp at hsh

end Cppcheck.CondExpr

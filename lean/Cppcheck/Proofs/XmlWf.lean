import Cppcheck.Model.XmlWf
/-
Helper lemmas for C20 / XmlWf: every byte prefix of a cache document that stops before the final `>` of
`</analyzerinfo>` is not "loaded with a root element".
-/
namespace Cppcheck.XmlWf
open Cppcheck.Wire

/-- the state lets `skipAnalysis` / `processFilesTxt` see a root element -/
def St.loaded (s : St) : Bool := s.accepting && s.root.isSome

/-- no state of the run over `bytes` (start, after each byte, end) is `loaded` -/
def safeB : St → Str → Bool
  | s, [] => !s.loaded
  | s, c :: r => !s.loaded && safeB (step s c) r

theorem run_append (s : St) (a b : Str) : run s (a ++ b) = run (run s a) b := by
  simp [run, List.foldl_append]

theorem run_cons (s : St) (c : Char) (r : Str) : run s (c :: r) = run (step s c) r := rfl

theorem safeB_append (s : St) (a b : Str) : safeB s (a ++ b) = (safeB s a && safeB (run s a) b) := by
  induction a generalizing s with
  | nil =>
    cases b with
    | nil => simp [safeB, run]
    | cons c r => simp [safeB, run]
  | cons c r ih =>
    simp only [List.cons_append, safeB, run_cons, ih, Bool.and_assoc]

/-- `safeB` speaks about every prefix -/
theorem safeB_take (s : St) (b : Str) (h : safeB s b = true) (n : Nat) : (run s (b.take n)).loaded = false := by
  induction b generalizing s n with
  | nil => simpa [safeB, run] using h
  | cons c r ih =>
    simp only [safeB, Bool.and_eq_true, Bool.not_eq_true'] at h
    cases n with
    | zero => simpa [run] using h.1
    | succ n => simp only [List.take_succ_cons, run_cons]; exact ih (step s c) h.2 n

theorem guardB_head (d : Nat) (s : St) (b : Str) : guardB d s b = (guardB d s [] && guardB d s b) := by
  cases b with
  | nil => simp only [guardB]; exact (Bool.and_self _).symm
  | cons c r =>
    simp only [guardB]
    cases decide (d ≤ s.stack.length) <;> cases (s.mode != Mode.stopped) <;> simp

theorem guardB_append (d : Nat) (s : St) (a b : Str) :
    guardB d s (a ++ b) = (guardB d s a && guardB d (run s a) b) := by
  induction a generalizing s with
  | nil => exact guardB_head d s b
  | cons c r ih =>
    simp only [List.cons_append, guardB, run_cons, ih, Bool.and_assoc]

/-- inside an element nothing is loaded -/
theorem safeB_of_guardB (s : St) (b : Str) (h : guardB 1 s b = true) : safeB s b = true := by
  induction b generalizing s with
  | nil =>
    simp only [guardB, Bool.and_eq_true, decide_eq_true_eq] at h
    simp only [safeB, St.loaded, St.accepting, Bool.not_eq_true']
    cases hm : s.mode <;> simp_all
    cases hs : s.stack <;> simp_all
  | cons c r ih =>
    simp only [guardB, Bool.and_eq_true, decide_eq_true_eq] at h
    simp only [safeB, Bool.and_eq_true, Bool.not_eq_true']
    refine ⟨?_, ih _ h.2⟩
    simp only [St.loaded, St.accepting]
    cases hm : s.mode <;> simp_all
    cases hs : s.stack <;> simp_all

/-! ### the header -/

/-- state while the value of the `hash` attribute is read -/
def inHash (v : Str) : St :=
  ⟨.value ⟨false, rootName, []⟩ hashName '"' v, [], true, true, none⟩

theorem run_headerA : run St.init headerA = inHash [] := by decide

theorem safe_headerA : safeB St.init headerA = true := by decide

theorem isDigit_ne_quote (c : Char) (h : isDigit c = true) : (c == '"') = false := by
  simp only [isDigit, Bool.and_eq_true, decide_eq_true_eq] at h
  have h1 : (48 : Nat) ≤ c.toNat := h.1
  cases hq : c == '"' with
  | false => rfl
  | true =>
    have : c = '"' := by simpa using hq
    subst this
    revert h1; decide

theorem isDigit_not_ws (c : Char) (h : isDigit c = true) : isWs c = false := by
  simp only [isDigit, Bool.and_eq_true, decide_eq_true_eq] at h
  have h1 : (48 : Nat) ≤ c.toNat := h.1
  cases hq : isWs c with
  | false => rfl
  | true =>
    simp only [isWs, Bool.or_eq_true, beq_iff_eq] at hq
    rcases hq with ((((hq | hq) | hq) | hq) | hq) | hq <;> (subst hq; revert h1; decide)

theorem step_inHash (v : Str) (c : Char) (h : isDigit c = true) : step (inHash v) c = inHash (v ++ [c]) := by
  have h1 := isDigit_ne_quote c h
  have h2 := isDigit_not_ws c h
  simp only [step, inHash, h2]
  simp [h1]

theorem run_inHash (v hash : Str) (h : hash.all isDigit = true) : run (inHash v) hash = inHash (v ++ hash) := by
  induction hash generalizing v with
  | nil => simp [run]
  | cons c r ih =>
    simp only [List.all_cons, Bool.and_eq_true] at h
    rw [run_cons, step_inHash v c h.1, ih _ h.2]
    simp

theorem inHash_not_loaded (v : Str) : (inHash v).loaded = false := rfl

theorem safe_inHash (v hash : Str) (h : hash.all isDigit = true) : safeB (inHash v) hash = true := by
  induction hash generalizing v with
  | nil => simp [safeB, inHash_not_loaded]
  | cons c r ih =>
    simp only [List.all_cons, Bool.and_eq_true] at h
    simp only [safeB, inHash_not_loaded, Bool.not_false, Bool.true_and]
    rw [step_inHash v c h.1]
    exact ih _ h.2

theorem run_headerB (hash : Str) : run (inHash hash) headerB = inRoot hash := by
  simp [run, headerB, step, inHash, inRoot, isWs, attrsStep, endTag, openTag, St.noteNode, isNameStart, isAlpha]

theorem safe_headerB (hash : Str) : safeB (inHash hash) headerB = true := by
  simp [safeB, headerB, step, inHash, isWs, attrsStep, endTag, openTag, St.noteNode, isNameStart, isAlpha,
    St.loaded, St.accepting]

theorem run_header (hash : Str) (h : hashOk hash = true) : run St.init (header hash) = inRoot hash := by
  unfold header
  rw [run_append, run_append, run_headerA, run_inHash [] hash h, List.nil_append, run_headerB]

theorem safe_header (hash : Str) (h : hashOk hash = true) : safeB St.init (header hash) = true := by
  unfold header
  rw [safeB_append, safeB_append, run_append, run_headerA, run_inHash [] hash h, safe_headerA, safe_inHash [] hash h,
    List.nil_append, safe_headerB]
  rfl

/-! ### the items -/

theorem run_items (hash : Str) (items : List Str) (h : ∀ it ∈ items, balancedItem hash it = true) :
    run (inRoot hash) items.flatten = inRoot hash := by
  induction items with
  | nil => rfl
  | cons it r ih =>
    have hb := h it (by simp)
    simp only [balancedItem, Bool.and_eq_true, beq_iff_eq] at hb
    rw [List.flatten_cons, run_append, hb.2]
    exact ih (fun x hx => h x (by simp [hx]))

theorem safe_items (hash : Str) (items : List Str) (h : ∀ it ∈ items, balancedItem hash it = true) :
    safeB (inRoot hash) items.flatten = true := by
  induction items with
  | nil => rfl
  | cons it r ih =>
    have hb := h it (by simp)
    simp only [balancedItem, Bool.and_eq_true, beq_iff_eq] at hb
    rw [List.flatten_cons, safeB_append, hb.2, safeB_of_guardB _ _ hb.1]
    exact ih (fun x hx => h x (by simp [hx]))

/-! ### the footer -/

/-- state after the complete document (before / after the final newline) -/
def closed (hash : Str) : St := ⟨.content false, [], true, false, some (rootName, [(hashName, hash)])⟩

theorem safe_footerA (hash : Str) : safeB (inRoot hash) footerA = true := by
  simp [safeB, footerA, step, inRoot, isWs, isNameStart, isNameChar, isAlpha, isDigit, St.loaded, St.accepting]

theorem run_footerA_gt (hash : Str) : run (inRoot hash) (footerA ++ ['>']) = closed hash := by
  simp [run, footerA, step, inRoot, closed, isWs, attrsStep, isNameStart, isNameChar, isAlpha, isDigit, endTag, closeTag,
    rootName]

theorem step_closed_nl (hash : Str) : step (closed hash) '\n' = closed hash := by
  simp [step, closed, isWs]

theorem closed_loaded (hash : Str) : (closed hash).accepting = true ∧ (closed hash).root = some (rootName, [(hashName, hash)]) :=
  ⟨rfl, rfl⟩

/-! ### whole documents -/

/-- the document without the last two bytes `>` `\n` -/
def docBody (hash : Str) (items : List Str) : Str := header hash ++ items.flatten ++ footerA

theorem document_eq (hash : Str) (items : List Str) : document hash items = docBody hash items ++ ['>', '\n'] := by
  simp [document, docBody, footer, List.append_assoc]

theorem run_docBody (hash : Str) (items : List Str) (hok : hashOk hash = true)
    (hbal : ∀ it ∈ items, balancedItem hash it = true) :
    run St.init (docBody hash items ++ ['>']) = closed hash := by
  unfold docBody
  rw [List.append_assoc, List.append_assoc, run_append, run_header hash hok, run_append, run_items hash items hbal,
    run_footerA_gt]

theorem safe_docBody (hash : Str) (items : List Str) (hok : hashOk hash = true)
    (hbal : ∀ it ∈ items, balancedItem hash it = true) : safeB St.init (docBody hash items) = true := by
  unfold docBody
  rw [List.append_assoc, safeB_append, safe_header hash hok, run_header hash hok, safeB_append, safe_items hash items hbal,
    run_items hash items hbal, safe_footerA]
  rfl

theorem length_document (hash : Str) (items : List Str) :
    (document hash items).length = (docBody hash items).length + 2 := by
  rw [document_eq]; simp

/-- every byte prefix that misses at least the last two bytes is not loaded with a root element -/
theorem prefix_not_loaded (hash : Str) (items : List Str) (hok : hashOk hash = true)
    (hbal : ∀ it ∈ items, balancedItem hash it = true) (n : Nat) (hn : n + 1 < (document hash items).length) :
    (run St.init ((document hash items).take n)).loaded = false := by
  rw [length_document] at hn
  have hle : n ≤ (docBody hash items).length := by omega
  rw [document_eq, List.take_append_of_le_length hle]
  exact safeB_take _ _ (safe_docBody hash items hok hbal) n

/-- the complete document, and the document without its final newline, load with root `analyzerinfo` and the hash -/
theorem full_loaded (hash : Str) (items : List Str) (hok : hashOk hash = true)
    (hbal : ∀ it ∈ items, balancedItem hash it = true) (n : Nat) (hn : (document hash items).length ≤ n + 1) :
    run St.init ((document hash items).take n) = closed hash := by
  have hlen := length_document hash items
  by_cases hfull : (document hash items).length ≤ n
  · rw [List.take_of_length_le hfull, document_eq]
    have : docBody hash items ++ ['>', '\n'] = (docBody hash items ++ ['>']) ++ ['\n'] := by simp
    rw [this, run_append, run_docBody hash items hok hbal]
    exact step_closed_nl hash
  · have hn' : n = (docBody hash items).length + 1 := by omega
    rw [document_eq]
    have : docBody hash items ++ ['>', '\n'] = (docBody hash items ++ ['>']) ++ ['\n'] := by simp
    rw [this, List.take_append_of_le_length (by simp; omega), List.take_of_length_le (by simp; omega)]
    exact run_docBody hash items hok hbal

theorem load_eq (bytes : Str) :
    load bytes = if (run St.init bytes).accepting then .ok (run St.init bytes).root else .error := rfl

theorem load_of_not_loaded (bytes : Str) (h : (run St.init bytes).loaded = false) :
    load bytes = .error ∨ load bytes = .ok none := by
  rw [load_eq]
  simp only [St.loaded, Bool.and_eq_false_iff] at h
  cases ha : (run St.init bytes).accepting with
  | false => left; simp
  | true =>
    right
    rcases h with h | h
    · rw [ha] at h; cases h
    · cases hr : (run St.init bytes).root with
      | none => simp
      | some r => rw [hr] at h; cases h


end Cppcheck.XmlWf

import Cppcheck.Model.Shell
/-
Helper lemmas for C32 `split_quote`: how the `collectArgs` automaton runs over one quoted argument.
-/
namespace Cppcheck.Shell
open Cppcheck.Wire

theorem bareChar_ne {c : Char} (h : bareChar c = true) : c ≠ ' ' ∧ c ≠ '"' ∧ c ≠ '\'' ∧ c ≠ '\\' := by
  simp [bareChar] at h
  exact ⟨h.1.1.1, h.1.1.2, h.1.2, h.2⟩

/-- an argument written bare is copied into the accumulator -/
theorem go_bare (a : Str) (h : bareOk a = true) (rest acc : Str) (args : List Str) :
    go (a ++ rest) false false false acc args = go rest false false false (acc ++ a) args := by
  induction a generalizing acc with
  | nil => simp
  | cons c a ih =>
    simp only [bareOk, List.all_cons, Bool.and_eq_true] at h
    obtain ⟨h1, h2, h3, h4⟩ := bareChar_ne h.1
    have := ih (by simpa [bareOk] using h.2) (acc ++ [c])
    simp [go, h1, h2, h3, h4, this]

/-- inside double quotes the escaped text is copied unescaped -/
theorem go_escDq (a : Str) (rest acc : Str) (args : List Str) :
    go (escDq a ++ rest) true false false acc args = go rest true false false (acc ++ a) args := by
  induction a generalizing acc with
  | nil => simp [escDq]
  | cons c a ih =>
    by_cases hb : c = '\\'
    · subst hb
      simp [escDq, go, isEscapable, ih]
    · by_cases hq : c = '"'
      · subst hq
        simp [escDq, go, isEscapable, ih]
      · by_cases hs : c = ' '
        · subst hs
          simp [escDq, go, ih]
        · simp [escDq, go, hb, hq, hs, ih]

/-- inside single quotes the text is copied, `'\''` yields one quote character -/
theorem go_escSq (a : Str) (rest acc : Str) (args : List Str) :
    go (escSq a ++ rest) false true false acc args = go rest false true false (acc ++ a) args := by
  induction a generalizing acc with
  | nil => simp [escSq]
  | cons c a ih =>
    by_cases hq : c = '\''
    · subst hq
      simp [escSq, go, isEscapable, ih]
    · by_cases hs : c = ' '
      · subst hs
        simp [escSq, go, ih]
      · simp [escSq, go, hq, hs, ih]

/-- shlex style: `'"'"'` yields one quote character -/
theorem go_escShlex (a : Str) (rest acc : Str) (args : List Str) :
    go (escShlex a ++ rest) false true false acc args = go rest false true false (acc ++ a) args := by
  induction a generalizing acc with
  | nil => simp [escShlex]
  | cons c a ih =>
    by_cases hq : c = '\''
    · subst hq
      simp [escShlex, go, ih]
    · by_cases hs : c = ' '
      · subst hs
        simp [escShlex, go, ih]
      · simp [escShlex, go, hq, hs, ih]

/-- backslash-escaped characters outside quotes lose their backslash -/
theorem go_escBs (a : Str) (h : a.all isEscapable = true) (rest acc : Str) (args : List Str) :
    go (escBs a ++ rest) false false false acc args = go rest false false false (acc ++ a) args := by
  induction a generalizing acc with
  | nil => simp [escBs]
  | cons c a ih =>
    simp only [List.all_cons, Bool.and_eq_true] at h
    have := ih h.2 (acc ++ [c])
    simp [escBs, go, h.1, this]

/-- one argument in any style, started outside quotes, is appended to the accumulator -/
theorem go_quoteArg (sty : Style) (a : Str) (h : sty = .bare → bareOk a = true)
    (he : sty = .esc → a.all isEscapable = true) (rest acc : Str) (args : List Str) :
    go (quoteArg sty a ++ rest) false false false acc args = go rest false false false (acc ++ a) args := by
  cases sty with
  | esc => exact go_escBs a (he rfl) rest acc args
  | bare => exact go_bare a (h rfl) rest acc args
  | dq =>
    have := go_escDq a ('"' :: rest) acc args
    simp [quoteArg, go, this]
  | sq =>
    have := go_escSq a ('\'' :: rest) acc args
    simp [quoteArg, go, this]
  | shlex =>
    have := go_escShlex a ('\'' :: rest) acc args
    simp [quoteArg, go, this]

/-- a run of blanks outside quotes with an empty accumulator does nothing -/
theorem go_blanks (n : Nat) (rest : Str) (args : List Str) :
    go (blanks n ++ rest) false false false [] args = go rest false false false [] args := by
  induction n with
  | zero => simp [blanks]
  | succ n ih =>
    simp only [blanks, List.replicate_succ, List.cons_append] at ih ⊢
    simp [go, flush, ih]

theorem argOk_iff {sty : Style} {pad : Nat} {a : Str} : argOk (sty, pad, a) = true ↔
    a ≠ [] ∧ (sty = .bare → bareOk a = true) ∧ (sty = .esc → a.all isEscapable = true) := by
  simp only [argOk, Bool.and_eq_true, Bool.not_eq_true', Bool.or_eq_true, bne_iff_ne, ne_eq, List.isEmpty_eq_false_iff]
  constructor
  · rintro ⟨⟨h1, h2⟩, h3⟩
    exact ⟨h1, fun hs => h2.resolve_left (fun hn => hn hs), fun hs => h3.resolve_left (fun hn => hn hs)⟩
  · rintro ⟨h1, h2, h3⟩
    refine ⟨⟨h1, ?_⟩, ?_⟩
    · by_cases hs : sty = .bare
      · exact Or.inr (h2 hs)
      · exact Or.inl hs
    · by_cases hs : sty = .esc
      · exact Or.inr (h3 hs)
      · exact Or.inl hs

theorem segOk_iff {sty : Style} {a : Str} : segOk (sty, a) = true ↔
    (sty = .bare → bareOk a = true) ∧ (sty = .esc → a.all isEscapable = true) := by
  simp only [segOk, Bool.and_eq_true, Bool.or_eq_true, bne_iff_ne, ne_eq]
  constructor
  · rintro ⟨h2, h3⟩
    exact ⟨fun hs => h2.resolve_left (fun hn => hn hs), fun hs => h3.resolve_left (fun hn => hn hs)⟩
  · rintro ⟨h2, h3⟩
    refine ⟨?_, ?_⟩
    · by_cases hs : sty = .bare
      · exact Or.inr (h2 hs)
      · exact Or.inl hs
    · by_cases hs : sty = .esc
      · exact Or.inr (h3 hs)
      · exact Or.inl hs

theorem go_quoteTail (l : List (Style × Nat × Str)) (h : ∀ x ∈ l, argOk x = true)
    (acc : Str) (hacc : acc ≠ []) (args : List Str) :
    go (quote.quoteTail l) false false false acc args = .ok (args ++ acc :: l.map (·.2.2)) := by
  induction l generalizing acc args with
  | nil => simp [quote.quoteTail, go, flush, hacc]
  | cons x r ih =>
    obtain ⟨sty, pad, a⟩ := x
    obtain ⟨hne, hb, he⟩ := argOk_iff.mp (h (sty, pad, a) (by simp))
    have hr : ∀ x ∈ r, argOk x = true := fun x hx' => h x (by simp [hx'])
    simp only [quote.quoteTail]
    rw [go]
    simp only [if_true, Bool.or_self, Bool.false_eq_true, if_false]
    rw [go_blanks, go_quoteArg sty a hb he, ih hr ([] ++ a) (by simpa using hne)]
    simp [flush, hacc]

/-- a sequence of pieces, started outside quotes, appends the text it stands for -/
theorem go_quoteSegs (segs : List (Style × Str)) (h : ∀ x ∈ segs, segOk x = true) (rest acc : Str) (args : List Str) :
    go (quoteSegs segs ++ rest) false false false acc args = go rest false false false (acc ++ segText segs) args := by
  induction segs generalizing acc with
  | nil => simp [quoteSegs, segText]
  | cons x r ih =>
    obtain ⟨sty, a⟩ := x
    obtain ⟨hb, he⟩ := segOk_iff.mp (h (sty, a) (by simp))
    have hr : ∀ x ∈ r, segOk x = true := fun x hx' => h x (by simp [hx'])
    simp only [quoteSegs, segText, List.append_assoc]
    rw [go_quoteArg sty a hb he, ih hr]
    simp

theorem go_cmdTail (l : List (Nat × List (Style × Str))) (h : ∀ x ∈ l, segsOk x = true)
    (acc : Str) (hacc : acc ≠ []) (args : List Str) :
    go (quoteCmd.cmdTail l) false false false acc args = .ok (args ++ acc :: l.map (fun x => segText x.2)) := by
  induction l generalizing acc args with
  | nil => simp [quoteCmd.cmdTail, go, flush, hacc]
  | cons x r ih =>
    obtain ⟨pad, segs⟩ := x
    have hx := h (pad, segs) (by simp)
    simp only [segsOk, Bool.and_eq_true, Bool.not_eq_true', List.isEmpty_eq_false_iff, List.all_eq_true] at hx
    have hr : ∀ x ∈ r, segsOk x = true := fun x hx' => h x (by simp [hx'])
    simp only [quoteCmd.cmdTail]
    rw [go]
    simp only [if_true, Bool.or_self, Bool.false_eq_true, if_false]
    rw [go_blanks, go_quoteSegs segs hx.2, ih hr ([] ++ segText segs) (by simpa using hx.1)]
    simp [flush, hacc]

end Cppcheck.Shell

import Cppcheck.Model.Shell
/-
Helper lemmas for C32 `split_quote`: how the `collectArgs` automaton runs over one quoted argument.
-/
namespace Cppcheck.Shell
open Cppcheck.Wire

theorem bareChar_ne {c : Char} (h : bareChar c = true) : c ≠ ' ' ∧ c ≠ '"' ∧ c ≠ '\'' ∧ c ≠ '\\' := by
  simp [bareChar] at h
  exact ⟨h.1.1.1, h.1.1.2, h.1.2, h.2⟩

/-- an argument written bare is copied into the accumulator -/
theorem go_bare (a : Str) (h : bareOk a = true) (rest acc : Str) (args : List Str) :
    go (a ++ rest) false false false acc args = go rest false false false (acc ++ a) args := by
  induction a generalizing acc with
  | nil => simp
  | cons c a ih =>
    simp only [bareOk, List.all_cons, Bool.and_eq_true] at h
    obtain ⟨h1, h2, h3, h4⟩ := bareChar_ne h.1
    have := ih (by simpa [bareOk] using h.2) (acc ++ [c])
    simp [go, h1, h2, h3, h4, this]

/-- inside double quotes the escaped text is copied unescaped -/
theorem go_escDq (a : Str) (rest acc : Str) (args : List Str) :
    go (escDq a ++ rest) true false false acc args = go rest true false false (acc ++ a) args := by
  induction a generalizing acc with
  | nil => simp [escDq]
  | cons c a ih =>
    by_cases hb : c = '\\'
    · subst hb
      simp [escDq, go, isEscapable, ih]
    · by_cases hq : c = '"'
      · subst hq
        simp [escDq, go, isEscapable, ih]
      · by_cases hs : c = ' '
        · subst hs
          simp [escDq, go, ih]
        · simp [escDq, go, hb, hq, hs, ih]

/-- inside single quotes the text is copied, `'\''` yields one quote character -/
theorem go_escSq (a : Str) (rest acc : Str) (args : List Str) :
    go (escSq a ++ rest) false true false acc args = go rest false true false (acc ++ a) args := by
  induction a generalizing acc with
  | nil => simp [escSq]
  | cons c a ih =>
    by_cases hq : c = '\''
    · subst hq
      simp [escSq, go, isEscapable, ih]
    · by_cases hs : c = ' '
      · subst hs
        simp [escSq, go, ih]
      · simp [escSq, go, hq, hs, ih]

/-- shlex style: `'"'"'` yields one quote character -/
theorem go_escShlex (a : Str) (rest acc : Str) (args : List Str) :
    go (escShlex a ++ rest) false true false acc args = go rest false true false (acc ++ a) args := by
  induction a generalizing acc with
  | nil => simp [escShlex]
  | cons c a ih =>
    by_cases hq : c = '\''
    · subst hq
      simp [escShlex, go, ih]
    · by_cases hs : c = ' '
      · subst hs
        simp [escShlex, go, ih]
      · simp [escShlex, go, hq, hs, ih]

/-- one argument in any style, started outside quotes, is appended to the accumulator -/
theorem go_quoteArg (sty : Style) (a : Str) (h : sty = .bare → bareOk a = true) (rest acc : Str) (args : List Str) :
    go (quoteArg sty a ++ rest) false false false acc args = go rest false false false (acc ++ a) args := by
  cases sty with
  | bare => exact go_bare a (h rfl) rest acc args
  | dq =>
    have := go_escDq a ('"' :: rest) acc args
    simp [quoteArg, go, this]
  | sq =>
    have := go_escSq a ('\'' :: rest) acc args
    simp [quoteArg, go, this]
  | shlex =>
    have := go_escShlex a ('\'' :: rest) acc args
    simp [quoteArg, go, this]

/-- a run of blanks outside quotes with an empty accumulator does nothing -/
theorem go_blanks (n : Nat) (rest : Str) (args : List Str) :
    go (blanks n ++ rest) false false false [] args = go rest false false false [] args := by
  induction n with
  | zero => simp [blanks]
  | succ n ih =>
    simp only [blanks, List.replicate_succ, List.cons_append] at ih ⊢
    simp [go, flush, ih]

theorem go_quoteTail (l : List (Style × Nat × Str)) (h : ∀ x ∈ l, argOk x = true)
    (acc : Str) (hacc : acc ≠ []) (args : List Str) :
    go (quote.quoteTail l) false false false acc args = .ok (args ++ acc :: l.map (·.2.2)) := by
  induction l generalizing acc args with
  | nil => simp [quote.quoteTail, go, flush, hacc]
  | cons x r ih =>
    obtain ⟨sty, pad, a⟩ := x
    have hx := h (sty, pad, a) (by simp)
    simp only [argOk, Bool.and_eq_true, Bool.not_eq_true', Bool.or_eq_true, bne_iff_ne, ne_eq, List.isEmpty_eq_false_iff] at hx
    have hb : sty = .bare → bareOk a = true := by
      intro hs; rcases hx.2 with h1 | h1
      · exact absurd hs h1
      · exact h1
    have hr : ∀ x ∈ r, argOk x = true := fun x hx' => h x (by simp [hx'])
    simp only [quote.quoteTail]
    rw [go]
    simp only [if_true, Bool.or_self, Bool.false_eq_true, if_false]
    rw [go_blanks, go_quoteArg sty a hb, ih hr ([] ++ a) (by simpa using hx.1)]
    simp [flush, hacc]

end Cppcheck.Shell

import Cppcheck.Model.Calc
/-
C01 — lemmas about `calculate` (lib/calculate.h) against the ISO C semantics of the operators on `long long`.
-/
namespace Cppcheck.Calc
open Cppcheck.Trunc

/-- ISO C17 6.5.5–6.5.14 on operands of type `long long` (after conversion): `none` = undefined behaviour
    (overflow, division by zero, `LLONG_MIN / -1`, shift count out of range, left shift of a negative value or a
    left shift whose result is not representable) or implementation-defined (right shift of a negative value).
    The bit operators are defined on the object representation, i.e. on the 64-bit two's complement patterns. -/
def cSem (op : Op) (x y : Int) : Option Int :=
  match op with
  | .add => if inI64 (x + y) then some (x + y) else none
  | .sub => if inI64 (x - y) then some (x - y) else none
  | .cmp3 => if inI64 (x - y) then some (x - y) else none
  | .mul => if inI64 (x * y) then some (x * y) else none
  | .div => if y = 0 ∨ (x = minI64 ∧ y = -1) then none else some (Int.tdiv x y)
  | .mod => if y = 0 ∨ (x = minI64 ∧ y = -1) then none else some (Int.tmod x y)
  | .band => some (toI64 (toU64 x &&& toU64 y))
  | .bor => some (toI64 (toU64 x ||| toU64 y))
  | .bxor => some (toI64 (toU64 x ^^^ toU64 y))
  | .shl => if 0 ≤ y ∧ y < 64 ∧ 0 ≤ x ∧ inI64 (x * 2 ^ y.toNat) then some (x * 2 ^ y.toNat) else none
  | .shr => if 0 ≤ y ∧ y < 64 ∧ 0 ≤ x then some (x / 2 ^ y.toNat) else none
  | .gt => some (b2i (decide (x > y)))
  | .lt => some (b2i (decide (x < y)))
  | .ge => some (b2i (decide (x ≥ y)))
  | .le => some (b2i (decide (x ≤ y)))
  | .eq => some (b2i (decide (x = y)))
  | .ne => some (b2i (decide (x ≠ y)))
  | .land => some (b2i (decide (x ≠ 0 ∧ y ≠ 0)))
  | .lor => some (b2i (decide (x ≠ 0 ∨ y ≠ 0)))

/-- the `error` conditions of `calculate` -/
def calcErr (op : Op) (x y : Int) : Prop :=
  match op with
  | .div | .mod => y ≤ 0
  | .shl | .shr => y ≥ 63 ∨ y < 0 ∨ x < 0
  | _ => False

instance (op : Op) (x y : Int) : Decidable (calcErr op x y) := by
  unfold calcErr; cases op <;> exact inferInstance

theorem wrap64_of_in (v : Int) (h : inI64 v) : wrap64 v = v := by
  unfold inI64 minI64 maxI64 at h
  unfold wrap64
  apply Int.bmod_eq_of_le <;> omega

theorem calculate_err_iff (op : Op) (x y : Int) : calculate op x y = none ↔ calcErr op x y := by
  cases op <;> simp [calculate, calcErr] <;> omega

theorem calculate_sound' (op : Op) (x y r v : Int) (h : calculate op x y = some r) (hc : cSem op x y = some v) : r = v := by
  cases op <;> simp only [calculate, cSem] at h hc
  case add | sub | mul | cmp3 =>
    split at hc
    · rename_i hin; simp at h hc; rw [← h, ← hc]; exact wrap64_of_in _ hin
    · simp at hc
  case div | mod =>
    split at h
    · simp at h
    · split at hc
      · simp at hc
      · simp at h hc; rw [← h, ← hc]
  case band | bor | bxor => simp at h hc; rw [← h, ← hc]
  case shl =>
    split at h
    · simp at h
    · split at hc
      · rename_i hin; simp at h hc; rw [← h, ← hc]; exact wrap64_of_in _ hin.2.2.2
      · simp at hc
  case shr =>
    split at h
    · simp at h
    · split at hc
      · simp at h hc; rw [← h, ← hc]
      · simp at hc
  all_goals
    simp at h hc; subst h; subst hc; first | rfl | (unfold b2i; simp <;> (try omega))

/-! ## Impossible values through compound assignments -/

/-- bound of an Impossible value -/
inductive IBound | point | upper | lower
  deriving DecidableEq, Repr

/-- what an Impossible value `v` with bound `b` says about the variable's value `x` -/
def impHolds (b : IBound) (v x : Int) : Prop :=
  match b with
  | .point => x ≠ v
  | .upper => v < x
  | .lower => x < v

instance (b : IBound) (v x : Int) : Decidable (impHolds b v x) := by unfold impHolds; cases b <;> exact inferInstance

/-- the value of `x` after the statement (C semantics on a type at least as wide as `int`, no overflow: otherwise the execution
    has undefined behaviour and is outside the property) -/
def assignSem (op : String) (k x : Int) : Int :=
  match op with
  | "+=" => x + k | "-=" => x - k | "*=" => x * k | "/=" => Int.tdiv x k | "++" => x + 1 | "--" => x - 1 | _ => x

theorem carry_shift_sound (op : String) (hop : op = "+=" ∨ op = "-=" ∨ op = "++" ∨ op = "--") (b : IBound) (k v v' x : Int)
    (hc : carryImpossible op k v = some v') (hin : inI64 (assignSem op k v)) (h : impHolds b v x) :
    impHolds b v' (assignSem op k x) := by
  rcases hop with rfl | rfl | rfl | rfl <;>
    simp [carryImpossible, carryOps, calculate, assignSem] at hc hin ⊢ <;>
    rw [wrap64_of_in _ hin] at hc <;> subst hc <;> cases b <;> simp [impHolds] at h ⊢ <;> omega

theorem carry_mul_pos_sound (b : IBound) (k v v' x : Int) (hk : 0 < k)
    (hc : carryImpossible "*=" k v = some v') (hin : inI64 (v * k)) (h : impHolds b v x) :
    impHolds b v' (assignSem "*=" k x) := by
  simp [carryImpossible, carryOps, calculate, assignSem] at hc ⊢
  rw [wrap64_of_in _ hin] at hc; subst hc
  cases b <;> simp only [impHolds] at h ⊢
  · intro e; exact h (Int.eq_of_mul_eq_mul_right (by omega) e)
  · exact Int.mul_lt_mul_of_pos_right h hk
  · exact Int.mul_lt_mul_of_pos_right h hk

end Cppcheck.Calc

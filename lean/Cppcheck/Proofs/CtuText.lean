import Cppcheck.Model.Ctu
/-
C22 — helper lemmas for the text layer: toxml / attribute reader, decimal output / integer readers.
-/
namespace Cppcheck.Ctu
open Cppcheck.Wire

theorem char_eq_of_toNat {c d : Char} (h : c.toNat = d.toNat) : c = d := by
  apply Char.ext
  apply UInt32.toNat_inj.mp
  exact h

theorem char_ne_toNat {c d : Char} (h : c ≠ d) : c.toNat ≠ d.toNat := fun e => h (char_eq_of_toNat e)

/-! ## `getStr ∘ toxml` -/

theorem getStrGo_skip (orig : Str) : ∀ (k : Nat) (pre rest out : Str), pre.length = k →
    getStrGo orig k (pre ++ rest) out = getStrGo orig 0 rest out := by
  intro k
  induction k with
  | zero => intro pre rest out h; cases pre <;> simp_all
  | succ k ih =>
    intro pre rest out h
    cases pre with
    | nil => simp at h
    | cons a p =>
      simp only [List.cons_append, getStrGo]
      exact ih p rest out (by simpa using h)

theorem getStrGo_plain (orig : Str) (c : Char) (rest out : Str) (h1 : c ≠ '\r') (h2 : c ≠ '\n') (h3 : c ≠ '&') :
    getStrGo orig 0 (c :: rest) out = getStrGo orig 0 rest (c :: out) := by
  simp [getStrGo, h1, h2, h3]

theorem getStrGo_entity (orig : Str) (name : Str) (v : Char) (rest out : Str)
    (h : matchEntity (name ++ ';' :: rest) = some (v, name.length + 1)) (hh : (name ++ ';' :: rest).head? ≠ some '#') :
    getStrGo orig 0 ('&' :: (name ++ ';' :: rest)) out = getStrGo orig 0 rest (v :: out) := by
  rw [getStrGo]
  simp only [show ('&' : Char) ≠ '\r' by decide, show ('&' : Char) ≠ '\n' by decide, if_false, if_true, hh, h]
  have : name ++ ';' :: rest = (name ++ [';']) ++ rest := by simp
  rw [this]
  exact getStrGo_skip orig _ _ _ _ (by simp)

theorem getStrGo_toxmlChar (orig : Str) (c : Char) (rest out : Str) :
    getStrGo orig 0 (toxmlChar c ++ rest) out = getStrGo orig 0 rest ((lossyChar c).reverse ++ out) := by
  unfold toxmlChar lossyChar
  by_cases h1 : c = '<'
  · subst h1
    have := getStrGo_entity orig "lt".toList '<' rest out (by simp [matchEntity, entityTable, List.findSome?]) (by simp)
    simpa [NUL] using this
  by_cases h2 : c = '>'
  · subst h2
    have := getStrGo_entity orig "gt".toList '>' rest out (by simp [matchEntity, entityTable, List.findSome?]) (by simp)
    simpa [NUL] using this
  by_cases h3 : c = '&'
  · subst h3
    have := getStrGo_entity orig "amp".toList '&' rest out (by simp [matchEntity, entityTable, List.findSome?]) (by simp)
    simpa [NUL] using this
  by_cases h4 : c = '"'
  · subst h4
    have := getStrGo_entity orig "quot".toList '"' rest out (by simp [matchEntity, entityTable, List.findSome?]) (by simp)
    simpa [NUL] using this
  by_cases h5 : c = '\''
  · subst h5
    have := getStrGo_entity orig "apos".toList '\'' rest out (by simp [matchEntity, entityTable, List.findSome?]) (by simp)
    simpa [NUL] using this
  by_cases h6 : c = NUL
  · subst h6
    simp [NUL, getStrGo]
  by_cases h7 : c = '\n'
  · subst h7
    simp [NUL, getStrGo, charRef, refDigits, refDigitVal, utf8, u32]
  by_cases h8 : c = '\t'
  · subst h8
    simp [NUL, getStrGo, charRef, refDigits, refDigitVal, utf8, u32]
  by_cases h9 : c = '\r'
  · subst h9
    simp [NUL, getStrGo, charRef, refDigits, refDigitVal, utf8, u32]
  simp only [h1, h2, h3, h4, h5, h6, h7, h8, h9, if_false, false_or]
  by_cases hr : 32 ≤ c.toNat ∧ c.toNat ≤ 127
  · simp only [hr, and_self, if_true, List.singleton_append, List.reverse_cons, List.reverse_nil, List.nil_append]
    exact getStrGo_plain orig c rest out h9 h7 h3
  · simp only [hr, if_false, List.singleton_append, List.reverse_cons, List.reverse_nil, List.nil_append]
    exact getStrGo_plain orig 'x' rest out (by decide) (by decide) (by decide)

theorem getStrGo_toxml (orig : Str) : ∀ (s rest out : Str),
    getStrGo orig 0 (toxml s ++ rest) out = getStrGo orig 0 rest ((lossy s).reverse ++ out) := by
  intro s
  induction s with
  | nil => intro rest out; simp [toxml, lossy]
  | cons c r ih =>
    intro rest out
    simp only [toxml, lossy, List.append_assoc]
    rw [getStrGo_toxmlChar, ih]
    simp [List.reverse_append]

theorem getStr_toxml (s : Str) : getStr (toxml s) = lossy s := by
  have := getStrGo_toxml (toxml s) s [] []
  simp only [List.append_nil] at this
  unfold getStr
  rw [this]
  simp [getStrGo]

theorem nul_not_mem_lossyChar (c : Char) : NUL ∉ lossyChar c := by
  unfold lossyChar
  by_cases h6 : c = NUL
  · simp [h6, NUL]
  · simp only [h6, if_false]
    split
    · simpa using fun h => h6 h.symm
    · split
      · simpa using fun h => h6 h.symm
      · simp [NUL]

theorem nul_not_mem_lossy : ∀ s : Str, NUL ∉ lossy s := by
  intro s
  induction s with
  | nil => simp [lossy]
  | cons c r ih => simp [lossy, nul_not_mem_lossyChar c, ih]

theorem takeWhile_all {α : Type} (p : α → Bool) : ∀ l : List α, l.all p = true → l.takeWhile p = l := by
  intro l h
  induction l with
  | nil => rfl
  | cons a r ih =>
    simp only [List.all_cons, Bool.and_eq_true] at h
    simp [List.takeWhile_cons, h.1, ih h.2]

theorem cstr_of_no_nul : ∀ s : Str, NUL ∉ s → cstr s = s := by
  intro s h
  unfold cstr
  apply takeWhile_all
  apply List.all_eq_true.mpr
  intro c hc
  simp only [ne_eq, decide_not, Bool.not_eq_true', decide_eq_false_iff_not]
  intro e
  exact h (e ▸ hc)

/-- what the attribute reader returns for a `toxml`-escaped string: the lossy image, for EVERY byte string -/
theorem attrDecode_toxml' (s : Str) : attrDecode (toxml s) = lossy s := by
  unfold attrDecode
  rw [getStr_toxml]
  exact cstr_of_no_nul _ (nul_not_mem_lossy s)

theorem lossyChar_safe (c : Char) (h : xmlSafeChar c = true) : lossyChar c = [c] := by
  unfold lossyChar
  unfold xmlSafeChar at h
  by_cases h6 : c = NUL
  · subst h6; simp [NUL] at h
  · simp only [h6, if_false]
    by_cases hs : c = '\n' ∨ c = '\t' ∨ c = '\r'
    · simp [hs]
    · simp only [hs, if_false]
      have : 32 ≤ c.toNat ∧ c.toNat ≤ 127 := by
        simp only [not_or] at hs
        simpa [hs.1, hs.2.1, hs.2.2] using h
      simp [this]

theorem lossy_of_safe : ∀ s : Str, XmlSafe s = true → lossy s = s := by
  intro s
  induction s with
  | nil => intro _; rfl
  | cons c r ih =>
    intro h
    simp only [XmlSafe, List.all_cons, Bool.and_eq_true] at h
    simp only [lossy, lossyChar_safe c h.1]
    simp [ih (by simpa [XmlSafe] using h.2)]

theorem safe_of_lossyChar (c : Char) (h : lossyChar c = [c]) : xmlSafeChar c = true := by
  unfold lossyChar at h
  unfold xmlSafeChar
  by_cases h6 : c = NUL
  · subst h6; simp [NUL] at h
  · simp only [h6, if_false] at h
    by_cases hs : c = '\n' ∨ c = '\t' ∨ c = '\r'
    · rcases hs with e | e | e <;> simp [e]
    · simp only [hs, if_false] at h
      by_cases hr : 32 ≤ c.toNat ∧ c.toNat ≤ 127
      · simp [hr]
      · simp only [hr, if_false, List.cons.injEq, and_true] at h
        exfalso; apply hr; rw [← h]; decide

theorem lossyChar_length (c : Char) : (lossyChar c).length = if c = NUL then 2 else 1 := by
  unfold lossyChar
  by_cases h6 : c = NUL
  · simp [h6]
  · simp only [h6, if_false]
    split
    · rfl
    · split <;> rfl

theorem safe_of_lossy : ∀ s : Str, lossy s = s → XmlSafe s = true := by
  intro s
  induction s with
  | nil => intro _; rfl
  | cons c r ih =>
    intro h
    simp only [lossy] at h
    have hl := lossyChar_length c
    by_cases h6 : c = NUL
    · subst h6
      simp [lossyChar, NUL] at h
    · simp only [h6, if_false] at hl
      match hc : lossyChar c, hl with
      | [d], _ =>
        rw [hc] at h
        simp only [List.singleton_append, List.cons.injEq] at h
        have : lossyChar c = [c] := by rw [hc, h.1]
        have hr := ih h.2
        simp only [XmlSafe] at hr ⊢
        simp [safe_of_lossyChar c this, hr]

/-! ## decimal output and the readers -/

theorem digitChar_toNat (n : Nat) : (digitChar n).toNat = 48 + n % 10 := by
  have h : ∀ k, k < 10 → (Char.ofNat (48 + k)).toNat = 48 + k := by decide
  exact h (n % 10) (Nat.mod_lt _ (by decide))

theorem digitChar_isDigit (n : Nat) : (digitChar n).isDigit = true := by
  have h : ∀ k, k < 10 → (Char.ofNat (48 + k)).isDigit = true := by decide
  exact h (n % 10) (Nat.mod_lt _ (by decide))

theorem natDigitsAux_acc : ∀ (f n : Nat) (acc : Str), n < f →
    natDigitsAux f n acc = natDigitsAux f n [] ++ acc := by
  intro f
  induction f with
  | zero => intro n acc h; omega
  | succ f ih =>
    intro n acc h
    simp only [natDigitsAux]
    by_cases h10 : n < 10
    · simp [h10]
    · simp only [h10, if_false]
      have hlt : n / 10 < f := by omega
      rw [ih (n / 10) (digitChar n :: acc) hlt, ih (n / 10) [digitChar n] hlt]
      simp

theorem natDigitsAux_fuel : ∀ (f g n : Nat), n < f → n < g → natDigitsAux f n [] = natDigitsAux g n [] := by
  intro f
  induction f with
  | zero => intro g n h; omega
  | succ f ih =>
    intro g n hf hg
    cases g with
    | zero => omega
    | succ g =>
      simp only [natDigitsAux]
      by_cases h10 : n < 10
      · simp [h10]
      · simp only [h10, if_false]
        have h1 : n / 10 < f := by omega
        have h2 : n / 10 < g := by omega
        rw [natDigitsAux_acc f _ _ h1, natDigitsAux_acc g _ _ h2, ih g (n / 10) h1 h2]

theorem showNat_lt10 (n : Nat) (h : n < 10) : showNat n = [digitChar n] := by
  simp [showNat, natDigitsAux, h]

theorem showNat_ge10 (n : Nat) (h : ¬ n < 10) : showNat n = showNat (n / 10) ++ [digitChar n] := by
  have e1 : showNat n = natDigitsAux n (n / 10) [digitChar n] := by simp [showNat, natDigitsAux, h]
  rw [e1, natDigitsAux_acc n _ _ (by omega), natDigitsAux_fuel n (n / 10 + 1) (n / 10) (by omega) (by omega)]
  rfl

/-- induction principle following the digits -/
theorem showNat_ind (P : Nat → Prop) (h0 : ∀ n, n < 10 → P n) (h1 : ∀ n, ¬ n < 10 → P (n / 10) → P n) : ∀ n, P n := by
  intro n
  induction n using Nat.strongRecOn with
  | _ n ih =>
    by_cases h : n < 10
    · exact h0 n h
    · exact h1 n h (ih (n / 10) (by omega))

theorem digitsVal_append (l : Str) (c : Char) : digitsVal (l ++ [c]) = digitsVal l * 10 + (c.toNat - 48) := by
  simp [digitsVal, List.foldl_append]

theorem digitsVal_showNat : ∀ n, digitsVal (showNat n) = n := by
  apply showNat_ind
  · intro n h
    rw [showNat_lt10 n h]
    simp only [digitsVal, List.foldl_cons, List.foldl_nil, digitChar_toNat]
    omega
  · intro n h ih
    rw [showNat_ge10 n h, digitsVal_append, ih, digitChar_toNat]
    omega

theorem showNat_allDigits : ∀ n, (showNat n).all Char.isDigit = true := by
  apply showNat_ind
  · intro n h; rw [showNat_lt10 n h]; simp [digitChar_isDigit]
  · intro n h ih; rw [showNat_ge10 n h]; simp [ih, digitChar_isDigit]

theorem showNat_ne_nil : ∀ n, showNat n ≠ [] := by
  apply showNat_ind
  · intro n h; rw [showNat_lt10 n h]; simp
  · intro n h _; rw [showNat_ge10 n h]; simp

/-- no leading zero except for 0 itself -/
theorem showNat_leading : ∀ n r, showNat n = '0' :: r → r = [] := by
  apply showNat_ind
  · intro n h r e; rw [showNat_lt10 n h] at e; simp at e; exact e.2
  · intro n h ih r e
    rw [showNat_ge10 n h] at e
    cases hs : showNat (n / 10) with
    | nil => exact absurd hs (showNat_ne_nil _)
    | cons a t =>
      rw [hs] at e
      simp only [List.cons_append, List.cons.injEq] at e
      have hz := ih t (by rw [hs, e.1])
      have : digitsVal (showNat (n / 10)) = 0 := by rw [hs, e.1, hz]; decide
      rw [digitsVal_showNat] at this
      omega

theorem isDigit_props (c : Char) (h : c.isDigit = true) :
    isSpace c = false ∧ c ≠ '-' ∧ c ≠ '+' ∧ c ≠ 'x' ∧ c ≠ 'X' ∧ c ≠ '"' ∧ c ≠ '&' ∧ c ≠ '\r' ∧ c ≠ '\n' ∧ c ≠ NUL := by
  refine ⟨?_, ?_, ?_, ?_, ?_, ?_, ?_, ?_, ?_, ?_⟩
  · cases hs : isSpace c with
    | false => rfl
    | true =>
      exfalso
      simp only [isSpace, Bool.or_eq_true, decide_eq_true_eq] at hs
      rcases hs with ((((e | e) | e) | e) | e) | e <;> (subst e; revert h; decide)
  all_goals (intro e; subst e; revert h; decide)

theorem dropWhile_head_false {α : Type} (p : α → Bool) (a : α) (r : List α) (h : p a = false) :
    (a :: r).dropWhile p = a :: r := by
  simp [List.dropWhile_cons, h]

/-- a string of decimal digits, optionally signed, is read back by `sscanf("%lld")` -/
theorem scanInt64_digits (neg : Bool) (ds : Str) (hne : ds ≠ []) (hall : ds.all Char.isDigit = true)
    (hlead : ∀ r, ds = '0' :: r → r = [])
    (hrange : if neg then (digitsVal ds : Int) ≤ 9223372036854775808 else (digitsVal ds : Int) ≤ 9223372036854775807) :
    scanInt64 (if neg then '-' :: ds else ds) = some (if neg then -(digitsVal ds : Int) else digitsVal ds) := by
  cases ds with
  | nil => exact absurd rfl hne
  | cons d r =>
    have hd : d.isDigit = true := by simp only [List.all_cons, Bool.and_eq_true] at hall; exact hall.1
    obtain ⟨hsp, hm, hp, hx, hX, _, _, _, _, _⟩ := isDigit_props d hd
    have htw : (d :: r).takeWhile Char.isDigit = d :: r := takeWhile_all _ _ hall
    cases neg with
    | true =>
      simp only [if_true] at hrange ⊢
      unfold scanInt64
      have h1 : ('-' :: d :: r).dropWhile isSpace = '-' :: d :: r := dropWhile_head_false _ _ _ (by decide)
      have h2 : prefixHex ('-' :: d :: r) = false := rfl
      have h3 : splitSign ('-' :: d :: r) = (true, d :: r) := rfl
      simp only [h1, h2, h3, htw, Bool.false_eq_true, if_false, reduceCtorEq, if_true]
      unfold clamp64
      simp only [show ¬ (-(digitsVal (d :: r) : Int) > 9223372036854775807) by omega,
        show ¬ (-(digitsVal (d :: r) : Int) < -9223372036854775808) by omega, if_false]
    | false =>
      simp only [Bool.false_eq_true, if_false] at hrange ⊢
      unfold scanInt64
      have h1 : (d :: r).dropWhile isSpace = d :: r := dropWhile_head_false _ _ _ hsp
      have h2 : prefixHex (d :: r) = false := by
        by_cases h0 : d = '0'
        · subst h0
          have := hlead r rfl
          subst this
          rfl
        · unfold prefixHex
          split
          · rename_i heq; simp at heq; exact absurd heq.1 h0
          · rfl
      have h3 : splitSign (d :: r) = (false, d :: r) := by
        unfold splitSign
        split
        · rename_i heq; simp at heq; exact absurd heq.1 hm
        · rename_i heq; simp at heq; exact absurd heq.1 hp
        · rfl
      simp only [h1, h2, h3, htw, Bool.false_eq_true, if_false, reduceCtorEq]
      unfold clamp64
      simp only [show ¬ ((digitsVal (d :: r) : Int) > 9223372036854775807) by omega,
        show ¬ ((digitsVal (d :: r) : Int) < -9223372036854775808) by omega, if_false]

theorem showInt_neg (i : Int) (h : i < 0) : showInt i = '-' :: showNat i.natAbs := by simp [showInt, h]
theorem showInt_nonneg (i : Int) (h : ¬ i < 0) : showInt i = showNat i.natAbs := by simp [showInt, h]

/-- every `long long` printed by `operator<<` is read back by `XMLUtil::ToInt64` -/
theorem scanInt64_showInt' (i : Int) (h : inS 64 i = true) : scanInt64 (showInt i) = some i := by
  simp only [inS, Bool.and_eq_true, decide_eq_true_eq] at h
  by_cases hn : i < 0
  · have := scanInt64_digits true (showNat i.natAbs) (showNat_ne_nil _) (showNat_allDigits _) (showNat_leading _)
      (by simp only [if_true, digitsVal_showNat]; omega)
    simp only [if_true, digitsVal_showNat] at this
    rw [showInt_neg i hn, this]
    congr 1; omega
  · have := scanInt64_digits false (showNat i.natAbs) (showNat_ne_nil _) (showNat_allDigits _) (showNat_leading _)
      (by simp only [Bool.false_eq_true, if_false, digitsVal_showNat]; omega)
    simp only [Bool.false_eq_true, if_false, digitsVal_showNat] at this
    rw [showInt_nonneg i hn, this]
    congr 1; omega

theorem wrapS_id (bits : Nat) (hb : 0 < bits) (x : Int) (h : inS bits x = true) : wrapS bits x = x := by
  simp only [inS, Bool.and_eq_true, decide_eq_true_eq] at h
  unfold wrapS
  have hp : (2 : Int) ^ bits = 2 * 2 ^ (bits - 1) := by
    have : bits = (bits - 1) + 1 := by omega
    conv => lhs; rw [this, Int.pow_succ]
    omega
  have hpos : (0 : Int) < 2 ^ (bits - 1) := Int.pow_pos (by decide)
  rw [hp, Int.emod_eq_of_lt (by omega) (by omega)]
  omega

theorem wrapU_id (bits : Nat) (x : Int) (h : inU bits x = true) : wrapU bits x = x := by
  simp only [inU, Bool.and_eq_true, decide_eq_true_eq] at h
  exact Int.emod_eq_of_lt h.1 h.2

/-- `int` → `unsigned` of an `unsigned` value that went through `int` -/
theorem wrapU_wrapS_32 (x : Int) (h : inU 32 x = true) : wrapU 32 (wrapS 32 x) = x := by
  simp only [inU, Bool.and_eq_true, decide_eq_true_eq] at h
  unfold wrapU wrapS
  simp only [Int.reducePow, Nat.reduceSub] at h ⊢
  omega

/-- `strToInt<int>` / `strToInt<size_t>` read `std::to_string` back -/
theorem strToIntS_showInt (lo hi i : Int) (hlo : lo ≤ i) (hhi : i ≤ hi) (h64 : inS 64 i = true) :
    strToIntS lo hi (showInt i) = some i := by
  simp only [inS, Bool.and_eq_true, decide_eq_true_eq] at h64
  by_cases hn : i < 0
  · rw [showInt_neg i hn]
    unfold strToIntS
    simp only [or_true, if_true, showNat_ne_nil, showNat_allDigits, digitsVal_showNat, false_or, Bool.not_true,
      Bool.false_eq_true, if_false, show (('-' : Char) = '0') = False by decide, false_and]
    have : -((i.natAbs : Nat) : Int) = i := by omega
    rw [this]
    simp only [show ¬ (i < -9223372036854775808 ∨ i > 9223372036854775807) by omega, if_false,
      show ¬ (i < lo ∨ i > hi) by omega]
  · rw [showInt_nonneg i hn]
    cases hs : showNat i.natAbs with
    | nil => exact absurd hs (showNat_ne_nil _)
    | cons d r =>
      have hall := showNat_allDigits i.natAbs
      rw [hs] at hall
      have hd : d.isDigit = true := by simp only [List.all_cons, Bool.and_eq_true] at hall; exact hall.1
      obtain ⟨_, hm, hp, _⟩ := isDigit_props d hd
      have hv : digitsVal (d :: r) = i.natAbs := by rw [← hs]; exact digitsVal_showNat _
      have hlead : d = '0' → r = [] := fun e => showNat_leading i.natAbs r (by rw [hs, e])
      unfold strToIntS
      simp only [hp, hm, or_self, if_false, reduceCtorEq, hall, Bool.not_true, Bool.false_eq_true, hv]
      have h0 : ¬ (d = '0' ∧ r ≠ []) := fun ⟨e, ne⟩ => ne (hlead e)
      have : ((i.natAbs : Nat) : Int) = i := by omega
      simp only [h0, if_false, this, show ¬ (i < -9223372036854775808 ∨ i > 9223372036854775807) by omega,
        show ¬ (i < lo ∨ i > hi) by omega]

theorem strToIntU_showNat (hi n : Nat) (h : n ≤ hi) (h64 : hi ≤ 18446744073709551615) :
    strToIntU hi (showNat n) = some n := by
  cases hs : showNat n with
  | nil => exact absurd hs (showNat_ne_nil _)
  | cons d r =>
    have hall := showNat_allDigits n
    rw [hs] at hall
    have hd : d.isDigit = true := by simp only [List.all_cons, Bool.and_eq_true] at hall; exact hall.1
    obtain ⟨_, hm, hp, _⟩ := isDigit_props d hd
    have hv : digitsVal (d :: r) = n := by rw [← hs]; exact digitsVal_showNat _
    have hlead : d = '0' → r = [] := fun e => showNat_leading n r (by rw [hs, e])
    unfold strToIntU
    have h0 : ¬ (d = '0' ∧ r ≠ []) := fun ⟨e, ne⟩ => ne (hlead e)
    simp only [hp, hm, or_self, if_false, reduceCtorEq, hall, Bool.not_true, Bool.false_eq_true, hv, h0,
      show ¬ n > 18446744073709551615 by omega, show ¬ n > hi by omega]

/-! ## raw (unescaped) attribute text -/

/-- a raw field survives the attribute reader when it has no '&', no CR and no NUL -/
def rawSafeChar (c : Char) : Bool := c ≠ '"' && c ≠ '&' && c ≠ '\r' && c ≠ NUL
def RawSafe (s : Str) : Bool := s.all rawSafeChar

theorem getStrGo_rawSafe (orig : Str) : ∀ (s out : Str), (∀ c ∈ s, c ≠ '&' ∧ c ≠ '\r') →
    getStrGo orig 0 s out = out.reverse ++ s := by
  intro s
  induction s with
  | nil => intro out _; simp [getStrGo]
  | cons c r ih =>
    intro out h
    have hc := h c (by simp)
    have hr : ∀ c ∈ r, c ≠ '&' ∧ c ≠ '\r' := fun x hx => h x (by simp [hx])
    by_cases hn : c = '\n'
    · subst hn
      rw [getStrGo]
      simp only [show ('\n' : Char) ≠ '\r' by decide, if_false, if_true]
      have : r.head? ≠ some '\r' := by
        cases r with
        | nil => simp
        | cons a t => simpa using (hr a (by simp)).2
      simp only [this, if_false]
      rw [ih _ hr]; simp
    · rw [getStrGo_plain orig c r out hc.2 hn hc.1, ih _ hr]; simp

theorem attrDecode_rawSafe (s : Str) (h : RawSafe s = true) : attrDecode s = s := by
  have hs : ∀ c ∈ s, c ≠ '"' ∧ c ≠ '&' ∧ c ≠ '\r' ∧ c ≠ NUL := by
    intro c hc
    have := List.all_eq_true.mp h c hc
    obtain ⟨⟨⟨a, b⟩, d⟩, e⟩ : ((¬c = '"' ∧ ¬c = '&') ∧ ¬c = '\r') ∧ ¬c = NUL := by simpa [rawSafeChar] using this
    exact ⟨a, b, d, e⟩
  unfold attrDecode getStr
  rw [getStrGo_rawSafe s s [] (fun c hc => ⟨(hs c hc).2.1, (hs c hc).2.2.1⟩)]
  simp only [List.reverse_nil, List.nil_append]
  exact cstr_of_no_nul s (fun hm => (hs NUL hm).2.2.2 rfl)

theorem rawSafe_showNat (n : Nat) : RawSafe (showNat n) = true := by
  apply List.all_eq_true.mpr
  intro c hc
  have hd := List.all_eq_true.mp (showNat_allDigits n) c hc
  obtain ⟨_, _, _, _, _, h1, h2, h3, _, h5⟩ := isDigit_props c hd
  simp [rawSafeChar, h1, h2, h3, h5]

theorem rawSafe_showInt (i : Int) : RawSafe (showInt i) = true := by
  unfold showInt
  split
  · simp only [RawSafe, List.all_cons, Bool.and_eq_true]
    exact ⟨by decide, rawSafe_showNat _⟩
  · exact rawSafe_showNat _

theorem attrDecode_showInt (i : Int) : attrDecode (showInt i) = showInt i := attrDecode_rawSafe _ (rawSafe_showInt i)
theorem attrDecode_showNat (n : Nat) : attrDecode (showNat n) = showNat n := attrDecode_rawSafe _ (rawSafe_showNat n)

/-! ## characters that never occur in written attribute text -/

theorem quote_not_mem_toxmlChar (c : Char) : '"' ∉ toxmlChar c ∧ NUL ∉ toxmlChar c := by
  unfold toxmlChar
  by_cases h1 : c = '<'
  · simp only [h1, if_true]; constructor <;> decide
  by_cases h2 : c = '>'
  · simp only [h2, if_true]; constructor <;> decide
  by_cases h3 : c = '&'
  · simp only [h3, if_true]; constructor <;> decide
  by_cases h4 : c = '"'
  · simp only [h4, if_true]; constructor <;> decide
  by_cases h5 : c = '\''
  · simp only [h5, if_true]; constructor <;> decide
  by_cases h6 : c = NUL
  · simp only [h6, if_true]; constructor <;> decide
  by_cases h7 : c = '\n'
  · simp only [h7, if_true]; constructor <;> decide
  by_cases h8 : c = '\t'
  · simp only [h8, if_true]; constructor <;> decide
  by_cases h9 : c = '\r'
  · simp only [h9, if_true]; constructor <;> decide
  simp only [h1, h2, h3, h4, h5, h6, h7, h8, h9, if_false]
  split
  · constructor
    · simpa using fun e => h4 e.symm
    · simpa using fun e => h6 e.symm
  · constructor <;> decide

theorem toxml_clean : ∀ s : Str, '"' ∉ toxml s ∧ NUL ∉ toxml s := by
  intro s
  induction s with
  | nil => simp [toxml]
  | cons c r ih =>
    have := quote_not_mem_toxmlChar c
    simp [toxml, this.1, this.2, ih.1, ih.2]

end Cppcheck.Ctu

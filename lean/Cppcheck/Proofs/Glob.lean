import Cppcheck.Model.Glob
/-
Lemmas about the `matchglob` model:
  1. the explicit-stack machine `run` terminates and returns `dfs` (for both the current and the repaired code);
  2. `dfs` is sound for the documented language on every pattern, complete on every pattern for the repaired
     code and complete on `starOk` patterns for the current code;
  3. `Spec.matchesB` decides `Spec.Matches`.
-/
namespace Cppcheck.Glob
open Cppcheck.Wire

/-! ### 1. stack machine = dfs -/

/-- value of the alternatives stored on a backtrack stack -/
def alts (fx ci : Bool) : Stack → Bool
  | [] => false
  | e :: r => dfs fx ci e.1 e.2.tail || alts fx ci r

theorem alts_append (fx ci : Bool) (a b : Stack) : alts fx ci (a ++ b) = (alts fx ci a || alts fx ci b) := by
  induction a with
  | nil => simp [alts]
  | cons e a ih => simp [alts, ih, Bool.or_assoc]

/-- restoring the top entry of the stack (`n++` included) -/
def popRun (fx ci : Bool) (fuel : Nat) : Stack → Option Bool
  | [] => some false
  | e :: r => run fx ci fuel e.1 e.2.tail r

theorem popRun_cons (fx ci : Bool) (fuel : Nat) (e : Str × Str) (r : Stack) :
    popRun fx ci fuel (e :: r) = run fx ci fuel e.1 e.2.tail r := rfl

theorem run_succ (fx ci : Bool) (fuel : Nat) (p n : Str) (st : Stack) :
    run fx ci (fuel + 1) p n st =
      if (scan fx ci p n st).1 then some true else popRun fx ci fuel (scan fx ci p n st).2 := by
  rw [run]
  rcases h : scan fx ci p n st with ⟨b, st'⟩
  cases b with
  | true => simp
  | false => cases st' with
    | nil => simp [popRun]
    | cons e r => simp [popRun]

theorem skipTo_length (stop : Char → Bool) (n : Str) : (skipTo stop n).length ≤ n.length := by
  induction n with
  | nil => simp [skipTo]
  | cons c r ih =>
    simp only [skipTo]
    split
    · simp
    · simp only [List.length_cons]; omega

theorem starAlt_skip (stop : Char → Bool) (k : Str → Bool) (n : Str) :
    starAlt stop k n =
      if (skipTo stop n).isEmpty then k [] else (k (skipTo stop n) || starAlt stop k (skipTo stop n).tail) := by
  induction n with
  | nil => simp [starAlt, skipTo]
  | cons c r ih =>
    by_cases hc : stop c = true
    · simp [starAlt, skipTo, hc]
    · simp only [starAlt, skipTo, hc]
      exact ih

/-- entries pushed while scanning from `(p, n)` resume at strictly smaller positions -/
def Bounded (p n : Str) (new : Stack) : Prop :=
  ∀ e ∈ new, e.1.length ≤ p.length ∧ (e.1.length = p.length → e.2.length ≤ n.length) ∧ e.2 ≠ []

theorem Bounded.mono {p p' n n' : Str} {new : Stack} (h : Bounded p' n' new) (hp : p'.length < p.length) :
    Bounded p n new := by
  intro e he
  obtain ⟨h1, _, h3⟩ := h e he
  exact ⟨by omega, by omega, h3⟩

theorem scan_spec (fx ci : Bool) (p : Str) : ∀ (n : Str) (st : Stack),
    ∃ new, (scan fx ci p n st).2 = new ++ st ∧
      ((scan fx ci p n st).1 || alts fx ci new) = dfs fx ci p n ∧ Bounded p n new := by
  induction p with
  | nil =>
    intro n st
    exact ⟨[], by simp [scan], by simp [scan, dfs, alts], by intro e he; cases he⟩
  | cons c p ih =>
    intro n st
    by_cases hc : c = '*'
    · by_cases hfx : (fx && p.head? = some '*') = true
      · obtain ⟨new, h1, h2, h3⟩ := ih n st
        refine ⟨new, ?_, ?_, ?_⟩
        · simpa [scan, hc, hfx] using h1
        · simpa [scan, dfs, hc, hfx] using h2
        · exact h3.mono (by simp)
      · by_cases he : (skipTo (stopAt fx p.head?) n).isEmpty = true
        · obtain ⟨new, h1, h2, h3⟩ := ih (skipTo (stopAt fx p.head?) n) st
          refine ⟨new, ?_, ?_, ?_⟩
          · simpa [scan, hc, hfx, he] using h1
          · have hn : skipTo (stopAt fx p.head?) n = [] := by simpa using he
            simp only [scan, dfs, hc, hfx, he, if_true, if_false, Bool.false_eq_true]
            rw [starAlt_skip, he, if_pos rfl, ← hn]
            simpa [he] using h2
          · exact h3.mono (by simp)
        · obtain ⟨new, h1, h2, h3⟩ :=
            ih (skipTo (stopAt fx p.head?) n) (('*' :: p, skipTo (stopAt fx p.head?) n) :: st)
          refine ⟨new ++ [('*' :: p, skipTo (stopAt fx p.head?) n)], ?_, ?_, ?_⟩
          · simpa [scan, hc, hfx, he] using h1
          · simp only [scan, dfs, hc, hfx, he, if_true, if_false, Bool.false_eq_true]
            rw [starAlt_skip, if_neg he, alts_append, ← Bool.or_assoc, h2]
            simp [alts, dfs, hfx]
          · intro e hmem
            rcases List.mem_append.1 hmem with hm | hm
            · exact h3.mono (by simp) e hm
            · have : e = ('*' :: p, skipTo (stopAt fx p.head?) n) := by simpa using hm
              subst this
              refine ⟨by simp [hc], fun _ => skipTo_length _ _, ?_⟩
              intro h
              have h' : skipTo (stopAt fx p.head?) n = [] := h
              apply he; simp [h']
    · cases n with
      | nil => exact ⟨[], by simp [scan, hc], by simp [scan, dfs, hc, alts], by intro e he; cases he⟩
      | cons d n' =>
        by_cases hm : (c = '?' || litEq ci d c) = true
        · obtain ⟨new, h1, h2, h3⟩ := ih n' st
          refine ⟨new, ?_, ?_, ?_⟩
          · simpa [scan, hc, hm] using h1
          · simpa [scan, dfs, hc, hm] using h2
          · exact h3.mono (by simp)
        · exact ⟨[], by simp [scan, hc, hm], by simp [scan, dfs, hc, hm, alts], by intro e he; cases he⟩

theorem popRun_new (fx ci : Bool) (st : Stack) : ∀ new : Stack,
    (∀ e ∈ new, ∀ st', ∃ k, ∀ fuel, run fx ci (fuel + k) e.1 e.2.tail st' =
        if dfs fx ci e.1 e.2.tail then some true else popRun fx ci fuel st') →
    ∃ k, ∀ fuel, popRun fx ci (fuel + k) (new ++ st) =
        if alts fx ci new then some true else popRun fx ci fuel st := by
  intro new
  induction new with
  | nil => intro _; exact ⟨0, by simp [alts]⟩
  | cons e new ih =>
    intro h
    obtain ⟨k2, h2⟩ := ih (fun e' he' => h e' (List.mem_cons_of_mem _ he'))
    obtain ⟨k1, h1⟩ := h e (List.mem_cons_self) (new ++ st)
    refine ⟨k2 + k1, fun fuel => ?_⟩
    simp only [List.cons_append, popRun_cons, alts]
    rw [← Nat.add_assoc, h1 (fuel + k2), h2 fuel]
    by_cases hd : dfs fx ci e.1 e.2.tail = true <;> simp [hd]

/-- total correctness of the stack machine with an arbitrary stack underneath -/
theorem run_spec (fx ci : Bool) (p n : Str) : ∀ st : Stack, ∃ k, ∀ fuel,
    run fx ci (fuel + k) p n st = if dfs fx ci p n then some true else popRun fx ci fuel st := by
  intro st
  obtain ⟨new, hst, hval, hbnd⟩ := scan_spec fx ci p n st
  have ih : ∀ e ∈ new, ∀ st', ∃ k, ∀ fuel, run fx ci (fuel + k) e.1 e.2.tail st' =
      if dfs fx ci e.1 e.2.tail then some true else popRun fx ci fuel st' := by
    intro e he
    have hb := hbnd e he
    exact run_spec fx ci e.1 e.2.tail
  obtain ⟨k, hk⟩ := popRun_new fx ci st new ih
  refine ⟨k + 1, fun fuel => ?_⟩
  rw [← Nat.add_assoc, run_succ, hst, hk fuel, ← hval]
  by_cases hd : (scan fx ci p n st).1 = true <;> simp [hd]
termination_by (p.length, n.length)
decreasing_by
  obtain ⟨h1, h2, h3⟩ := hb
  have hl : e.2.tail.length < e.2.length := by
    cases h : e.2 with
    | nil => exact absurd h h3
    | cons a b => simp
  by_cases hq : e.1.length = p.length
  · rw [hq]; exact Prod.Lex.right _ (by have := h2 hq; omega)
  · exact Prod.Lex.left _ _ (by omega)

theorem run_mono (fx ci : Bool) : ∀ (fuel : Nat) (p n : Str) (st : Stack) (b : Bool),
    run fx ci fuel p n st = some b → run fx ci (fuel + 1) p n st = some b := by
  intro fuel
  induction fuel with
  | zero => intro p n st b h; simp [run] at h
  | succ f ih =>
    intro p n st b h
    rw [run_succ] at h
    rw [run_succ]
    split
    · simpa [*] using h
    · rename_i hs
      simp only [hs, if_false, Bool.false_eq_true] at h
      cases hst : (scan fx ci p n st).2 with
      | nil => simpa [hst, popRun] using h
      | cons e r =>
        rw [hst] at h
        simp only [popRun] at h ⊢
        exact ih _ _ _ _ h

theorem run_mono_le (fx ci : Bool) (p n : Str) (st : Stack) (b : Bool) (f g : Nat) (hfg : f ≤ g)
    (h : run fx ci f p n st = some b) : run fx ci g p n st = some b := by
  induction hfg with
  | refl => exact h
  | step _ ih => exact run_mono fx ci _ p n st b ih

/-! ### 2. dfs versus the documented language -/

namespace Spec

theorem anySuffix_iff (k : Str → Bool) (n : Str) :
    anySuffix k n = true ↔ ∃ a b, n = a ++ b ∧ k b = true := by
  induction n with
  | nil =>
    simp only [anySuffix]
    constructor
    · intro h; exact ⟨[], [], rfl, h⟩
    · rintro ⟨a, b, hab, hk⟩
      have : b = [] := by
        have := congrArg List.length hab; simp at this; exact List.eq_nil_of_length_eq_zero (by omega)
      simpa [this] using hk
  | cons c r ih =>
    simp only [anySuffix, Bool.or_eq_true, ih]
    constructor
    · rintro (h | ⟨a, b, hab, hk⟩)
      · exact ⟨[], c :: r, rfl, h⟩
      · exact ⟨c :: a, b, by simp [hab], hk⟩
    · rintro ⟨a, b, hab, hk⟩
      cases a with
      | nil => left; rw [List.nil_append] at hab; rw [hab]; exact hk
      | cons x a =>
        right
        simp only [List.cons_append, List.cons.injEq] at hab
        exact ⟨a, b, hab.2, hk⟩

theorem matchesB_sound : ∀ (p n : Str), matchesB p n = true → Matches p n := by
  intro p
  induction p with
  | nil =>
    intro n h
    have : n = [] := by simpa [matchesB] using h
    subst this; exact .nil
  | cons c p ih =>
    intro n h
    by_cases hc : c = '*'
    · subst hc
      simp only [matchesB, if_true] at h
      obtain ⟨a, b, hab, hk⟩ := (anySuffix_iff _ _).1 h
      subst hab
      exact .star a (ih b hk)
    · cases n with
      | nil => simp [matchesB, hc] at h
      | cons d n' =>
        simp only [matchesB, hc, if_false, Bool.and_eq_true, Bool.or_eq_true, decide_eq_true_eq] at h
        obtain ⟨h1, h2⟩ := h
        by_cases hq : c = '?'
        · subst hq; exact .any d (ih n' h2)
        · have hd : d = c := by rcases h1 with h1 | h1; exact absurd h1 hq; exact h1
          subst hd
          exact .lit d hc hq (ih n' h2)

theorem matchesB_complete {p n : Str} (h : Matches p n) : matchesB p n = true := by
  induction h with
  | nil => simp [matchesB]
  | star a _ ih =>
    simp only [matchesB, if_true]
    exact (anySuffix_iff _ _).2 ⟨a, _, rfl, ih⟩
  | any d _ ih => simp [matchesB, ih]
  | lit c h1 h2 _ ih => simp [matchesB, h1, ih]

theorem matchesB_iff (p n : Str) : matchesB p n = true ↔ Matches p n :=
  ⟨matchesB_sound p n, matchesB_complete⟩

instance (p n : Str) : Decidable (Matches p n) := decidable_of_iff _ (matchesB_iff p n)

theorem anySuffix_self (k : Str → Bool) (n : Str) (h : k n = true) : anySuffix k n = true :=
  (anySuffix_iff k n).2 ⟨[], n, rfl, h⟩

theorem anySuffix_mono (k k' : Str → Bool) (hk : ∀ m, k m = true → k' m = true) (n : Str)
    (h : anySuffix k n = true) : anySuffix k' n = true := by
  obtain ⟨a, b, hab, hb⟩ := (anySuffix_iff k n).1 h
  exact (anySuffix_iff k' n).2 ⟨a, b, hab, hk b hb⟩

theorem anySuffix_idem (k : Str → Bool) (n : Str) (h : anySuffix (anySuffix k) n = true) :
    anySuffix k n = true := by
  obtain ⟨a, b, hab, hb⟩ := (anySuffix_iff _ n).1 h
  obtain ⟨a', b', hab', hb'⟩ := (anySuffix_iff _ b).1 hb
  exact (anySuffix_iff k n).2 ⟨a ++ a', b', by simp [hab, hab'], hb'⟩

end Spec

open Spec

theorem starAlt_imp_anySuffix (stop : Char → Bool) (k k' : Str → Bool) (hk : ∀ m, k m = true → k' m = true) :
    ∀ n, starAlt stop k n = true → anySuffix k' n = true := by
  intro n
  induction n with
  | nil => intro h; exact hk _ h
  | cons c r ih =>
    intro h
    simp only [starAlt] at h
    simp only [anySuffix, Bool.or_eq_true]
    split at h
    · simp only [Bool.or_eq_true] at h
      rcases h with h | h
      · exact Or.inl (hk _ h)
      · exact Or.inr (ih h)
    · exact Or.inr (ih h)

/-- soundness: whatever `matchglob` accepts is in the documented language (current and repaired code) -/
theorem dfs_sound (fx : Bool) : ∀ (p n : Str), dfs fx false p n = true → matchesB p n = true := by
  intro p
  induction p with
  | nil => intro n h; simpa [dfs, matchesB] using h
  | cons c p ih =>
    intro n h
    by_cases hc : c = '*'
    · simp only [dfs, hc, if_true] at h
      simp only [matchesB, hc, if_true]
      split at h
      · exact anySuffix_self _ _ (ih n h)
      · exact starAlt_imp_anySuffix _ _ _ ih n h
    · cases n with
      | nil => simp [dfs, hc] at h
      | cons d n' =>
        simp only [dfs, hc, if_false] at h
        simp only [matchesB, hc, if_false]
        split at h
        · rename_i hm
          simp only [litEq, Bool.false_and, Bool.or_false] at hm
          simp [hm, ih n' h]
        · cases h

theorem starAlt_const (stop : Char → Bool) (k : Str → Bool) (hk : ∀ m, k m = true) (n : Str) :
    starAlt stop k n = true := by
  induction n with
  | nil => exact hk _
  | cons c r ih => simp only [starAlt]; split <;> simp [hk, ih]

theorem starAlt_never (stop : Char → Bool) (k : Str → Bool) (hs : ∀ c, stop c = false) (n : Str) :
    starAlt stop k n = k [] := by
  induction n with
  | nil => rfl
  | cons c r ih => simp [starAlt, hs, ih]

theorem starAlt_always (stop : Char → Bool) (k : Str → Bool) (hs : ∀ c, stop c = true) (n : Str) :
    starAlt stop k n = anySuffix k n := by
  induction n with
  | nil => rfl
  | cons c r ih => simp [starAlt, anySuffix, hs, ih]

theorem starAlt_of_suffix (stop : Char → Bool) (k : Str → Bool) (d : Char) (b : Str) (hd : stop d = true)
    (hk : k (d :: b) = true) : ∀ a : Str, starAlt stop k (a ++ d :: b) = true := by
  intro a
  induction a with
  | nil => simp [starAlt, hd, hk]
  | cons x a ih => simp only [List.cons_append, starAlt]; split <;> simp [ih]

/-- a pattern that starts with a literal only matches names that start with that literal -/
theorem matchesB_lit_head {d : Char} {p b : Str} (h1 : d ≠ '*') (h2 : d ≠ '?')
    (h : matchesB (d :: p) b = true) : ∃ b', b = d :: b' := by
  cases b with
  | nil => simp [matchesB, h1] at h
  | cons x b' =>
    simp only [matchesB, h1, if_false, Bool.and_eq_true, Bool.or_eq_true, decide_eq_true_eq] at h
    rcases h.1 with h | h
    · exact absurd h h2
    · exact ⟨b', by rw [h]⟩

/-- the common star step: if the pattern after `*` is empty or starts with a literal, skipping to that
    literal loses nothing -/
theorem star_step (fx ci : Bool) (p n : Str) (ih : ∀ m, matchesB p m = true → dfs fx ci p m = true)
    (hp : match p with | [] => True | d :: _ => d ≠ '*' ∧ d ≠ '?')
    (h : anySuffix (matchesB p) n = true) :
    starAlt (stopAt fx p.head?) (dfs fx ci p) n = true := by
  cases p with
  | nil =>
    rw [starAlt_never _ _ (by intro c; simp [stopAt])]
    simp [dfs]
  | cons d p' =>
    obtain ⟨a, b, hab, hb⟩ := (anySuffix_iff _ _).1 h
    obtain ⟨b', hb'⟩ := matchesB_lit_head hp.1 hp.2 hb
    subst hab; subst hb'
    exact starAlt_of_suffix _ _ d b' (by simp [stopAt]) (ih _ hb) a

/-- completeness of the repaired algorithm on every pattern -/
theorem dfs_complete_fixed : ∀ (p n : Str), matchesB p n = true → dfs true false p n = true := by
  intro p
  induction p with
  | nil => intro n h; simpa [dfs, matchesB] using h
  | cons c p ih =>
    intro n h
    by_cases hc : c = '*'
    · simp only [matchesB, hc, if_true] at h
      simp only [dfs, hc, if_true, Bool.true_and]
      cases p with
      | nil => simpa using star_step true false [] n ih trivial h
      | cons d p' =>
        by_cases hd : d = '*'
        · subst hd
          simp only [List.head?_cons, decide_true, if_true]
          apply ih
          simp only [matchesB, if_true] at h ⊢
          exact anySuffix_idem _ _ h
        · simp only [List.head?_cons, Option.some.injEq, hd, decide_false, Bool.false_eq_true, if_false]
          by_cases hq : d = '?'
          · subst hq
            rw [starAlt_always _ _ (by intro c; simp [stopAt])]
            exact anySuffix_mono _ _ ih n h
          · exact star_step true false (d :: p') n ih ⟨hd, hq⟩ h
    · cases n with
      | nil => simp [matchesB, hc] at h
      | cons d n' =>
        simp only [matchesB, hc, if_false, Bool.and_eq_true] at h
        simp only [dfs, hc, if_false, litEq, Bool.false_and, Bool.or_false]
        rw [if_pos h.1]
        exact ih n' h.2

theorem allStar_dfs (ci : Bool) : ∀ p : Str, p ≠ [] → p.all (· == '*') = true → ∀ n, dfs false ci p n = true := by
  intro p
  induction p with
  | nil => intro h; exact absurd rfl h
  | cons c p ih =>
    intro _ hall n
    simp only [List.all_cons, Bool.and_eq_true, beq_iff_eq] at hall
    simp only [dfs, hall.1, if_true, Bool.false_and, Bool.false_eq_true, if_false]
    cases p with
    | nil => rw [starAlt_never _ _ (by intro c; simp [stopAt])]; simp [dfs]
    | cons d p' => exact starAlt_const _ _ (ih (by simp) hall.2) n

/-- completeness of the current algorithm on `starOk` patterns -/
theorem dfs_complete_partial : ∀ (p n : Str), starOk p = true → matchesB p n = true → dfs false false p n = true := by
  intro p
  induction p with
  | nil => intro n _ h; simpa [dfs, matchesB] using h
  | cons c p ih =>
    intro n hok h
    simp only [starOk, Bool.and_eq_true, Bool.or_eq_true, bne_iff_ne, ne_eq] at hok
    obtain ⟨hc', hok'⟩ := hok
    by_cases hc : c = '*'
    · simp only [matchesB, hc, if_true] at h
      simp only [dfs, hc, if_true, Bool.false_and, Bool.false_eq_true, if_false]
      rcases hc' with (hc' | hall) | hlit
      · exact absurd hc hc'
      · cases p with
        | nil => exact star_step false false [] n (fun m => ih m hok') trivial h
        | cons d p' => exact starAlt_const _ _ (allStar_dfs false (d :: p') (by simp) hall) n
      · cases p with
        | nil => exact star_step false false [] n (fun m => ih m hok') trivial h
        | cons d p' =>
          simp only [Bool.and_eq_true, bne_iff_ne, ne_eq] at hlit
          exact star_step false false (d :: p') n (fun m => ih m hok') hlit h
    · cases n with
      | nil => simp [matchesB, hc] at h
      | cons d n' =>
        simp only [matchesB, hc, if_false, Bool.and_eq_true] at h
        simp only [dfs, hc, if_false, litEq, Bool.false_and, Bool.or_false]
        rw [if_pos h.1]
        exact ih n' hok' h.2

theorem cstr_noNul (s : Str) : ∀ c ∈ cstr s, c ≠ '\x00' := by
  induction s with
  | nil => intro c h; cases h
  | cons a r ih =>
    intro c h
    simp only [cstr] at h
    split at h
    · cases h
    · rcases List.mem_cons.1 h with h | h
      · subst h; assumption
      · exact ih c h

theorem cstr_id (s : Str) (h : ∀ c ∈ s, c ≠ '\x00') : cstr s = s := by
  induction s with
  | nil => rfl
  | cons a r ih =>
    simp only [cstr]
    rw [if_neg (h a (by simp)), ih (fun c hc => h c (List.mem_cons_of_mem _ hc))]

end Cppcheck.Glob

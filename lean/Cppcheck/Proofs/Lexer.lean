import Cppcheck.Model.Lexer
/- helper lemmas for C05 (2): relocation equivariance of combineOperators; the lexer on rendered layouts -/
namespace Cppcheck.Lexer
open Cppcheck.Wire

/-! ## A. `combineOperators` commutes with relocations that keep what it reads of the positions

`combineOperators` reads positions in four places only:
  1. the ellipsis test   `n1.col = tok.col + 1 ∧ n2.col = tok.col + 2`       (columns of three `.` tokens; the lines are
                                                                              NOT compared: `DotsOK` below)
  2. the float test      `sameline prev tok`                                   (number before a `.`)
  3. the suffix test     `sameline tok' n`                                     (`1.` before `f`, `e5`, …)
  4. the operator guard  `sameline tok n ∧ tok.col + 1 = n.col`                (`+` `=`, `<` `<`, `-` `>` …)
`Pres φ P` says that `φ` keeps these relations between any two positions satisfying `P`. -/

abbrev Pos := Nat × Nat

/-- what `φ` has to preserve between positions of the set `P` -/
structure Pres (φ : Pos → Pos) (P Q : Pos → Prop) : Prop where
  /-- "same line" between any two token positions -/
  line : ∀ p q, P p → P q → ((φ p).1 = (φ q).1 ↔ p.1 = q.1)
  /-- "next column" between the positions of two one-character operator tokens on one line -/
  succ : ∀ p q, Q p → Q q → p.1 = q.1 → ((φ p).2 + 1 = (φ q).2 ↔ p.2 + 1 = q.2)

/-- a token that is a one-character operator sits at a position of `Q` -/
def Wk (Q : Pos → Prop) (t : RTok) : Prop := t.op ≠ '\x00' → Q t.pos

def OpIn (Q : Pos → Prop) (ts : List RTok) : Prop := ∀ t ∈ ts, Wk Q t

theorem OpIn.tail {Q : Pos → Prop} {t : RTok} {ts : List RTok} (h : OpIn Q (t :: ts)) : OpIn Q ts :=
  fun x hx => h x (List.mem_cons_of_mem _ hx)

theorem OpIn.head {Q : Pos → Prop} {t : RTok} {ts : List RTok} (h : OpIn Q (t :: ts)) : Wk Q t :=
  h t (by simp)

theorem OpIn.drop {Q : Pos → Prop} {ts : List RTok} (h : OpIn Q ts) (k : Nat) : OpIn Q (ts.drop k) :=
  fun x hx => h x (List.mem_of_mem_drop hx)

theorem OpIn.cons {Q : Pos → Prop} {t : RTok} {ts : List RTok} (ht : Wk Q t) (h : OpIn Q ts) : OpIn Q (t :: ts) := by
  intro x hx
  rcases List.mem_cons.1 hx with rfl | hx
  · exact ht
  · exact h x hx

/-- any spelling at a position of `Q` is fine -/
theorem Wk.setstr {Q : Pos → Prop} {t : RTok} (h : Q t.pos) (s : Str) : Wk Q (t.setstr s) := fun _ => h

theorem tOp_long (s : Str) (h : 2 ≤ s.length) : tOp s = '\x00' := by
  match s, h with
  | _ :: _ :: _, _ => rfl

theorem tNumber_ne_nil {s : Str} (h : tNumber s = true) : s ≠ [] := by
  intro e; subst e; cases h

/-- the ellipsis test compares columns only; three directly following `.` tokens are required to share a line
    (true of every C/C++ program: consecutive `.` tokens only arise from `...`) -/
def dotsLine (tok : RTok) (rest : List RTok) : Prop :=
  match rest with
  | n1 :: n2 :: _ => tok.op = '.' → n1.op = '.' → n2.op = '.' → tok.line = n1.line ∧ n1.line = n2.line
  | _ => True

def DotsOK : List RTok → Prop
  | [] => True
  | t :: r => dotsLine t r ∧ DotsOK r

theorem DotsOK.drop : ∀ (ts : List RTok) (k : Nat), DotsOK ts → DotsOK (ts.drop k) := by
  intro ts
  induction ts with
  | nil => intro k _; simp [DotsOK]
  | cons t r ih =>
    intro k h
    cases k with
    | zero => exact h
    | succ k => exact ih k h.2

@[simp] theorem reloc_str (φ : Pos → Pos) (t : RTok) : (reloc φ t).str = t.str := by cases t; rfl
@[simp] theorem reloc_op (φ : Pos → Pos) (t : RTok) : (reloc φ t).op = t.op := by cases t; rfl
@[simp] theorem reloc_number (φ : Pos → Pos) (t : RTok) : (reloc φ t).number = t.number := by cases t; rfl
@[simp] theorem reloc_name (φ : Pos → Pos) (t : RTok) : (reloc φ t).name = t.name := by cases t; rfl
@[simp] theorem reloc_comment (φ : Pos → Pos) (t : RTok) : (reloc φ t).comment = t.comment := by cases t; rfl
@[simp] theorem reloc_line (φ : Pos → Pos) (t : RTok) : (reloc φ t).line = (φ t.pos).1 := by cases t; rfl
@[simp] theorem reloc_col (φ : Pos → Pos) (t : RTok) : (reloc φ t).col = (φ t.pos).2 := by cases t; rfl
@[simp] theorem reloc_isOneOf (φ : Pos → Pos) (t : RTok) (s : String) : isOneOf (reloc φ t) s = isOneOf t s := by cases t; rfl
@[simp] theorem reloc_startsWithOneOf (φ : Pos → Pos) (t : RTok) (s : String) :
    startsWithOneOf (reloc φ t) s = startsWithOneOf t s := by cases t; rfl
@[simp] theorem reloc_isFloatSuffix (φ : Pos → Pos) (t : RTok) : isFloatSuffix (reloc φ t) = isFloatSuffix t := by cases t; rfl
@[simp] theorem reloc_setstr (φ : Pos → Pos) (t : RTok) (s : Str) : reloc φ (t.setstr s) = (reloc φ t).setstr s := by cases t; rfl
@[simp] theorem setstr_pos (t : RTok) (s : Str) : (t.setstr s).pos = t.pos := by cases t; rfl
@[simp] theorem setstr_str (t : RTok) (s : Str) : (t.setstr s).str = s := by cases t; rfl
@[simp] theorem setstr_line (t : RTok) (s : Str) : (t.setstr s).line = t.line := by cases t; rfl
@[simp] theorem setstr_col (t : RTok) (s : Str) : (t.setstr s).col = t.col := by cases t; rfl

theorem findOpen_reloc (φ : Pos → Pos) : ∀ (ts : List RTok) (lvl : Nat),
    findOpen lvl (ts.map (reloc φ)) = (findOpen lvl ts).map (List.map (reloc φ)) := by
  intro ts
  induction ts with
  | nil => intro lvl; rfl
  | cons t r ih =>
    intro lvl
    simp only [List.map_cons, findOpen, reloc_op, reloc_isOneOf]
    by_cases h1 : t.op = ')'
    · simp [h1, ih]
    · by_cases h2 : t.op = '('
      · cases lvl <;> simp [h2, ih]
      · by_cases h3 : isOneOf t ";{}" = true
        · simp [h1, h2, h3]
        · simp [h1, h2, h3, ih]

theorem declWalk_reloc (φ : Pos → Pos) : ∀ (ts : List RTok) (moved : Bool),
    declWalk moved (ts.map (reloc φ)) = declWalk moved ts := by
  intro ts
  induction ts with
  | nil => intro moved; rfl
  | cons t r ih =>
    intro moved
    cases r with
    | nil => rfl
    | cons p r' =>
      have := ih true
      simp only [List.map_cons] at this
      simp only [List.map_cons, declWalk, reloc_name, reloc_str, reloc_op, reloc_isOneOf, this]

theorem isFuncDeclRef_reloc (φ : Pos → Pos) (ts : List RTok) :
    isFuncDeclRef (ts.map (reloc φ)) = isFuncDeclRef ts := by
  unfold isFuncDeclRef
  rw [findOpen_reloc]
  cases h : findOpen 0 ts with
  | none => rfl
  | some l =>
    cases l with
    | nil => rfl
    | cons f r =>
      simp only [Option.map_some, List.map_cons, reloc_name]
      have := declWalk_reloc φ (f :: r) false
      simp only [List.map_cons] at this
      rw [this]

theorem isAlt_reloc (φ : Pos → Pos) (p n : RTok) (r : List RTok) :
    isAltAndBitandBitor (reloc φ p) (reloc φ n) (r.map (reloc φ)) = isAltAndBitandBitor p n r := by
  cases r <;> rfl

/-- all tokens of a list sit at positions of `P` -/
def AllIn (P : Pos → Prop) (ts : List RTok) : Prop := ∀ t ∈ ts, P t.pos

theorem AllIn.tail {P : Pos → Prop} {t : RTok} {ts : List RTok} (h : AllIn P (t :: ts)) : AllIn P ts :=
  fun x hx => h x (List.mem_cons_of_mem _ hx)

theorem AllIn.head {P : Pos → Prop} {t : RTok} {ts : List RTok} (h : AllIn P (t :: ts)) : P t.pos :=
  h t (by simp)

theorem AllIn.drop {P : Pos → Prop} {ts : List RTok} (h : AllIn P ts) (k : Nat) : AllIn P (ts.drop k) :=
  fun x hx => h x (List.mem_of_mem_drop hx)

theorem AllIn.cons {P : Pos → Prop} {t : RTok} {ts : List RTok} (ht : P t.pos) (h : AllIn P ts) : AllIn P (t :: ts) := by
  intro x hx
  rcases List.mem_cons.1 hx with rfl | hx
  · exact ht
  · exact h x hx

theorem sameline_reloc {φ : Pos → Pos} {P Q : Pos → Prop} (hφ : Pres φ P Q) {a b : RTok} (ha : P a.pos) (hb : P b.pos) :
    sameline (reloc φ a) (reloc φ b) = sameline a b := by
  simp only [sameline, reloc_line]
  exact decide_eq_decide.2 (hφ.line a.pos b.pos ha hb)


theorem and_decide_congr {A B C D : Prop} [Decidable A] [Decidable B] [Decidable C] [Decidable D]
    (h : (A ∧ B) ↔ (C ∧ D)) : (decide A && decide B) = (decide C && decide D) := by
  rw [Bool.eq_iff_iff]
  simp only [Bool.and_eq_true, decide_eq_true_eq]
  exact h

theorem ellTest_reloc {φ : Pos → Pos} {P Q : Pos → Prop} (hφ : Pres φ P Q) {tok : RTok} {rest : List RTok}
    (hqt : Wk Q tok) (hqr : OpIn Q rest) (hop : tok.op = '.') (hdl : dotsLine tok rest) :
    ellTest (reloc φ tok) (rest.map (reloc φ)) = ellTest tok rest := by
  cases rest with
  | nil => rfl
  | cons n1 r1 =>
    cases r1 with
    | nil => rfl
    | cons n2 r2 =>
      simp only [List.map_cons, ellTest, reloc_op]
      by_cases c1 : n1.op = '.'
      · by_cases c2 : n2.op = '.'
        · have hl := hdl hop c1 c2
          have ht : Q tok.pos := hqt (by rw [hop]; decide)
          have h1 : Q n1.pos := hqr n1 (by simp) (by rw [c1]; decide)
          have h2 : Q n2.pos := hqr n2 (by simp) (by rw [c2]; decide)
          have s1 := hφ.succ tok.pos n1.pos ht h1 hl.1
          have s2 := hφ.succ n1.pos n2.pos h1 h2 hl.2
          have key : (decide ((reloc φ n1).col = (reloc φ tok).col + 1) && decide ((reloc φ n2).col = (reloc φ tok).col + 2))
              = (decide (n1.col = tok.col + 1) && decide (n2.col = tok.col + 2)) := by
            apply and_decide_congr
            simp only [reloc_col, RTok.pos] at s1 s2 ⊢
            constructor
            · rintro ⟨a, b⟩
              have e1 := s1.1 (by omega)
              have e2 := s2.1 (by omega)
              omega
            · rintro ⟨a, b⟩
              have e1 := s1.2 (by omega)
              have e2 := s2.2 (by omega)
              omega
          simp only [c1, c2, decide_true, Bool.true_and, Bool.and_true]
          exact key
        · simp only [c2, decide_false, Bool.and_false, Bool.false_and]
      · simp only [c1, decide_false, Bool.false_and]

/-- state after a block, relocated -/
def mapS (φ : Pos → Pos) (s : List RTok × RTok × List RTok) : List RTok × RTok × List RTok :=
  (s.1.map (reloc φ), reloc φ s.2.1, s.2.2.map (reloc φ))

def AllInS (P : Pos → Prop) (s : List RTok × RTok × List RTok) : Prop := AllIn P s.1 ∧ P s.2.1.pos ∧ AllIn P s.2.2

theorem floatMerge_reloc {φ : Pos → Pos} {P Q : Pos → Prop} (hφ : Pres φ P Q) {prev : List RTok} {tok : RTok} {rest : List RTok}
    (hp : AllIn P prev) (ht : P tok.pos) (hr : AllIn P rest) :
    floatMerge (prev.map (reloc φ)) (reloc φ tok) (rest.map (reloc φ)) = mapS φ (floatMerge prev tok rest) := by
  cases prev with
  | nil => rfl
  | cons p pr =>
    have hpp : P p.pos := hp p (by simp)
    simp only [List.map_cons, floatMerge, reloc_number, reloc_str, sameline_reloc hφ hpp ht]
    split
    · cases rest with
      | nil => rfl
      | cons n r =>
        have hn : P n.pos := hr n (by simp)
        have hs : sameline ((reloc φ tok).setstr (p.str ++ ['.'])) (reloc φ n) = sameline (tok.setstr (p.str ++ ['.'])) n := by
          rw [← reloc_setstr]; exact sameline_reloc hφ (by simpa using ht) hn
        have ha := isAlt_reloc φ (tok.setstr (p.str ++ ['.'])) n r
        simp only [reloc_setstr] at ha
        simp only [List.map_cons, hs, reloc_isFloatSuffix, reloc_startsWithOneOf, ha, reloc_str]
        split <;> rfl
    · rfl

theorem floatMerge_allIn {P : Pos → Prop} {prev : List RTok} {tok : RTok} {rest : List RTok}
    (hp : AllIn P prev) (ht : P tok.pos) (hr : AllIn P rest) : AllInS P (floatMerge prev tok rest) := by
  unfold floatMerge
  cases prev with
  | nil => exact ⟨hp, ht, hr⟩
  | cons p pr =>
    simp only
    split
    · cases rest with
      | nil => exact ⟨hp.tail, by simpa using ht, hr⟩
      | cons n r =>
        simp only
        split
        · exact ⟨hp.tail, by simpa using ht, hr.tail⟩
        · exact ⟨hp.tail, by simpa using ht, hr⟩
    · exact ⟨hp, ht, hr⟩

theorem dotNumber_reloc (φ : Pos → Pos) (s : List RTok × RTok × List RTok) :
    dotNumber (mapS φ s) = mapS φ (dotNumber s) := by
  obtain ⟨p, t, r⟩ := s
  cases r with
  | nil => rfl
  | cons n r' =>
    simp only [mapS, dotNumber, List.map_cons, reloc_number, reloc_str]
    split <;> rfl

theorem dotNumber_allIn {P : Pos → Prop} {s : List RTok × RTok × List RTok} (h : AllInS P s) : AllInS P (dotNumber s) := by
  obtain ⟨p, t, r⟩ := s
  cases r with
  | nil => exact h
  | cons n r' =>
    simp only [dotNumber]
    split
    · exact ⟨h.1, by simpa using h.2.1, h.2.2.tail⟩
    · exact h

theorem expBlock_reloc (φ : Pos → Pos) (tok : RTok) (rest : List RTok) :
    expBlock (reloc φ tok) (rest.map (reloc φ)) = ((reloc φ (expBlock tok rest).1), (expBlock tok rest).2.map (reloc φ)) := by
  unfold expBlock
  simp only [reloc_str]
  by_cases h : expTrig tok.str = true
  · simp only [h, if_true]
    cases rest with
    | nil => rfl
    | cons n1 r1 =>
      cases r1 with
      | nil => rfl
      | cons n2 r2 =>
        simp only [List.map_cons, reloc_isOneOf, reloc_number, reloc_op, reloc_str]
        by_cases h2 : (isOneOf n1 "+-" && n2.number) = true
        · simp only [h2, if_true]; rfl
        · simp only [h2]; rfl
  · simp only [h]; rfl

theorem expBlock_allIn {P : Pos → Prop} {tok : RTok} {rest : List RTok} (ht : P tok.pos) (hr : AllIn P rest) :
    P (expBlock tok rest).1.pos ∧ AllIn P (expBlock tok rest).2 := by
  unfold expBlock
  by_cases h : expTrig tok.str = true
  · simp only [h, if_true]
    cases rest with
    | nil => exact ⟨ht, hr⟩
    | cons n1 r1 =>
      cases r1 with
      | nil => exact ⟨ht, hr⟩
      | cons n2 r2 =>
        by_cases h2 : (isOneOf n1 "+-" && n2.number) = true
        · simp only [h2, if_true]
          exact ⟨by simpa using ht, hr.tail.tail⟩
        · simp only [h2]
          exact ⟨ht, hr⟩
  · simp only [h]
    exact ⟨ht, hr⟩


theorem opGuard_reloc {φ : Pos → Pos} {P Q : Pos → Prop} (hφ : Pres φ P Q) {tok n : RTok} (ht : P tok.pos) (hn : P n.pos)
    (hqt : Wk Q tok) (hqn : Wk Q n) :
    opGuard (reloc φ tok) (reloc φ n) = opGuard tok n := by
  unfold opGuard
  rw [sameline_reloc hφ ht hn]
  simp only [reloc_op]
  by_cases hz : (decide (tok.op = '\x00') || decide (n.op = '\x00')) = true
  · simp only [hz, Bool.not_true, Bool.false_and]
  · simp only [Bool.or_eq_true, decide_eq_true_eq, not_or] at hz
    by_cases hs : sameline tok n = true
    · have hl : tok.pos.1 = n.pos.1 := by simpa [sameline, RTok.pos] using hs
      have hc := hφ.succ tok.pos n.pos (hqt hz.1) (hqn hz.2) hl
      have key : decide ((reloc φ tok).col + 1 = (reloc φ n).col) = decide (tok.col + 1 = n.col) := decide_eq_decide.2 hc
      rw [key]
    · have : sameline tok n = false := by simpa using hs
      simp only [this, Bool.and_false, Bool.false_and]

def mapTR (φ : Pos → Pos) (s : RTok × List RTok) : RTok × List RTok := (reloc φ s.1, s.2.map (reloc φ))

theorem opMerge_reloc (φ : Pos → Pos) (prev : List RTok) (st : Bool) (tok n : RTok) (r : List RTok) :
    opMerge (prev.map (reloc φ)) st (reloc φ tok) (reloc φ n) (r.map (reloc φ)) = mapTR φ (opMerge prev st tok n r) := by
  unfold opMerge
  simp only [reloc_op, reloc_isOneOf, reloc_str, isFuncDeclRef_reloc]
  by_cases c1 : (decide (n.op = '=') && isOneOf tok "=!<>+-*/%&|^") = true
  · simp only [c1, if_true]
    by_cases c2 : (decide (tok.op = '&') && !st && isFuncDeclRef prev) = true
    · simp only [c2, if_true]; rfl
    · simp only [c2, Bool.false_eq_true, if_false]; rfl
  · simp only [c1, Bool.false_eq_true, if_false]
    by_cases c3 : ((decide (tok.op = '|') || decide (tok.op = '&')) && decide (tok.op = n.op)) = true
    · simp only [c3, if_true]; rfl
    · simp only [c3, Bool.false_eq_true, if_false]
      by_cases c4 : (decide (tok.op = ':') && decide (n.op = ':')) = true
      · simp only [c4, if_true]; rfl
      · simp only [c4, Bool.false_eq_true, if_false]
        by_cases c5 : (decide (tok.op = '-') && decide (n.op = '>')) = true
        · simp only [c5, if_true]; rfl
        · simp only [c5, Bool.false_eq_true, if_false]
          by_cases c6 : ((decide (tok.op = '<') || decide (tok.op = '>')) && decide (tok.op = n.op)) = true
          · simp only [c6, if_true]
            cases r with
            | nil => rfl
            | cons e r1 =>
              cases r1 with
              | nil => rfl
              | cons e2 r2 =>
                simp only [List.map_cons, reloc_op, reloc_str]
                by_cases c7 : (decide (e.op = '=') && decide (e2.op ≠ '=')) = true
                · simp only [c7, if_true]; rfl
                · simp only [c7, Bool.false_eq_true, if_false]; rfl
          · simp only [c6, Bool.false_eq_true, if_false]
            by_cases c8 : ((decide (tok.op = '+') || decide (tok.op = '-')) && decide (tok.op = n.op)) = true
            · simp only [c8, if_true]
              have hp : headNumber (prev.map (reloc φ)) = headNumber prev := by cases prev <;> simp [headNumber]
              have hr : headNumber (r.map (reloc φ)) = headNumber r := by cases r <;> simp [headNumber]
              rw [hp, hr]
              split
              · rfl
              · split <;> rfl
            · simp only [c8, Bool.false_eq_true, if_false]; rfl

theorem opMerge_allIn {P : Pos → Prop} {prev : List RTok} {st : Bool} {tok n : RTok} {r : List RTok}
    (ht : P tok.pos) (hr : AllIn P (n :: r)) : P (opMerge prev st tok n r).1.pos ∧ AllIn P (opMerge prev st tok n r).2 := by
  have hr' : AllIn P r := hr.tail
  have t1 : ∀ s, P (tok.setstr s).pos := fun s => by simpa using ht
  unfold opMerge
  split
  · split
    · exact ⟨ht, hr⟩
    · exact ⟨t1 _, hr'⟩
  · split
    · exact ⟨t1 _, hr'⟩
    · split
      · exact ⟨t1 _, hr'⟩
      · split
        · exact ⟨t1 _, hr'⟩
        · split
          · split
            · split
              · exact ⟨t1 _, hr'.tail⟩
              · exact ⟨t1 _, hr'⟩
            · exact ⟨t1 _, hr'⟩
          · split
            · split
              · exact ⟨ht, hr⟩
              · split
                · exact ⟨ht, hr⟩
                · exact ⟨t1 _, hr'⟩
            · exact ⟨ht, hr⟩

theorem opBlock_reloc {φ : Pos → Pos} {P Q : Pos → Prop} (hφ : Pres φ P Q) (prev : List RTok) (st : Bool) {tok : RTok} {rest : List RTok}
    (ht : P tok.pos) (hr : AllIn P rest) (hqt : Wk Q tok) (hqr : OpIn Q rest) :
    opBlock (prev.map (reloc φ)) st (reloc φ tok) (rest.map (reloc φ)) = mapTR φ (opBlock prev st tok rest) := by
  cases rest with
  | nil => rfl
  | cons n r =>
    simp only [List.map_cons, opBlock, opGuard_reloc hφ ht (hr n (by simp)) hqt (hqr n (by simp)), opMerge_reloc]
    split <;> rfl

theorem opBlock_allIn {P : Pos → Prop} {prev : List RTok} {st : Bool} {tok : RTok} {rest : List RTok}
    (ht : P tok.pos) (hr : AllIn P rest) : P (opBlock prev st tok rest).1.pos ∧ AllIn P (opBlock prev st tok rest).2 := by
  cases rest with
  | nil => exact ⟨ht, hr⟩
  | cons n r =>
    simp only [opBlock]
    split
    · exact opMerge_allIn ht hr
    · exact ⟨ht, hr⟩

theorem dotBlock_reloc {φ : Pos → Pos} {P Q : Pos → Prop} (hφ : Pres φ P Q) {prev : List RTok} {tok : RTok} {rest : List RTok}
    (hp : AllIn P prev) (ht : P tok.pos) (hr : AllIn P rest) (hqt : Wk Q tok) (hqr : OpIn Q rest) (hdl : dotsLine tok rest) :
    dotBlock (prev.map (reloc φ)) (reloc φ tok) (rest.map (reloc φ)) =
      ((dotBlock prev tok rest).1, mapS φ (dotBlock prev tok rest).2) := by
  unfold dotBlock
  simp only [reloc_op]
  by_cases hop : tok.op = '.'
  · simp only [hop, if_true, ellTest_reloc hφ hqt hqr hop hdl, floatMerge_reloc hφ hp ht hr, dotNumber_reloc]
    split
    · simp only [mapS, List.map_drop]; rfl
    · rfl
  · simp only [hop, if_false]; rfl

theorem dotBlock_allIn {P : Pos → Prop} {prev : List RTok} {tok : RTok} {rest : List RTok}
    (hp : AllIn P prev) (ht : P tok.pos) (hr : AllIn P rest) : AllInS P (dotBlock prev tok rest).2 := by
  unfold dotBlock
  split
  · split
    · exact ⟨hp, by simpa using ht, hr.drop 2⟩
    · exact dotNumber_allIn (floatMerge_allIn hp ht hr)
  · exact ⟨hp, ht, hr⟩


theorem scopeProbe_reloc (φ : Pos → Pos) (prev : List RTok) :
    scopeProbe (prev.map (reloc φ)) = scopeProbe prev := by
  induction prev with
  | nil => rfl
  | cons a r ih => simp only [List.map_cons, scopeProbe, reloc_isOneOf, reloc_op, ih]

/-- the "executable scope" flag pushed at a `{` is always false: the look-back skips `)` as well -/
theorem scopeProbe_false (prev : List RTok) : scopeProbe prev = false := by
  induction prev with
  | nil => rfl
  | cons a r ih =>
    simp only [scopeProbe]
    split
    · exact ih
    · rename_i h
      simp only [isOneOf, Bool.and_eq_true, ne_eq, decide_eq_true_eq, not_and] at h
      by_cases hc : a.op = ')'
      · exfalso
        have := h (by rw [hc]; decide)
        apply this
        rw [hc]; decide
      · simp [hc]

def OpInS (Q : Pos → Prop) (s : List RTok × RTok × List RTok) : Prop := OpIn Q s.1 ∧ Wk Q s.2.1 ∧ OpIn Q s.2.2

theorem floatMerge_opIn {Q : Pos → Prop} {prev : List RTok} {tok : RTok} {rest : List RTok}
    (hp : OpIn Q prev) (ht : Q tok.pos) (hr : OpIn Q rest) : OpInS Q (floatMerge prev tok rest) ∧ Q (floatMerge prev tok rest).2.1.pos := by
  have w : Wk Q tok := fun _ => ht
  unfold floatMerge
  cases prev with
  | nil => exact ⟨⟨hp, w, hr⟩, ht⟩
  | cons p pr =>
    simp only
    split
    · cases rest with
      | nil => exact ⟨⟨hp.tail, Wk.setstr ht _, hr⟩, ht⟩
      | cons n r =>
        simp only
        split
        · exact ⟨⟨hp.tail, Wk.setstr ht _, hr.tail⟩, ht⟩
        · exact ⟨⟨hp.tail, Wk.setstr ht _, hr⟩, ht⟩
    · exact ⟨⟨hp, w, hr⟩, ht⟩

theorem dotNumber_opIn {Q : Pos → Prop} {s : List RTok × RTok × List RTok} (h : OpInS Q s) (hq : Q s.2.1.pos) :
    OpInS Q (dotNumber s) := by
  obtain ⟨p, t, r⟩ := s
  cases r with
  | nil => exact h
  | cons n r' =>
    simp only [dotNumber]
    split
    · exact ⟨h.1, Wk.setstr hq _, h.2.2.tail⟩
    · exact h

theorem dotBlock_opIn {Q : Pos → Prop} {prev : List RTok} {tok : RTok} {rest : List RTok}
    (hp : OpIn Q prev) (ht : Wk Q tok) (hr : OpIn Q rest) : OpInS Q (dotBlock prev tok rest).2 := by
  unfold dotBlock
  split
  · rename_i hop
    have hq : Q tok.pos := ht (by rw [hop]; decide)
    split
    · exact ⟨hp, Wk.setstr hq _, hr.drop 2⟩
    · have := floatMerge_opIn hp hq hr
      exact dotNumber_opIn this.1 this.2
  · exact ⟨hp, ht, hr⟩

theorem expBlock_opIn {Q : Pos → Prop} {tok : RTok} {rest : List RTok} (ht : Wk Q tok) (hr : OpIn Q rest) :
    Wk Q (expBlock tok rest).1 ∧ OpIn Q (expBlock tok rest).2 := by
  unfold expBlock
  by_cases h : expTrig tok.str = true
  · simp only [h, if_true]
    cases rest with
    | nil => exact ⟨ht, hr⟩
    | cons n1 r1 =>
      cases r1 with
      | nil => exact ⟨ht, hr⟩
      | cons n2 r2 =>
        by_cases h2 : (isOneOf n1 "+-" && n2.number) = true
        · simp only [h2, if_true]
          refine ⟨?_, hr.tail.tail⟩
          intro hop
          exfalso
          apply hop
          have hne : tok.str ≠ [] := by
            apply tNumber_ne_nil
            simp only [expTrig, Bool.and_eq_true] at h
            exact h.1.1
          show tOp (tok.str ++ [n1.op] ++ n2.str) = '\x00'
          apply tOp_long
          cases hs : tok.str with
          | nil => exact absurd hs hne
          | cons a b => simp; omega
        · simp only [h2]
          exact ⟨ht, hr⟩
  · simp only [h]
    exact ⟨ht, hr⟩

theorem opMerge_opIn {Q : Pos → Prop} {prev : List RTok} {st : Bool} {tok n : RTok} {r : List RTok}
    (ht : Q tok.pos) (hr : OpIn Q (n :: r)) : Wk Q (opMerge prev st tok n r).1 ∧ OpIn Q (opMerge prev st tok n r).2 := by
  have hr' : OpIn Q r := hr.tail
  have w : Wk Q tok := fun _ => ht
  have t1 : ∀ s, Wk Q (tok.setstr s) := fun s => Wk.setstr ht s
  unfold opMerge
  split
  · split
    · exact ⟨w, hr⟩
    · exact ⟨t1 _, hr'⟩
  · split
    · exact ⟨t1 _, hr'⟩
    · split
      · exact ⟨t1 _, hr'⟩
      · split
        · exact ⟨t1 _, hr'⟩
        · split
          · split
            · split
              · exact ⟨t1 _, hr'.tail⟩
              · exact ⟨t1 _, hr'⟩
            · exact ⟨t1 _, hr'⟩
          · split
            · split
              · exact ⟨w, hr⟩
              · split
                · exact ⟨w, hr⟩
                · exact ⟨t1 _, hr'⟩
            · exact ⟨w, hr⟩

theorem opBlock_opIn {Q : Pos → Prop} {prev : List RTok} {st : Bool} {tok : RTok} {rest : List RTok}
    (ht : Wk Q tok) (hr : OpIn Q rest) : Wk Q (opBlock prev st tok rest).1 ∧ OpIn Q (opBlock prev st tok rest).2 := by
  cases rest with
  | nil => exact ⟨ht, hr⟩
  | cons n r =>
    simp only [opBlock]
    split
    · rename_i hg
      have hop : tok.op ≠ '\x00' := by
        simp only [opGuard, Bool.and_eq_true, Bool.not_eq_true', Bool.or_eq_false_iff, decide_eq_false_iff_not] at hg
        exact hg.1.1.1
      exact opMerge_opIn (ht hop) hr
    · exact ⟨ht, hr⟩

theorem combineStep_reloc {φ : Pos → Pos} {P Q : Pos → Prop} (hφ : Pres φ P Q) {prev : List RTok} (scope : List Bool) {tok : RTok}
    {rest : List RTok} (hp : AllIn P prev) (ht : P tok.pos) (hr : AllIn P rest)
    (hqp : OpIn Q prev) (hqt : Wk Q tok) (hqr : OpIn Q rest) (hdl : dotsLine tok rest) :
    combineStep (prev.map (reloc φ)) scope (reloc φ tok) (rest.map (reloc φ)) =
      ((combineStep prev scope tok rest).1.map (reloc φ), (combineStep prev scope tok rest).2.1,
       (combineStep prev scope tok rest).2.2.map (reloc φ)) := by
  unfold combineStep
  simp only [reloc_op]
  by_cases h1 : tok.op = '{'
  · simp only [h1, if_true]
    by_cases h2 : scopeTop scope = true
    · simp only [h2, if_true, List.map_cons]
    · simp only [h2, Bool.false_eq_true, if_false, List.map_cons, scopeProbe_reloc]
  · simp only [h1, if_false]
    by_cases h3 : tok.op = '}'
    · simp only [h3, if_true, List.map_cons]
    · simp only [h3, if_false]
      rw [dotBlock_reloc hφ hp ht hr hqt hqr hdl]
      have hd := dotBlock_allIn hp ht hr
      have hdq := dotBlock_opIn hqp hqt hqr
      generalize dotBlock prev tok rest = d at hd hdq ⊢
      obtain ⟨dc, dp, dt, dr⟩ := d
      simp only [mapS]
      by_cases h4 : dc = true
      · simp only [h4, if_true, List.map_cons]
      · simp only [h4, Bool.false_eq_true, if_false]
        rw [expBlock_reloc]
        have he := expBlock_allIn hd.2.1 hd.2.2
        have heq := expBlock_opIn hdq.2.1 hdq.2.2
        generalize expBlock dt dr = e at he heq ⊢
        obtain ⟨et, er⟩ := e
        simp only
        rw [opBlock_reloc hφ dp (scopeTop scope) he.1 he.2 heq.1 heq.2]
        simp only [mapTR, List.map_cons]

theorem combineStep_opIn {Q : Pos → Prop} {prev : List RTok} {scope : List Bool} {tok : RTok} {rest : List RTok}
    (hp : OpIn Q prev) (ht : Wk Q tok) (hr : OpIn Q rest) :
    OpIn Q (combineStep prev scope tok rest).1 ∧ OpIn Q (combineStep prev scope tok rest).2.2 := by
  unfold combineStep
  by_cases h1 : tok.op = '{'
  · simp only [h1, if_true]
    split <;> exact ⟨OpIn.cons ht hp, hr⟩
  · simp only [h1, if_false]
    by_cases h3 : tok.op = '}'
    · simp only [h3, if_true]
      exact ⟨OpIn.cons ht hp, hr⟩
    · simp only [h3, if_false]
      have hd := dotBlock_opIn hp ht hr
      generalize dotBlock prev tok rest = d at hd ⊢
      obtain ⟨dc, dp, dt, dr⟩ := d
      by_cases h4 : dc = true
      · simp only [h4, if_true]
        exact ⟨OpIn.cons hd.2.1 hd.1, hd.2.2⟩
      · simp only [h4, Bool.false_eq_true, if_false]
        have he := expBlock_opIn hd.2.1 hd.2.2
        have ho := opBlock_opIn (prev := dp) (st := scopeTop scope) he.1 he.2
        exact ⟨OpIn.cons ho.1 hd.1, ho.2⟩

theorem combineStep_allIn {P : Pos → Prop} {prev : List RTok} {scope : List Bool} {tok : RTok} {rest : List RTok}
    (hp : AllIn P prev) (ht : P tok.pos) (hr : AllIn P rest) :
    AllIn P (combineStep prev scope tok rest).1 ∧ AllIn P (combineStep prev scope tok rest).2.2 := by
  unfold combineStep
  by_cases h1 : tok.op = '{'
  · simp only [h1, if_true]
    split <;> exact ⟨AllIn.cons ht hp, hr⟩
  · simp only [h1, if_false]
    by_cases h3 : tok.op = '}'
    · simp only [h3, if_true]
      exact ⟨AllIn.cons ht hp, hr⟩
    · simp only [h3, if_false]
      have hd := dotBlock_allIn hp ht hr
      generalize dotBlock prev tok rest = d at hd ⊢
      obtain ⟨dc, dp, dt, dr⟩ := d
      by_cases h4 : dc = true
      · simp only [h4, if_true]
        exact ⟨AllIn.cons hd.2.1 hd.1, hd.2.2⟩
      · simp only [h4, Bool.false_eq_true, if_false]
        have he := expBlock_allIn hd.2.1 hd.2.2
        have ho := opBlock_allIn (prev := dp) (st := scopeTop scope) he.1 he.2
        exact ⟨AllIn.cons ho.1 hd.1, ho.2⟩

/-! every block hands on a suffix of the tokens behind the current one -/

theorem floatMerge_drop (prev : List RTok) (tok : RTok) (rest : List RTok) :
    ∃ k, (floatMerge prev tok rest).2.2 = rest.drop k := by
  unfold floatMerge
  cases prev with
  | nil => exact ⟨0, rfl⟩
  | cons p pr =>
    simp only
    split
    · cases rest with
      | nil => exact ⟨0, rfl⟩
      | cons n r =>
        simp only
        split
        · exact ⟨1, rfl⟩
        · exact ⟨0, rfl⟩
    · exact ⟨0, rfl⟩

theorem dotNumber_drop (s : List RTok × RTok × List RTok) : ∃ k, (dotNumber s).2.2 = s.2.2.drop k := by
  obtain ⟨p, t, r⟩ := s
  cases r with
  | nil => exact ⟨0, rfl⟩
  | cons n r' =>
    simp only [dotNumber]
    split
    · exact ⟨1, rfl⟩
    · exact ⟨0, rfl⟩

theorem dotBlock_drop (prev : List RTok) (tok : RTok) (rest : List RTok) :
    ∃ k, (dotBlock prev tok rest).2.2.2 = rest.drop k := by
  unfold dotBlock
  split
  · split
    · exact ⟨2, rfl⟩
    · obtain ⟨k1, h1⟩ := floatMerge_drop prev tok rest
      obtain ⟨k2, h2⟩ := dotNumber_drop (floatMerge prev tok rest)
      exact ⟨k1 + k2, by simp only [h2, h1, List.drop_drop]⟩
  · exact ⟨0, rfl⟩

theorem expBlock_drop (tok : RTok) (rest : List RTok) : ∃ k, (expBlock tok rest).2 = rest.drop k := by
  unfold expBlock
  split
  · cases rest with
    | nil => exact ⟨0, rfl⟩
    | cons n1 r1 =>
      cases r1 with
      | nil => exact ⟨0, rfl⟩
      | cons n2 r2 =>
        simp only
        split
        · exact ⟨2, rfl⟩
        · exact ⟨0, rfl⟩
  · exact ⟨0, rfl⟩

theorem opMerge_drop (prev : List RTok) (st : Bool) (tok n : RTok) (r : List RTok) :
    ∃ k, (opMerge prev st tok n r).2 = (n :: r).drop k := by
  unfold opMerge
  split
  · split
    · exact ⟨0, rfl⟩
    · exact ⟨1, rfl⟩
  · split
    · exact ⟨1, rfl⟩
    · split
      · exact ⟨1, rfl⟩
      · split
        · exact ⟨1, rfl⟩
        · split
          · split
            · split
              · exact ⟨2, rfl⟩
              · exact ⟨1, rfl⟩
            · exact ⟨1, rfl⟩
          · split
            · split
              · exact ⟨0, rfl⟩
              · split
                · exact ⟨0, rfl⟩
                · exact ⟨1, rfl⟩
            · exact ⟨0, rfl⟩

theorem opBlock_drop (prev : List RTok) (st : Bool) (tok : RTok) (rest : List RTok) :
    ∃ k, (opBlock prev st tok rest).2 = rest.drop k := by
  cases rest with
  | nil => exact ⟨0, rfl⟩
  | cons n r =>
    simp only [opBlock]
    split
    · exact opMerge_drop prev st tok n r
    · exact ⟨0, rfl⟩

theorem combineStep_drop (prev : List RTok) (scope : List Bool) (tok : RTok) (rest : List RTok) :
    ∃ k, (combineStep prev scope tok rest).2.2 = rest.drop k := by
  unfold combineStep
  split
  · split <;> exact ⟨0, rfl⟩
  · split
    · exact ⟨0, rfl⟩
    · obtain ⟨k1, h1⟩ := dotBlock_drop prev tok rest
      generalize dotBlock prev tok rest = d at h1 ⊢
      obtain ⟨dc, dp, dt, dr⟩ := d
      simp only at h1
      subst h1
      simp only
      by_cases hc : dc = true
      · simp only [hc, if_true]
        exact ⟨k1, rfl⟩
      · simp only [hc, Bool.false_eq_true, if_false]
        obtain ⟨k2, h2⟩ := expBlock_drop dt (rest.drop k1)
        obtain ⟨k3, h3⟩ := opBlock_drop dp (scopeTop scope) (expBlock dt (rest.drop k1)).1 (expBlock dt (rest.drop k1)).2
        refine ⟨k1 + k2 + k3, ?_⟩
        rw [h3, h2, List.drop_drop, List.drop_drop, Nat.add_assoc]

theorem combineLoop_reloc {φ : Pos → Pos} {P Q : Pos → Prop} (hφ : Pres φ P Q) :
    ∀ (n : Nat) (prev : List RTok) (scope : List Bool) (rest : List RTok), AllIn P prev → AllIn P rest →
      OpIn Q prev → OpIn Q rest → DotsOK rest →
      combineLoop n (prev.map (reloc φ)) scope (rest.map (reloc φ)) = (combineLoop n prev scope rest).map (reloc φ) := by
  intro n
  induction n with
  | zero => intro prev scope rest _ _ _ _ _; simp [combineLoop]
  | succ n ih =>
    intro prev scope rest hp hr hqp hqr hd
    cases rest with
    | nil => simp [combineLoop]
    | cons tok r =>
      simp only [List.map_cons, combineLoop]
      rw [combineStep_reloc hφ scope hp hr.head hr.tail hqp hqr.head hqr.tail hd.1]
      have ha := combineStep_allIn (scope := scope) hp hr.head hr.tail
      have hb := combineStep_opIn (scope := scope) hqp hqr.head hqr.tail
      obtain ⟨k, hk⟩ := combineStep_drop prev scope tok r
      exact ih _ _ _ ha.1 ha.2 hb.1 hb.2 (hk ▸ DotsOK.drop r k hd.2)

/-- **relocation equivariance of `combineOperators`** -/
theorem combine_reloc {φ : Pos → Pos} {P Q : Pos → Prop} (hφ : Pres φ P Q) (ts : List RTok) (h : AllIn P ts)
    (hq : OpIn Q ts) (hd : DotsOK ts) :
    combine (ts.map (reloc φ)) = (combine ts).map (reloc φ) := by
  unfold combine
  have := combineLoop_reloc hφ ts.length [] [false] ts (by intro t ht; cases ht) h (by intro t ht; cases ht) hq hd
  simpa using this

theorem removeComments_reloc (φ : Pos → Pos) (ts : List RTok) :
    removeComments (ts.map (reloc φ)) = (removeComments ts).map (reloc φ) := by
  induction ts with
  | nil => rfl
  | cons t r ih =>
    simp only [List.map_cons, removeComments, List.filter_cons, reloc_comment] at ih ⊢
    split
    · simp [ih]
    · exact ih


/-! ## B. `readfile` on a rendered sequence of lexical elements -/

theorem isNameChar_ascii {c : Char} (h : isNameChar c = true) : c.toNat < 128 ∧ c.toNat > 32 := by
  simp only [isNameChar, Char.isAlphanum, Char.isAlpha, Char.isUpper, Char.isLower, Char.isDigit, Bool.or_eq_true,
    Bool.and_eq_true, decide_eq_true_eq] at h
  have e : c.val.toNat = c.toNat := rfl
  rcases h with (((⟨h1, h2⟩ | ⟨h1, h2⟩) | ⟨h1, h2⟩) | h) | h
  · have a := UInt32.le_iff_toNat_le.1 h1; have b := UInt32.le_iff_toNat_le.1 h2
    simp only [e] at a b
    simp at a b
    omega
  · have a := UInt32.le_iff_toNat_le.1 h1; have b := UInt32.le_iff_toNat_le.1 h2
    simp only [e] at a b
    simp at a b
    omega
  · have a := UInt32.le_iff_toNat_le.1 h1; have b := UInt32.le_iff_toNat_le.1 h2
    simp only [e] at a b
    simp at a b
    omega
  · subst h; decide
  · subst h; decide

theorem scanName_stop (num : Bool) (rest : List Char) (h : wordStop num rest = true) :
    scanName num rest = some ([], rest) := by
  cases rest with
  | nil => rfl
  | cons c r =>
    simp only [wordStop, Bool.and_eq_true, Bool.not_eq_true', Bool.and_eq_false_iff, decide_eq_false_iff_not] at h
    unfold scanName
    split
    · rename_i heq; cases heq
    · rename_i heq
      simp only [List.cons.injEq] at heq
      obtain ⟨rfl, rfl⟩ := heq
      simp [h.1]
    · rename_i hno heq
      simp only [List.cons.injEq] at heq
      obtain ⟨rfl, rfl⟩ := heq
      simp [h.1]

theorem scanName_word (num : Bool) : ∀ (s : Str) (rest : List Char), s.all isNameChar = true →
    wordStop num rest = true → scanName num (s ++ rest) = some (s, rest) := by
  intro s
  induction s with
  | nil => intro rest _ h; exact scanName_stop num rest h
  | cons a s ih =>
    intro rest hs hr
    simp only [List.all_cons, Bool.and_eq_true] at hs
    have ha := hs.1
    have hne : a ≠ '\'' := fun e => by subst e; revert ha; decide
    simp only [List.cons_append]
    unfold scanName
    split
    · rename_i heq; cases heq
    · rename_i c r2 heq
      simp only [List.cons.injEq] at heq
      obtain ⟨rfl, heq⟩ := heq
      -- s ++ rest starts with a quote: s = [] and rest starts with it
      cases s with
      | cons b s' =>
        simp only [List.cons_append, List.cons.injEq] at heq
        have hb := hs.2
        simp only [List.all_cons, Bool.and_eq_true] at hb
        have hq : isNameChar '\'' = true := heq.1 ▸ hb.1
        exact absurd hq (by decide)
      | nil =>
        simp only [List.nil_append] at heq
        subst heq
        simp only [wordStop, Bool.and_eq_true, Bool.not_eq_true', Bool.and_eq_false_iff, decide_eq_false_iff_not] at hr
        have hnum : num = false := by
          rcases hr.2 with h | h
          · exact h
          · exact absurd trivial h
        simp [ha, hnum]
    · rename_i c r hno heq
      simp only [List.cons.injEq] at heq
      obtain ⟨rfl, rfl⟩ := heq
      simp only [ha, if_true, ih rest hs.2 hr, Option.map_some, consFst]



theorem scanLine_body : ∀ (b rest : List Char),
    (b.all fun c => c != '\n' && c != '\\' && c != '\r') = true →
    lineEnd rest = true →
    scanLine (b ++ rest) = some (b, rest) := by
  intro b
  induction b with
  | nil =>
    intro rest _ hr
    cases rest with
    | nil => rfl
    | cons c r => simp only [lineEnd, decide_eq_true_eq] at hr; subst hr; simp [scanLine]
  | cons a b ih =>
    intro rest hb hr
    simp only [List.all_cons, Bool.and_eq_true, bne_iff_ne, ne_eq] at hb
    simp only [List.cons_append, scanLine, hb.1.1.1, hb.1.1.2, if_false, ih rest hb.2 hr, Option.map_some, consFst]

theorem scanBlock_body : ∀ (b rest : List Char), noClose b = true →
    scanBlock (b ++ '*' :: '/' :: rest) = (b ++ ['*', '/'], rest) := by
  intro b
  induction b with
  | nil => intro rest _; simp [scanBlock]
  | cons a b ih =>
    intro rest hb
    cases b with
    | nil =>
      -- a followed by the closing "*/"
      by_cases ha : a = '*'
      · subst ha
        simp [scanBlock, consFst]
      · simp only [List.cons_append, List.nil_append]
        unfold scanBlock
        split
        · rename_i heq; cases heq
        · rename_i r heq
          simp only [List.cons.injEq] at heq
          exact absurd heq.1 ha
        · rename_i c r hno heq
          simp only [List.cons.injEq] at heq
          obtain ⟨rfl, rfl⟩ := heq
          simp [scanBlock, consFst]
    | cons b1 b' =>
      have hb' : noClose (b1 :: b') = true := by
        unfold noClose at hb
        split at hb
        · rename_i heq; cases heq
        · cases hb
        · rename_i c r hno heq
          simp only [List.cons.injEq] at heq
          obtain ⟨rfl, rfl⟩ := heq
          exact hb
      have hne : ¬ (a = '*' ∧ b1 = '/') := by
        rintro ⟨rfl, rfl⟩
        simp [noClose] at hb
      have := ih rest hb'
      simp only [List.cons_append] at this ⊢
      unfold scanBlock
      split
      · rename_i heq; cases heq
      · rename_i r heq
        simp only [List.cons.injEq] at heq
        exact absurd ⟨heq.1, heq.2.1⟩ hne
      · rename_i c r hno heq
        simp only [List.cons.injEq] at heq
        obtain ⟨rfl, rfl⟩ := heq
        rw [this]; rfl

theorem scanStr_append (q : Char) : ∀ (i rest : List Char) (e u : Bool) (s : Str),
    scanStr q e u i = .ok s [] → scanStr q e u (i ++ rest) = .ok s rest := by
  intro i
  induction i with
  | nil => intro rest e u s h; cases e <;> simp [scanStr] at h
  | cons c r ih =>
    intro rest e u s h
    cases e with
    | false =>
      simp only [scanStr, List.cons_append] at h ⊢
      by_cases h1 : c = '\n'
      · simp [h1] at h
      · simp only [h1, if_false] at h ⊢
        by_cases h2 : c = q
        · simp only [h2, if_true] at h ⊢
          cases h; rfl
        · simp only [h2, if_false] at h ⊢
          by_cases h3 : c = '\\'
          · simp only [h3, if_true] at h ⊢
            cases hr : scanStr q true false r with
            | ok s' r' =>
              rw [hr] at h
              simp only [Scan.cons, Scan.ok.injEq] at h
              obtain ⟨rfl, rfl⟩ := h
              rw [ih rest true false s' hr]; rfl
            | err => rw [hr] at h; cases h
            | unsup => rw [hr] at h; cases h
          · simp only [h3, if_false] at h ⊢
            cases hr : scanStr q false false r with
            | ok s' r' =>
              rw [hr] at h
              simp only [Scan.cons, Scan.ok.injEq] at h
              obtain ⟨rfl, rfl⟩ := h
              rw [ih rest false false s' hr]; rfl
            | err => rw [hr] at h; cases h
            | unsup => rw [hr] at h; cases h
    | true =>
      simp only [scanStr, List.cons_append] at h ⊢
      by_cases h1 : c = '\n'
      · simp [h1] at h
      · simp only [h1, if_false] at h ⊢
        by_cases h2 : c = '\\'
        · simp only [h2, if_true] at h ⊢
          cases hr : scanStr q true (!u) r with
          | ok s' r' =>
            rw [hr] at h
            simp only [Scan.cons, Scan.ok.injEq] at h
            obtain ⟨rfl, rfl⟩ := h
            rw [ih rest true (!u) s' hr]; rfl
          | err => rw [hr] at h; cases h
          | unsup => rw [hr] at h; cases h
        · simp only [h2, if_false] at h ⊢
          by_cases h3 : (u && decide (c = q)) = true
          · simp only [h3, if_true] at h ⊢
            cases h; rfl
          · simp only [h3, Bool.false_eq_true, if_false] at h ⊢
            cases hr : scanStr q false false r with
            | ok s' r' =>
              rw [hr] at h
              simp only [Scan.cons, Scan.ok.injEq] at h
              obtain ⟨rfl, rfl⟩ := h
              rw [ih rest false false s' hr]; rfl
            | err => rw [hr] at h; cases h
            | unsup => rw [hr] at h; cases h


theorem nameChar_ne {c x : Char} (h : isNameChar c = true) (hx : isNameChar x = false) : c ≠ x := by
  intro e; subst e; rw [h] at hx; cases hx

theorem adjust_single (l c : Nat) (x : Char) (h : x ≠ '\n') : adjust l c [x] = (l, c + 1) := by
  simp [adjust, h]

theorem renderE_cons (e : Elem) (r : List Elem) : renderE (e :: r) = e.text ++ renderE r := by
  simp [renderE]

/-- one iteration of `readfile` on a white-space byte -/
theorem lexLoop_ws (f l c : Nat) (acc : List RTok) (x : Char) (rest : List Char)
    (h32 : x.toNat ≤ 32) (hnl : x ≠ '\n') :
    lexLoop (f + 1) l c acc (x :: rest) = lexLoop f l (c + 1) acc rest := by
  have h128 : ¬ x.toNat ≥ 128 := by omega
  simp only [lexLoop, h128, hnl, h32, if_true, if_false]

theorem lexLoop_nl (f l c : Nat) (acc : List RTok) (rest : List Char) :
    lexLoop (f + 1) l c acc ('\n' :: rest) = lexLoop f (l + 1) 1 acc rest := by
  have h128 : ¬ '\n'.toNat ≥ 128 := by decide
  simp only [lexLoop, h128, if_true, if_false]

theorem lexLoop_word (f l c : Nat) (acc : List RTok) (a : Char) (s : Str) (rest : List Char)
    (hs : (a :: s).all isNameChar = true) (hstop : wordStop a.isDigit rest = true) :
    lexLoop (f + 1) l c acc (a :: s ++ rest) =
      lexLoop f (adjust l c (a :: s)).1 (adjust l c (a :: s)).2 (⟨a :: s, l, c⟩ :: acc) rest := by
  have ha : isNameChar a = true := by simp only [List.all_cons, Bool.and_eq_true] at hs; exact hs.1
  have hb := isNameChar_ascii ha
  have h128 : ¬ a.toNat ≥ 128 := by omega
  have h32 : ¬ a.toNat ≤ 32 := by omega
  have hnl : a ≠ '\n' := nameChar_ne ha (by decide)
  have hh : a ≠ '#' := nameChar_ne ha (by decide)
  have hbs : a ≠ '\\' := nameChar_ne ha (by decide)
  have hscan := scanName_word a.isDigit (a :: s) rest hs hstop
  simp only [List.cons_append] at hscan ⊢
  simp only [lexLoop, h128, hnl, h32, hh, hbs, ha, hscan, if_true, if_false, decide_false, Bool.or_self, Bool.false_eq_true]

theorem lexLoop_op (f l c : Nat) (acc : List RTok) (x : Char) (rest : List Char)
    (hok : elemOK (.op x) = true) (hst : startsOK (.op x) rest = true) :
    lexLoop (f + 1) l c acc (x :: rest) = lexLoop f l (c + 1) (⟨[x], l, c⟩ :: acc) rest := by
  simp only [elemOK, Bool.and_eq_true, decide_eq_true_eq, Bool.not_eq_true', bne_iff_ne, ne_eq] at hok
  obtain ⟨⟨⟨⟨⟨⟨h1, h2⟩, h3⟩, h4⟩, h5⟩, h6⟩, h7⟩ := hok
  have h128 : ¬ x.toNat ≥ 128 := by omega
  have h32 : ¬ x.toNat ≤ 32 := by omega
  have hnl : x ≠ '\n' := by intro e; subst e; revert h2; decide
  simp only [startsOK, Bool.not_eq_true', Bool.and_eq_false_iff, decide_eq_false_iff_not, Bool.or_eq_false_iff] at hst
  have hc1 : (decide (x = '/') && decide (rest.head? = some '/')) = false := by
    rcases hst with h | h
    · simp [h]
    · simp [h.1]
  have hc2 : (decide (x = '/') && decide (rest.head? = some '*')) = false := by
    rcases hst with h | h
    · simp [h]
    · simp [h.2]
  simp only [lexLoop, h128, hnl, h32, h3, h4, h5, h6, h7, hc1, hc2, if_false, decide_false, Bool.or_self, Bool.false_eq_true]

theorem lexLoop_lcom (f l c : Nat) (acc : List RTok) (b : Str) (rest : List Char)
    (hok : elemOK (.lcom b) = true) (hst : startsOK (.lcom b) rest = true) :
    lexLoop (f + 1) l c acc ('/' :: '/' :: b ++ rest) =
      lexLoop f (adjust l c ('/' :: '/' :: b)).1 (adjust l c ('/' :: '/' :: b)).2 (⟨'/' :: '/' :: b, l, c⟩ :: acc) rest := by
  simp only [elemOK] at hok
  have hr : lineEnd rest = true := hst
  have hscan : scanLine ('/' :: '/' :: b ++ rest) = some ('/' :: '/' :: b, rest) := by
    have := scanLine_body ('/' :: '/' :: b) rest (by simpa using hok) hr
    simpa using this
  have h128 : ¬ '/'.toNat ≥ 128 := by decide
  have h32 : ¬ '/'.toNat ≤ 32 := by decide
  simp only [List.cons_append] at hscan ⊢
  simp only [lexLoop, h128, h32, hscan, if_false, List.head?_cons, decide_true, Bool.and_self, if_true,
    show ('/' : Char) ≠ '\n' from by decide, show ((decide ('/' = '#') || decide ('/' = '\\')) = true) = False from by decide,
    show (isNameChar '/' = true) = False from by decide]

theorem lexLoop_bcom (f l c : Nat) (acc : List RTok) (b : Str) (rest : List Char)
    (hok : elemOK (.bcom b) = true) :
    lexLoop (f + 1) l c acc ('/' :: '*' :: (b ++ ['*', '/']) ++ rest) =
      lexLoop f (adjust l c ('/' :: '*' :: (b ++ ['*', '/']))).1 (adjust l c ('/' :: '*' :: (b ++ ['*', '/']))).2
        (⟨'/' :: '*' :: (b ++ ['*', '/']), l, c⟩ :: acc) rest := by
  simp only [elemOK, Bool.and_eq_true, Bool.not_eq_true'] at hok
  obtain ⟨⟨h1, h2⟩, _⟩ := hok
  have hscan : scanBlock (b ++ ['*', '/'] ++ rest) = (b ++ ['*', '/'], rest) := by
    have := scanBlock_body b rest h1
    simpa using this
  have h128 : ¬ '/'.toNat ≥ 128 := by decide
  have h32 : ¬ '/'.toNat ≤ 32 := by decide
  simp only [List.cons_append, List.append_assoc] at hscan ⊢
  simp only [List.nil_append] at hscan
  simp [lexLoop, hscan, h2, show isNameChar '/' = false from by decide]


theorem litOK_scan (q : Char) (i : Str) (h : litOK q i = true) : scanStr q false false i = .ok i [] := by
  unfold litOK at h
  split at h
  · rename_i s heq
    have : s = i := by simpa using h
    rw [heq, this]
  · cases h

theorem lexLoop_lit (f l c : Nat) (acc : List RTok) (q : Char) (i : Str) (rest : List Char)
    (hok : elemOK (.lit q i) = true) (hacc : litPrefix acc l c = []) :
    lexLoop (f + 1) l c acc (q :: i ++ rest) =
      lexLoop f (adjust l c (q :: i)).1 (adjust l c (q :: i)).2 (⟨q :: i, l, c⟩ :: acc) rest := by
  simp only [elemOK, Bool.and_eq_true, Bool.or_eq_true, decide_eq_true_eq, Bool.not_eq_true'] at hok
  obtain ⟨⟨hq, hl⟩, _⟩ := hok
  have hscan := scanStr_append q i rest false false i (litOK_scan q i hl)
  rcases hq with rfl | rfl
  · simp [lexLoop, hscan, hacc, show isNameChar '"' = false from by decide]
  · simp [lexLoop, hscan, hacc, show isNameChar '\'' = false from by decide]

/-- no token of the accumulator is an encoding prefix (so no literal is glued to its predecessor) -/
def NoPrefix (acc : List RTok) : Prop := ∀ b ∈ acc.head?, isStringLiteralPrefix b.str = false

theorem litPrefix_nil {acc : List RTok} (h : NoPrefix acc) (l c : Nat) : litPrefix acc l c = [] := by
  cases acc with
  | nil => rfl
  | cons b a =>
    have := h b (by simp)
    simp [litPrefix, this]

theorem prefix_head {s : Str} (h : isStringLiteralPrefix s = true) : ∃ c r, s = c :: r ∧ (c = 'u' ∨ c = 'U' ∨ c = 'L' ∨ c = 'R') := by
  simp only [isStringLiteralPrefix, Bool.or_eq_true, decide_eq_true_eq] at h
  rcases h with (((((((h | h) | h) | h) | h) | h) | h) | h) | h <;> subst h <;> exact ⟨_, _, rfl, by decide⟩

theorem noPrefix_of_head {t : RTok} {acc : List RTok} (c : Char) (r : Str) (hs : t.str = c :: r)
    (hc : c ≠ 'u' ∧ c ≠ 'U' ∧ c ≠ 'L' ∧ c ≠ 'R') : NoPrefix (t :: acc) := by
  intro b hb
  simp only [List.head?_cons, Option.mem_def, Option.some.injEq] at hb
  subst hb
  cases h : isStringLiteralPrefix t.str with
  | false => rfl
  | true =>
    obtain ⟨c', r', e, hc'⟩ := prefix_head h
    rw [hs] at e
    simp only [List.cons.injEq] at e
    obtain ⟨rfl, _⟩ := e
    rcases hc' with h | h | h | h
    · exact absurd h hc.1
    · exact absurd h hc.2.1
    · exact absurd h hc.2.2.1
    · exact absurd h hc.2.2.2

/-- **`readfile` on a well-formed element sequence**: the raw tokens are the token elements, each at the
    position the layout function `placeE` assigns (induction over the sequence; any fuel > its length). -/
theorem lexLoop_elems : ∀ (es : List Elem) (fuel l c : Nat) (acc : List RTok),
    elemsOK es = true → es.length < fuel → NoPrefix acc →
    lexLoop fuel l c acc (renderE es) = some ((placeE l c es).reverse ++ acc) := by
  intro es
  induction es with
  | nil =>
    intro fuel l c acc _ hf _
    cases fuel with
    | zero => cases hf
    | succ f => simp [renderE, lexLoop, placeE]
  | cons e r ih =>
    intro fuel l c acc hok hf hacc
    cases fuel with
    | zero => cases hf
    | succ f =>
      have hf' : r.length < f := by simpa using hf
      simp only [elemsOK, Bool.and_eq_true] at hok
      obtain ⟨⟨he, hst⟩, hr⟩ := hok
      rw [renderE_cons]
      cases e with
      | ws x =>
        simp only [elemOK, Bool.and_eq_true, decide_eq_true_eq, bne_iff_ne, ne_eq] at he
        simp only [Elem.text, List.singleton_append]
        rw [lexLoop_ws f l c acc x _ he.1.1 he.1.2, ih f l (c + 1) acc hr hf' hacc]
        simp [placeE, Elem.isTok, Elem.text, adjust_single l c x he.1.2]
      | nl =>
        simp only [Elem.text, List.singleton_append]
        rw [lexLoop_nl, ih f (l + 1) 1 acc hr hf' hacc]
        simp [placeE, Elem.isTok, Elem.text, adjust]
      | lcom b =>
        simp only [Elem.text]
        rw [lexLoop_lcom f l c acc b _ he hst, ih _ _ _ _ hr hf' (noPrefix_of_head '/' ('/' :: b) rfl (by decide))]
        simp [placeE, Elem.isTok, Elem.text]
      | bcom b =>
        simp only [Elem.text]
        rw [lexLoop_bcom f l c acc b _ he, ih _ _ _ _ hr hf' (noPrefix_of_head '/' ('*' :: (b ++ ['*', '/'])) rfl (by decide))]
        simp [placeE, Elem.isTok, Elem.text]
      | word s =>
        simp only [elemOK, Bool.and_eq_true, bne_iff_ne, ne_eq, Bool.not_eq_true'] at he
        obtain ⟨⟨hne, hall⟩, hnp⟩ := he
        cases s with
        | nil => exact absurd rfl hne
        | cons a s' =>
          simp only [Elem.text]
          have hstop : wordStop a.isDigit (renderE r) = true := hst
          rw [lexLoop_word f l c acc a s' _ hall hstop]
          have hnp' : NoPrefix (⟨a :: s', l, c⟩ :: acc) := by
            intro b hb
            simp only [List.head?_cons, Option.mem_def, Option.some.injEq] at hb
            subst hb; exact hnp
          rw [ih _ _ _ _ hr hf' hnp']
          simp [placeE, Elem.isTok, Elem.text]
      | op x =>
        simp only [Elem.text, List.singleton_append]
        rw [lexLoop_op f l c acc x _ he hst]
        have hx : x ≠ 'u' ∧ x ≠ 'U' ∧ x ≠ 'L' ∧ x ≠ 'R' := by
          simp only [elemOK, Bool.and_eq_true, decide_eq_true_eq, Bool.not_eq_true', bne_iff_ne, ne_eq] at he
          have hn := he.1.1.1.1.2
          refine ⟨?_, ?_, ?_, ?_⟩ <;> (intro e; subst e; revert hn; decide)
        have hnl : x ≠ '\n' := by
          simp only [elemOK, Bool.and_eq_true, decide_eq_true_eq, Bool.not_eq_true', bne_iff_ne, ne_eq] at he
          have h2 := he.1.1.1.1.1.2
          intro e; subst e; revert h2; decide
        rw [ih _ _ _ _ hr hf' (noPrefix_of_head x [] rfl hx)]
        simp [placeE, Elem.isTok, Elem.text, adjust_single l c x hnl]
      | lit q i =>
        simp only [Elem.text]
        rw [lexLoop_lit f l c acc q i _ he (litPrefix_nil hacc l c)]
        have hq : q ≠ 'u' ∧ q ≠ 'U' ∧ q ≠ 'L' ∧ q ≠ 'R' := by
          simp only [elemOK, Bool.and_eq_true, Bool.or_eq_true, decide_eq_true_eq] at he
          rcases he.1.1 with rfl | rfl <;> decide
        rw [ih _ _ _ _ hr hf' (noPrefix_of_head q i rfl hq)]
        simp [placeE, Elem.isTok, Elem.text]


/-! ## C. from the executable hypotheses to the ones the proofs use; the whole lexer on a rendered sequence -/

theorem presB_spec (φ : Pos → Pos) (ps qs : List Pos) (h : presB φ ps qs = true) : Pres φ (· ∈ ps) (· ∈ qs) := by
  simp only [presB, List.all_eq_true, Bool.and_eq_true, Bool.or_eq_true, beq_iff_eq, bne_iff_ne, ne_eq,
    decide_eq_decide] at h
  constructor
  · intro p q hp hq
    exact h.1 p hp q hq
  · intro p q hp hq hl
    rcases h.2 p hp q hq with h' | h'
    · exact absurd hl h'
    · exact h'

theorem dotsOKB_spec : ∀ (ts : List RTok), dotsOKB ts = true → DotsOK ts := by
  intro ts
  induction ts with
  | nil => intro _; trivial
  | cons t r ih =>
    intro h
    simp only [dotsOKB, Bool.and_eq_true] at h
    refine ⟨?_, ih h.2⟩
    have h1 := h.1
    unfold dotsLineB at h1
    unfold dotsLine
    split
    · rename_i n1 n2 r2
      intro a b c
      simp only [a, b, c, decide_true, Bool.and_self, Bool.not_true, Bool.false_or, Bool.and_eq_true, decide_eq_true_eq] at h1
      exact h1
    · trivial

theorem allIn_self (ts : List RTok) : AllIn (· ∈ ts.map RTok.pos) ts :=
  fun t ht => List.mem_map.2 ⟨t, ht, rfl⟩

theorem opIn_self (ts : List RTok) : OpIn (· ∈ opPositions ts) ts := by
  intro t ht hop
  simp only [opPositions, List.mem_map, List.mem_filter]
  exact ⟨t, ⟨ht, by simpa using hop⟩, rfl⟩

theorem elem_text_ne_nil {e : Elem} (h : elemOK e = true) : e.text ≠ [] := by
  cases e <;> simp [Elem.text]
  simp only [elemOK, Bool.and_eq_true, bne_iff_ne, ne_eq] at h
  exact h.1.1

theorem length_le_render : ∀ (es : List Elem), elemsOK es = true → es.length ≤ (renderE es).length := by
  intro es
  induction es with
  | nil => intro _; simp [renderE]
  | cons e r ih =>
    intro h
    simp only [elemsOK, Bool.and_eq_true] at h
    rw [renderE_cons]
    have := elem_text_ne_nil h.1.1
    have hl : 1 ≤ e.text.length := by
      cases ht : e.text with
      | nil => exact absurd ht this
      | cons _ _ => simp
    have := ih h.2
    simp only [List.length_cons, List.length_append]
    omega

theorem normCR_id : ∀ (s : List Char), '\r' ∉ s → normCR s = s := by
  intro s
  induction s with
  | nil => intro _; rfl
  | cons c r ih =>
    intro h
    simp only [List.mem_cons, not_or] at h
    have hc : c ≠ '\r' := fun e => h.1 e.symm
    unfold normCR
    split
    · rename_i heq; cases heq
    · rename_i r' heq
      simp only [List.cons.injEq] at heq
      exact absurd heq.1 hc
    · rename_i heq
      simp only [List.cons.injEq] at heq
      exact absurd heq.1 hc
    · rename_i r' h1 heq
      simp only [List.cons.injEq] at heq
      exact absurd heq.1 hc
    · rename_i c' r' h1 h2 h3 heq
      simp only [List.cons.injEq] at heq
      obtain ⟨rfl, rfl⟩ := heq
      rw [ih h.2]

theorem elem_no_cr {e : Elem} (h : elemOK e = true) : '\r' ∉ e.text := by
  cases e with
  | ws c =>
    simp only [elemOK, Bool.and_eq_true, bne_iff_ne, ne_eq] at h
    simp only [Elem.text, List.mem_singleton]
    exact fun e => h.2 e.symm
  | nl => simp [Elem.text]
  | lcom b =>
    simp only [elemOK, List.all_eq_true, Bool.and_eq_true, bne_iff_ne, ne_eq] at h
    simp only [Elem.text, List.mem_cons, not_or]
    refine ⟨by decide, by decide, fun hm => (h _ hm).2 rfl⟩
  | bcom b =>
    simp only [elemOK, Bool.and_eq_true, Bool.not_eq_true', List.contains_eq_mem, decide_eq_false_iff_not] at h
    simp only [Elem.text, List.mem_cons, List.mem_append, not_or]
    refine ⟨by decide, by decide, h.2, by decide, by decide, by simp⟩
  | word s =>
    simp only [elemOK, Bool.and_eq_true, List.all_eq_true] at h
    intro hm
    have := h.1.2 _ hm
    revert this; decide
  | op c =>
    simp only [elemOK, Bool.and_eq_true, decide_eq_true_eq] at h
    simp only [Elem.text, List.mem_singleton]
    intro e
    have h2 := h.1.1.1.1.1.2
    rw [← e] at h2
    revert h2; decide
  | lit q i =>
    simp only [elemOK, Bool.and_eq_true, Bool.or_eq_true, decide_eq_true_eq, Bool.not_eq_true', List.contains_eq_mem,
      decide_eq_false_iff_not] at h
    simp only [Elem.text, List.mem_cons, not_or]
    refine ⟨?_, h.2⟩
    rcases h.1.1 with rfl | rfl <;> decide

theorem render_no_cr : ∀ (es : List Elem), elemsOK es = true → '\r' ∉ renderE es := by
  intro es
  induction es with
  | nil => intro _; simp [renderE]
  | cons e r ih =>
    intro h
    simp only [elemsOK, Bool.and_eq_true] at h
    rw [renderE_cons, List.mem_append, not_or]
    exact ⟨elem_no_cr h.1.1, ih h.2⟩

theorem elem_head_ascii {e : Elem} (h : elemOK e = true) : ∃ c r, e.text = c :: r ∧ c.toNat < 128 := by
  cases e with
  | ws c =>
    simp only [elemOK, Bool.and_eq_true, decide_eq_true_eq] at h
    exact ⟨c, [], rfl, by omega⟩
  | nl => exact ⟨'\n', [], rfl, by decide⟩
  | lcom b => exact ⟨'/', _, rfl, by decide⟩
  | bcom b => exact ⟨'/', _, rfl, by decide⟩
  | word s =>
    simp only [elemOK, Bool.and_eq_true, bne_iff_ne, ne_eq, List.all_eq_true] at h
    cases s with
    | nil => exact absurd rfl h.1.1
    | cons a s' => exact ⟨a, s', rfl, (isNameChar_ascii (h.1.2 a (by simp))).1⟩
  | op c =>
    simp only [elemOK, Bool.and_eq_true, decide_eq_true_eq] at h
    exact ⟨c, [], rfl, h.1.1.1.1.1.1⟩
  | lit q i =>
    simp only [elemOK, Bool.and_eq_true, Bool.or_eq_true, decide_eq_true_eq] at h
    rcases h.1.1 with rfl | rfl
    · exact ⟨'"', i, rfl, by decide⟩
    · exact ⟨'\'', i, rfl, by decide⟩

theorem skipBOM_render (es : List Elem) (h : elemsOK es = true) : skipBOM (renderE es) = some (renderE es) := by
  cases es with
  | nil => rfl
  | cons e r =>
    simp only [elemsOK, Bool.and_eq_true] at h
    obtain ⟨c, t, ht, hc⟩ := elem_head_ascii h.1.1
    rw [renderE_cons, ht, List.cons_append]
    unfold skipBOM
    split
    · rename_i r' heq
      simp only [List.cons.injEq] at heq
      rw [heq.1] at hc
      exact absurd hc (by decide)
    · rename_i c' r' hno heq
      simp only [List.cons.injEq] at heq
      obtain ⟨rfl, rfl⟩ := heq
      have : ¬ c.toNat ≥ 254 := by omega
      simp [this]
    · rename_i heq; cases heq

/-- **`readfile` (before `combineOperators`) on a well-formed rendered sequence** -/
theorem lexRaw_render (es : List Elem) (h : elemsOK es = true) : lexRaw (renderE es) = some (placeE 1 1 es) := by
  unfold lexRaw
  rw [skipBOM_render es h]
  simp only [normCR_id _ (render_no_cr es h)]
  rw [lexLoop_elems es _ 1 1 [] h (by have := length_le_render es h; omega) (by intro b hb; cases hb)]
  simp

end Cppcheck.Lexer

import Cppcheck.Model.Lexer
/- helper lemmas for C05 (2): relocation equivariance of combineOperators; the lexer on rendered layouts -/
namespace Cppcheck.Lexer
open Cppcheck.Wire

/-! ## A. `combineOperators` commutes with relocations that keep what it reads of the positions

`combineOperators` reads positions in four places only:
  1. the ellipsis test   `n1.col = tok.col + 1 ∧ n2.col = tok.col + 2`       (columns of three `.` tokens)
  2. the float test      `sameline prev tok`                                   (number before a `.`)
  3. the suffix test     `sameline tok' n`                                     (`1.` before `f`, `e5`, …)
  4. the operator guard  `sameline tok n ∧ tok.col + 1 = n.col`                (`+` `=`, `<` `<`, `-` `>` …)
`Pres φ P` says that `φ` keeps these relations between any two positions satisfying `P`. -/

abbrev Pos := Nat × Nat

def RTok.pos (t : RTok) : Pos := (t.line, t.col)

/-- what `φ` has to preserve between positions of the set `P` -/
structure Pres (φ : Pos → Pos) (P : Pos → Prop) : Prop where
  line : ∀ p q, P p → P q → ((φ p).1 = (φ q).1 ↔ p.1 = q.1)
  succ : ∀ p q, P p → P q → p.1 = q.1 → ((φ p).2 + 1 = (φ q).2 ↔ p.2 + 1 = q.2)
  /-- columns of directly following `.` tokens (the ellipsis test does not look at lines) -/
  dots : ∀ p q r, P p → P q → P r → (((φ q).2 = (φ p).2 + 1 ∧ (φ r).2 = (φ p).2 + 2) ↔ (q.2 = p.2 + 1 ∧ r.2 = p.2 + 2))

@[simp] theorem reloc_str (φ : Pos → Pos) (t : RTok) : (reloc φ t).str = t.str := by cases t; rfl
@[simp] theorem reloc_op (φ : Pos → Pos) (t : RTok) : (reloc φ t).op = t.op := by cases t; rfl
@[simp] theorem reloc_number (φ : Pos → Pos) (t : RTok) : (reloc φ t).number = t.number := by cases t; rfl
@[simp] theorem reloc_name (φ : Pos → Pos) (t : RTok) : (reloc φ t).name = t.name := by cases t; rfl
@[simp] theorem reloc_comment (φ : Pos → Pos) (t : RTok) : (reloc φ t).comment = t.comment := by cases t; rfl
@[simp] theorem reloc_line (φ : Pos → Pos) (t : RTok) : (reloc φ t).line = (φ t.pos).1 := by cases t; rfl
@[simp] theorem reloc_col (φ : Pos → Pos) (t : RTok) : (reloc φ t).col = (φ t.pos).2 := by cases t; rfl
@[simp] theorem reloc_isOneOf (φ : Pos → Pos) (t : RTok) (s : String) : isOneOf (reloc φ t) s = isOneOf t s := by cases t; rfl
@[simp] theorem reloc_startsWithOneOf (φ : Pos → Pos) (t : RTok) (s : String) :
    startsWithOneOf (reloc φ t) s = startsWithOneOf t s := by cases t; rfl
@[simp] theorem reloc_isFloatSuffix (φ : Pos → Pos) (t : RTok) : isFloatSuffix (reloc φ t) = isFloatSuffix t := by cases t; rfl
@[simp] theorem reloc_setstr (φ : Pos → Pos) (t : RTok) (s : Str) : reloc φ (t.setstr s) = (reloc φ t).setstr s := by cases t; rfl
@[simp] theorem setstr_pos (t : RTok) (s : Str) : (t.setstr s).pos = t.pos := by cases t; rfl
@[simp] theorem setstr_str (t : RTok) (s : Str) : (t.setstr s).str = s := by cases t; rfl
@[simp] theorem setstr_line (t : RTok) (s : Str) : (t.setstr s).line = t.line := by cases t; rfl
@[simp] theorem setstr_col (t : RTok) (s : Str) : (t.setstr s).col = t.col := by cases t; rfl

theorem findOpen_reloc (φ : Pos → Pos) : ∀ (ts : List RTok) (lvl : Nat),
    findOpen lvl (ts.map (reloc φ)) = (findOpen lvl ts).map (List.map (reloc φ)) := by
  intro ts
  induction ts with
  | nil => intro lvl; rfl
  | cons t r ih =>
    intro lvl
    simp only [List.map_cons, findOpen, reloc_op, reloc_isOneOf]
    by_cases h1 : t.op = ')'
    · simp [h1, ih]
    · by_cases h2 : t.op = '('
      · cases lvl <;> simp [h2, ih]
      · by_cases h3 : isOneOf t ";{}" = true
        · simp [h1, h2, h3]
        · simp [h1, h2, h3, ih]

theorem declWalk_reloc (φ : Pos → Pos) : ∀ (ts : List RTok) (moved : Bool),
    declWalk moved (ts.map (reloc φ)) = declWalk moved ts := by
  intro ts
  induction ts with
  | nil => intro moved; rfl
  | cons t r ih =>
    intro moved
    cases r with
    | nil => rfl
    | cons p r' =>
      have := ih true
      simp only [List.map_cons] at this
      simp only [List.map_cons, declWalk, reloc_name, reloc_str, reloc_op, reloc_isOneOf, this]

theorem isFuncDeclRef_reloc (φ : Pos → Pos) (ts : List RTok) :
    isFuncDeclRef (ts.map (reloc φ)) = isFuncDeclRef ts := by
  unfold isFuncDeclRef
  rw [findOpen_reloc]
  cases h : findOpen 0 ts with
  | none => rfl
  | some l =>
    cases l with
    | nil => rfl
    | cons f r =>
      simp only [Option.map_some, List.map_cons, reloc_name]
      have := declWalk_reloc φ (f :: r) false
      simp only [List.map_cons] at this
      rw [this]

theorem isAlt_reloc (φ : Pos → Pos) (p n : RTok) (r : List RTok) :
    isAltAndBitandBitor (reloc φ p) (reloc φ n) (r.map (reloc φ)) = isAltAndBitandBitor p n r := by
  cases r <;> rfl

/-- all tokens of a list sit at positions of `P` -/
def AllIn (P : Pos → Prop) (ts : List RTok) : Prop := ∀ t ∈ ts, P t.pos

theorem AllIn.tail {P : Pos → Prop} {t : RTok} {ts : List RTok} (h : AllIn P (t :: ts)) : AllIn P ts :=
  fun x hx => h x (List.mem_cons_of_mem _ hx)

theorem AllIn.head {P : Pos → Prop} {t : RTok} {ts : List RTok} (h : AllIn P (t :: ts)) : P t.pos :=
  h t (by simp)

theorem AllIn.drop {P : Pos → Prop} {ts : List RTok} (h : AllIn P ts) (k : Nat) : AllIn P (ts.drop k) :=
  fun x hx => h x (List.mem_of_mem_drop hx)

theorem AllIn.cons {P : Pos → Prop} {t : RTok} {ts : List RTok} (ht : P t.pos) (h : AllIn P ts) : AllIn P (t :: ts) := by
  intro x hx
  rcases List.mem_cons.1 hx with rfl | hx
  · exact ht
  · exact h x hx

theorem sameline_reloc {φ : Pos → Pos} {P : Pos → Prop} (hφ : Pres φ P) {a b : RTok} (ha : P a.pos) (hb : P b.pos) :
    sameline (reloc φ a) (reloc φ b) = sameline a b := by
  simp only [sameline, reloc_line]
  exact decide_eq_decide.2 (hφ.line a.pos b.pos ha hb)


theorem and_decide_congr {A B C D : Prop} [Decidable A] [Decidable B] [Decidable C] [Decidable D]
    (h : (A ∧ B) ↔ (C ∧ D)) : (decide A && decide B) = (decide C && decide D) := by
  rw [Bool.eq_iff_iff]
  simp only [Bool.and_eq_true, decide_eq_true_eq]
  exact h

theorem ellTest_reloc {φ : Pos → Pos} {P : Pos → Prop} (hφ : Pres φ P) {tok : RTok} {rest : List RTok}
    (ht : P tok.pos) (hr : AllIn P rest) :
    ellTest (reloc φ tok) (rest.map (reloc φ)) = ellTest tok rest := by
  cases rest with
  | nil => rfl
  | cons n1 r1 =>
    cases r1 with
    | nil => rfl
    | cons n2 r2 =>
      have h1 : P n1.pos := hr n1 (by simp)
      have h2 : P n2.pos := hr n2 (by simp)
      have hd := hφ.dots tok.pos n1.pos n2.pos ht h1 h2
      have key : (decide ((reloc φ n1).col = (reloc φ tok).col + 1) && decide ((reloc φ n2).col = (reloc φ tok).col + 2))
          = (decide (n1.col = tok.col + 1) && decide (n2.col = tok.col + 2)) := and_decide_congr hd
      simp only [List.map_cons, ellTest, reloc_op]
      by_cases c1 : n1.op = '.'
      · by_cases c2 : n2.op = '.'
        · simp only [c1, c2, decide_true, Bool.true_and, Bool.and_true]
          exact key
        · simp only [c2, decide_false, Bool.and_false, Bool.false_and]
      · simp only [c1, decide_false, Bool.false_and]

/-- state after a block, relocated -/
def mapS (φ : Pos → Pos) (s : List RTok × RTok × List RTok) : List RTok × RTok × List RTok :=
  (s.1.map (reloc φ), reloc φ s.2.1, s.2.2.map (reloc φ))

def AllInS (P : Pos → Prop) (s : List RTok × RTok × List RTok) : Prop := AllIn P s.1 ∧ P s.2.1.pos ∧ AllIn P s.2.2

theorem floatMerge_reloc {φ : Pos → Pos} {P : Pos → Prop} (hφ : Pres φ P) {prev : List RTok} {tok : RTok} {rest : List RTok}
    (hp : AllIn P prev) (ht : P tok.pos) (hr : AllIn P rest) :
    floatMerge (prev.map (reloc φ)) (reloc φ tok) (rest.map (reloc φ)) = mapS φ (floatMerge prev tok rest) := by
  cases prev with
  | nil => rfl
  | cons p pr =>
    have hpp : P p.pos := hp p (by simp)
    simp only [List.map_cons, floatMerge, reloc_number, reloc_str, sameline_reloc hφ hpp ht]
    split
    · cases rest with
      | nil => rfl
      | cons n r =>
        have hn : P n.pos := hr n (by simp)
        have hs : sameline ((reloc φ tok).setstr (p.str ++ ['.'])) (reloc φ n) = sameline (tok.setstr (p.str ++ ['.'])) n := by
          rw [← reloc_setstr]; exact sameline_reloc hφ (by simpa using ht) hn
        have ha := isAlt_reloc φ (tok.setstr (p.str ++ ['.'])) n r
        simp only [reloc_setstr] at ha
        simp only [List.map_cons, hs, reloc_isFloatSuffix, reloc_startsWithOneOf, ha, reloc_str]
        split <;> rfl
    · rfl

theorem floatMerge_allIn {P : Pos → Prop} {prev : List RTok} {tok : RTok} {rest : List RTok}
    (hp : AllIn P prev) (ht : P tok.pos) (hr : AllIn P rest) : AllInS P (floatMerge prev tok rest) := by
  unfold floatMerge
  cases prev with
  | nil => exact ⟨hp, ht, hr⟩
  | cons p pr =>
    simp only
    split
    · cases rest with
      | nil => exact ⟨hp.tail, by simpa using ht, hr⟩
      | cons n r =>
        simp only
        split
        · exact ⟨hp.tail, by simpa using ht, hr.tail⟩
        · exact ⟨hp.tail, by simpa using ht, hr⟩
    · exact ⟨hp, ht, hr⟩

theorem dotNumber_reloc (φ : Pos → Pos) (s : List RTok × RTok × List RTok) :
    dotNumber (mapS φ s) = mapS φ (dotNumber s) := by
  obtain ⟨p, t, r⟩ := s
  cases r with
  | nil => rfl
  | cons n r' =>
    simp only [mapS, dotNumber, List.map_cons, reloc_number, reloc_str]
    split <;> rfl

theorem dotNumber_allIn {P : Pos → Prop} {s : List RTok × RTok × List RTok} (h : AllInS P s) : AllInS P (dotNumber s) := by
  obtain ⟨p, t, r⟩ := s
  cases r with
  | nil => exact h
  | cons n r' =>
    simp only [dotNumber]
    split
    · exact ⟨h.1, by simpa using h.2.1, h.2.2.tail⟩
    · exact h

theorem expBlock_reloc (φ : Pos → Pos) (tok : RTok) (rest : List RTok) :
    expBlock (reloc φ tok) (rest.map (reloc φ)) = ((reloc φ (expBlock tok rest).1), (expBlock tok rest).2.map (reloc φ)) := by
  unfold expBlock
  simp only [reloc_str]
  by_cases h : expTrig tok.str = true
  · simp only [h, if_true]
    cases rest with
    | nil => rfl
    | cons n1 r1 =>
      cases r1 with
      | nil => rfl
      | cons n2 r2 =>
        simp only [List.map_cons, reloc_isOneOf, reloc_number, reloc_op, reloc_str]
        by_cases h2 : (isOneOf n1 "+-" && n2.number) = true
        · simp only [h2, if_true]; rfl
        · simp only [h2]; rfl
  · simp only [h]; rfl

theorem expBlock_allIn {P : Pos → Prop} {tok : RTok} {rest : List RTok} (ht : P tok.pos) (hr : AllIn P rest) :
    P (expBlock tok rest).1.pos ∧ AllIn P (expBlock tok rest).2 := by
  unfold expBlock
  by_cases h : expTrig tok.str = true
  · simp only [h, if_true]
    cases rest with
    | nil => exact ⟨ht, hr⟩
    | cons n1 r1 =>
      cases r1 with
      | nil => exact ⟨ht, hr⟩
      | cons n2 r2 =>
        by_cases h2 : (isOneOf n1 "+-" && n2.number) = true
        · simp only [h2, if_true]
          exact ⟨by simpa using ht, hr.tail.tail⟩
        · simp only [h2]
          exact ⟨ht, hr⟩
  · simp only [h]
    exact ⟨ht, hr⟩


theorem opGuard_reloc {φ : Pos → Pos} {P : Pos → Prop} (hφ : Pres φ P) {tok n : RTok} (ht : P tok.pos) (hn : P n.pos) :
    opGuard (reloc φ tok) (reloc φ n) = opGuard tok n := by
  unfold opGuard
  rw [sameline_reloc hφ ht hn]
  simp only [reloc_op]
  by_cases hs : sameline tok n = true
  · have hl : tok.pos.1 = n.pos.1 := by simpa [sameline, RTok.pos] using hs
    have hc := hφ.succ tok.pos n.pos ht hn hl
    have key : decide ((reloc φ tok).col + 1 = (reloc φ n).col) = decide (tok.col + 1 = n.col) := decide_eq_decide.2 hc
    rw [key]
  · have : sameline tok n = false := by simpa using hs
    simp only [this, Bool.and_false, Bool.false_and]

def mapTR (φ : Pos → Pos) (s : RTok × List RTok) : RTok × List RTok := (reloc φ s.1, s.2.map (reloc φ))

theorem opMerge_reloc (φ : Pos → Pos) (prev : List RTok) (st : Bool) (tok n : RTok) (r : List RTok) :
    opMerge (prev.map (reloc φ)) st (reloc φ tok) (reloc φ n) (r.map (reloc φ)) = mapTR φ (opMerge prev st tok n r) := by
  unfold opMerge
  simp only [reloc_op, reloc_isOneOf, reloc_str, isFuncDeclRef_reloc]
  by_cases c1 : (decide (n.op = '=') && isOneOf tok "=!<>+-*/%&|^") = true
  · simp only [c1, if_true]
    by_cases c2 : (decide (tok.op = '&') && !st && isFuncDeclRef prev) = true
    · simp only [c2, if_true]; rfl
    · simp only [c2, Bool.false_eq_true, if_false]; rfl
  · simp only [c1, Bool.false_eq_true, if_false]
    by_cases c3 : ((decide (tok.op = '|') || decide (tok.op = '&')) && decide (tok.op = n.op)) = true
    · simp only [c3, if_true]; rfl
    · simp only [c3, Bool.false_eq_true, if_false]
      by_cases c4 : (decide (tok.op = ':') && decide (n.op = ':')) = true
      · simp only [c4, if_true]; rfl
      · simp only [c4, Bool.false_eq_true, if_false]
        by_cases c5 : (decide (tok.op = '-') && decide (n.op = '>')) = true
        · simp only [c5, if_true]; rfl
        · simp only [c5, Bool.false_eq_true, if_false]
          by_cases c6 : ((decide (tok.op = '<') || decide (tok.op = '>')) && decide (tok.op = n.op)) = true
          · simp only [c6, if_true]
            cases r with
            | nil => rfl
            | cons e r1 =>
              cases r1 with
              | nil => rfl
              | cons e2 r2 =>
                simp only [List.map_cons, reloc_op, reloc_str]
                by_cases c7 : (decide (e.op = '=') && decide (e2.op ≠ '=')) = true
                · simp only [c7, if_true]; rfl
                · simp only [c7, Bool.false_eq_true, if_false]; rfl
          · simp only [c6, Bool.false_eq_true, if_false]
            by_cases c8 : ((decide (tok.op = '+') || decide (tok.op = '-')) && decide (tok.op = n.op)) = true
            · simp only [c8, if_true]
              have hp : headNumber (prev.map (reloc φ)) = headNumber prev := by cases prev <;> simp [headNumber]
              have hr : headNumber (r.map (reloc φ)) = headNumber r := by cases r <;> simp [headNumber]
              rw [hp, hr]
              split
              · rfl
              · split <;> rfl
            · simp only [c8, Bool.false_eq_true, if_false]; rfl

theorem opMerge_allIn {P : Pos → Prop} {prev : List RTok} {st : Bool} {tok n : RTok} {r : List RTok}
    (ht : P tok.pos) (hr : AllIn P (n :: r)) : P (opMerge prev st tok n r).1.pos ∧ AllIn P (opMerge prev st tok n r).2 := by
  have hr' : AllIn P r := hr.tail
  have t1 : ∀ s, P (tok.setstr s).pos := fun s => by simpa using ht
  unfold opMerge
  split
  · split
    · exact ⟨ht, hr⟩
    · exact ⟨t1 _, hr'⟩
  · split
    · exact ⟨t1 _, hr'⟩
    · split
      · exact ⟨t1 _, hr'⟩
      · split
        · exact ⟨t1 _, hr'⟩
        · split
          · split
            · split
              · exact ⟨t1 _, hr'.tail⟩
              · exact ⟨t1 _, hr'⟩
            · exact ⟨t1 _, hr'⟩
          · split
            · split
              · exact ⟨ht, hr⟩
              · split
                · exact ⟨ht, hr⟩
                · exact ⟨t1 _, hr'⟩
            · exact ⟨ht, hr⟩

theorem opBlock_reloc {φ : Pos → Pos} {P : Pos → Prop} (hφ : Pres φ P) (prev : List RTok) (st : Bool) {tok : RTok} {rest : List RTok}
    (ht : P tok.pos) (hr : AllIn P rest) :
    opBlock (prev.map (reloc φ)) st (reloc φ tok) (rest.map (reloc φ)) = mapTR φ (opBlock prev st tok rest) := by
  cases rest with
  | nil => rfl
  | cons n r =>
    simp only [List.map_cons, opBlock, opGuard_reloc hφ ht (hr n (by simp)), opMerge_reloc]
    split <;> rfl

theorem opBlock_allIn {P : Pos → Prop} {prev : List RTok} {st : Bool} {tok : RTok} {rest : List RTok}
    (ht : P tok.pos) (hr : AllIn P rest) : P (opBlock prev st tok rest).1.pos ∧ AllIn P (opBlock prev st tok rest).2 := by
  cases rest with
  | nil => exact ⟨ht, hr⟩
  | cons n r =>
    simp only [opBlock]
    split
    · exact opMerge_allIn ht hr
    · exact ⟨ht, hr⟩

theorem dotBlock_reloc {φ : Pos → Pos} {P : Pos → Prop} (hφ : Pres φ P) {prev : List RTok} {tok : RTok} {rest : List RTok}
    (hp : AllIn P prev) (ht : P tok.pos) (hr : AllIn P rest) :
    dotBlock (prev.map (reloc φ)) (reloc φ tok) (rest.map (reloc φ)) =
      ((dotBlock prev tok rest).1, mapS φ (dotBlock prev tok rest).2) := by
  unfold dotBlock
  simp only [reloc_op, ellTest_reloc hφ ht hr, floatMerge_reloc hφ hp ht hr, dotNumber_reloc]
  split
  · split
    · simp only [mapS, List.map_drop]; rfl
    · rfl
  · rfl

theorem dotBlock_allIn {P : Pos → Prop} {prev : List RTok} {tok : RTok} {rest : List RTok}
    (hp : AllIn P prev) (ht : P tok.pos) (hr : AllIn P rest) : AllInS P (dotBlock prev tok rest).2 := by
  unfold dotBlock
  split
  · split
    · exact ⟨hp, by simpa using ht, hr.drop 2⟩
    · exact dotNumber_allIn (floatMerge_allIn hp ht hr)
  · exact ⟨hp, ht, hr⟩


theorem scopeProbe_reloc (φ : Pos → Pos) (prev : List RTok) :
    scopeProbe (prev.map (reloc φ)) = scopeProbe prev := by
  induction prev with
  | nil => rfl
  | cons a r ih => simp only [List.map_cons, scopeProbe, reloc_isOneOf, reloc_op, ih]

/-- the "executable scope" flag pushed at a `{` is always false: the look-back skips `)` as well -/
theorem scopeProbe_false (prev : List RTok) : scopeProbe prev = false := by
  induction prev with
  | nil => rfl
  | cons a r ih =>
    simp only [scopeProbe]
    split
    · exact ih
    · rename_i h
      simp only [isOneOf, Bool.and_eq_true, ne_eq, decide_eq_true_eq, not_and] at h
      by_cases hc : a.op = ')'
      · exfalso
        have := h (by rw [hc]; decide)
        apply this
        rw [hc]; decide
      · simp [hc]

theorem combineStep_reloc {φ : Pos → Pos} {P : Pos → Prop} (hφ : Pres φ P) {prev : List RTok} (scope : List Bool) {tok : RTok}
    {rest : List RTok} (hp : AllIn P prev) (ht : P tok.pos) (hr : AllIn P rest) :
    combineStep (prev.map (reloc φ)) scope (reloc φ tok) (rest.map (reloc φ)) =
      ((combineStep prev scope tok rest).1.map (reloc φ), (combineStep prev scope tok rest).2.1,
       (combineStep prev scope tok rest).2.2.map (reloc φ)) := by
  unfold combineStep
  simp only [reloc_op]
  by_cases h1 : tok.op = '{'
  · simp only [h1, if_true]
    by_cases h2 : scopeTop scope = true
    · simp only [h2, if_true, List.map_cons]
    · simp only [h2, Bool.false_eq_true, if_false, List.map_cons, scopeProbe_reloc]
  · simp only [h1, if_false]
    by_cases h3 : tok.op = '}'
    · simp only [h3, if_true, List.map_cons]
    · simp only [h3, if_false]
      rw [dotBlock_reloc hφ hp ht hr]
      have hd := dotBlock_allIn hp ht hr
      generalize dotBlock prev tok rest = d at hd ⊢
      obtain ⟨dc, dp, dt, dr⟩ := d
      simp only [mapS]
      by_cases h4 : dc = true
      · simp only [h4, if_true, List.map_cons]
      · simp only [h4, Bool.false_eq_true, if_false]
        rw [expBlock_reloc]
        have he := expBlock_allIn hd.2.1 hd.2.2
        generalize expBlock dt dr = e at he ⊢
        obtain ⟨et, er⟩ := e
        simp only
        rw [opBlock_reloc hφ dp (scopeTop scope) he.1 he.2]
        simp only [mapTR, List.map_cons]

theorem combineStep_allIn {P : Pos → Prop} {prev : List RTok} {scope : List Bool} {tok : RTok} {rest : List RTok}
    (hp : AllIn P prev) (ht : P tok.pos) (hr : AllIn P rest) :
    AllIn P (combineStep prev scope tok rest).1 ∧ AllIn P (combineStep prev scope tok rest).2.2 := by
  unfold combineStep
  by_cases h1 : tok.op = '{'
  · simp only [h1, if_true]
    split <;> exact ⟨AllIn.cons ht hp, hr⟩
  · simp only [h1, if_false]
    by_cases h3 : tok.op = '}'
    · simp only [h3, if_true]
      exact ⟨AllIn.cons ht hp, hr⟩
    · simp only [h3, if_false]
      have hd := dotBlock_allIn hp ht hr
      generalize dotBlock prev tok rest = d at hd ⊢
      obtain ⟨dc, dp, dt, dr⟩ := d
      by_cases h4 : dc = true
      · simp only [h4, if_true]
        exact ⟨AllIn.cons hd.2.1 hd.1, hd.2.2⟩
      · simp only [h4, Bool.false_eq_true, if_false]
        have he := expBlock_allIn hd.2.1 hd.2.2
        have ho := opBlock_allIn (prev := dp) (st := scopeTop scope) he.1 he.2
        exact ⟨AllIn.cons ho.1 hd.1, ho.2⟩

theorem combineLoop_reloc {φ : Pos → Pos} {P : Pos → Prop} (hφ : Pres φ P) :
    ∀ (n : Nat) (prev : List RTok) (scope : List Bool) (rest : List RTok), AllIn P prev → AllIn P rest →
      combineLoop n (prev.map (reloc φ)) scope (rest.map (reloc φ)) = (combineLoop n prev scope rest).map (reloc φ) := by
  intro n
  induction n with
  | zero => intro prev scope rest _ _; simp [combineLoop]
  | succ n ih =>
    intro prev scope rest hp hr
    cases rest with
    | nil => simp [combineLoop]
    | cons tok r =>
      simp only [List.map_cons, combineLoop]
      rw [combineStep_reloc hφ scope hp hr.head hr.tail]
      have ha := combineStep_allIn (scope := scope) hp hr.head hr.tail
      exact ih _ _ _ ha.1 ha.2

/-- **relocation equivariance of `combineOperators`** -/
theorem combine_reloc {φ : Pos → Pos} {P : Pos → Prop} (hφ : Pres φ P) (ts : List RTok) (h : AllIn P ts) :
    combine (ts.map (reloc φ)) = (combine ts).map (reloc φ) := by
  unfold combine
  have := combineLoop_reloc hφ ts.length [] [false] ts (by intro t ht; cases ht) h
  simpa using this

theorem removeComments_reloc (φ : Pos → Pos) (ts : List RTok) :
    removeComments (ts.map (reloc φ)) = (removeComments ts).map (reloc φ) := by
  induction ts with
  | nil => rfl
  | cons t r ih =>
    simp only [List.map_cons, removeComments, List.filter_cons, reloc_comment] at ih ⊢
    split
    · simp [ih]
    · exact ih


/-! ## B. `readfile` on a rendered sequence of lexical elements -/

theorem isNameChar_ascii {c : Char} (h : isNameChar c = true) : c.toNat < 128 ∧ c.toNat > 32 := by
  simp only [isNameChar, Char.isAlphanum, Char.isAlpha, Char.isUpper, Char.isLower, Char.isDigit, Bool.or_eq_true,
    Bool.and_eq_true, decide_eq_true_eq] at h
  have e : c.val.toNat = c.toNat := rfl
  rcases h with (((⟨h1, h2⟩ | ⟨h1, h2⟩) | ⟨h1, h2⟩) | h) | h
  · have a := UInt32.le_iff_toNat_le.1 h1; have b := UInt32.le_iff_toNat_le.1 h2
    simp only [e] at a b
    simp at a b
    omega
  · have a := UInt32.le_iff_toNat_le.1 h1; have b := UInt32.le_iff_toNat_le.1 h2
    simp only [e] at a b
    simp at a b
    omega
  · have a := UInt32.le_iff_toNat_le.1 h1; have b := UInt32.le_iff_toNat_le.1 h2
    simp only [e] at a b
    simp at a b
    omega
  · subst h; decide
  · subst h; decide

theorem scanName_stop (num : Bool) (rest : List Char) (h : wordStop num rest = true) :
    scanName num rest = some ([], rest) := by
  cases rest with
  | nil => rfl
  | cons c r =>
    simp only [wordStop, Bool.and_eq_true, Bool.not_eq_true', Bool.and_eq_false_iff, decide_eq_false_iff_not] at h
    unfold scanName
    split
    · rename_i heq; cases heq
    · rename_i heq
      simp only [List.cons.injEq] at heq
      obtain ⟨rfl, rfl⟩ := heq
      simp [h.1]
    · rename_i hno heq
      simp only [List.cons.injEq] at heq
      obtain ⟨rfl, rfl⟩ := heq
      simp [h.1]

theorem scanName_word (num : Bool) : ∀ (s : Str) (rest : List Char), s.all isNameChar = true →
    wordStop num rest = true → scanName num (s ++ rest) = some (s, rest) := by
  intro s
  induction s with
  | nil => intro rest _ h; exact scanName_stop num rest h
  | cons a s ih =>
    intro rest hs hr
    simp only [List.all_cons, Bool.and_eq_true] at hs
    have ha := hs.1
    have hne : a ≠ '\'' := fun e => by subst e; revert ha; decide
    simp only [List.cons_append]
    unfold scanName
    split
    · rename_i heq; cases heq
    · rename_i c r2 heq
      simp only [List.cons.injEq] at heq
      obtain ⟨rfl, heq⟩ := heq
      -- s ++ rest starts with a quote: s = [] and rest starts with it
      cases s with
      | cons b s' =>
        simp only [List.cons_append, List.cons.injEq] at heq
        have hb := hs.2
        simp only [List.all_cons, Bool.and_eq_true] at hb
        have hq : isNameChar '\'' = true := heq.1 ▸ hb.1
        exact absurd hq (by decide)
      | nil =>
        simp only [List.nil_append] at heq
        subst heq
        simp only [wordStop, Bool.and_eq_true, Bool.not_eq_true', Bool.and_eq_false_iff, decide_eq_false_iff_not] at hr
        have hnum : num = false := by
          rcases hr.2 with h | h
          · exact h
          · exact absurd trivial h
        simp [ha, hnum]
    · rename_i c r hno heq
      simp only [List.cons.injEq] at heq
      obtain ⟨rfl, rfl⟩ := heq
      simp only [ha, if_true, ih rest hs.2 hr, Option.map_some, consFst]



theorem scanLine_body : ∀ (b rest : List Char),
    (b.all fun c => c != '\n' && c != '\\' && c != '\r') = true →
    lineEnd rest = true →
    scanLine (b ++ rest) = some (b, rest) := by
  intro b
  induction b with
  | nil =>
    intro rest _ hr
    cases rest with
    | nil => rfl
    | cons c r => simp only [lineEnd, decide_eq_true_eq] at hr; subst hr; simp [scanLine]
  | cons a b ih =>
    intro rest hb hr
    simp only [List.all_cons, Bool.and_eq_true, bne_iff_ne, ne_eq] at hb
    simp only [List.cons_append, scanLine, hb.1.1.1, hb.1.1.2, if_false, ih rest hb.2 hr, Option.map_some, consFst]

theorem scanBlock_body : ∀ (b rest : List Char), noClose b = true →
    scanBlock (b ++ '*' :: '/' :: rest) = (b ++ ['*', '/'], rest) := by
  intro b
  induction b with
  | nil => intro rest _; simp [scanBlock]
  | cons a b ih =>
    intro rest hb
    cases b with
    | nil =>
      -- a followed by the closing "*/"
      by_cases ha : a = '*'
      · subst ha
        simp [scanBlock, consFst]
      · simp only [List.cons_append, List.nil_append]
        unfold scanBlock
        split
        · rename_i heq; cases heq
        · rename_i r heq
          simp only [List.cons.injEq] at heq
          exact absurd heq.1 ha
        · rename_i c r hno heq
          simp only [List.cons.injEq] at heq
          obtain ⟨rfl, rfl⟩ := heq
          simp [scanBlock, consFst]
    | cons b1 b' =>
      have hb' : noClose (b1 :: b') = true := by
        unfold noClose at hb
        split at hb
        · rename_i heq; cases heq
        · cases hb
        · rename_i c r hno heq
          simp only [List.cons.injEq] at heq
          obtain ⟨rfl, rfl⟩ := heq
          exact hb
      have hne : ¬ (a = '*' ∧ b1 = '/') := by
        rintro ⟨rfl, rfl⟩
        simp [noClose] at hb
      have := ih rest hb'
      simp only [List.cons_append] at this ⊢
      unfold scanBlock
      split
      · rename_i heq; cases heq
      · rename_i r heq
        simp only [List.cons.injEq] at heq
        exact absurd ⟨heq.1, heq.2.1⟩ hne
      · rename_i c r hno heq
        simp only [List.cons.injEq] at heq
        obtain ⟨rfl, rfl⟩ := heq
        rw [this]; rfl

theorem scanStr_append (q : Char) : ∀ (i rest : List Char) (e u : Bool) (s : Str),
    scanStr q e u i = .ok s [] → scanStr q e u (i ++ rest) = .ok s rest := by
  intro i
  induction i with
  | nil => intro rest e u s h; cases e <;> simp [scanStr] at h
  | cons c r ih =>
    intro rest e u s h
    cases e with
    | false =>
      simp only [scanStr, List.cons_append] at h ⊢
      by_cases h1 : c = '\n'
      · simp [h1] at h
      · simp only [h1, if_false] at h ⊢
        by_cases h2 : c = q
        · simp only [h2, if_true] at h ⊢
          cases h; rfl
        · simp only [h2, if_false] at h ⊢
          by_cases h3 : c = '\\'
          · simp only [h3, if_true] at h ⊢
            cases hr : scanStr q true false r with
            | ok s' r' =>
              rw [hr] at h
              simp only [Scan.cons, Scan.ok.injEq] at h
              obtain ⟨rfl, rfl⟩ := h
              rw [ih rest true false s' hr]; rfl
            | err => rw [hr] at h; cases h
            | unsup => rw [hr] at h; cases h
          · simp only [h3, if_false] at h ⊢
            cases hr : scanStr q false false r with
            | ok s' r' =>
              rw [hr] at h
              simp only [Scan.cons, Scan.ok.injEq] at h
              obtain ⟨rfl, rfl⟩ := h
              rw [ih rest false false s' hr]; rfl
            | err => rw [hr] at h; cases h
            | unsup => rw [hr] at h; cases h
    | true =>
      simp only [scanStr, List.cons_append] at h ⊢
      by_cases h1 : c = '\n'
      · simp [h1] at h
      · simp only [h1, if_false] at h ⊢
        by_cases h2 : c = '\\'
        · simp only [h2, if_true] at h ⊢
          cases hr : scanStr q true (!u) r with
          | ok s' r' =>
            rw [hr] at h
            simp only [Scan.cons, Scan.ok.injEq] at h
            obtain ⟨rfl, rfl⟩ := h
            rw [ih rest true (!u) s' hr]; rfl
          | err => rw [hr] at h; cases h
          | unsup => rw [hr] at h; cases h
        · simp only [h2, if_false] at h ⊢
          by_cases h3 : (u && decide (c = q)) = true
          · simp only [h3, if_true] at h ⊢
            cases h; rfl
          · simp only [h3, Bool.false_eq_true, if_false] at h ⊢
            cases hr : scanStr q false false r with
            | ok s' r' =>
              rw [hr] at h
              simp only [Scan.cons, Scan.ok.injEq] at h
              obtain ⟨rfl, rfl⟩ := h
              rw [ih rest false false s' hr]; rfl
            | err => rw [hr] at h; cases h
            | unsup => rw [hr] at h; cases h


theorem nameChar_ne {c x : Char} (h : isNameChar c = true) (hx : isNameChar x = false) : c ≠ x := by
  intro e; subst e; rw [h] at hx; cases hx

theorem adjust_single (l c : Nat) (x : Char) (h : x ≠ '\n') : adjust l c [x] = (l, c + 1) := by
  simp [adjust, h]

theorem renderE_cons (e : Elem) (r : List Elem) : renderE (e :: r) = e.text ++ renderE r := by
  simp [renderE]

/-- one iteration of `readfile` on a white-space byte -/
theorem lexLoop_ws (f l c : Nat) (acc : List RTok) (x : Char) (rest : List Char)
    (h32 : x.toNat ≤ 32) (hnl : x ≠ '\n') :
    lexLoop (f + 1) l c acc (x :: rest) = lexLoop f l (c + 1) acc rest := by
  have h128 : ¬ x.toNat ≥ 128 := by omega
  simp only [lexLoop, h128, hnl, h32, if_true, if_false]

theorem lexLoop_nl (f l c : Nat) (acc : List RTok) (rest : List Char) :
    lexLoop (f + 1) l c acc ('\n' :: rest) = lexLoop f (l + 1) 1 acc rest := by
  have h128 : ¬ '\n'.toNat ≥ 128 := by decide
  simp only [lexLoop, h128, if_true, if_false]

theorem lexLoop_word (f l c : Nat) (acc : List RTok) (a : Char) (s : Str) (rest : List Char)
    (hs : (a :: s).all isNameChar = true) (hstop : wordStop a.isDigit rest = true) :
    lexLoop (f + 1) l c acc (a :: s ++ rest) =
      lexLoop f (adjust l c (a :: s)).1 (adjust l c (a :: s)).2 (⟨a :: s, l, c⟩ :: acc) rest := by
  have ha : isNameChar a = true := by simp only [List.all_cons, Bool.and_eq_true] at hs; exact hs.1
  have hb := isNameChar_ascii ha
  have h128 : ¬ a.toNat ≥ 128 := by omega
  have h32 : ¬ a.toNat ≤ 32 := by omega
  have hnl : a ≠ '\n' := nameChar_ne ha (by decide)
  have hh : a ≠ '#' := nameChar_ne ha (by decide)
  have hbs : a ≠ '\\' := nameChar_ne ha (by decide)
  have hscan := scanName_word a.isDigit (a :: s) rest hs hstop
  simp only [List.cons_append] at hscan ⊢
  simp only [lexLoop, h128, hnl, h32, hh, hbs, ha, hscan, if_true, if_false, decide_false, Bool.or_self, Bool.false_eq_true]

theorem lexLoop_op (f l c : Nat) (acc : List RTok) (x : Char) (rest : List Char)
    (hok : elemOK (.op x) = true) (hst : startsOK (.op x) rest = true) :
    lexLoop (f + 1) l c acc (x :: rest) = lexLoop f l (c + 1) (⟨[x], l, c⟩ :: acc) rest := by
  simp only [elemOK, Bool.and_eq_true, decide_eq_true_eq, Bool.not_eq_true', bne_iff_ne, ne_eq] at hok
  obtain ⟨⟨⟨⟨⟨⟨h1, h2⟩, h3⟩, h4⟩, h5⟩, h6⟩, h7⟩ := hok
  have h128 : ¬ x.toNat ≥ 128 := by omega
  have h32 : ¬ x.toNat ≤ 32 := by omega
  have hnl : x ≠ '\n' := by intro e; subst e; revert h2; decide
  simp only [startsOK, Bool.not_eq_true', Bool.and_eq_false_iff, decide_eq_false_iff_not, Bool.or_eq_false_iff] at hst
  have hc1 : (decide (x = '/') && decide (rest.head? = some '/')) = false := by
    rcases hst with h | h
    · simp [h]
    · simp [h.1]
  have hc2 : (decide (x = '/') && decide (rest.head? = some '*')) = false := by
    rcases hst with h | h
    · simp [h]
    · simp [h.2]
  simp only [lexLoop, h128, hnl, h32, h3, h4, h5, h6, h7, hc1, hc2, if_false, decide_false, Bool.or_self, Bool.false_eq_true]

theorem lexLoop_lcom (f l c : Nat) (acc : List RTok) (b : Str) (rest : List Char)
    (hok : elemOK (.lcom b) = true) (hst : startsOK (.lcom b) rest = true) :
    lexLoop (f + 1) l c acc ('/' :: '/' :: b ++ rest) =
      lexLoop f (adjust l c ('/' :: '/' :: b)).1 (adjust l c ('/' :: '/' :: b)).2 (⟨'/' :: '/' :: b, l, c⟩ :: acc) rest := by
  simp only [elemOK] at hok
  have hr : lineEnd rest = true := hst
  have hscan : scanLine ('/' :: '/' :: b ++ rest) = some ('/' :: '/' :: b, rest) := by
    have := scanLine_body ('/' :: '/' :: b) rest (by simpa using hok) hr
    simpa using this
  have h128 : ¬ '/'.toNat ≥ 128 := by decide
  have h32 : ¬ '/'.toNat ≤ 32 := by decide
  simp only [List.cons_append] at hscan ⊢
  simp only [lexLoop, h128, h32, hscan, if_false, List.head?_cons, decide_true, Bool.and_self, if_true,
    show ('/' : Char) ≠ '\n' from by decide, show ((decide ('/' = '#') || decide ('/' = '\\')) = true) = False from by decide,
    show (isNameChar '/' = true) = False from by decide]

theorem lexLoop_bcom (f l c : Nat) (acc : List RTok) (b : Str) (rest : List Char)
    (hok : elemOK (.bcom b) = true) :
    lexLoop (f + 1) l c acc ('/' :: '*' :: (b ++ ['*', '/']) ++ rest) =
      lexLoop f (adjust l c ('/' :: '*' :: (b ++ ['*', '/']))).1 (adjust l c ('/' :: '*' :: (b ++ ['*', '/']))).2
        (⟨'/' :: '*' :: (b ++ ['*', '/']), l, c⟩ :: acc) rest := by
  simp only [elemOK, Bool.and_eq_true, Bool.not_eq_true'] at hok
  obtain ⟨⟨h1, h2⟩, _⟩ := hok
  have hscan : scanBlock (b ++ ['*', '/'] ++ rest) = (b ++ ['*', '/'], rest) := by
    have := scanBlock_body b rest h1
    simpa using this
  have h128 : ¬ '/'.toNat ≥ 128 := by decide
  have h32 : ¬ '/'.toNat ≤ 32 := by decide
  simp only [List.cons_append, List.append_assoc] at hscan ⊢
  simp only [List.nil_append] at hscan
  simp [lexLoop, hscan, h2, show isNameChar '/' = false from by decide]

end Cppcheck.Lexer

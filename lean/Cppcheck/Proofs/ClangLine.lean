import Cppcheck.Model.ClangLine
/-
Helper lemmas for C35: `splitString (join fields) = fields` for the field shapes clang emits.
-/
namespace Cppcheck.ClangLine

/-! ### searching -/

theorem findP_append_not {p : Char → Bool} : ∀ (a b : Str), (∀ c ∈ a, p c = false) → findP p (a ++ b) = (findP p b).map (· + a.length)
  | [], b, _ => by simp [Option.map_id']
  | c :: t, b, h => by
    have hc : p c = false := h c (by simp)
    have ih := findP_append_not t b (fun x hx => h x (by simp [hx]))
    simp only [List.cons_append, findP, hc, ih, Option.map_map, List.length_cons]
    cases findP p b <;> simp [Nat.add_assoc]

theorem findP_none_of_all {p : Char → Bool} : ∀ (a : Str), (∀ c ∈ a, p c = false) → findP p a = none
  | [], _ => rfl
  | c :: t, h => by
    have hc : p c = false := h c (by simp)
    simp [findP, hc, findP_none_of_all t (fun x hx => h x (by simp [hx]))]

theorem findP_hit {p : Char → Bool} (a : Str) (c : Char) (b : Str) (ha : ∀ x ∈ a, p x = false) (hc : p c = true) :
    findP p (a ++ c :: b) = some a.length := by
  rw [findP_append_not a _ ha]; simp [findP, hc]

/-- an occurrence of `pat` that lies inside the first part is an occurrence there -/
theorem findSub_append_left (pat : Str) (hp : pat ≠ []) : ∀ (a b : Str) (d : Nat),
    findSub pat (a ++ b) = some d → d + pat.length ≤ a.length → findSub pat a = some d
  | [], b, d, _, hd => by
    have : pat.length = 0 := by
      have h0 := hd
      simp only [List.length_nil] at h0
      omega
    exact absurd (List.eq_nil_of_length_eq_zero this) hp
  | c :: t, b, d, h, hd => by
    simp only [List.cons_append, findSub] at h ⊢
    by_cases hpre : pat.isPrefixOf (c :: (t ++ b)) = true
    · simp only [hpre, if_true, Option.some.injEq] at h
      subst h
      have : pat.isPrefixOf (c :: t) = true := by
        rw [List.isPrefixOf_iff_prefix] at hpre ⊢
        have hl : pat.length ≤ (c :: t).length := by simpa using hd
        have h2 : c :: (t ++ b) = (c :: t) ++ b := rfl
        rw [h2] at hpre
        exact List.prefix_of_prefix_length_le hpre (List.prefix_append _ _) hl
      simp [this]
    · simp only [hpre] at h
      have hnp : pat.isPrefixOf (c :: t) ≠ true := by
        intro hh
        apply hpre
        rw [List.isPrefixOf_iff_prefix] at hh ⊢
        exact hh.trans (List.prefix_append (c :: t) b)
      simp only [hnp]
      cases hr : findSub pat (t ++ b) with
      | none => simp [hr] at h
      | some d' =>
        simp only [hr, Option.map_some, Bool.false_eq_true, if_false, Option.some.injEq] at h
        subst h
        have := findSub_append_left pat hp t b d' hr (by simp at hd; omega)
        simp [this]


/-! ### the field shapes clang emits -/

theorem noCh_iff {c : Char} {s : Str} : noCh c s = true ↔ ∀ x ∈ s, (x == c) = false := by
  simp [noCh, List.all_eq_true, bne_iff_ne]

theorem join_cases (r : List Str) : join r = [] ∨ ∃ r', join r = ' ' :: r' := by
  cases r with
  | nil => exact .inl rfl
  | cons f r => exact .inr ⟨_, rfl⟩

theorem dropSpaces_nil : dropSpaces [] = [] := rfl

theorem dropSpaces_cons_ne {c : Char} {t : Str} (h : (c == ' ') = false) : dropSpaces (c :: t) = c :: t := by
  simp [dropSpaces, List.dropWhile, isSpace, h]

theorem dropSpaces_space (t : Str) : dropSpaces (' ' :: t) = dropSpaces t := by
  simp [dropSpaces, List.dropWhile, isSpace]

/-- a rendered well-formed field is non-empty and does not start with a blank -/
theorem render_head (f : Field) (h : f.ok = true) : ∃ c t, f.render = c :: t ∧ (c == ' ') = false := by
  cases f with
  | punct c =>
    refine ⟨c, [], rfl, ?_⟩
    simp only [Field.ok, Bool.or_eq_true, beq_iff_eq] at h
    rcases h with (h | h) | h <;> subst h <;> decide
  | angle a => exact ⟨'<', _, rfl, by decide⟩
  | dquote a => exact ⟨'"', _, rfl, by decide⟩
  | squote a => exact ⟨'\'', _, rfl, by decide⟩
  | squote2 a b => exact ⟨'\'', a ++ tick3 ++ b ++ ['\''], rfl, by decide⟩
  | word w =>
    cases w with
    | nil => simp [Field.ok] at h
    | cons c t =>
      refine ⟨c, t, rfl, ?_⟩
      simp only [Field.ok, wordStartOK, Bool.and_eq_true, bne_iff_ne, ne_eq] at h
      have := h.1.1.1.2
      simpa using this

/-- what is left of the line after a field: the remaining fields, positioned at the next non-blank -/
theorem dropSpaces_join (f : Field) (r : List Field) (h : f.ok = true) :
    dropSpaces (join ((f :: r).map Field.render)) = f.render ++ join (r.map Field.render) := by
  obtain ⟨c, t, hr, hc⟩ := render_head f h
  simp only [List.map_cons, join, dropSpaces_space, hr, List.cons_append]
  exact dropSpaces_cons_ne hc


/-! ### one loop iteration per field shape -/

theorem take_len_append (a b : Str) : (a ++ b).take a.length = a := by simp
theorem drop_len_append (a b : Str) : (a ++ b).drop a.length = b := by simp

theorem step_punct (c : Char) (rest : Str) (h : (Field.punct c).ok = true) :
    step (c :: rest) = .emit [[c]] (dropSpaces rest) := by
  simp only [Field.ok] at h
  simp [step, h]

theorem step_angle (a rest : Str) (h : noCh '>' a = true) :
    step ('<' :: (a ++ '>' :: rest)) = .emit ['<' :: (a ++ ['>'])] (dropSpaces rest) := by
  have hf : findP (· == '>') ('<' :: (a ++ '>' :: rest)) = some (a.length + 1) := by
    have := findP_hit (p := (· == '>')) ('<' :: a) '>' rest
      (by intro x hx; rcases List.mem_cons.1 hx with rfl | hx; · decide
          · exact noCh_iff.1 h x hx) (by decide)
    simpa using this
  have e1 : ('<' :: (a ++ '>' :: rest)) = ('<' :: (a ++ ['>'])) ++ rest := by simp
  have hl : ('<' :: (a ++ ['>'])).length = a.length + 1 + 1 := by simp
  have c1 : (('<' : Char) == '*' || ('<' : Char) == '(' || ('<' : Char) == ')' || ('<' : Char) == Char.ofNat 0) = false := by decide
  simp only [step, c1, Bool.false_eq_true, if_false, beq_self_eq_true, if_true, hf, Option.map_some, finishExcl]
  rw [e1, ← hl, take_len_append, drop_len_append]

theorem step_dquote (a rest : Str) (h : noCh '"' a = true) :
    step ('"' :: (a ++ '"' :: rest)) = .emit ['"' :: (a ++ ['"'])] (dropSpaces rest) := by
  have hf : findP (· == '"') (a ++ '"' :: rest) = some a.length :=
    findP_hit a '"' rest (noCh_iff.1 h) (by decide)
  have hl : ('"' :: (a ++ ['"'])).length = a.length + 2 := by simp
  have c1 : (('"' : Char) == '*' || ('"' : Char) == '(' || ('"' : Char) == ')' || ('"' : Char) == Char.ofNat 0) = false := by decide
  have c2 : (('"' : Char) == '<') = false := by decide
  simp only [step, c1, c2, Bool.false_eq_true, if_false, beq_self_eq_true, if_true, hf, Option.map_some, finishExcl]
  have e2 : ('"' :: (a ++ '"' :: rest)) = ('"' :: (a ++ ['"'])) ++ rest := by simp
  rw [e2, ← hl, take_len_append, drop_len_append]

/-- after a closing quote that ends a field the line continues with a blank or ends: no `':'` follows -/
theorem no_tick3 (rest : Str) (hr : rest = [] ∨ ∃ r', rest = ' ' :: r') : (('\'' :: rest).take 3 == tick3) = false := by
  rcases hr with rfl | ⟨r', rfl⟩
  · decide
  · cases r' with
    | nil => decide
    | cons x r'' => simp [tick3]

theorem step_squote (a rest : Str) (h : noCh '\'' a = true) (hr : rest = [] ∨ ∃ r', rest = ' ' :: r') :
    step ('\'' :: (a ++ '\'' :: rest)) = .emit ['\'' :: (a ++ ['\''])] (dropSpaces rest) := by
  have hf : findP (· == '\'') (a ++ '\'' :: rest) = some a.length :=
    findP_hit a '\'' rest (noCh_iff.1 h) (by decide)
  have hl : ('\'' :: (a ++ ['\''])).length = a.length + 1 + 1 := by simp
  have c1 : (('\'' : Char) == '*' || ('\'' : Char) == '(' || ('\'' : Char) == ')' || ('\'' : Char) == Char.ofNat 0) = false := by decide
  have c2 : (('\'' : Char) == '<') = false := by decide
  have c3 : (('\'' : Char) == '"') = false := by decide
  have hd : ('\'' :: (a ++ '\'' :: rest)).drop (a.length + 1) = '\'' :: rest := by simp
  simp only [step, c1, c2, c3, Bool.false_eq_true, if_false, beq_self_eq_true, if_true, hf, hd, no_tick3 rest hr, Bool.and_false, finishExcl]
  have e2 : ('\'' :: (a ++ '\'' :: rest)) = ('\'' :: (a ++ ['\''])) ++ rest := by simp
  rw [e2, ← hl, take_len_append, drop_len_append]

theorem step_squote2 (a b rest : Str) (ha : noCh '\'' a = true) (hb : noCh '\'' b = true) :
    step ('\'' :: (a ++ tick3 ++ b ++ '\'' :: rest)) = .emit ['\'' :: (a ++ tick3 ++ b ++ ['\''])] (dropSpaces rest) := by
  have e0 : a ++ tick3 ++ b ++ '\'' :: rest = a ++ '\'' :: (':' :: '\'' :: (b ++ '\'' :: rest)) := by simp [tick3]
  have hf : findP (· == '\'') (a ++ tick3 ++ b ++ '\'' :: rest) = some a.length := by
    rw [e0]; exact findP_hit a '\'' _ (noCh_iff.1 ha) (by decide)
  have hf2 : findP (· == '\'') (b ++ '\'' :: rest) = some b.length :=
    findP_hit b '\'' rest (noCh_iff.1 hb) (by decide)
  have c1 : (('\'' : Char) == '*' || ('\'' : Char) == '(' || ('\'' : Char) == ')' || ('\'' : Char) == Char.ofNat 0) = false := by decide
  have c2 : (('\'' : Char) == '<') = false := by decide
  have c3 : (('\'' : Char) == '"') = false := by decide
  have hd : ('\'' :: (a ++ tick3 ++ b ++ '\'' :: rest)).drop (a.length + 1) = tick3 ++ (b ++ '\'' :: rest) := by
    rw [e0]; simp [tick3]
  have hd2 : ('\'' :: (a ++ tick3 ++ b ++ '\'' :: rest)).drop (a.length + 1 + 3) = b ++ '\'' :: rest := by
    rw [e0]
    have : a.length + 1 + 3 = (('\'' :: a) ++ ['\'', ':', '\'']).length := by simp
    rw [this]
    have e : '\'' :: (a ++ '\'' :: ':' :: '\'' :: (b ++ '\'' :: rest)) = (('\'' :: a) ++ ['\'', ':', '\'']) ++ (b ++ '\'' :: rest) := by simp
    rw [e, drop_len_append]
  have ht : (tick3 ++ (b ++ '\'' :: rest)).take 3 = tick3 := by simp [tick3]
  have hlen : a.length + 1 + 3 < ('\'' :: (a ++ tick3 ++ b ++ '\'' :: rest)).length := by simp [tick3]; omega
  simp only [step, c1, c2, c3, Bool.false_eq_true, if_false, beq_self_eq_true, if_true, hf, hd, hd2, ht, hlen, decide_true, Bool.and_self,
    hf2, Option.map_some, finishExcl]
  have hl : ('\'' :: (a ++ tick3 ++ b ++ ['\''])).length = b.length + (a.length + 1 + 3) + 1 := by simp [tick3]; omega
  have e2 : ('\'' :: (a ++ tick3 ++ b ++ '\'' :: rest)) = ('\'' :: (a ++ tick3 ++ b ++ ['\''])) ++ rest := by simp
  rw [e2, ← hl, take_len_append, drop_len_append]


/-! ### bare words -/

/-- where the identifier scan stops in `w ++ rest`: at a character of `w` or at the blank that follows -/
theorem dropWhile_head (p : Char → Bool) (hp : p ' ' = false) : ∀ (w rest : Str), (rest = [] ∨ ∃ r', rest = ' ' :: r') →
    ∀ x, ((w ++ rest).dropWhile p).head? = some x → x ∈ w ∨ x = ' '
  | [], rest, hr, x, h => by
    rcases hr with rfl | ⟨r', rfl⟩
    · simp at h
    · simp [hp] at h; exact .inr h.symm
  | c :: t, rest, hr, x, h => by
    by_cases hc : p c = true
    · simp only [List.cons_append, List.dropWhile, hc] at h
      rcases dropWhile_head p hp t rest hr x h with h | h
      · exact .inl (by simp [h])
      · exact .inr h
    · simp only [List.cons_append, List.dropWhile, hc] at h
      simp at h
      exact .inl (by simp [h])

theorem getElem?_takeWhile_length (p : Char → Bool) : ∀ (s : Str), s[(s.takeWhile p).length]? = (s.dropWhile p).head?
  | [] => rfl
  | c :: t => by
    by_cases hc : p c = true
    · simp [List.takeWhile, List.dropWhile, hc, getElem?_takeWhile_length p t]
    · simp [List.takeWhile, List.dropWhile, hc]

theorem step_word (w rest : Str) (h : (Field.word w).ok = true) (hr : rest = [] ∨ ∃ r', rest = ' ' :: r') :
    step (w ++ rest) = .emit [w] (dropSpaces rest) := by
  simp only [Field.ok, Bool.and_eq_true, Option.isNone_iff_eq_none] at h
  obtain ⟨⟨⟨h0, hsp⟩, hlt⟩, hdc⟩ := h
  cases w with
  | nil => simp at h0
  | cons c t =>
    simp only [wordStartOK, Bool.and_eq_true, bne_iff_ne, ne_eq] at h0
    obtain ⟨⟨⟨⟨⟨⟨⟨n1, n2⟩, n3⟩, n4⟩, n5⟩, n6⟩, n7⟩, n8⟩ := h0
    have c1 : (c == '*' || c == '(' || c == ')' || c == Char.ofNat 0) = false := by simp [n1, n2, n3, n4]
    have c2 : (c == '<') = false := by simp [n5]
    have c3 : (c == '"') = false := by simp [n6]
    have c4 : (c == '\'') = false := by simp [n7]
    -- the identifier scan never stops at a `<`
    have hstop : ((c :: t) ++ rest)[(((c :: t) ++ rest).takeWhile isIdentCh).length]? ≠ some '<' := by
      rw [getElem?_takeWhile_length]
      intro hx
      rcases dropWhile_head isIdentCh (by decide) (c :: t) rest hr '<' hx with hm | hm
      · have := noCh_iff.1 hlt '<' hm
        simp at this
      · exact absurd hm (by decide)
    -- positions of the blank, `::`, `<`
    have he : findP isSpace ((c :: t) ++ rest) = if rest = [] then none else some (c :: t).length := by
      rcases hr with rfl | ⟨r', rfl⟩
      · simp only [List.append_nil, if_true]
        exact findP_none_of_all _ (by intro x hx; have := noCh_iff.1 hsp x hx; simpa [isSpace] using this)
      · simp only [reduceCtorEq, if_false]
        exact findP_hit _ ' ' r' (by intro x hx; have := noCh_iff.1 hsp x hx; simpa [isSpace] using this) (by decide)
    have hdc' : ltPos2 (findSub dcolon ((c :: t) ++ rest)) (findP isSpace ((c :: t) ++ rest)) = false := by
      rw [he]
      cases hd : findSub dcolon ((c :: t) ++ rest) with
      | none => simp [ltPos2]
      | some d =>
        rcases hr with rfl | ⟨r', rfl⟩
        · simp only [List.append_nil] at hd; rw [hdc] at hd; cases hd
        · simp only [reduceCtorEq, if_false, ltPos2, decide_eq_false_iff_not, Nat.not_lt]
          by_cases hlt2 : d + 1 < (c :: t).length
          · have := findSub_append_left dcolon (by decide) (c :: t) (' ' :: r') d hd (by simp [dcolon] at *; omega)
            rw [hdc] at this; cases this
          · omega
    have hlt' : ltPos2 (findP (· == '<') ((c :: t) ++ rest)) (findP isSpace ((c :: t) ++ rest)) = false := by
      rw [he, findP_append_not (c :: t) rest (noCh_iff.1 hlt)]
      rcases hr with rfl | ⟨r', rfl⟩
      · simp [findP, ltPos2]
      · cases findP (· == '<') (' ' :: r') with
        | none => simp [ltPos2]
        | some l => simp [ltPos2]; omega
    have hfin : finishExcl ((c :: t) ++ rest) (findP isSpace ((c :: t) ++ rest)) = .emit [c :: t] (dropSpaces rest) := by
      rw [he]
      rcases hr with rfl | ⟨r', rfl⟩
      · simp [finishExcl, dropSpaces]
      · simp only [reduceCtorEq, if_false, finishExcl, take_len_append, drop_len_append]
    have hstep : step ((c :: t) ++ rest) = wordBranch ((c :: t) ++ rest) c := by
      simp only [List.cons_append, step, c1, c2, c3, c4, Bool.false_eq_true, if_false]
    rw [hstep]
    unfold wordBranch
    have hb : (decide ((((c :: t) ++ rest).takeWhile isIdentCh).length > 0) &&
        (((c :: t) ++ rest)[(((c :: t) ++ rest).takeWhile isIdentCh).length]? == some '<') && isAlpha c) = false := by
      have : (((c :: t) ++ rest)[(((c :: t) ++ rest).takeWhile isIdentCh).length]? == some '<') = false := by
        simpa using hstop
      rw [this]; simp
    simp only [hb, Bool.false_eq_true, if_false, hdc', hlt', Bool.and_false, Bool.false_and, hfin]


/-! ### the whole line -/

theorem step_field (f : Field) (r : List Field) (h : f.ok = true) :
    step (f.render ++ join (r.map Field.render)) = .emit [f.render] (dropSpaces (join (r.map Field.render))) := by
  have hr := join_cases (r.map Field.render)
  cases f with
  | punct c => exact step_punct c _ h
  | angle a => simpa [Field.render] using step_angle a _ (by simpa [Field.ok] using h)
  | dquote a => simpa [Field.render] using step_dquote a _ (by simpa [Field.ok] using h)
  | squote a => simpa [Field.render] using step_squote a _ (by simpa [Field.ok] using h) hr
  | squote2 a b =>
    simp only [Field.ok, Bool.and_eq_true] at h
    simpa [Field.render] using step_squote2 a b _ h.1 h.2
  | word w => exact step_word w _ h hr

theorem join_length_cons (f : Str) (r : List Str) : (join (f :: r)).length = 1 + f.length + (join r).length := by
  simp [join]; omega

theorem loop_fields : ∀ (fs : List Field), fs.all Field.ok = true → ∀ fuel, (join (fs.map Field.render)).length < fuel →
    loop fuel (dropSpaces (join (fs.map Field.render))) = .ok (fs.map Field.render)
  | [], _, fuel, hf => by
    cases fuel with
    | zero => simp at hf
    | succ n => simp [join, dropSpaces, loop]
  | f :: r, h, fuel, hf => by
    simp only [List.all_cons, Bool.and_eq_true] at h
    cases fuel with
    | zero => simp at hf
    | succ n =>
      rw [dropSpaces_join f r h.1]
      obtain ⟨c, t, hc, _⟩ := render_head f h.1
      have hne : (f.render ++ join (r.map Field.render)).isEmpty = false := by simp [hc]
      simp only [loop, hne, Bool.false_eq_true, if_false, step_field f r h.1]
      have hlen : (join (r.map Field.render)).length < n := by
        simp only [List.map_cons, join_length_cons] at hf
        omega
      rw [loop_fields r h.2 n hlen]
      simp

theorem splitString_join (fs : List Field) (h : fs.all Field.ok = true) :
    splitString (join (fs.map Field.render)) = some (fs.map Field.render) := by
  unfold splitString
  rw [loop_fields fs h _ (Nat.lt_succ_self _)]

/-! ### decimal numbers as clang prints them -/

def digitChar (d : Nat) : Char := Char.ofNat (48 + d)

/-- unsigned decimal without leading zeros (`llvm::raw_ostream << unsigned`); the first argument is fuel -/
def showNatF : Nat → Nat → Str
  | 0, _ => []
  | f + 1, n => if n < 10 then [digitChar n] else showNatF f (n / 10) ++ [digitChar (n % 10)]

def showNat (n : Nat) : Str := showNatF (n + 1) n

theorem showNatF_fuel : ∀ (f f' n : Nat), n < f → n < f' → showNatF f n = showNatF f' n
  | 0, _, _, h, _ => by omega
  | _, 0, _, _, h => by omega
  | f + 1, f' + 1, n, h, h' => by
    simp only [showNatF]
    split
    · rfl
    · rw [showNatF_fuel f f' (n / 10) (by omega) (by omega)]

theorem showNat_eq (n : Nat) : showNat n = if n < 10 then [digitChar n] else showNat (n / 10) ++ [digitChar (n % 10)] := by
  unfold showNat
  rw [show showNatF (n + 1) n = (if n < 10 then [digitChar n] else showNatF n (n / 10) ++ [digitChar (n % 10)]) from rfl]
  split
  · rfl
  · rw [showNatF_fuel n (n / 10 + 1) (n / 10) (by omega) (by omega)]

theorem digitChar_isDigit {d : Nat} (h : d < 10) : isDigit (digitChar d) = true := by
  have : d = 0 ∨ d = 1 ∨ d = 2 ∨ d = 3 ∨ d = 4 ∨ d = 5 ∨ d = 6 ∨ d = 7 ∨ d = 8 ∨ d = 9 := by omega
  rcases this with h | h | h | h | h | h | h | h | h | h <;> subst h <;> decide

theorem digitChar_val {d : Nat} (h : d < 10) : (digitChar d).toNat - 48 = d := by
  have : d = 0 ∨ d = 1 ∨ d = 2 ∨ d = 3 ∨ d = 4 ∨ d = 5 ∨ d = 6 ∨ d = 7 ∨ d = 8 ∨ d = 9 := by omega
  rcases this with h | h | h | h | h | h | h | h | h | h <;> subst h <;> decide

theorem digitsVal_append (a : Str) (c : Char) (acc : Nat) : digitsVal (a ++ [c]) acc = digitsVal a acc * 10 + (c.toNat - 48) := by
  induction a generalizing acc with
  | nil => simp [digitsVal]
  | cons x t ih => simp [digitsVal, ih]

theorem showNat_digits (n : Nat) : (showNat n).all isDigit = true := by
  induction n using Nat.strongRecOn with
  | _ n ih =>
    rw [showNat_eq]
    split
    · simp [digitChar_isDigit (by assumption)]
    · simp [ih (n / 10) (by omega), digitChar_isDigit (Nat.mod_lt n (by decide))]

theorem showNat_val (n : Nat) : digitsVal (showNat n) 0 = n := by
  induction n using Nat.strongRecOn with
  | _ n ih =>
    rw [showNat_eq]
    split
    · simp [digitsVal, digitChar_val (by assumption)]
    · rw [digitsVal_append, ih (n / 10) (by omega), digitChar_val (Nat.mod_lt n (by decide))]
      omega

theorem showNat_ne_nil (n : Nat) : showNat n ≠ [] := by
  rw [showNat_eq]; split <;> simp

theorem showNat_head (n : Nat) : ∃ c t, showNat n = c :: t ∧ (c = '0' → t = []) := by
  induction n using Nat.strongRecOn with
  | _ n ih =>
    rw [showNat_eq]
    split
    · exact ⟨_, [], rfl, fun _ => rfl⟩
    · rename_i h
      obtain ⟨c, t, hc, h0⟩ := ih (n / 10) (by omega)
      refine ⟨c, t ++ [digitChar (n % 10)], by simp [hc], ?_⟩
      intro hz
      exfalso
      -- n / 10 ≥ 1, so its first digit is not 0 unless it is the single digit 0
      have ht := h0 hz
      subst hz; subst ht
      have hv := showNat_val (n / 10)
      rw [hc] at hv
      simp [digitsVal] at hv
      omega

theorem strToInt_showNat (n : Nat) (h : n < 2147483648) : strToInt (showNat n) = some (n : Int) := by
  obtain ⟨c, t, hc, h0⟩ := showNat_head n
  have hd := showNat_digits n
  have hv := showNat_val n
  rw [hc] at hd hv
  have hcd : isDigit c = true := by simp at hd; exact hd.1
  have hm : (c == '-') = false := by
    cases hcm : c == '-' with
    | false => rfl
    | true => rw [beq_iff_eq.1 hcm] at hcd; exact absurd hcd (by decide)
  have hp : (c == '+') = false := by
    cases hcm : c == '+' with
    | false => rfl
    | true => rw [beq_iff_eq.1 hcm] at hcd; exact absurd hcd (by decide)
  rw [hc]
  simp only [strToInt, hm, hp, Bool.false_eq_true, if_false]
  have hz : (c == '0' && !t.isEmpty) = false := by
    cases hcz : c == '0' with
    | false => rfl
    | true => simp [h0 (beq_iff_eq.1 hcz)]
  have hall : ((c :: t).isEmpty || !(c :: t).all isDigit) = false := by simp [hd]
  simp only [hall, hz, Bool.false_eq_true, if_false, hv]
  have : ¬ ((n : Int) < -2147483648 ∨ (n : Int) > 2147483647) := by omega
  simp [this]


/-! ### how clang prints a location (TextNodeDumper::dumpLocation / dumpSourceRange) -/

section
attribute [local irreducible] showNat

/-- the three spellings of a valid location -/
inductive LForm where
  | col (c : Nat)                    -- same file, same line as the last printed location
  | line (l c : Nat)                 -- same file, other line
  | file (f : Str) (l c : Nat)       -- other file
deriving Repr, DecidableEq

def LForm.render : LForm → Str
  | .col c => ['c', 'o', 'l', ':'] ++ showNat c
  | .line l c => ['l', 'i', 'n', 'e', ':'] ++ showNat l ++ [':'] ++ showNat c
  | .file f l c => f ++ [':'] ++ showNat l ++ [':'] ++ showNat c

/-- `<begin>` or `<begin, end>` -/
def rangeStr (b : LForm) (e : Option LForm) : Str :=
  '<' :: (b.render ++ (match e with | none => [] | some e => [',', ' '] ++ e.render) ++ ['>'])

theorem showNat_no (c : Char) (hc : isDigit c = false) (n : Nat) : ∀ x ∈ showNat n, (x == c) = false := by
  intro x hx
  have := List.all_eq_true.1 (showNat_digits n) x hx
  cases hxc : x == c with
  | false => rfl
  | true => rw [beq_iff_eq.1 hxc] at this; rw [this] at hc; cases hc

/-- `ext.substr(k, ext.find_first_of(stops, k) - k)` when a run of non-stop characters is followed by a stop -/
theorem upTo_hit (stops : List Char) (pre mid : Str) (c : Char) (post : Str)
    (hm : ∀ x ∈ mid, stops.contains x = false) (hc : stops.contains c = true) :
    upTo stops (pre ++ mid ++ c :: post) pre.length = mid := by
  unfold upTo findFrom
  have hd : (pre ++ mid ++ c :: post).drop pre.length = mid ++ c :: post := by simp
  rw [hd, findP_hit mid c post hm hc]
  simp

/-- a pattern whose first character does not occur is not found -/
theorem findSub_none_of_head (h : Char) (pt : Str) : ∀ (s : Str), (∀ x ∈ s, (x == h) = false) → findSub (h :: pt) s = none
  | [], _ => by simp [findSub]
  | c :: t, hs => by
    have hc : (c == h) = false := hs c (by simp)
    have : (h :: pt).isPrefixOf (c :: t) = false := by
      simp only [List.isPrefixOf]
      have : (h == c) = false := by rw [Bool.beq_comm]; exact hc
      simp [this]
    simp [findSub, this, findSub_none_of_head h pt t (fun x hx => hs x (by simp [hx]))]

/-- skipping a prefix in which the first character of the pattern does not occur -/
theorem findSub_skip (h : Char) (pt : Str) : ∀ (a b : Str), (∀ x ∈ a, (x == h) = false) →
    findSub (h :: pt) (a ++ b) = (findSub (h :: pt) b).map (· + a.length)
  | [], b, _ => by simp
  | c :: t, b, hs => by
    have hc : (c == h) = false := hs c (by simp)
    have : (h :: pt).isPrefixOf (c :: (t ++ b)) = false := by
      simp only [List.isPrefixOf]
      have : (h == c) = false := by rw [Bool.beq_comm]; exact hc
      simp [this]
    simp only [List.cons_append, findSub, this, Bool.false_eq_true, if_false,
      findSub_skip h pt t b (fun x hx => hs x (by simp [hx])), Option.map_map, List.length_cons]
    cases findSub (h :: pt) b <;> simp [Nat.add_assoc]


/-! ### `setLoc` on the three spellings -/

/-- the text after the begin location inside the brackets: `>` or `, end>` -/
def tailStr (e : Option LForm) : Str := (match e with | none => [] | some e => [',', ' '] ++ e.render) ++ ['>']

theorem rangeStr_eq (b : LForm) (e : Option LForm) : rangeStr b e = '<' :: (b.render ++ tailStr e) := by
  simp [rangeStr, tailStr]

theorem tailStr_head (e : Option LForm) : ∃ c post, tailStr e = c :: post ∧ (c = ',' ∨ c = '>') := by
  cases e with
  | none => exact ⟨'>', [], rfl, .inr rfl⟩
  | some e => exact ⟨',', _, rfl, .inl rfl⟩

theorem setLoc_col (files : List Str) (c : Nat) (hc : c < 2147483648) (e : Option LForm) (inh : Pos) :
    setLoc files (rangeStr (.col c) e) inh = .ok (files, { inh with col := (c : Int) }) := by
  obtain ⟨s, post, ht, hs⟩ := tailStr_head e
  have hx : rangeStr (.col c) e = colPfx ++ showNat c ++ s :: post := by
    rw [rangeStr_eq, ht]; simp [LForm.render, colPfx]
  have hpre : colPfx.isPrefixOf (rangeStr (.col c) e) = true := by
    rw [hx, List.isPrefixOf_iff_prefix]; exact ⟨showNat c ++ s :: post, by simp⟩
  have hup : upTo [',', '>'] (rangeStr (.col c) e) 5 = showNat c := by
    rw [hx]
    have : (5 : Nat) = colPfx.length := by decide
    rw [this]
    apply upTo_hit
    · intro x hxm
      have h1 := showNat_no ',' (by decide) c x hxm
      have h2 := showNat_no '>' (by decide) c x hxm
      simp [List.contains, List.elem, h1, h2]
    · rcases hs with rfl | rfl <;> decide
  unfold setLoc
  rw [if_pos hpre, hup, strToInt_showNat c hc]


theorem commaCol_eq : commaCol = ',' :: ' ' :: ['c', 'o', 'l', ':'] := by decide

/-- the only candidate position for a pattern is a first character that occurs once -/
theorem findSub_head_only (h : Char) (pt rest : Str) (hno : ∀ x ∈ rest, (x == h) = false) :
    findSub (h :: pt) (h :: rest) = if pt.isPrefixOf rest then some 0 else none := by
  have := findSub_none_of_head h pt rest hno
  simp only [findSub, List.isPrefixOf, beq_self_eq_true, Bool.true_and, this, Option.map_none]

/-- a source file name as clang prints it: no `:` and no `,` inside, not `col` or `line`, not a single letter
    (`<a:3:4>` is read as a Windows drive) -/
def fileNameOK (f : Str) : Bool :=
  noCh ':' f && noCh ',' f && f != ['c', 'o', 'l'] && f != ['l', 'i', 'n', 'e'] && f.length != 1

theorem colPrefix_file (F post : Str) (h : fileNameOK F = true) : ['c', 'o', 'l', ':'].isPrefixOf (F ++ ':' :: post) = false := by
  simp only [fileNameOK, Bool.and_eq_true, bne_iff_ne, ne_eq] at h
  obtain ⟨⟨⟨⟨hc, _⟩, hcol⟩, _⟩, _⟩ := h
  have hc' := noCh_iff.1 hc
  match F, hcol, hc' with
  | [], _, _ => simp [List.isPrefixOf]
  | [a], _, _ => simp [List.isPrefixOf]
  | [a, b], _, _ => simp [List.isPrefixOf]
  | [a, b, c], hcol, _ =>
    cases hq : ['c', 'o', 'l', ':'].isPrefixOf ([a, b, c] ++ ':' :: post) with
    | false => rfl
    | true =>
      exfalso; simp [List.isPrefixOf] at hq; apply hcol
      obtain ⟨rfl, rfl, rfl⟩ := hq; rfl
  | a :: b :: c :: d :: t, _, hc' =>
    have := hc' d (by simp)
    cases hq : ['c', 'o', 'l', ':'].isPrefixOf (a :: b :: c :: d :: t ++ ':' :: post) with
    | false => rfl
    | true =>
      exfalso; simp [List.isPrefixOf] at hq
      obtain ⟨_, _, _, rfl⟩ := hq
      simp at this

theorem linePrefix_file (F post : Str) (h : fileNameOK F = true) : ['l', 'i', 'n', 'e', ':'].isPrefixOf (F ++ ':' :: post) = false := by
  simp only [fileNameOK, Bool.and_eq_true, bne_iff_ne, ne_eq] at h
  obtain ⟨⟨⟨⟨hc, _⟩, _⟩, hline⟩, _⟩ := h
  have hc' := noCh_iff.1 hc
  match F, hline, hc' with
  | [], _, _ => simp [List.isPrefixOf]
  | [a], _, _ => simp [List.isPrefixOf]
  | [a, b], _, _ => simp [List.isPrefixOf]
  | [a, b, c], _, _ => simp [List.isPrefixOf]
  | [a, b, c, d], hline, _ =>
    cases hq : ['l', 'i', 'n', 'e', ':'].isPrefixOf ([a, b, c, d] ++ ':' :: post) with
    | false => rfl
    | true =>
      exfalso; simp [List.isPrefixOf] at hq; apply hline
      obtain ⟨rfl, rfl, rfl, rfl⟩ := hq; rfl
  | a :: b :: c :: d :: e :: t, _, hc' =>
    have := hc' e (by simp)
    cases hq : ['l', 'i', 'n', 'e', ':'].isPrefixOf (a :: b :: c :: d :: e :: t ++ ':' :: post) with
    | false => rfl
    | true =>
      exfalso; simp [List.isPrefixOf] at hq
      obtain ⟨_, _, _, _, rfl⟩ := hq
      simp at this

def LForm.ok : LForm → Bool
  | .col c => c < 2147483648
  | .line l c => l < 2147483648 && c < 2147483648
  | .file f l c => fileNameOK f && l < 2147483648 && c < 2147483648

def endOK : Option LForm → Bool
  | none => true
  | some e => e.ok

theorem render_no_comma (e : LForm) (h : e.ok = true) : ∀ x ∈ e.render, (x == ',') = false := by
  intro x hx
  cases e with
  | col c =>
    simp only [LForm.render, List.mem_append] at hx
    rcases hx with hx | hx
    · revert x; decide
    · exact showNat_no ',' (by decide) c x hx
  | line l c =>
    simp only [LForm.render, List.mem_append] at hx
    rcases hx with ((hx | hx) | hx) | hx
    · revert x; decide
    · exact showNat_no ',' (by decide) l x hx
    · revert x; decide
    · exact showNat_no ',' (by decide) c x hx
  | file f l c =>
    simp only [LForm.ok, fileNameOK, Bool.and_eq_true] at h
    simp only [LForm.render, List.mem_append] at hx
    rcases hx with (((hx | hx) | hx) | hx) | hx
    · exact noCh_iff.1 h.1.1.1.1.1.2 x hx
    · revert x; decide
    · exact showNat_no ',' (by decide) l x hx
    · revert x; decide
    · exact showNat_no ',' (by decide) c x hx

theorem tail_commaCol (e : Option LForm) (he : endOK e = true) :
    findSub commaCol (tailStr e) = (match e with | some (.col _) => some 0 | _ => none) := by
  cases e with
  | none => simp only [tailStr]; decide
  | some e =>
    have h2 : tailStr (some e) = ',' :: (' ' :: (e.render ++ ['>'])) := by simp [tailStr]
    have hno : ∀ x ∈ (' ' :: (e.render ++ ['>'])), (x == ',') = false := by
      intro x hx
      simp only [List.mem_cons, List.mem_append, List.not_mem_nil, or_false] at hx
      rcases hx with rfl | hx | rfl
      · decide
      · exact render_no_comma e he x hx
      · decide
    rw [h2, commaCol_eq, findSub_head_only ',' _ _ hno]
    cases e with
    | col E => simp [LForm.render, List.isPrefixOf]
    | line L C => simp [LForm.render, List.isPrefixOf]
    | file F L C =>
      simp only [endOK, LForm.ok, Bool.and_eq_true] at he
      have := colPrefix_file F (showNat L ++ [':'] ++ showNat C ++ ['>']) he.1.1
      have e1 : (LForm.file F L C).render ++ ['>'] = F ++ ':' :: (showNat L ++ [':'] ++ showNat C ++ ['>']) := by simp [LForm.render]
      simp only [List.isPrefixOf, beq_self_eq_true, Bool.true_and, e1, this]
      simp


theorem showNat_no_stop3 (n : Nat) : ∀ x ∈ showNat n, [':', ',', '>'].contains x = false := by
  intro x hx
  have h1 := showNat_no ':' (by decide) n x hx
  have h2 := showNat_no ',' (by decide) n x hx
  have h3 := showNat_no '>' (by decide) n x hx
  simp [List.contains, List.elem, h1, h2, h3]

/-- the column the importer takes for a `<line:…>` range: the END column when the end is printed as `col:`, else the inherited one -/
def lineFormCol (e : Option LForm) (inh : Pos) : Int :=
  match e with
  | some (.col E) => (E : Int)
  | _ => inh.col

theorem setLoc_line (files : List Str) (l c : Nat) (hl : l < 2147483648) (e : Option LForm) (he : endOK e = true) (inh : Pos) :
    setLoc files (rangeStr (.line l c) e) inh = .ok (files, { inh with line := (l : Int), col := lineFormCol e inh }) := by
  have hx : rangeStr (.line l c) e = linePfx ++ showNat l ++ ':' :: (showNat c ++ tailStr e) := by
    rw [rangeStr_eq]; simp [LForm.render, linePfx]
  have hnc : colPfx.isPrefixOf (rangeStr (.line l c) e) = false := by
    rw [hx]; simp [colPfx, linePfx, List.isPrefixOf]
  have hpre : linePfx.isPrefixOf (rangeStr (.line l c) e) = true := by
    rw [hx, List.isPrefixOf_iff_prefix]; exact ⟨showNat l ++ ':' :: (showNat c ++ tailStr e), by simp⟩
  have hup : upTo [':', ',', '>'] (rangeStr (.line l c) e) 6 = showNat l := by
    rw [hx]
    have : (6 : Nat) = linePfx.length := by decide
    rw [this]
    exact upTo_hit _ _ _ _ _ (showNat_no_stop3 l) (by decide)
  -- the search for ", col:"
  let pre : Str := linePfx ++ showNat l ++ ':' :: showNat c
  have hx2 : rangeStr (.line l c) e = pre ++ tailStr e := by rw [hx]; simp [pre]
  have hprecomma : ∀ x ∈ pre, (x == ',') = false := by
    intro x hxm
    simp only [pre, List.mem_append, List.mem_cons] at hxm
    rcases hxm with (hxm | hxm) | rfl | hxm
    · revert x; decide
    · exact showNat_no ',' (by decide) l x hxm
    · decide
    · exact showNat_no ',' (by decide) c x hxm
  have hfs : findSub commaCol (rangeStr (.line l c) e) = (match e with | some (.col _) => some pre.length | _ => none) := by
    rw [hx2, commaCol_eq, findSub_skip ',' _ pre _ hprecomma, ← commaCol_eq, tail_commaCol e he]
    cases e with
    | none => rfl
    | some e => cases e <;> simp
  unfold setLoc
  rw [if_neg (by rw [hnc]; exact Bool.false_ne_true), if_pos hpre, hup, strToInt_showNat l hl, hfs]
  cases e with
  | none => rfl
  | some e =>
    cases e with
    | line L C => rfl
    | file F L C => rfl
    | col E =>
      simp only [endOK, LForm.ok, decide_eq_true_eq] at he
      have hup2 : upTo [':', ',', '>'] (rangeStr (.line l c) (some (.col E))) (pre.length + 6) = showNat E := by
        have e3 : rangeStr (.line l c) (some (.col E)) = (pre ++ commaCol) ++ showNat E ++ '>' :: [] := by
          rw [hx2]; simp [tailStr, LForm.render, commaCol]
        have e4 : pre.length + 6 = (pre ++ commaCol).length := by simp [commaCol]
        rw [e3, e4]
        exact upTo_hit _ _ _ _ _ (showNat_no_stop3 E) (by decide)
      show (match strToInt (upTo [':', ',', '>'] (rangeStr (.line l c) (some (.col E))) (pre.length + 6)) with
        | some c => Except.ok (files, { inh with line := (l : Int), col := c })
        | none => Except.error LocErr.conv) = _
      rw [hup2, strToInt_showNat E he]
      rfl

theorem setLoc_file (files : List Str) (f : Str) (l c : Nat) (hf : fileNameOK f = true) (hl : l < 2147483648)
    (e : Option LForm) (inh : Pos) :
    setLoc files (rangeStr (.file f l c) e) inh =
      .ok ((appendFileIfNew files f).1, { inh with file := (appendFileIfNew files f).2, line := (l : Int) }) := by
  have hx : rangeStr (.file f l c) e = '<' :: (f ++ ':' :: (showNat l ++ ':' :: (showNat c ++ tailStr e))) := by
    rw [rangeStr_eq]; simp [LForm.render]
  have hnc : colPfx.isPrefixOf (rangeStr (.file f l c) e) = false := by
    rw [hx]
    have := colPrefix_file f (showNat l ++ ':' :: (showNat c ++ tailStr e)) hf
    simp only [colPfx, List.isPrefixOf, beq_self_eq_true, Bool.true_and]
    exact this
  have hnl : linePfx.isPrefixOf (rangeStr (.file f l c) e) = false := by
    rw [hx]
    have := linePrefix_file f (showNat l ++ ':' :: (showNat c ++ tailStr e)) hf
    simp only [linePfx, List.isPrefixOf, beq_self_eq_true, Bool.true_and]
    exact this
  have hf' := hf
  simp only [fileNameOK, Bool.and_eq_true, bne_iff_ne, ne_eq] at hf'
  obtain ⟨⟨⟨⟨hcol, _⟩, _⟩, _⟩, hlen⟩ := hf'
  have hcolon : findP (· == ':') (rangeStr (.file f l c) e) = some (f.length + 1) := by
    rw [hx]
    have := findP_hit (p := (· == ':')) ('<' :: f) ':' (showNat l ++ ':' :: (showNat c ++ tailStr e))
      (by intro x hxm; rcases List.mem_cons.1 hxm with rfl | hxm; · decide
          · exact noCh_iff.1 hcol x hxm) (by decide)
    simpa using this
  have hhead : (rangeStr (.file f l c) e).head? = some '<' := by rw [hx]; rfl
  have hwin : (f.length + 1 == 2 && decide ((rangeStr (.file f l c) e).length > 3)) = false := by
    have : (f.length + 1 == 2) = false := by
      cases hq : f.length + 1 == 2 with
      | false => rfl
      | true => exfalso; apply hlen; have := beq_iff_eq.1 hq; omega
    simp [this]
  have hname : ((rangeStr (.file f l c) e).drop 1).take (f.length + 1 - 1) = f := by
    rw [hx]; simp
  have hsep2 : findFrom (· == ':') (rangeStr (.file f l c) e) (f.length + 1 + 1) = some ((showNat l).length + (f.length + 1 + 1)) := by
    unfold findFrom
    have hd : (rangeStr (.file f l c) e).drop (f.length + 1 + 1) = showNat l ++ ':' :: (showNat c ++ tailStr e) := by
      rw [hx]
      have e5 : '<' :: (f ++ ':' :: (showNat l ++ ':' :: (showNat c ++ tailStr e))) = ('<' :: f ++ [':']) ++ (showNat l ++ ':' :: (showNat c ++ tailStr e)) := by simp
      have e6 : f.length + 1 + 1 = ('<' :: f ++ [':']).length := by simp
      rw [e5, e6, drop_len_append]
    rw [hd, findP_hit (showNat l) ':' _ (showNat_no ':' (by decide) l) (by decide)]
    rfl
  have hnum : ((rangeStr (.file f l c) e).drop (f.length + 1 + 1)).take ((showNat l).length + (f.length + 1 + 1) - (f.length + 1) - 1) = showNat l := by
    have hd : (rangeStr (.file f l c) e).drop (f.length + 1 + 1) = showNat l ++ ':' :: (showNat c ++ tailStr e) := by
      rw [hx]
      have e5 : '<' :: (f ++ ':' :: (showNat l ++ ':' :: (showNat c ++ tailStr e))) = ('<' :: f ++ [':']) ++ (showNat l ++ ':' :: (showNat c ++ tailStr e)) := by simp
      have e6 : f.length + 1 + 1 = ('<' :: f ++ [':']).length := by simp
      rw [e5, e6, drop_len_append]
    rw [hd]
    have : (showNat l).length + (f.length + 1 + 1) - (f.length + 1) - 1 = (showNat l).length := by omega
    rw [this, take_len_append]
  unfold setLoc
  rw [if_neg (by rw [hnc]; exact Bool.false_ne_true), if_neg (by rw [hnl]; exact Bool.false_ne_true), if_pos (by rw [hhead]; rfl), hcolon]
  simp only [hwin, Bool.false_eq_true, if_false, hname, hsep2, hnum, strToInt_showNat l hl]


/-! ### clang's printer and the importer, token by token and along a whole dump -/

/-- a valid presumed location -/
structure Loc where
  file : Str
  line : Nat
  col : Nat
deriving Repr, DecidableEq

/-- `LastLocFilename`, `LastLocLine` of TextNodeDumper -/
structure PState where
  file : Str
  line : Nat
deriving Repr, DecidableEq

/-- `dumpLocation`: which spelling is chosen and how the state changes -/
def formOf (st : PState) (l : Loc) : LForm × PState :=
  if l.file ≠ st.file then (.file l.file l.line l.col, ⟨l.file, l.line⟩)
  else if l.line ≠ st.line then (.line l.line l.col, ⟨st.file, l.line⟩)
  else (.col l.col, st)

/-- `dumpSourceRange` -/
def printRange (st : PState) (b e : Loc) : Str × PState :=
  let fb := formOf st b
  if b = e then (rangeStr fb.1 none, fb.2)
  else
    let fe := formOf fb.2 e
    (rangeStr fb.1 (some fe.1), fe.2)

def Loc.ok (l : Loc) : Bool := fileNameOK l.file && l.line < 2147483648 && l.col < 2147483648

theorem formOf_ok (st : PState) (l : Loc) (h : l.ok = true) : (formOf st l).1.ok = true := by
  simp only [Loc.ok, Bool.and_eq_true, decide_eq_true_eq] at h
  unfold formOf
  split
  · simp [LForm.ok, h.1.1, h.1.2, h.2]
  · split
    · simp [LForm.ok, h.1.2, h.2]
    · simp [LForm.ok, h.2]

theorem appendFileIfNew_get (files : List Str) (f : Str) :
    (appendFileIfNew files f).1[(appendFileIfNew files f).2]? = some f := by
  unfold appendFileIfNew
  cases h : files.idxOf? f with
  | some i =>
    simp only
    have := List.idxOf?_eq_some_iff.1 h
    obtain ⟨hi, hget, _⟩ := this
    simp [hget, List.getElem?_eq_getElem hi]
  | none => simp

/-- One node: whatever the last printed location was, the importer reads file and line of the begin location correctly provided
    the line it inherits is clang's last printed line whenever clang printed only a column; the column is right for the `col:` form. -/
theorem begin_resolves (files : List Str) (st : PState) (b e : Loc) (hb : b.ok = true) (he : e.ok = true) (inh : Pos)
    (hfile : b.file = st.file → files[inh.file]? = some st.file) (hline : (formOf st b).1 = .col b.col → inh.line = (st.line : Int)) :
    ∃ files' p, setLoc files (printRange st b e).1 inh = .ok (files', p) ∧
      files'[p.file]? = some b.file ∧ p.line = (b.line : Int) ∧ ((formOf st b).1 = .col b.col → p.col = (b.col : Int)) := by
  have hbo := formOf_ok st b hb
  have heo : ∀ st', endOK (some (formOf st' e).1) = true := fun st' => formOf_ok st' e he
  -- the end spelling, whichever it is
  obtain ⟨eo, heo', hpr⟩ : ∃ eo, endOK eo = true ∧ (printRange st b e).1 = rangeStr (formOf st b).1 eo := by
    unfold printRange
    by_cases hbe : b = e
    · exact ⟨none, rfl, by simp [hbe]⟩
    · exact ⟨some (formOf (formOf st b).2 e).1, heo _, by simp [hbe]⟩
  rw [hpr]
  simp only [Loc.ok, Bool.and_eq_true, decide_eq_true_eq] at hb
  unfold formOf at hline hbo ⊢
  by_cases hf : b.file ≠ st.file
  · simp only [hf, ne_eq, not_false_eq_true, if_true] at hline hbo ⊢
    refine ⟨_, _, setLoc_file files b.file b.line b.col hb.1.1 hb.1.2 eo inh, appendFileIfNew_get _ _, rfl, ?_⟩
    intro h; cases h
  · have hf' : b.file = st.file := by simpa using hf
    simp only [hf', ne_eq, not_true_eq_false, if_false] at hline hbo ⊢
    by_cases hl : b.line ≠ st.line
    · simp only [hl, ne_eq, not_false_eq_true, if_true] at hline hbo ⊢
      refine ⟨_, _, setLoc_line files b.line b.col hb.1.2 eo heo' inh, ?_, rfl, ?_⟩
      · simpa [hf'] using hfile hf'
      · intro h; cases h
    · have hl' : b.line = st.line := by simpa using hl
      simp only [hl', ne_eq, not_true_eq_false, if_false] at hline hbo ⊢
      refine ⟨_, _, setLoc_col files b.col hb.2 eo inh, ?_, ?_, fun _ => rfl⟩
      · simpa [hf'] using hfile hf'
      · simpa using hline


/-- a node of the dump: its level, its address, the source range clang prints and (for declarations) the name location printed after it -/
structure SNode where
  level : Nat
  addr : Str
  b : Loc
  e : Loc
  name : Option Loc
deriving Repr

def SNode.ok (n : SNode) : Bool := n.b.ok && n.e.ok

/-- the printer state after the node's header line -/
def SNode.after (st : PState) (n : SNode) : PState :=
  match n.name with
  | none => (printRange st n.b n.e).2
  | some l => (formOf (printRange st n.b n.e).2 l).2

/-- `mExtTokens` of the node as far as `setLocations` reads them -/
def SNode.toks (st : PState) (n : SNode) : List Str :=
  [n.addr, (printRange st n.b n.e).1] ++
    (match n.name with
     | none => []
     | some l => [(formOf (printRange st n.b n.e).2 l).1.render])

/-- the dump of a whole tree in preorder, clang's state threaded through every printed location -/
def printSeq (st : PState) : List SNode → List (Nat × List Str)
  | [] => []
  | n :: r => (n.level, n.toks st) :: printSeq (n.after st) r

/-- at every node: unless clang prints the file name, the file the importer inherits is clang's current file, and when clang prints only
    a column the inherited line is clang's current line -/
def lineThreadOK (files : List Str) (stack : List Pos) (init : Pos) (st : PState) : List SNode → Bool
  | [] => true
  | n :: r =>
    let inh := if n.level = 0 then init else (stack[n.level - 1]?).getD init
    (decide (n.b.file = st.file → files[inh.file]? = some st.file)) &&
    (decide ((formOf st n.b).1 = .col n.b.col → inh.line = (st.line : Int))) &&
    match setLocNode files (n.toks st) inh with
    | .ok (files', p) => lineThreadOK files' (stack.take n.level ++ [p]) init (n.after st) r
    | .error _ => false

/-- Along a whole dump: if the inheritance condition holds at every node, every node gets the line clang means. -/
theorem seq_lines_resolve : ∀ (nodes : List SNode) (files : List Str) (stack : List Pos) (init : Pos) (st : PState),
    nodes.all SNode.ok = true → lineThreadOK files stack init st nodes = true →
    ∃ ps, setLocSeq files stack init (printSeq st nodes) = .ok ps ∧ ps.map (·.line) = nodes.map (fun n => (n.b.line : Int))
  | [], _, _, _, _, _, _ => ⟨[], rfl, rfl⟩
  | n :: r, files, stack, init, st, hok, hth => by
    simp only [List.all_cons, Bool.and_eq_true, SNode.ok] at hok
    simp only [lineThreadOK, Bool.and_eq_true, decide_eq_true_eq] at hth
    obtain ⟨⟨hfile, hline⟩, hrest⟩ := hth
    obtain ⟨files', p, hset, _, hpl, _⟩ := begin_resolves files st n.b n.e hok.1.1 hok.1.2 _ hfile hline
    have hnode : setLocNode files (n.toks st) (if n.level = 0 then init else (stack[n.level - 1]?).getD init) = .ok (files', p) := by
      simp only [SNode.toks, setLocNode, List.cons_append, List.nil_append]
      exact hset
    rw [hnode] at hrest
    obtain ⟨ps, hps, hmap⟩ := seq_lines_resolve r files' _ init _ hok.2 hrest
    refine ⟨p :: ps, ?_, ?_⟩
    · simp only [printSeq, setLocSeq, hnode, hps]
    · simp [hpl, hmap]

end


/-! ### the importer does not satisfy the condition: children inherit from their PARENT, clang continues from the LAST PRINTED location -/

def fileA : Str := ['a', '.', 'c']

/-- `int f(int a,⏎      int b) { return a; }`: the function, its two parameters, its body -/
def twoLineFunction : List SNode :=
  [⟨0, ['0', 'x', '1'], ⟨fileA, 1, 1⟩, ⟨fileA, 2, 26⟩, some ⟨fileA, 1, 5⟩⟩,
   ⟨1, ['0', 'x', '2'], ⟨fileA, 1, 7⟩, ⟨fileA, 1, 11⟩, some ⟨fileA, 1, 11⟩⟩,
   ⟨1, ['0', 'x', '3'], ⟨fileA, 2, 7⟩, ⟨fileA, 2, 11⟩, some ⟨fileA, 2, 11⟩⟩,
   ⟨1, ['0', 'x', '4'], ⟨fileA, 2, 14⟩, ⟨fileA, 2, 26⟩, none⟩]

/-- the same function on one line -/
def oneLineFunction : List SNode :=
  [⟨0, ['0', 'x', '1'], ⟨fileA, 1, 1⟩, ⟨fileA, 1, 40⟩, some ⟨fileA, 1, 5⟩⟩,
   ⟨1, ['0', 'x', '2'], ⟨fileA, 1, 7⟩, ⟨fileA, 1, 11⟩, some ⟨fileA, 1, 11⟩⟩,
   ⟨1, ['0', 'x', '3'], ⟨fileA, 1, 14⟩, ⟨fileA, 1, 18⟩, some ⟨fileA, 1, 18⟩⟩,
   ⟨1, ['0', 'x', '4'], ⟨fileA, 1, 21⟩, ⟨fileA, 1, 40⟩, none⟩]


end Cppcheck.ClangLine

import Cppcheck.Model.ClangLine
/-
Helper lemmas for C35: `splitString (join fields) = fields` for the field shapes clang emits.
-/
namespace Cppcheck.ClangLine

/-! ### searching -/

theorem findP_append_not {p : Char → Bool} : ∀ (a b : Str), (∀ c ∈ a, p c = false) → findP p (a ++ b) = (findP p b).map (· + a.length)
  | [], b, _ => by simp [Option.map_id']
  | c :: t, b, h => by
    have hc : p c = false := h c (by simp)
    have ih := findP_append_not t b (fun x hx => h x (by simp [hx]))
    simp only [List.cons_append, findP, hc, ih, Option.map_map, List.length_cons]
    cases findP p b <;> simp [Nat.add_assoc]

theorem findP_none_of_all {p : Char → Bool} : ∀ (a : Str), (∀ c ∈ a, p c = false) → findP p a = none
  | [], _ => rfl
  | c :: t, h => by
    have hc : p c = false := h c (by simp)
    simp [findP, hc, findP_none_of_all t (fun x hx => h x (by simp [hx]))]

theorem findP_hit {p : Char → Bool} (a : Str) (c : Char) (b : Str) (ha : ∀ x ∈ a, p x = false) (hc : p c = true) :
    findP p (a ++ c :: b) = some a.length := by
  rw [findP_append_not a _ ha]; simp [findP, hc]

/-- an occurrence of `pat` that lies inside the first part is an occurrence there -/
theorem findSub_append_left (pat : Str) (hp : pat ≠ []) : ∀ (a b : Str) (d : Nat),
    findSub pat (a ++ b) = some d → d + pat.length ≤ a.length → findSub pat a = some d
  | [], b, d, _, hd => by
    have : pat.length = 0 := by
      have h0 := hd
      simp only [List.length_nil] at h0
      omega
    exact absurd (List.eq_nil_of_length_eq_zero this) hp
  | c :: t, b, d, h, hd => by
    simp only [List.cons_append, findSub] at h ⊢
    by_cases hpre : pat.isPrefixOf (c :: (t ++ b)) = true
    · simp only [hpre, if_true, Option.some.injEq] at h
      subst h
      have : pat.isPrefixOf (c :: t) = true := by
        rw [List.isPrefixOf_iff_prefix] at hpre ⊢
        have hl : pat.length ≤ (c :: t).length := by simpa using hd
        have h2 : c :: (t ++ b) = (c :: t) ++ b := rfl
        rw [h2] at hpre
        exact List.prefix_of_prefix_length_le hpre (List.prefix_append _ _) hl
      simp [this]
    · simp only [hpre] at h
      have hnp : pat.isPrefixOf (c :: t) ≠ true := by
        intro hh
        apply hpre
        rw [List.isPrefixOf_iff_prefix] at hh ⊢
        exact hh.trans (List.prefix_append (c :: t) b)
      simp only [hnp]
      cases hr : findSub pat (t ++ b) with
      | none => simp [hr] at h
      | some d' =>
        simp only [hr, Option.map_some, Bool.false_eq_true, if_false, Option.some.injEq] at h
        subst h
        have := findSub_append_left pat hp t b d' hr (by simp at hd; omega)
        simp [this]


/-! ### the field shapes clang emits -/

inductive Field where
  | punct (c : Char)          -- `*`, `(`, `)` on their own
  | angle (a : Str)           -- `<a>`: source ranges, cast kinds, `<invalid sloc>`
  | dquote (a : Str)          -- `"a"`
  | squote (a : Str)          -- `'a'`: a type or an operator
  | squote2 (a b : Str)       -- `'a':'b'`: a type with its desugared form
  | word (w : Str)            -- addresses, names, keywords, numbers, `col:7`, `line:3:5`
deriving Repr, DecidableEq

def Field.render : Field → Str
  | .punct c => [c]
  | .angle a => '<' :: a ++ ['>']
  | .dquote a => '"' :: a ++ ['"']
  | .squote a => '\'' :: a ++ ['\'']
  | .squote2 a b => '\'' :: a ++ tick3 ++ b ++ ['\'']
  | .word w => w

def noCh (c : Char) (s : Str) : Bool := s.all (· != c)

def wordStartOK (c : Char) : Bool :=
  c != '*' && c != '(' && c != ')' && c != Char.ofNat 0 && c != '<' && c != '"' && c != '\'' && c != ' '

/-- the well-formedness of a field: the group delimiters do not occur inside the group; a bare word has no blank, no `<`, no `::`
    and does not start with a delimiter -/
def Field.ok : Field → Bool
  | .punct c => c == '*' || c == '(' || c == ')'
  | .angle a => noCh '>' a
  | .dquote a => noCh '"' a
  | .squote a => noCh '\'' a
  | .squote2 a b => noCh '\'' a && noCh '\'' b
  | .word w => (match w with | [] => false | c :: _ => wordStartOK c) && noCh ' ' w && noCh '<' w && (findSub dcolon w).isNone

theorem noCh_iff {c : Char} {s : Str} : noCh c s = true ↔ ∀ x ∈ s, (x == c) = false := by
  simp [noCh, List.all_eq_true, bne_iff_ne]

theorem join_cases (r : List Str) : join r = [] ∨ ∃ r', join r = ' ' :: r' := by
  cases r with
  | nil => exact .inl rfl
  | cons f r => exact .inr ⟨_, rfl⟩

theorem dropSpaces_nil : dropSpaces [] = [] := rfl

theorem dropSpaces_cons_ne {c : Char} {t : Str} (h : (c == ' ') = false) : dropSpaces (c :: t) = c :: t := by
  simp [dropSpaces, List.dropWhile, isSpace, h]

theorem dropSpaces_space (t : Str) : dropSpaces (' ' :: t) = dropSpaces t := by
  simp [dropSpaces, List.dropWhile, isSpace]

/-- a rendered well-formed field is non-empty and does not start with a blank -/
theorem render_head (f : Field) (h : f.ok = true) : ∃ c t, f.render = c :: t ∧ (c == ' ') = false := by
  cases f with
  | punct c =>
    refine ⟨c, [], rfl, ?_⟩
    simp only [Field.ok, Bool.or_eq_true, beq_iff_eq] at h
    rcases h with (h | h) | h <;> subst h <;> decide
  | angle a => exact ⟨'<', _, rfl, by decide⟩
  | dquote a => exact ⟨'"', _, rfl, by decide⟩
  | squote a => exact ⟨'\'', _, rfl, by decide⟩
  | squote2 a b => exact ⟨'\'', a ++ tick3 ++ b ++ ['\''], rfl, by decide⟩
  | word w =>
    cases w with
    | nil => simp [Field.ok] at h
    | cons c t =>
      refine ⟨c, t, rfl, ?_⟩
      simp only [Field.ok, wordStartOK, Bool.and_eq_true, bne_iff_ne, ne_eq] at h
      have := h.1.1.1.2
      simpa using this

/-- what is left of the line after a field: the remaining fields, positioned at the next non-blank -/
theorem dropSpaces_join (f : Field) (r : List Field) (h : f.ok = true) :
    dropSpaces (join ((f :: r).map Field.render)) = f.render ++ join (r.map Field.render) := by
  obtain ⟨c, t, hr, hc⟩ := render_head f h
  simp only [List.map_cons, join, dropSpaces_space, hr, List.cons_append]
  exact dropSpaces_cons_ne hc


/-! ### one loop iteration per field shape -/

theorem take_len_append (a b : Str) : (a ++ b).take a.length = a := by simp
theorem drop_len_append (a b : Str) : (a ++ b).drop a.length = b := by simp

theorem step_punct (c : Char) (rest : Str) (h : (Field.punct c).ok = true) :
    step (c :: rest) = .emit [[c]] (dropSpaces rest) := by
  simp only [Field.ok] at h
  simp [step, h]

theorem step_angle (a rest : Str) (h : noCh '>' a = true) :
    step ('<' :: (a ++ '>' :: rest)) = .emit ['<' :: (a ++ ['>'])] (dropSpaces rest) := by
  have hf : findP (· == '>') ('<' :: (a ++ '>' :: rest)) = some (a.length + 1) := by
    have := findP_hit (p := (· == '>')) ('<' :: a) '>' rest
      (by intro x hx; rcases List.mem_cons.1 hx with rfl | hx; · decide
          · exact noCh_iff.1 h x hx) (by decide)
    simpa using this
  have e1 : ('<' :: (a ++ '>' :: rest)) = ('<' :: (a ++ ['>'])) ++ rest := by simp
  have hl : ('<' :: (a ++ ['>'])).length = a.length + 1 + 1 := by simp
  have c1 : (('<' : Char) == '*' || ('<' : Char) == '(' || ('<' : Char) == ')' || ('<' : Char) == Char.ofNat 0) = false := by decide
  simp only [step, c1, Bool.false_eq_true, if_false, beq_self_eq_true, if_true, hf, Option.map_some, finishExcl]
  rw [e1, ← hl, take_len_append, drop_len_append]

theorem step_dquote (a rest : Str) (h : noCh '"' a = true) :
    step ('"' :: (a ++ '"' :: rest)) = .emit ['"' :: (a ++ ['"'])] (dropSpaces rest) := by
  have hf : findP (· == '"') (a ++ '"' :: rest) = some a.length :=
    findP_hit a '"' rest (noCh_iff.1 h) (by decide)
  have hl : ('"' :: (a ++ ['"'])).length = a.length + 2 := by simp
  have c1 : (('"' : Char) == '*' || ('"' : Char) == '(' || ('"' : Char) == ')' || ('"' : Char) == Char.ofNat 0) = false := by decide
  have c2 : (('"' : Char) == '<') = false := by decide
  simp only [step, c1, c2, Bool.false_eq_true, if_false, beq_self_eq_true, if_true, hf, Option.map_some, finishExcl]
  have e2 : ('"' :: (a ++ '"' :: rest)) = ('"' :: (a ++ ['"'])) ++ rest := by simp
  rw [e2, ← hl, take_len_append, drop_len_append]

/-- after a closing quote that ends a field the line continues with a blank or ends: no `':'` follows -/
theorem no_tick3 (rest : Str) (hr : rest = [] ∨ ∃ r', rest = ' ' :: r') : (('\'' :: rest).take 3 == tick3) = false := by
  rcases hr with rfl | ⟨r', rfl⟩
  · decide
  · cases r' with
    | nil => decide
    | cons x r'' => simp [tick3]

theorem step_squote (a rest : Str) (h : noCh '\'' a = true) (hr : rest = [] ∨ ∃ r', rest = ' ' :: r') :
    step ('\'' :: (a ++ '\'' :: rest)) = .emit ['\'' :: (a ++ ['\''])] (dropSpaces rest) := by
  have hf : findP (· == '\'') (a ++ '\'' :: rest) = some a.length :=
    findP_hit a '\'' rest (noCh_iff.1 h) (by decide)
  have hl : ('\'' :: (a ++ ['\''])).length = a.length + 1 + 1 := by simp
  have c1 : (('\'' : Char) == '*' || ('\'' : Char) == '(' || ('\'' : Char) == ')' || ('\'' : Char) == Char.ofNat 0) = false := by decide
  have c2 : (('\'' : Char) == '<') = false := by decide
  have c3 : (('\'' : Char) == '"') = false := by decide
  have hd : ('\'' :: (a ++ '\'' :: rest)).drop (a.length + 1) = '\'' :: rest := by simp
  simp only [step, c1, c2, c3, Bool.false_eq_true, if_false, beq_self_eq_true, if_true, hf, hd, no_tick3 rest hr, Bool.and_false, finishExcl]
  have e2 : ('\'' :: (a ++ '\'' :: rest)) = ('\'' :: (a ++ ['\''])) ++ rest := by simp
  rw [e2, ← hl, take_len_append, drop_len_append]

theorem step_squote2 (a b rest : Str) (ha : noCh '\'' a = true) (hb : noCh '\'' b = true) :
    step ('\'' :: (a ++ tick3 ++ b ++ '\'' :: rest)) = .emit ['\'' :: (a ++ tick3 ++ b ++ ['\''])] (dropSpaces rest) := by
  have e0 : a ++ tick3 ++ b ++ '\'' :: rest = a ++ '\'' :: (':' :: '\'' :: (b ++ '\'' :: rest)) := by simp [tick3]
  have hf : findP (· == '\'') (a ++ tick3 ++ b ++ '\'' :: rest) = some a.length := by
    rw [e0]; exact findP_hit a '\'' _ (noCh_iff.1 ha) (by decide)
  have hf2 : findP (· == '\'') (b ++ '\'' :: rest) = some b.length :=
    findP_hit b '\'' rest (noCh_iff.1 hb) (by decide)
  have c1 : (('\'' : Char) == '*' || ('\'' : Char) == '(' || ('\'' : Char) == ')' || ('\'' : Char) == Char.ofNat 0) = false := by decide
  have c2 : (('\'' : Char) == '<') = false := by decide
  have c3 : (('\'' : Char) == '"') = false := by decide
  have hd : ('\'' :: (a ++ tick3 ++ b ++ '\'' :: rest)).drop (a.length + 1) = tick3 ++ (b ++ '\'' :: rest) := by
    rw [e0]; simp [tick3]
  have hd2 : ('\'' :: (a ++ tick3 ++ b ++ '\'' :: rest)).drop (a.length + 1 + 3) = b ++ '\'' :: rest := by
    rw [e0]
    have : a.length + 1 + 3 = (('\'' :: a) ++ ['\'', ':', '\'']).length := by simp
    rw [this]
    have e : '\'' :: (a ++ '\'' :: ':' :: '\'' :: (b ++ '\'' :: rest)) = (('\'' :: a) ++ ['\'', ':', '\'']) ++ (b ++ '\'' :: rest) := by simp
    rw [e, drop_len_append]
  have ht : (tick3 ++ (b ++ '\'' :: rest)).take 3 = tick3 := by simp [tick3]
  have hlen : a.length + 1 + 3 < ('\'' :: (a ++ tick3 ++ b ++ '\'' :: rest)).length := by simp [tick3]; omega
  simp only [step, c1, c2, c3, Bool.false_eq_true, if_false, beq_self_eq_true, if_true, hf, hd, hd2, ht, hlen, decide_true, Bool.and_self,
    hf2, Option.map_some, finishExcl]
  have hl : ('\'' :: (a ++ tick3 ++ b ++ ['\''])).length = b.length + (a.length + 1 + 3) + 1 := by simp [tick3]; omega
  have e2 : ('\'' :: (a ++ tick3 ++ b ++ '\'' :: rest)) = ('\'' :: (a ++ tick3 ++ b ++ ['\''])) ++ rest := by simp
  rw [e2, ← hl, take_len_append, drop_len_append]


/-! ### bare words -/

/-- where the identifier scan stops in `w ++ rest`: at a character of `w` or at the blank that follows -/
theorem dropWhile_head (p : Char → Bool) (hp : p ' ' = false) : ∀ (w rest : Str), (rest = [] ∨ ∃ r', rest = ' ' :: r') →
    ∀ x, ((w ++ rest).dropWhile p).head? = some x → x ∈ w ∨ x = ' '
  | [], rest, hr, x, h => by
    rcases hr with rfl | ⟨r', rfl⟩
    · simp at h
    · simp [hp] at h; exact .inr h.symm
  | c :: t, rest, hr, x, h => by
    by_cases hc : p c = true
    · simp only [List.cons_append, List.dropWhile, hc] at h
      rcases dropWhile_head p hp t rest hr x h with h | h
      · exact .inl (by simp [h])
      · exact .inr h
    · simp only [List.cons_append, List.dropWhile, hc] at h
      simp at h
      exact .inl (by simp [h])

theorem getElem?_takeWhile_length (p : Char → Bool) : ∀ (s : Str), s[(s.takeWhile p).length]? = (s.dropWhile p).head?
  | [] => rfl
  | c :: t => by
    by_cases hc : p c = true
    · simp [List.takeWhile, List.dropWhile, hc, getElem?_takeWhile_length p t]
    · simp [List.takeWhile, List.dropWhile, hc]

theorem step_word (w rest : Str) (h : (Field.word w).ok = true) (hr : rest = [] ∨ ∃ r', rest = ' ' :: r') :
    step (w ++ rest) = .emit [w] (dropSpaces rest) := by
  simp only [Field.ok, Bool.and_eq_true, Option.isNone_iff_eq_none] at h
  obtain ⟨⟨⟨h0, hsp⟩, hlt⟩, hdc⟩ := h
  cases w with
  | nil => simp at h0
  | cons c t =>
    simp only [wordStartOK, Bool.and_eq_true, bne_iff_ne, ne_eq] at h0
    obtain ⟨⟨⟨⟨⟨⟨⟨n1, n2⟩, n3⟩, n4⟩, n5⟩, n6⟩, n7⟩, n8⟩ := h0
    have c1 : (c == '*' || c == '(' || c == ')' || c == Char.ofNat 0) = false := by simp [n1, n2, n3, n4]
    have c2 : (c == '<') = false := by simp [n5]
    have c3 : (c == '"') = false := by simp [n6]
    have c4 : (c == '\'') = false := by simp [n7]
    -- the identifier scan never stops at a `<`
    have hstop : ((c :: t) ++ rest)[(((c :: t) ++ rest).takeWhile isIdentCh).length]? ≠ some '<' := by
      rw [getElem?_takeWhile_length]
      intro hx
      rcases dropWhile_head isIdentCh (by decide) (c :: t) rest hr '<' hx with hm | hm
      · have := noCh_iff.1 hlt '<' hm
        simp at this
      · exact absurd hm (by decide)
    -- positions of the blank, `::`, `<`
    have he : findP isSpace ((c :: t) ++ rest) = if rest = [] then none else some (c :: t).length := by
      rcases hr with rfl | ⟨r', rfl⟩
      · simp only [List.append_nil, if_true]
        exact findP_none_of_all _ (by intro x hx; have := noCh_iff.1 hsp x hx; simpa [isSpace] using this)
      · simp only [reduceCtorEq, if_false]
        exact findP_hit _ ' ' r' (by intro x hx; have := noCh_iff.1 hsp x hx; simpa [isSpace] using this) (by decide)
    have hdc' : ltPos2 (findSub dcolon ((c :: t) ++ rest)) (findP isSpace ((c :: t) ++ rest)) = false := by
      rw [he]
      cases hd : findSub dcolon ((c :: t) ++ rest) with
      | none => simp [ltPos2]
      | some d =>
        rcases hr with rfl | ⟨r', rfl⟩
        · simp only [List.append_nil] at hd; rw [hdc] at hd; cases hd
        · simp only [reduceCtorEq, if_false, ltPos2, decide_eq_false_iff_not, Nat.not_lt]
          by_cases hlt2 : d + 1 < (c :: t).length
          · have := findSub_append_left dcolon (by decide) (c :: t) (' ' :: r') d hd (by simp [dcolon] at *; omega)
            rw [hdc] at this; cases this
          · omega
    have hlt' : ltPos2 (findP (· == '<') ((c :: t) ++ rest)) (findP isSpace ((c :: t) ++ rest)) = false := by
      rw [he, findP_append_not (c :: t) rest (noCh_iff.1 hlt)]
      rcases hr with rfl | ⟨r', rfl⟩
      · simp [findP, ltPos2]
      · cases findP (· == '<') (' ' :: r') with
        | none => simp [ltPos2]
        | some l => simp [ltPos2]; omega
    have hfin : finishExcl ((c :: t) ++ rest) (findP isSpace ((c :: t) ++ rest)) = .emit [c :: t] (dropSpaces rest) := by
      rw [he]
      rcases hr with rfl | ⟨r', rfl⟩
      · simp [finishExcl, dropSpaces]
      · simp only [reduceCtorEq, if_false, finishExcl, take_len_append, drop_len_append]
    have hstep : step ((c :: t) ++ rest) = wordBranch ((c :: t) ++ rest) c := by
      simp only [List.cons_append, step, c1, c2, c3, c4, Bool.false_eq_true, if_false]
    rw [hstep]
    unfold wordBranch
    have hb : (decide ((((c :: t) ++ rest).takeWhile isIdentCh).length > 0) &&
        (((c :: t) ++ rest)[(((c :: t) ++ rest).takeWhile isIdentCh).length]? == some '<') && isAlpha c) = false := by
      have : (((c :: t) ++ rest)[(((c :: t) ++ rest).takeWhile isIdentCh).length]? == some '<') = false := by
        simpa using hstop
      rw [this]; simp
    simp only [hb, Bool.false_eq_true, if_false, hdc', hlt', Bool.and_false, Bool.false_and, hfin]


/-! ### the whole line -/

theorem step_field (f : Field) (r : List Field) (h : f.ok = true) :
    step (f.render ++ join (r.map Field.render)) = .emit [f.render] (dropSpaces (join (r.map Field.render))) := by
  have hr := join_cases (r.map Field.render)
  cases f with
  | punct c => exact step_punct c _ h
  | angle a => simpa [Field.render] using step_angle a _ (by simpa [Field.ok] using h)
  | dquote a => simpa [Field.render] using step_dquote a _ (by simpa [Field.ok] using h)
  | squote a => simpa [Field.render] using step_squote a _ (by simpa [Field.ok] using h) hr
  | squote2 a b =>
    simp only [Field.ok, Bool.and_eq_true] at h
    simpa [Field.render] using step_squote2 a b _ h.1 h.2
  | word w => exact step_word w _ h hr

theorem join_length_cons (f : Str) (r : List Str) : (join (f :: r)).length = 1 + f.length + (join r).length := by
  simp [join]; omega

theorem loop_fields : ∀ (fs : List Field), fs.all Field.ok = true → ∀ fuel, (join (fs.map Field.render)).length < fuel →
    loop fuel (dropSpaces (join (fs.map Field.render))) = .ok (fs.map Field.render)
  | [], _, fuel, hf => by
    cases fuel with
    | zero => simp at hf
    | succ n => simp [join, dropSpaces, loop]
  | f :: r, h, fuel, hf => by
    simp only [List.all_cons, Bool.and_eq_true] at h
    cases fuel with
    | zero => simp at hf
    | succ n =>
      rw [dropSpaces_join f r h.1]
      obtain ⟨c, t, hc, _⟩ := render_head f h.1
      have hne : (f.render ++ join (r.map Field.render)).isEmpty = false := by simp [hc]
      simp only [loop, hne, Bool.false_eq_true, if_false, step_field f r h.1]
      have hlen : (join (r.map Field.render)).length < n := by
        simp only [List.map_cons, join_length_cons] at hf
        omega
      rw [loop_fields r h.2 n hlen]
      simp

theorem splitString_join (fs : List Field) (h : fs.all Field.ok = true) :
    splitString (join (fs.map Field.render)) = some (fs.map Field.render) := by
  unfold splitString
  rw [loop_fields fs h _ (Nat.lt_succ_self _)]

end Cppcheck.ClangLine

import Cppcheck.Model.DumpXml
/-
Helper lemmas for C14: `toxml` output is attribute-safe and reads back; `idString` has a left inverse.
-/
namespace Cppcheck.DumpXml

/-- XML 1.0 AttValue content / CharData, restricted to the references `toxml` emits:
    a concatenation of pieces, each a reference or one character that may stand for itself -/
def AttrSafe (o : Str) : Prop :=
  ∃ ps : List Str, o = ps.flatten ∧ ∀ p ∈ ps, p ∈ refs ∨ ∃ c, p = [c] ∧ plainOK c = true

theorem AttrSafe.nil : AttrSafe [] := ⟨[], rfl, by simp⟩

theorem AttrSafe.append {a b : Str} (ha : AttrSafe a) (hb : AttrSafe b) : AttrSafe (a ++ b) := by
  obtain ⟨pa, ha1, ha2⟩ := ha
  obtain ⟨pb, hb1, hb2⟩ := hb
  refine ⟨pa ++ pb, by simp [ha1, hb1], ?_⟩
  intro p hp
  rcases List.mem_append.1 hp with h | h
  · exact ha2 p h
  · exact hb2 p h

theorem AttrSafe.ref {r : Str} (h : r ∈ refs) : AttrSafe r := ⟨[r], by simp, by simpa using .inl h⟩
theorem AttrSafe.plain {c : Char} (h : plainOK c = true) : AttrSafe [c] := ⟨[[c]], by simp, by simpa using .inr h⟩

theorem toxmlChar_safe (c : Char) : AttrSafe (toxmlChar c) := by
  unfold toxmlChar
  split
  · exact .ref (by simp [refs])
  split
  · exact .ref (by simp [refs])
  split
  · exact .ref (by simp [refs])
  split
  · exact .ref (by simp [refs])
  split
  · exact .ref (by simp [refs])
  split
  · exact AttrSafe.append (a := ['\\']) (b := ['0']) (.plain (by decide)) (.plain (by decide))
  split
  · exact .ref (by simp [refs])
  split
  · exact .ref (by simp [refs])
  split
  · exact .ref (by simp [refs])
  split
  · rename_i h1 h2 h3 h4 h5 _ _ _ _ h
    refine .plain ?_
    simp [plainOK, h.1, h.2, h1, h2, h3, h4, h5]
  · exact .plain (by decide)

theorem toxml_safe (s : Str) : AttrSafe (toxml s) := by
  induction s with
  | nil => exact .nil
  | cons c r ih => exact (toxmlChar_safe c).append ih

/-! ### reading back -/

theorem unesc_toxmlChar (c : Char) (h : roundtripChar c = true) (rest : Str) :
    unescAux none (toxmlChar c ++ rest) = c :: unescAux none rest := by
  unfold toxmlChar
  split
  · rename_i hc; subst hc; simp [unescAux, decodeRef]
  split
  · rename_i hc; subst hc; simp [unescAux, decodeRef]
  split
  · rename_i hc; subst hc; simp [unescAux, decodeRef]
  split
  · rename_i hc; subst hc; simp [unescAux, decodeRef]
  split
  · rename_i hc; subst hc; simp [unescAux, decodeRef]
  split
  · rename_i hc; subst hc; simp [roundtripChar] at h
  split
  · rename_i hc; subst hc; simp [unescAux, decodeRef, decimal, digitVal]
  split
  · rename_i hc; subst hc; simp [unescAux, decodeRef, decimal, digitVal]
  split
  · rename_i hc; subst hc; simp [unescAux, decodeRef, decimal, digitVal]
  split
  · rename_i h3 _ _ _ _ _ _ _
    simp [unescAux, h3]
  · rename_i h1 h2 h3 hr
    simp [roundtripChar, h1, h2, h3] at h
    exact absurd h hr

theorem unescape_toxml (s : Str) (h : s.all roundtripChar = true) : unescape (toxml s) = s := by
  unfold unescape
  induction s with
  | nil => simp [toxml, unescAux]
  | cons c r ih =>
    simp only [List.all_cons, Bool.and_eq_true] at h
    simp only [toxml]
    rw [unesc_toxmlChar c h.1, ih h.2]

/-! ### ids -/

def hexVal (c : Char) : Nat :=
  if c.toNat < 58 then c.toNat - 48 else c.toNat - 87

/-- value of a hexadecimal numeral -/
def hexValue (s : Str) : Nat := s.foldl (fun a c => 16 * a + hexVal c) 0

theorem hexVal_hexDigit : ∀ d, d < 16 → hexVal (hexDigit d) = d := by decide
theorem plainOK_hexDigit : ∀ d, d < 16 → plainOK (hexDigit d) = true := by decide

theorem idDigits_acc : ∀ (f l : Nat) (acc : Str), idDigits f l acc = idDigits f l [] ++ acc := by
  intro f
  induction f with
  | zero => intro l acc; simp [idDigits]
  | succ f ih =>
    intro l acc
    simp only [idDigits]
    split
    · simp
    · rw [ih _ (_ :: acc), ih _ [_]]; simp

theorem hexValue_idDigits : ∀ (f l : Nat), l ≤ f → hexValue (idDigits f l []) = l := by
  intro f
  induction f with
  | zero => intro l hl; have : l = 0 := by omega
            subst this; simp [idDigits, hexValue]
  | succ f ih =>
    intro l hl
    simp only [idDigits]
    split
    · rename_i h; subst h; simp [hexValue]
    · rw [idDigits_acc]
      have h1 : l / 16 ≤ f := by omega
      have := ih (l / 16) h1
      simp only [hexValue, List.foldl_append, List.foldl_cons, List.foldl_nil] at this ⊢
      rw [this, hexVal_hexDigit _ (Nat.mod_lt _ (by decide))]
      omega

theorem hexValue_idString (l : Nat) : hexValue (idString l) = l := by
  unfold idString
  split
  · rename_i h; subst h; decide
  · exact hexValue_idDigits l l (Nat.le_refl l)

theorem idDigits_plain : ∀ (f l : Nat) (acc : Str), (∀ c ∈ acc, plainOK c = true) → ∀ c ∈ idDigits f l acc, plainOK c = true := by
  intro f
  induction f with
  | zero => intro l acc h; simpa [idDigits] using h
  | succ f ih =>
    intro l acc h
    simp only [idDigits]
    split
    · exact h
    · apply ih
      intro c hc
      rcases List.mem_cons.1 hc with hc | hc
      · rw [hc]; exact plainOK_hexDigit _ (Nat.mod_lt _ (by decide))
      · exact h c hc

theorem AttrSafe.of_plain : ∀ (s : Str), (∀ c ∈ s, plainOK c = true) → AttrSafe s := by
  intro s
  induction s with
  | nil => intro _; exact .nil
  | cons c r ih =>
    intro h
    exact AttrSafe.append (a := [c]) (.plain (h c (by simp))) (ih fun d hd => h d (by simp [hd]))

/-! ### integers -/

theorem plainOK_decDigit : ∀ d, d < 10 → plainOK (Char.ofNat (48 + d)) = true := by decide

theorem decDigits_plain : ∀ (f l : Nat) (acc : Str), (∀ c ∈ acc, plainOK c = true) → ∀ c ∈ decDigits f l acc, plainOK c = true := by
  intro f
  induction f with
  | zero => intro l acc h; simpa [decDigits] using h
  | succ f ih =>
    intro l acc h
    simp only [decDigits]
    split
    · exact h
    · apply ih
      intro c hc
      rcases List.mem_cons.1 hc with hc | hc
      · rw [hc]; exact plainOK_decDigit _ (Nat.mod_lt _ (by decide))
      · exact h c hc

theorem natString_plain (l : Nat) : ∀ c ∈ natString l, plainOK c = true := by
  unfold natString
  split
  · intro c hc; simp at hc; subst hc; decide
  · exact decDigits_plain l l [] (by simp)

theorem intString_plain (z : Int) : ∀ c ∈ intString z, plainOK c = true := by
  cases z with
  | ofNat n => exact natString_plain n
  | negSucc n =>
    intro c hc
    simp only [intString, List.mem_cons] at hc
    rcases hc with hc | hc
    · subst hc; decide
    · exact natString_plain _ c hc

/-- every character of the string may stand for itself in an attribute value -/
def allPlain (s : Str) : Bool := s.all plainOK

theorem AttrSafe.of_allPlain (s : Str) (h : allPlain s = true) : AttrSafe s :=
  AttrSafe.of_plain s (by simpa [allPlain] using h)

end Cppcheck.DumpXml

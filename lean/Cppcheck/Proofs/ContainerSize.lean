import Cppcheck.Model.ContainerSize
/-!
Helper lemmas for Props/C02.lean: soundness of the decidable refinement test, of the non-emptiness test, and one step of the
forward analysis of a Known size.
-/
namespace Cppcheck.ContainerSize

theorem refinesB_sound_aux (r a : Eff) (h : refinesB r a = true) (arg n n' : Nat) (hr : r.rel arg n n') : a.rel arg n n' := by
  cases r <;> cases a <;> simp [refinesB] at h <;> simp only [Eff.rel] at hr ⊢ <;> first | omega | trivial

theorem leavesNonEmpty_sound (r : Eff) (h : leavesNonEmpty r = true) (arg n n' : Nat) (hr : r.rel arg n n') : 1 ≤ n' := by
  cases r <;> simp [leavesNonEmpty] at h <;> simp only [Eff.rel] at hr <;> omega

/-- one step of the forward analysis: the assumed effect contains what happened, so a Known size stays right -/
theorem absStep_sound (e : Eff) (arg n m : Nat) (k0 : Option Int) (hk0 : ∀ k, k0 = some k → k = n)
    (hrel : e.rel arg n m) : ∀ k, absStep e arg k0 = some k → k = m := by
  intro k hk
  cases k0 with
  | none =>
    cases e <;> simp [absStep] at hk <;> simp only [Eff.rel] at hrel <;> omega
  | some k1 =>
    have h1 := hk0 k1 rfl
    cases e <;> simp [absStep] at hk <;> simp only [Eff.rel] at hrel <;> omega

end Cppcheck.ContainerSize

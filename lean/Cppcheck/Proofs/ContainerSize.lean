import Cppcheck.Model.ContainerSize
/-!
Helper lemmas for Props/C02.lean: soundness of the decidable refinement test, of the non-emptiness test, and one step of the
forward analysis of a Known size.
-/
namespace Cppcheck.ContainerSize

theorem refinesB_sound_aux (r a : Eff) (h : refinesB r a = true) (arg n n' : Nat) (hr : r.rel arg n n') : a.rel arg n n' := by
  cases r <;> cases a <;> simp [refinesB] at h <;> simp only [Eff.rel] at hr ⊢ <;> first | omega | trivial

theorem leavesNonEmpty_sound (r : Eff) (h : leavesNonEmpty r = true) (arg n n' : Nat) (hr : r.rel arg n n') : 1 ≤ n' := by
  cases r <;> simp [leavesNonEmpty] at h <;> simp only [Eff.rel] at hr <;> omega

/-- one step of the forward analysis: the assumed effect contains what happened, so a Known size stays right -/
theorem absStep_sound (e : Eff) (arg n m : Nat) (k0 : Option Int) (hk0 : ∀ k, k0 = some k → k = n)
    (hrel : e.rel arg n m) : ∀ k, absStep e arg k0 = some k → k = m := by
  intro k hk
  cases k0 with
  | none =>
    cases e <;> simp [absStep] at hk <;> simp only [Eff.rel] at hrel <;> omega
  | some k1 =>
    have h1 := hk0 k1 rfl
    cases e <;> simp [absStep] at hk <;> simp only [Eff.rel] at hrel <;> omega

/-! ### constructor sizes -/

theorem numValues_length : ∀ (args : List Arg) (vs : List Nat), numValues args = some vs → vs.length = args.length := by
  intro args
  induction args with
  | nil => intro vs h; simp [numValues] at h; subst h; rfl
  | cons a r ih =>
    intro vs h
    cases a <;> simp [numValues] at h
    obtain ⟨w, hw, rfl⟩ := h
    simp [ih w hw]

theorem allNum_head {a : Arg} {r : List Arg} (h : allNum (a :: r) = true) : a.isIntegral = true ∧ allNum r = true := by
  cases a <;> simp [allNum, Arg.isIntegral] at h ⊢
  exact h

/-- the non-list constructors: what `getContainerSizeFromConstructorArgs` returns is the reference size -/
theorem ctorArgs_sound (k : CKind) (braces : Bool) (args : List Arg) (s r : Nat)
    (hwf : args.all Arg.wf = true) (hex : ctorExcluded k braces args = false) (hnl : (braces && allNum args) = false)
    (hs : ctorArgsSize (k == .string) args = some s) (hr : ctorRefPlain k args = some r) : s = r := by
  unfold ctorRefPlain at hr
  split at hr
  all_goals (try (simp [ctorArgsSize, Arg.isIntegral, Arg.isContainer, Arg.isPointer, Arg.isIterator, Arg.contValues, Arg.knownInt, isIteratorPair] at hs))
  all_goals (try (simp [ctorExcluded, allNum, numValues, Arg.wf] at hex hwf hnl hr))
  all_goals (try (split at hs)) <;> (try simp_all) <;> (try omega)

theorem dedup_length_le : ∀ l : List Nat, (dedup l).length ≤ l.length
  | [] => Nat.le_refl _
  | x :: r => by
    have := dedup_length_le r
    unfold dedup
    split <;> simp <;> omega

/-- **a Known size given to a freshly constructed container is the size the constructor call produces**, outside the listed call
    forms (`ctorExcluded`) -/
theorem ctorSize_sound_aux (k : CKind) (braces : Bool) (args : List Arg) (s r : Nat)
    (hwf : args.all Arg.wf = true) (hex : ctorExcluded k braces args = false)
    (hs : ctorSize k braces args = some s) (hr : ctorRef k braces args = some r) : s = r := by
  cases args with
  | nil => simp [ctorSize] at hs; simp [ctorRef, ctorRefPlain] at hr; omega
  | cons a rest =>
    cases braces with
    | false =>
      simp only [ctorSize, Bool.false_eq_true, if_false] at hs
      simp only [ctorRef, Bool.false_and, Bool.false_eq_true, if_false] at hr
      exact ctorArgs_sound k false (a :: rest) s r hwf hex (by simp) hs hr
    | true =>
      by_cases hall : allNum (a :: rest) = true
      · -- the initializer_list constructor
        obtain ⟨ha, _⟩ := allNum_head hall
        simp only [ctorRef, hall, List.isEmpty_cons, Bool.not_false, Bool.and_self, if_true] at hr
        split at hr
        · rename_i hconv
          cases hv : numValues (a :: rest) with
          | none => simp [hv] at hr
          | some vs =>
            simp only [hv] at hr
            have hlen := numValues_length _ _ hv
            simp only [List.length_cons] at hlen
            have hdd := dedup_length_le vs
            -- what the code computes
            simp only [ctorSize, if_true, initListSize] at hs
            by_cases hinit : (if (true && decide ((a :: rest).length < 4)) = true then
                (if (k == CKind.string) = true then a.isGenericChar && !a.isPointer
                 else if a.isIntegral = true then true
                 else if ((a :: rest).length == 1 && a.isContainer) = true then false else !isIteratorPair (a :: rest))
                else true) = true
            · simp only [hinit, Bool.not_true, Bool.false_eq_true, if_false] at hs
              injection hs with hs
              injection hr with hr
              simp only [List.length_cons] at hs
              by_cases hk : (k == CKind.set || k == CKind.uset) = true
              · simp only [hk, if_true] at hr
                have : (dedup vs).length < vs.length → False := by
                  intro hlt
                  unfold ctorExcluded at hex
                  simp only [Bool.or_eq_false_iff] at hex
                  have h2 := hex.2
                  simp [hk, hall, hv, hlt] at h2
                have hge : vs.length ≤ (dedup vs).length := Nat.le_of_not_lt this
                omega
              · simp only [hk] at hr
                simp at hr; omega
            · -- only for strings whose first list element is not a character: the list is taken for constructor arguments
              simp only [hinit, Bool.not_false, if_true] at hs
              exfalso
              cases a <;> simp [Arg.isIntegral] at ha
              rename_i isChar v known
              cases rest with
              | nil =>
                simp [ctorArgsSize, Arg.isIntegral, Arg.knownInt] at hs
                unfold ctorExcluded at hex
                simp only [Bool.or_eq_false_iff] at hex
                have h1 := hex.1
                cases k <;> simp_all [Arg.isGenericChar, Arg.isPointer, Arg.isIntegral, allNum, numValues, listConverts]
              | cons b rest' =>
                obtain ⟨hb, _⟩ := allNum_head (by simpa [allNum] using hall : allNum (b :: rest') = true)
                cases b <;> simp [Arg.isIntegral] at hb
                simp [ctorArgsSize, Arg.isIntegral] at hs
        · simp at hr
      · -- a non-list constructor called with braces
        simp only [ctorRef, hall, Bool.and_false, Bool.false_eq_true, if_false] at hr
        simp only [ctorSize, if_true] at hs
        have hnl : (true && allNum (a :: rest)) = false := by simpa using hall
        unfold ctorRefPlain at hr
        split at hr
        all_goals (try (simp [initListSize, ctorArgsSize, Arg.isIntegral, Arg.isContainer, Arg.isPointer, Arg.isIterator, Arg.isGenericChar,
          Arg.contValues, Arg.knownInt, isIteratorPair] at hs))
        all_goals (try (simp [ctorExcluded, Arg.wf] at hex hwf hall hnl hr))
        all_goals (try (split at hs)) <;> (try simp_all [allNum]) <;> (try omega)
        all_goals (try (split at hs)) <;> (try simp_all) <;> (try omega)

end Cppcheck.ContainerSize

import Cppcheck.Model.SevDecide
/-!
Helper lemmas for Props/C04.lean: every selection function of `Cppcheck.SevDecide` returns a member of the list it was given,
and that member satisfies the selection predicate.
-/
namespace Cppcheck.SevDecide

theorem getValue_spec {vals : List Value} {n : Int} {v : Value} (h : getValue vals n = some v) :
    v ∈ vals ∧ v.isInt = true ∧ v.isImpossible = false ∧ v.intvalue = n := by
  unfold getValue at h
  have hm := List.mem_of_find?_eq_some h
  have hp := List.find?_some h
  simp at hp
  exact ⟨hm, hp.1.1, hp.1.2, hp.2⟩

theorem findStep_cases (ret : Option Value) (v : Value) : findStep ret v = v ∨ ret = some (findStep ret v) := by
  unfold findStep
  cases ret with
  | none => exact Or.inl rfl
  | some r => by_cases h : (r.isInconclusive || (r.cond && !v.isInconclusive)) = true <;> simp [h]

theorem findLoop_spec (pred : Value → Bool) :
    ∀ (vals : List Value) (ret : Option Value) (r : Value),
      findLoop pred ret vals = some r → ret = some r ∨ (r ∈ vals ∧ pred r = true) := by
  intro vals
  induction vals with
  | nil => intro ret r h; simp [findLoop] at h; exact Or.inl h
  | cons v rest ih =>
    intro ret r h
    unfold findLoop at h
    by_cases hp : pred v = true
    · simp only [hp, if_true] at h
      have key : some (findStep ret v) = some r ∨ (r ∈ rest ∧ pred r = true) := by
        split at h
        · exact Or.inl h
        · exact ih _ _ h
      rcases key with hk | ⟨hm, hq⟩
      · injection hk with hk
        rcases findStep_cases ret v with hs | hs
        · rw [hs] at hk; subst hk; exact Or.inr ⟨List.mem_cons_self, hp⟩
        · rw [hk] at hs; exact Or.inl hs
      · exact Or.inr ⟨List.mem_cons_of_mem _ hm, hq⟩
    · simp only [hp] at h
      rcases ih _ _ h with h' | ⟨hm, hq⟩
      · exact Or.inl h'
      · exact Or.inr ⟨List.mem_cons_of_mem _ hm, hq⟩

theorem findValue_spec {o : Opts} {vals : List Value} {pred : Value → Bool} {r : Value}
    (h : findValue o vals pred = some r) :
    r ∈ vals ∧ pred r = true ∧ (r.isInconclusive = true → o.inconclusive = true) ∧ (r.cond = true → o.warning = true) := by
  unfold findValue at h
  split at h
  · exact absurd h (by simp)
  · rename_i r0 hl
    by_cases h1 : (r0.isInconclusive && !o.inconclusive) = true
    · simp [h1] at h
    · by_cases h2 : (r0.cond && !o.warning) = true
      · simp [h1, h2] at h
      · simp only [h1, h2] at h
        simp at h
        subst h
        rcases findLoop_spec pred vals none r0 hl with h' | ⟨hm, hq⟩
        · exact absurd h' (by simp)
        · refine ⟨hm, hq, ?_, ?_⟩
          · intro hi; cases ho : o.inconclusive <;> simp_all
          · intro hc; cases ho : o.warning <;> simp_all

theorem getValueLE_spec {o : Opts} {vals : List Value} {n : Int} {r : Value} (h : getValueLE o vals n = some r) :
    r ∈ vals ∧ r.isImpossible = false ∧ r.isInt = true ∧ r.intvalue ≤ n ∧ (r.cond = true → o.warning = true) := by
  have := findValue_spec h
  obtain ⟨hm, hp, _, hc⟩ := this
  simp at hp
  exact ⟨hm, hp.1.1, hp.1.2, hp.2, hc⟩

theorem getValueGE_spec {o : Opts} {vals : List Value} {n : Int} {r : Value} (h : getValueGE o vals n = some r) :
    r ∈ vals ∧ r.isImpossible = false ∧ r.isInt = true ∧ n ≤ r.intvalue ∧ (r.cond = true → o.warning = true) := by
  have := findValue_spec h
  obtain ⟨hm, hp, _, hc⟩ := this
  simp at hp
  exact ⟨hm, hp.1.1, hp.1.2, hp.2, hc⟩

theorem getMaxLoop_spec (condition : Bool) (path : Nat) :
    ∀ (vals : List Value) (ret : Option Value) (r : Value),
      getMaxLoop condition path ret vals = some r →
      ret = some r ∨ (r ∈ vals ∧ r.isInt = true ∧ r.isImpossible = false ∧ r.cond = condition) := by
  intro vals
  induction vals with
  | nil => intro ret r h; simp [getMaxLoop] at h; exact Or.inl h
  | cons v rest ih =>
    intro ret r h
    have keep : getMaxLoop condition path ret rest = some r →
        ret = some r ∨ (r ∈ v :: rest ∧ r.isInt = true ∧ r.isImpossible = false ∧ r.cond = condition) := by
      intro h'
      rcases ih _ _ h' with h1 | ⟨hm, hr⟩
      · exact Or.inl h1
      · exact Or.inr ⟨List.mem_cons_of_mem _ hm, hr⟩
    unfold getMaxLoop at h
    by_cases h1 : (!v.isInt) = true
    · simp only [h1, if_true] at h; exact keep h
    · simp only [h1] at h
      by_cases h2 : v.isImpossible = true
      · simp only [h2, if_true] at h; exact keep h
      · simp only [h2] at h
        by_cases h3 : (decide (path > 0) && v.path != 0 && v.path != path) = true
        · simp only [h3, if_true] at h; exact keep h
        · simp only [h3] at h
          by_cases h4 : (maxBetter ret v && (v.cond == condition)) = true
          · simp only [h4, if_true] at h
            rcases ih _ _ h with h5 | ⟨hm, hr⟩
            · injection h5 with h5; subst h5
              simp at h1 h2 h4
              exact Or.inr ⟨List.mem_cons_self, h1, h2, h4.2⟩
            · exact Or.inr ⟨List.mem_cons_of_mem _ hm, hr⟩
          · simp only [h4] at h; exact keep h

theorem isOutOfBounds_spec {size : Int} {vals : List Value} {r : Value} (h : isOutOfBounds size vals = some r) :
    r ∈ vals ∧ r.isInt = true ∧ r.isImpossible = false ∧ size ≤ r.intvalue := by
  have impl : ∀ c, isOutOfBoundsImpl size vals c = some r →
      r ∈ vals ∧ r.isInt = true ∧ r.isImpossible = false ∧ size ≤ r.intvalue := by
    intro c hc
    unfold isOutOfBoundsImpl getMaxValue at hc
    split at hc
    · exact absurd hc (by simp)
    · rename_i v hv
      split at hc
      · rename_i hge
        injection hc with hc; subst hc
        rcases getMaxLoop_spec c 0 vals none v hv with h' | ⟨hm, h1, h2, _⟩
        · exact absurd h' (by simp)
        · exact ⟨hm, h1, h2, hge⟩
      · exact absurd hc (by simp)
  unfold isOutOfBounds at h
  split at h
  · rename_i v hv; injection h with h; subst h; exact impl false hv
  · exact impl true h

theorem overrun_flag {dims : List (Int × List Value)} (h : (overrunIndexValues dims).2 = true) :
    ∃ d ∈ dims, ∃ v, isOutOfBounds d.1 d.2 = some v ∧ v ∈ (overrunIndexValues dims).1 := by
  induction dims with
  | nil => simp [overrunIndexValues] at h
  | cons d rest ih =>
    obtain ⟨size, vals⟩ := d
    unfold overrunIndexValues at h ⊢
    cases hb : isOutOfBounds size vals with
    | some v =>
      simp only []
      exact ⟨(size, vals), List.mem_cons_self, v, hb, List.mem_cons_self⟩
    | none =>
      simp only [hb] at h ⊢
      obtain ⟨d', hd', v, hv, hm⟩ := ih h
      exact ⟨d', List.mem_cons_of_mem _ hd', v, hv, List.mem_cons_of_mem _ hm⟩

theorem negative_flag {o : Opts} {dims : List (Int × List Value)}
    (h : dims.any (fun d => (getValueLE o d.2 (-1)).isSome) = true) :
    ∃ d ∈ dims, ∃ v, getValueLE o d.2 (-1) = some v ∧ v ∈ dims.map (fun d => (getValueLE o d.2 (-1)).getD unknownValue) := by
  obtain ⟨d, hd, hs⟩ := List.any_eq_true.mp h
  obtain ⟨v, hv⟩ := Option.isSome_iff_exists.mp hs
  refine ⟨d, hd, v, hv, ?_⟩
  exact List.mem_map.mpr ⟨d, hd, by simp [hv]⟩

theorem pickIndex_mem : ∀ (l : List Value) (i : Option Value) (r : Value), pickIndex i l = some r → i = some r ∨ r ∈ l := by
  intro l
  induction l with
  | nil => intro i r h; simp [pickIndex] at h; exact Or.inl h
  | cons v rest ih =>
    intro i r h
    cases i with
    | none =>
      simp only [pickIndex] at h
      rcases ih _ _ h with h1 | h1
      · injection h1 with h1; subst h1; exact Or.inr List.mem_cons_self
      · exact Or.inr (List.mem_cons_of_mem _ h1)
    | some i0 =>
      simp only [pickIndex] at h
      rcases ih _ _ h with h1 | h1
      · injection h1 with h1
        by_cases hp : v.hasErrorPath = true
        · simp [hp] at h1; subst h1; exact Or.inr List.mem_cons_self
        · simp [hp] at h1; subst h1; exact Or.inl rfl
      · exact Or.inr (List.mem_cons_of_mem _ h1)

/-- what an error-severity report of `indexVectorErrorV` says about the vector: in the graded body (the code of record) every
    member has errorSeverity; in the body as found only the picked `index` (a member of the vector) had -/
theorem indexVectorErrorV_error {g : Bool} {o : Opts} {a b : String} {indexes : List Value} {r : Report}
    (hr : r ∈ indexVectorErrorV g o a b indexes) (he : r.sev = .error) :
    (g = true → ∀ v ∈ indexes, v.errorSeverity = true) ∧
    (g = false → ∃ v ∈ indexes, v.errorSeverity = true) := by
  unfold indexVectorErrorV at hr
  split at hr
  · simp at hr
  · split at hr
    · simp at hr
    · rename_i index hidx
      have hmem : index ∈ indexes := by
        rcases pickIndex_mem indexes none index hidx with h | h
        · exact absurd h (by simp)
        · exact h
      by_cases hg : g = true
      · simp only [hg, if_true] at hr
        simp at hr; subst hr
        refine ⟨fun _ v hv => ?_, fun h => by simp [hg] at h⟩
        simp only [sevOf] at he
        by_cases hall : (indexes.all fun v => v.errorSeverity) = true
        · exact List.all_eq_true.mp hall v hv
        · simp [hall] at he
      · simp only [hg] at hr
        simp at hr; subst hr
        refine ⟨fun h => absurd h hg, fun _ => ⟨index, hmem, ?_⟩⟩
        simp only [sevOf] at he
        by_cases hes : index.errorSeverity = true
        · exact hes
        · simp [hes] at he

end Cppcheck.SevDecide

import Cppcheck.Proofs.CtuChecks
/-
C22 — the whole-program input read from the cache files equals the in-memory one.
-/
namespace Cppcheck.Ctu
open Cppcheck.Wire

def TUSummary.Ok (simp : Str → Str) (t : TUSummary) : Bool :=
  t.ctu.Ok simp && t.buffer.Ok && t.classes.all ClassDef.Ok && t.nullPointer.all UnsafeUsage.Ok && t.uninitVar.all UnsafeUsage.Ok

/-! ## empty text ⇔ empty summary -/

theorem fc_toXml_ne (simp : Str → Str) (c : FunctionCall) : c.toXml simp ≠ [] := by
  rw [fc_text]
  split <;> simp [headText]

theorem functionCallsStr_nil (simp : Str → Str) (l : List FunctionCall) (h : functionCallsStr simp l = []) : l = [] := by
  cases l with
  | nil => rfl
  | cons c r =>
    simp only [functionCallsStr, List.append_eq_nil_iff] at h
    exact absurd h.1 (fc_toXml_ne simp c)

theorem nestedCallsStr_nil (tag : String) (l : List NestedCall) (h : nestedCallsStrWith tag l = []) : l = [] := by
  cases l with
  | nil => rfl
  | cons c r =>
    simp only [nestedCallsStrWith, NestedCall.toXmlWith, List.cons_append] at h
    exact absurd h (by simp)

theorem fileInfo_toStr_nil (simp : Str → Str) (tag : String) (fi : FileInfo) (h : fi.toStrWith simp tag = []) :
    fi.functionCalls = [] ∧ fi.nestedCalls = [] := by
  simp only [FileInfo.toStrWith, List.append_eq_nil_iff] at h
  exact ⟨functionCallsStr_nil simp _ h.1, nestedCallsStr_nil tag _ h.2⟩

theorem unsafeListStr_nil (l : List UnsafeUsage) : unsafeListStr l = [] ↔ l = [] := by
  cases l with
  | nil => simp [unsafeListStr]
  | cons u r =>
    simp only [unsafeListStr, List.append_eq_nil_iff, reduceCtorEq, iff_false, not_and]
    intro h
    unfold UnsafeUsage.toStr at h
    rw [show "    <unsafe-usage".toList = ' ' :: "   <unsafe-usage".toList from rfl] at h
    simp at h

theorem classListStr_nil (l : List ClassDef) : classListStr l = [] ↔ l = [] := by
  cases l with
  | nil => simp [classListStr]
  | cons u r =>
    simp only [classListStr, List.append_eq_nil_iff, reduceCtorEq, iff_false, not_and]
    intro h
    unfold ClassDef.toStr at h
    rw [show "<class name=\"".toList = '<' :: "class name=\"".toList from rfl] at h
    simp at h

theorem bufferStr_nil (b : BufferInfo) : b.toStr = [] ↔ (b.arrayIndex = [] ∧ b.pointerArith = []) := by
  unfold BufferInfo.toStr
  by_cases ha : b.arrayIndex = [] <;> by_cases hp : b.pointerArith = []
  · simp [ha, hp]
  · simp only [ha, hp, if_true, if_false, List.nil_append, true_and, iff_false]
    rw [show "    <pointer-arith>\n".toList = ' ' :: "   <pointer-arith>\n".toList from rfl]
    simp
  · simp only [ha, hp, if_true, if_false, List.append_nil, false_and, iff_false]
    rw [show "    <array-index>\n".toList = ' ' :: "   <array-index>\n".toList from rfl]
    simp
  · simp only [ha, hp, if_false, false_and, iff_false]
    rw [show "    <array-index>\n".toList = ' ' :: "   <array-index>\n".toList from rfl]
    simp

/-! ## the FileInfo elements of one cache file -/

theorem fileInfoKids_infoElems : ∀ (infos : List (Str × Str × List Elem)), (∀ x ∈ infos, CheckNameOk x.1 = true) →
    fileInfoKids (infoElems infos)
      = infos.flatMap fun x => if x.2.1 = [] then [] else [(x.1, Elem.mk "FileInfo".toList [("check".toList, x.1)] x.2.2)] := by
  intro infos
  induction infos with
  | nil => intro _; rfl
  | cons x r ih =>
    intro h
    have hx := h x (by simp)
    have hr := ih (fun y hy => h y (by simp [hy]))
    simp only [infoElems, List.flatMap_cons]
    by_cases he : x.2.1 = []
    · simp only [he, if_true, List.nil_append]
      exact hr
    · simp only [he, if_false, List.singleton_append, fileInfoKids]
      have hn : (Elem.mk "FileInfo".toList [("check".toList, x.1)] x.2.2).name = "FileInfo".toList := rfl
      have ha : attrStr (Elem.mk "FileInfo".toList [("check".toList, x.1)] x.2.2) "check" = some x.1 := by
        have : attrStr (Elem.mk "FileInfo".toList [("check".toList, x.1)] x.2.2) "check" = some (attrDecode x.1) := by find_attr
        rw [this, attrDecode_rawSafe _ hx]
      simp only [hn, ne_eq, not_true_eq_false, if_false, ha, hr]

/-- the three-component view of the five summaries of a translation unit: check name, text, elements -/
def TUSummary.infos3 (simp : Str → Str) (t : TUSummary) : List (Str × Str × List Elem) :=
  [("ctu".toList, t.ctu.toStr simp, t.ctu.functionCalls.map (fcElem simp) ++ t.ctu.nestedCalls.map (ncElem "nested-call")),
   ("Bounds checking".toList, t.buffer.toStr, bufferElems t.buffer),
   ("Class".toList, classListStr t.classes, t.classes.map cdElem),
   ("Null pointer".toList, unsafeListStr t.nullPointer, t.nullPointer.map uuElem),
   ("Uninitialized variables".toList, unsafeListStr t.uninitVar, t.uninitVar.map uuElem)]

theorem infos3_renders (simp : Str → Str) (t : TUSummary) (h : t.Ok simp = true) :
    ∀ x ∈ t.infos3 simp, CheckNameOk x.1 = true ∧ Renders 1 x.2.1 x.2.2 := by
  simp only [TUSummary.Ok, Bool.and_eq_true] at h
  obtain ⟨⟨⟨⟨hctu, hbuf⟩, hcls⟩, hnp⟩, hun⟩ := h
  have hraw := fileInfo_ok_raw simp t.ctu hctu
  intro x hx
  simp only [TUSummary.infos3, List.mem_cons, List.mem_nil_iff, or_false] at hx
  rcases hx with rfl | rfl | rfl | rfl | rfl
  · exact ⟨show CheckNameOk "ctu".toList = true by decide, fileInfo_renders simp "nested-call" (by decide) (by decide) t.ctu hraw.1 hraw.2⟩
  · exact ⟨show CheckNameOk "Bounds checking".toList = true by decide, buffer_renders t.buffer hbuf⟩
  · exact ⟨show CheckNameOk "Class".toList = true by decide, renders_mono (by decide) (classList_renders t.classes)⟩
  · exact ⟨show CheckNameOk "Null pointer".toList = true by decide, renders_mono (by decide) (unsafeList_renders _ (uu_ok_raw _ hnp))⟩
  · exact ⟨show CheckNameOk "Uninitialized variables".toList = true by decide, renders_mono (by decide) (unsafeList_renders _ (uu_ok_raw _ hun))⟩

theorem loadFile_store (simp : Str → Str) (hash : Nat) (t : TUSummary) (h : t.Ok simp = true) :
    loadFile (t.store simp hash)
      = .ok ((t.infos3 simp).flatMap fun x => if x.2.1 = [] then [] else [(x.1, Elem.mk "FileInfo".toList [("check".toList, x.1)] x.2.2)]) := by
  have hi := infos3_renders simp t h
  have hp := storeFile_parse (h := 1) hash (t.infos3 simp) hi (by decide)
  have e : t.store simp hash = storeFile hash ((t.infos3 simp).map fun x => (x.1, x.2.1)) := rfl
  rw [e]
  unfold loadFile
  rw [hp]
  have hn : (Elem.mk "analyzerinfo".toList [("hash".toList, showNat hash)] (infoElems (t.infos3 simp))).name = "analyzerinfo".toList := rfl
  simp only [hn, ne_eq, not_true_eq_false, if_false, Elem.kids]
  rw [fileInfoKids_infoElems _ (fun x hx => (hi x hx).1)]

/-! ## the handler -/

theorem handleInfos_append (a b : List (Str × Elem)) (wp : WholeProgram) :
    handleInfos (a ++ b) wp = (handleInfos a wp).bind (handleInfos b) := by
  induction a generalizing wp with
  | nil => rfl
  | cons x r ih =>
    simp only [List.cons_append, handleInfos]
    cases handleInfo wp x with
    | none => rfl
    | some wp' => exact ih wp'

theorem checkKind_ctu : checkKind "ctu".toList = 0 := by decide
theorem checkKind_buffer : checkKind "Bounds checking".toList = 1 := by decide
theorem checkKind_class : checkKind "Class".toList = 2 := by decide
theorem checkKind_nullPointer : checkKind "Null pointer".toList = 3 := by decide
theorem checkKind_uninit : checkKind "Uninitialized variables".toList = 4 := by decide

theorem handleInfo_ctu (wp : WholeProgram) (e : Elem) :
    handleInfo wp ("ctu".toList, e) = some { wp with ctu := FileInfo.loadFromXml e wp.ctu } := by
  simp only [handleInfo, checkKind_ctu]

theorem handleInfo_buffer (wp : WholeProgram) (e : Elem) :
    handleInfo wp ("Bounds checking".toList, e) = (match BufferInfo.load e with
      | some b => some { wp with buffer := wp.buffer ++ [b] }
      | none => some wp) := by
  simp only [handleInfo, checkKind_buffer]
  cases BufferInfo.load e <;> rfl

theorem handleInfo_class (wp : WholeProgram) (e : Elem) :
    handleInfo wp ("Class".toList, e) = (match loadClassInfo e with
      | .value l => some { wp with classes := wp.classes ++ [l] }
      | .null => some wp
      | .threw => none) := by
  simp only [handleInfo, checkKind_class]
  cases loadClassInfo e <;> rfl

theorem handleInfo_nullPointer (wp : WholeProgram) (e : Elem) :
    handleInfo wp ("Null pointer".toList, e) = (match loadUnsafeInfo e with
      | some l => some { wp with nullPointer := wp.nullPointer ++ [l] }
      | none => some wp) := by
  simp only [handleInfo, checkKind_nullPointer]
  cases loadUnsafeInfo e <;> rfl

theorem handleInfo_uninit (wp : WholeProgram) (e : Elem) :
    handleInfo wp ("Uninitialized variables".toList, e) = (match loadUnsafeInfo e with
      | some l => some { wp with uninitVar := wp.uninitVar ++ [l] }
      | none => some wp) := by
  simp only [handleInfo, checkKind_uninit]
  cases loadUnsafeInfo e <;> rfl

theorem handleInfos_one (x : Str × Elem) (wp : WholeProgram) : handleInfos [x] wp = handleInfo wp x := by
  simp only [handleInfos]
  cases handleInfo wp x <;> rfl

theorem handle_store (simp : Str → Str) (t : TUSummary) (h : t.Ok simp = true) (wp : WholeProgram) :
    handleInfos ((t.infos3 simp).flatMap fun x => if x.2.1 = [] then [] else [(x.1, Elem.mk "FileInfo".toList [("check".toList, x.1)] x.2.2)]) wp
      = some (addInMemory wp t) := by
  simp only [TUSummary.Ok, Bool.and_eq_true] at h
  obtain ⟨⟨⟨⟨hctu, hbuf⟩, hcls⟩, hnp⟩, hun⟩ := h
  simp only [FileInfo.Ok, Bool.and_eq_true] at hctu
  -- step 1: ctu
  have s1 : ∀ wp : WholeProgram,
      handleInfos (if t.ctu.toStr simp = [] then [] else [("ctu".toList, Elem.mk "FileInfo".toList [("check".toList, "ctu".toList)]
        (t.ctu.functionCalls.map (fcElem simp) ++ t.ctu.nestedCalls.map (ncElem "nested-call")))]) wp
      = some { wp with ctu := ⟨wp.ctu.functionCalls ++ t.ctu.functionCalls, wp.ctu.nestedCalls ++ t.ctu.nestedCalls⟩ } := by
    intro wp
    split
    · rename_i he
      have := fileInfo_toStr_nil simp "nested-call" t.ctu he
      simp [handleInfos, this.1, this.2]
    · rw [handleInfos_one, handleInfo_ctu]
      simp only [FileInfo.loadFromXml, Elem.kids, loadCalls_append, loadCalls_fcs simp _ _ hctu.1, loadCalls_ncs _ _ hctu.2]
  -- step 2: bounds checking
  have s2 : ∀ wp : WholeProgram,
      handleInfos (if t.buffer.toStr = [] then [] else [("Bounds checking".toList, Elem.mk "FileInfo".toList [("check".toList, "Bounds checking".toList)]
        (bufferElems t.buffer))]) wp
      = some { wp with buffer := if t.buffer.arrayIndex = [] ∧ t.buffer.pointerArith = [] then wp.buffer else wp.buffer ++ [t.buffer] } := by
    intro wp
    split
    · rename_i he
      simp [handleInfos, (bufferStr_nil t.buffer).mp he]
    · rename_i he
      have hne : ¬ (t.buffer.arrayIndex = [] ∧ t.buffer.pointerArith = []) := fun e => he ((bufferStr_nil t.buffer).mpr e)
      rw [handleInfos_one, handleInfo_buffer, buffer_load t.buffer hbuf]
      simp only [hne, if_false]
  -- step 3: class
  have s3 : ∀ wp : WholeProgram,
      handleInfos (if classListStr t.classes = [] then [] else [("Class".toList, Elem.mk "FileInfo".toList [("check".toList, "Class".toList)]
        (t.classes.map cdElem))]) wp
      = some { wp with classes := if t.classes = [] then wp.classes else wp.classes ++ [t.classes] } := by
    intro wp
    split
    · rename_i he
      simp [handleInfos, (classListStr_nil t.classes).mp he]
    · rename_i he
      have hne : ¬ t.classes = [] := fun e => he ((classListStr_nil t.classes).mpr e)
      rw [handleInfos_one, handleInfo_class, classInfo_load t.classes hcls]
      simp only [hne, if_false]
  -- step 4: null pointer
  have s4 : ∀ wp : WholeProgram,
      handleInfos (if unsafeListStr t.nullPointer = [] then [] else [("Null pointer".toList, Elem.mk "FileInfo".toList [("check".toList, "Null pointer".toList)]
        (t.nullPointer.map uuElem))]) wp
      = some { wp with nullPointer := if t.nullPointer = [] then wp.nullPointer else wp.nullPointer ++ [t.nullPointer] } := by
    intro wp
    split
    · rename_i he
      simp [handleInfos, (unsafeListStr_nil t.nullPointer).mp he]
    · rename_i he
      have hne : ¬ t.nullPointer = [] := fun e => he ((unsafeListStr_nil t.nullPointer).mpr e)
      rw [handleInfos_one, handleInfo_nullPointer, unsafeInfo_load t.nullPointer hnp]
      simp only [hne, if_false]
  -- step 5: uninitialized variables
  have s5 : ∀ wp : WholeProgram,
      handleInfos (if unsafeListStr t.uninitVar = [] then [] else [("Uninitialized variables".toList, Elem.mk "FileInfo".toList [("check".toList, "Uninitialized variables".toList)]
        (t.uninitVar.map uuElem))]) wp
      = some { wp with uninitVar := if t.uninitVar = [] then wp.uninitVar else wp.uninitVar ++ [t.uninitVar] } := by
    intro wp
    split
    · rename_i he
      simp [handleInfos, (unsafeListStr_nil t.uninitVar).mp he]
    · rename_i he
      have hne : ¬ t.uninitVar = [] := fun e => he ((unsafeListStr_nil t.uninitVar).mpr e)
      rw [handleInfos_one, handleInfo_uninit, unsafeInfo_load t.uninitVar hun]
      simp only [hne, if_false]
  have e : ((t.infos3 simp).flatMap fun x => if x.2.1 = [] then [] else [(x.1, Elem.mk "FileInfo".toList [("check".toList, x.1)] x.2.2)])
      = (if t.ctu.toStr simp = [] then [] else [("ctu".toList, Elem.mk "FileInfo".toList [("check".toList, "ctu".toList)]
          (t.ctu.functionCalls.map (fcElem simp) ++ t.ctu.nestedCalls.map (ncElem "nested-call")))])
        ++ ((if t.buffer.toStr = [] then [] else [("Bounds checking".toList, Elem.mk "FileInfo".toList [("check".toList, "Bounds checking".toList)]
          (bufferElems t.buffer))])
        ++ ((if classListStr t.classes = [] then [] else [("Class".toList, Elem.mk "FileInfo".toList [("check".toList, "Class".toList)]
          (t.classes.map cdElem))])
        ++ ((if unsafeListStr t.nullPointer = [] then [] else [("Null pointer".toList, Elem.mk "FileInfo".toList [("check".toList, "Null pointer".toList)]
          (t.nullPointer.map uuElem))])
        ++ ((if unsafeListStr t.uninitVar = [] then [] else [("Uninitialized variables".toList, Elem.mk "FileInfo".toList [("check".toList, "Uninitialized variables".toList)]
          (t.uninitVar.map uuElem))]) ++ [])))) := rfl
  rw [e, List.append_nil]
  rw [handleInfos_append, s1, Option.bind_some, handleInfos_append, s2, Option.bind_some, handleInfos_append, s3, Option.bind_some,
    handleInfos_append, s4, Option.bind_some, s5]
  rfl

theorem fromBuildDir_stores (simp : Str → Str) : ∀ (tus : List (Nat × TUSummary)) (wp : WholeProgram),
    (∀ t ∈ tus, t.2.Ok simp = true) →
    fromBuildDir (tus.map fun t => t.2.store simp t.1) wp = some ((tus.map (·.2)).foldl addInMemory wp) := by
  intro tus
  induction tus with
  | nil => intro wp _; rfl
  | cons t r ih =>
    intro wp h
    have ht := h t (by simp)
    simp only [List.map_cons, fromBuildDir, loadFile_store simp t.1 t.2 ht, handle_store simp t.2 ht wp, List.foldl_cons]
    exact ih _ (fun x hx => h x (by simp [hx]))

end Cppcheck.Ctu

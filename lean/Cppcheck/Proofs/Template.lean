import Cppcheck.Model.Template
/-
Helper lemmas for C26 (text output): `findAndReplace` over a template cut into segments.
-/
namespace Cppcheck.Template
open Cppcheck.XmlEsc

/-! ### `far` (findAndReplace) -/

theorem farGo_drop (pat to : Str) : ∀ (s : Str) (k : Nat), farGo pat to k s = farGo pat to 0 (s.drop k) := by
  intro s
  induction s with
  | nil => intro k; cases k <;> simp [farGo]
  | cons c r ih =>
    intro k
    cases k with
    | zero => simp
    | succ k => simp [farGo, ih k]

/-- unfolding of `far` on a non-empty source -/
theorem far_cons (pat to : Str) (hp : pat ≠ []) (c : Char) (r : Str) :
    far (c :: r) pat to =
      if pat.isPrefixOf (c :: r) then to ++ far ((c :: r).drop pat.length) pat to else c :: far r pat to := by
  unfold far
  simp only [farGo]
  split
  · rw [farGo_drop]
    cases pat with
    | nil => exact absurd rfl hp
    | cons a t => simp
  · rfl

@[simp] theorem far_nil (pat to : Str) : far [] pat to = [] := by simp [far, farGo]

/-- a match at the front is replaced, the scan goes on behind it -/
theorem far_prefix (pat to : Str) (hp : pat ≠ []) (q : Str) : far (pat ++ q) pat to = to ++ far q pat to := by
  cases pat with
  | nil => exact absurd rfl hp
  | cons a t =>
    have h : (a :: t).isPrefixOf (a :: (t ++ q)) = true := by
      rw [List.isPrefixOf_iff_prefix]; exact List.prefix_append (a :: t) q
    have := far_cons (a :: t) to hp a (t ++ q)
    simp only [List.cons_append] at *
    rw [this, if_pos h]
    congr 2
    have : (a :: (t ++ q)) = (a :: t) ++ q := rfl
    rw [this, List.drop_left]

/-- text that does not hold the first byte of the pattern is copied -/
theorem far_skip (h : Char) (t to : Str) (p q : Str) (hp : ∀ c ∈ p, c ≠ h) :
    far (p ++ q) (h :: t) to = p ++ far q (h :: t) to := by
  induction p with
  | nil => rfl
  | cons c p ih =>
    have hc : c ≠ h := hp c (by simp)
    have : (h :: t).isPrefixOf (c :: (p ++ q)) = false := by
      simp [List.isPrefixOf, Ne.symm hc]
    rw [List.cons_append, far_cons _ _ (by simp), this]
    simp only [Bool.false_eq_true, if_false, List.cons_append]
    rw [ih (fun c' hc' => hp c' (by simp [hc']))]

/-! ### markers -/

/-- `{name}` -/
def mark (n : Str) : Str := '{' :: (n ++ ['}'])

def noOpen (s : Str) : Prop := ∀ c ∈ s, c ≠ '{'
def noBrace (s : Str) : Prop := ∀ c ∈ s, c ≠ '{' ∧ c ≠ '}'

theorem noBrace.noOpen {s : Str} (h : noBrace s) : noOpen s := fun c hc => (h c hc).1

/-- two markers with brace-free names: one is a prefix of (the other followed by anything) only if they are equal -/
theorem name_prefix_eq : ∀ (n n' q : Str), noBrace n → noBrace n' → (n ++ ['}']) <+: (n' ++ '}' :: q) → n = n' := by
  intro n
  induction n with
  | nil =>
    intro n' q _ h' hpre
    cases n' with
    | nil => rfl
    | cons b n' =>
      simp only [List.nil_append, List.cons_append, List.cons_prefix_cons] at hpre
      exact absurd hpre.1.symm (h' b (by simp)).2
  | cons a n ih =>
    intro n' q h h' hpre
    cases n' with
    | nil =>
      simp only [List.cons_append, List.nil_append, List.cons_prefix_cons] at hpre
      exact absurd hpre.1 (h a (by simp)).2
    | cons b n' =>
      simp only [List.cons_append, List.cons_prefix_cons] at hpre
      have := ih n' q (fun c hc => h c (by simp [hc])) (fun c hc => h' c (by simp [hc])) hpre.2
      rw [hpre.1, this]

theorem mark_ne_nil (n : Str) : mark n ≠ [] := by simp [mark]

/-- another marker is copied -/
theorem far_other_mark (n n' to q : Str) (hn : noBrace n) (hn' : noBrace n') (hne : n' ≠ n) :
    far (mark n' ++ q) (mark n) to = mark n' ++ far q (mark n) to := by
  have hnp : (mark n).isPrefixOf (mark n' ++ q) = false := by
    apply Bool.eq_false_iff.mpr
    intro h
    rw [List.isPrefixOf_iff_prefix] at h
    simp only [mark, List.cons_append, List.cons_prefix_cons, true_and, List.append_assoc] at h
    exact hne (name_prefix_eq n n' q hn hn' h).symm
  have h1 : mark n' ++ q = '{' :: ((n' ++ ['}']) ++ q) := by simp [mark]
  rw [h1, far_cons _ _ (mark_ne_nil n), ← h1, hnp]
  simp only [Bool.false_eq_true, if_false]
  have : far ((n' ++ ['}']) ++ q) (mark n) to = (n' ++ ['}']) ++ far q (mark n) to := by
    apply far_skip
    intro c hc
    simp only [List.mem_append, List.mem_singleton] at hc
    rcases hc with hc | hc
    · exact (hn' c hc).1
    · rw [hc]; decide
  rw [this]; simp [mark]

/-! ### segments -/

def Seg.wf : Seg → Prop
  | .lit s => noOpen s
  | .mk n => noBrace n

def SegsWF (segs : List Seg) : Prop := ∀ s ∈ segs, s.wf

/-- replace the markers named `n` by the literal `v` -/
def substOne (n v : Str) : Seg → Seg
  | .lit s => .lit s
  | .mk n' => if n' = n then .lit v else .mk n'

theorem flatten_cons (s : Seg) (r : List Seg) : flatten (s :: r) = s.flat ++ flatten r := by
  simp [flatten]

@[simp] theorem flatten_nil : flatten [] = [] := rfl

theorem flatten_append (a b : List Seg) : flatten (a ++ b) = flatten a ++ flatten b := by
  simp [flatten]

/-- one `findAndReplace(result, "{n}", v)` pass over a well-formed template = replacing the `{n}` segments -/
theorem far_flatten (n v : Str) (hn : noBrace n) :
    ∀ segs : List Seg, SegsWF segs → far (flatten segs) (mark n) v = flatten (segs.map (substOne n v)) := by
  intro segs
  induction segs with
  | nil => intro _; simp
  | cons s r ih =>
    intro hwf
    have hr : SegsWF r := fun x hx => hwf x (by simp [hx])
    have hs : s.wf := hwf s (by simp)
    rw [flatten_cons, List.map_cons, flatten_cons]
    cases s with
    | lit t =>
      simp only [Seg.flat, substOne]
      rw [mark, far_skip '{' (n ++ ['}']) v t (flatten r) hs, ← mark, ih hr]
    | mk n' =>
      simp only [substOne]
      by_cases h : n' = n
      · subst h
        simp only [if_true, Seg.flat]
        rw [← mark, far_prefix _ _ (mark_ne_nil n'), ih hr]
      · simp only [h, if_false, Seg.flat]
        rw [← mark, far_other_mark n n' v (flatten r) hn hs h, ih hr]

theorem substOne_wf (n v : Str) (hv : noOpen v) (segs : List Seg) (h : SegsWF segs) : SegsWF (segs.map (substOne n v)) := by
  intro s hs
  simp only [List.mem_map] at hs
  obtain ⟨s0, hs0, rfl⟩ := hs
  have := h s0 hs0
  cases s0 with
  | lit t => exact this
  | mk n' =>
    simp only [substOne]
    split
    · exact hv
    · exact this

/-! ### `find` -/

theorem findFrom_ge (pat : Str) : ∀ (s : Str) (i p : Nat), findFrom pat s i = some p → i ≤ p := by
  intro s
  induction s with
  | nil => intro i p h; simp only [findFrom] at h; split at h <;> simp_all
  | cons c r ih =>
    intro i p h
    simp only [findFrom] at h
    split at h
    · simp_all
    · have := ih (i + 1) p h; omega

/-- the first occurrence is also the first occurrence at or after any earlier start -/
theorem findFrom_drop_some (pat : Str) : ∀ (s : Str) (i p : Nat), findFrom pat s i = some p →
    ∀ k, i + k ≤ p → findFrom pat (s.drop k) (i + k) = some p := by
  intro s
  induction s with
  | nil =>
    intro i p h k hk
    simp only [findFrom] at h
    split at h
    · simp only [Option.some.injEq] at h; subst h
      have : k = 0 := by omega
      subst this; simp [findFrom, *]
    · simp at h
  | cons c r ih =>
    intro i p h k hk
    cases k with
    | zero => simpa using h
    | succ k =>
      simp only [findFrom] at h
      split at h
      · simp only [Option.some.injEq] at h; omega
      · have := ih (i + 1) p h k (by omega)
        simpa [Nat.add_assoc, Nat.add_comm 1 k] using this

theorem findFrom_drop_none (pat : Str) : ∀ (s : Str) (i : Nat), findFrom pat s i = none →
    ∀ k j, findFrom pat (s.drop k) j = none := by
  intro s
  induction s with
  | nil =>
    intro i h k j
    simp only [findFrom] at h
    split at h
    · simp at h
    · simp [findFrom, *]
  | cons c r ih =>
    intro i h k j
    simp only [findFrom] at h
    split at h
    · simp at h
    · rename_i hnp
      cases k with
      | zero =>
        simp only [List.drop_zero, findFrom, hnp]
        simpa using ih (i + 1) h 0 (j + 1)
      | succ k => simpa using ih (i + 1) h k j

/-- `s.find(pat, start)` agrees with the first occurrence when `start` is not behind it -/
theorem find_of_findFrom (pat s : Str) (start : Nat) (hs : start ≤ s.length)
    (h : ∀ p, findFrom pat s 0 = some p → start ≤ p) : find pat s start = findFrom pat s 0 := by
  unfold find
  rw [if_pos hs]
  cases hf : findFrom pat s 0 with
  | none => exact findFrom_drop_none pat s 0 hf start start
  | some p =>
    have := findFrom_drop_some pat s 0 p hf start (by have := h p hf; omega)
    simpa using this

theorem findFrom_skip (h : Char) (t : Str) : ∀ (p q : Str) (i : Nat), (∀ c ∈ p, c ≠ h) →
    findFrom (h :: t) (p ++ q) i = findFrom (h :: t) q (i + p.length) := by
  intro p
  induction p with
  | nil => intro q i _; simp
  | cons c p ih =>
    intro q i hp
    have hc : c ≠ h := hp c (by simp)
    have : (h :: t).isPrefixOf (c :: (p ++ q)) = false := by simp [List.isPrefixOf, Ne.symm hc]
    simp only [List.cons_append, findFrom, this, Bool.false_eq_true, if_false]
    rw [ih q (i + 1) (fun c' hc' => hp c' (by simp [hc']))]
    simp [Nat.add_assoc, Nat.add_comm 1]

theorem findFrom_hit (pat : Str) (c : Char) (r : Str) (i : Nat) (h : pat.isPrefixOf (c :: r) = true) :
    findFrom pat (c :: r) i = some i := by
  simp [findFrom, h]

/-! ### the `{inconclusive:…}` loop -/

def Seg.isInc : Seg → Bool
  | .lit _ => false
  | .mk n => incP n

def substInc (inc : Bool) : Seg → Seg
  | .lit s => .lit s
  | .mk n => if incP n then .lit (if inc then n.drop 13 else []) else .mk n

theorem mInc_eq : mInc = '{' :: incPre := by decide

/-- a prefix without '}' of `n ++ '}' :: q` is a prefix of `n` -/
theorem prefix_of_noClose : ∀ (p n q : Str), (∀ c ∈ p, c ≠ '}') → p <+: (n ++ '}' :: q) → p <+: n := by
  intro p
  induction p with
  | nil => intro n q _ _; exact List.nil_prefix
  | cons a p ih =>
    intro n q hp hpre
    cases n with
    | nil =>
      simp only [List.nil_append, List.cons_prefix_cons] at hpre
      exact absurd hpre.1 (hp a (by simp))
    | cons b n =>
      simp only [List.cons_append, List.cons_prefix_cons] at hpre ⊢
      exact ⟨hpre.1, ih n q (fun c hc => hp c (by simp [hc])) hpre.2⟩

theorem incPre_noClose : ∀ c ∈ incPre, c ≠ '}' := by decide

theorem mInc_prefix_mark (n q : Str) : mInc.isPrefixOf (mark n ++ q) = true → incP n = true := by
  intro h
  rw [List.isPrefixOf_iff_prefix, mInc_eq] at h
  simp only [mark, List.cons_append, List.cons_prefix_cons, true_and, List.append_assoc, List.singleton_append] at h
  unfold incP
  rw [List.isPrefixOf_iff_prefix]
  exact prefix_of_noClose incPre n q incPre_noClose h

theorem mInc_prefix_of_incP (n q : Str) (h : incP n = true) : mInc.isPrefixOf (mark n ++ q) = true := by
  unfold incP at h
  rw [List.isPrefixOf_iff_prefix] at h ⊢
  rw [mInc_eq]
  simp only [mark, List.cons_append, List.cons_prefix_cons, true_and, List.append_assoc]
  exact List.IsPrefix.trans h (List.prefix_append n _)

theorem mark_length (n : Str) : (mark n).length = n.length + 2 := by simp [mark]

/-- segments without `{inconclusive:` marker are skipped by the search -/
theorem findFrom_skip_segs : ∀ (A : List Seg) (q : Str) (i : Nat), SegsWF A → (∀ s ∈ A, s.isInc = false) →
    findFrom mInc (flatten A ++ q) i = findFrom mInc q (i + (flatten A).length) := by
  intro A
  induction A with
  | nil => intro q i _ _; simp
  | cons s r ih =>
    intro q i hwf hni
    have hr : SegsWF r := fun x hx => hwf x (by simp [hx])
    have hnr : ∀ s ∈ r, s.isInc = false := fun x hx => hni x (by simp [hx])
    have hs : s.wf := hwf s (by simp)
    rw [flatten_cons, List.append_assoc]
    cases s with
    | lit t =>
      simp only [Seg.flat]
      rw [mInc_eq, findFrom_skip '{' incPre t _ i hs, ← mInc_eq, ih q _ hr hnr]
      simp [Nat.add_assoc]
    | mk n =>
      have hni' : incP n = false := hni (.mk n) (by simp)
      simp only [Seg.flat]
      have hnp : mInc.isPrefixOf (mark n ++ (flatten r ++ q)) = false := by
        apply Bool.eq_false_iff.mpr
        intro h
        have := mInc_prefix_mark n _ h
        rw [hni'] at this; exact Bool.noConfusion this
      have h1 : mark n ++ (flatten r ++ q) = '{' :: ((n ++ ['}']) ++ (flatten r ++ q)) := by simp [mark]
      rw [← mark, h1]
      simp only [findFrom]
      rw [← h1, hnp]
      simp only [Bool.false_eq_true, if_false]
      rw [mInc_eq, findFrom_skip '{' incPre (n ++ ['}']) _ (i + 1), ← mInc_eq, ih q _ hr hnr]
      · congr 1; simp [mark]; omega
      · intro c hc
        simp only [List.mem_append, List.mem_singleton] at hc
        rcases hc with hc | hc
        · exact (hs c hc).1
        · rw [hc]; decide

theorem split_first_inc : ∀ segs : List Seg, (∀ s ∈ segs, s.isInc = false) ∨
    ∃ A n B, segs = A ++ Seg.mk n :: B ∧ (∀ s ∈ A, s.isInc = false) ∧ incP n = true := by
  intro segs
  induction segs with
  | nil => left; simp
  | cons s r ih =>
    cases hs : s.isInc with
    | true =>
      right
      cases s with
      | lit t => simp [Seg.isInc] at hs
      | mk n => exact ⟨[], n, r, rfl, by simp, hs⟩
    | false =>
      rcases ih with h | ⟨A, n, B, rfl, hA, hn⟩
      · left; intro x hx
        simp only [List.mem_cons] at hx
        rcases hx with rfl | hx
        · exact hs
        · exact h x hx
      · right
        refine ⟨s :: A, n, B, rfl, ?_, hn⟩
        intro x hx
        simp only [List.mem_cons] at hx
        rcases hx with rfl | hx
        · exact hs
        · exact hA x hx

def incCount (segs : List Seg) : Nat := (segs.filter Seg.isInc).length

theorem substOne_noninc (n v : Str) (hn : incP n = true) : ∀ A : List Seg, (∀ s ∈ A, s.isInc = false) → A.map (substOne n v) = A := by
  intro A
  induction A with
  | nil => intro _; rfl
  | cons s r ih =>
    intro h
    rw [List.map_cons, ih (fun x hx => h x (by simp [hx]))]
    have hs := h s (by simp)
    cases s with
    | lit t => rfl
    | mk n' =>
      simp only [substOne]
      split
      · rename_i he; subst he; simp only [Seg.isInc] at hs; rw [hs] at hn; exact Bool.noConfusion hn
      · rfl

theorem incCount_substOne_le (n v : Str) : ∀ segs : List Seg, incCount (segs.map (substOne n v)) ≤ incCount segs := by
  intro segs
  induction segs with
  | nil => simp [incCount]
  | cons s r ih =>
    simp only [incCount, List.map_cons] at ih ⊢
    cases s with
    | lit t => simpa [substOne, List.filter, Seg.isInc] using ih
    | mk n' =>
      simp only [substOne]
      split
      · simp only [List.filter, Seg.isInc]
        split
        · simp only [List.length_cons]; omega
        · exact ih
      · simp only [List.filter]
        split
        · simp only [List.length_cons]; omega
        · exact ih

theorem incCount_append (a b : List Seg) : incCount (a ++ b) = incCount a + incCount b := by
  simp [incCount]

theorem substInc_substOne (inc : Bool) (n : Str) (hn : incP n = true) (s : Seg) :
    substInc inc (substOne n (if inc then n.drop 13 else []) s) = substInc inc s := by
  cases s with
  | lit t => rfl
  | mk n' =>
    simp only [substOne]
    split
    · rename_i he; subst he; simp [substInc, hn]
    · rfl

theorem noOpen_drop {n : Str} (h : noBrace n) (k : Nat) : noOpen (n.drop k) :=
  fun c hc => (h c (List.mem_of_mem_drop hc)).1

theorem incP_length {n : Str} (h : incP n = true) : 13 ≤ n.length := by
  unfold incP at h
  rw [List.isPrefixOf_iff_prefix] at h
  have := h.length_le
  have h13 : incPre.length = 13 := by decide
  omega

theorem incP_drop {n : Str} (h : incP n = true) : n = incPre ++ n.drop 13 := by
  unfold incP at h
  rw [List.isPrefixOf_iff_prefix] at h
  obtain ⟨t, ht⟩ := h
  rw [← ht]
  have : incPre.length = 13 := by decide
  rw [← this, List.drop_left]

theorem close_pos (pa n fb : Str) (hn : noBrace n) :
    find ['}'] (pa ++ (mark n ++ fb)) (pa.length + 1) = some (pa.length + 1 + n.length) := by
  unfold find
  have hlen : pa.length + 1 ≤ (pa ++ (mark n ++ fb)).length := by simp [mark]
  rw [if_pos hlen]
  have hd : (pa ++ (mark n ++ fb)).drop (pa.length + 1) = n ++ ('}' :: fb) := by
    rw [List.drop_length_add_append]; simp [mark]
  rw [hd, findFrom_skip '}' [] n ('}' :: fb) (pa.length + 1) (fun c hc => (hn c hc).2)]
  exact findFrom_hit ['}'] '}' fb _ (by simp [List.isPrefixOf])

theorem take_from (pa n fb : Str) :
    ((pa ++ (mark n ++ fb)).drop pa.length).take (pa.length + 1 + n.length - pa.length + 1) = mark n := by
  rw [List.drop_left]
  have : pa.length + 1 + n.length - pa.length + 1 = (mark n).length := by rw [mark_length]; omega
  rw [this, List.take_left]

theorem take_with (pa n fb : Str) (hn : incP n = true) :
    ((pa ++ (mark n ++ fb)).drop (pa.length + 14)).take (pa.length + 1 + n.length - pa.length - 14) = n.drop 13 := by
  rw [List.drop_length_add_append]
  have h13 := incP_length hn
  have hm : mark n ++ fb = '{' :: (incPre ++ (n.drop 13 ++ ('}' :: fb))) := by
    conv => lhs; rw [incP_drop hn]
    simp [mark]
  have hl : ('{' :: incPre).length = 14 := by decide
  rw [hm]
  have : List.drop 14 ('{' :: (incPre ++ (n.drop 13 ++ ('}' :: fb)))) = n.drop 13 ++ ('}' :: fb) := by
    have h2 : '{' :: (incPre ++ (n.drop 13 ++ ('}' :: fb))) = ('{' :: incPre) ++ (n.drop 13 ++ ('}' :: fb)) := rfl
    rw [h2, ← hl, List.drop_left]
  rw [this]
  have : pa.length + 1 + n.length - pa.length - 14 = (n.drop 13).length := by simp; omega
  rw [this, List.take_left]

theorem substInc_noninc (inc : Bool) : ∀ A : List Seg, (∀ s ∈ A, s.isInc = false) → A.map (substInc inc) = A := by
  intro A
  induction A with
  | nil => intro _; rfl
  | cons s r ih =>
    intro h
    rw [List.map_cons, ih (fun x hx => h x (by simp [hx]))]
    have hs := h s (by simp)
    cases s with
    | lit t => rfl
    | mk n' => simp only [Seg.isInc] at hs; simp [substInc, hs]

/-- the `{inconclusive:…}` loop on a well-formed template = replacing every `{inconclusive:text}` segment by
    `text` (inconclusive finding) or nothing; `fuel` > number of such segments is enough -/
theorem inconclusiveLoop_flatten (brk inc : Bool) : ∀ (fuel : Nat) (segs : List Seg), SegsWF segs → incCount segs < fuel →
    inconclusiveLoop brk inc fuel (flatten segs) (findFrom mInc (flatten segs) 0) = some (flatten (segs.map (substInc inc))) := by
  intro fuel
  induction fuel with
  | zero => intro segs _ h; omega
  | succ fuel ih =>
    intro segs hwf hcnt
    rcases split_first_inc segs with hnone | ⟨A, n, B, hsegs, hA, hn⟩
    · have h0 : findFrom mInc (flatten segs) 0 = none := by
        have := findFrom_skip_segs segs [] 0 hwf hnone
        simp only [List.append_nil] at this
        rw [this, mInc_eq]; simp [findFrom]
      rw [h0, substInc_noninc inc segs hnone]
      simp [inconclusiveLoop]
    · subst hsegs
      have hwfA : SegsWF A := fun x hx => hwf x (by simp [hx])
      have hwfB : SegsWF B := fun x hx => hwf x (by simp [hx])
      have hnb : noBrace n := hwf (.mk n) (by simp)
      have hs : flatten (A ++ Seg.mk n :: B) = flatten A ++ (mark n ++ flatten B) := by
        rw [flatten_append, flatten_cons]; rfl
      have h0 : findFrom mInc (flatten (A ++ Seg.mk n :: B)) 0 = some (flatten A).length := by
        rw [hs, findFrom_skip_segs A _ 0 hwfA hA]
        have hm : mark n ++ flatten B = '{' :: ((n ++ ['}']) ++ flatten B) := by simp [mark]
        have hp := mInc_prefix_of_incP n (flatten B) hn
        rw [hm] at hp ⊢
        rw [findFrom_hit mInc _ _ _ hp]; simp
      rw [h0]
      simp only [inconclusiveLoop]
      rw [hs, close_pos (flatten A) n (flatten B) hnb]
      simp only [take_from, take_with (flatten A) n (flatten B) hn]
      generalize hw : (if inc = true then n.drop 13 else []) = w
      have hwo : noOpen w := by
        rw [← hw]; split
        · exact noOpen_drop hnb 13
        · intro c hc; simp at hc
      rw [← hs, far_flatten n w hnb _ hwf]
      -- the template after this pass
      have hseg : (A ++ Seg.mk n :: B).map (substOne n w) = A ++ Seg.lit w :: B.map (substOne n w) := by
        rw [List.map_append, substOne_noninc n w hn A hA]; simp [substOne]
      have hwf' : SegsWF ((A ++ Seg.mk n :: B).map (substOne n w)) := substOne_wf n w hwo _ hwf
      have hcnt' : incCount ((A ++ Seg.mk n :: B).map (substOne n w)) < fuel := by
        rw [hseg, incCount_append]
        have h1 : incCount (Seg.lit w :: B.map (substOne n w)) = incCount (B.map (substOne n w)) := by
          simp [incCount, List.filter, Seg.isInc]
        have h2 := incCount_substOne_le n w B
        have h3 : incCount (A ++ Seg.mk n :: B) = incCount A + (incCount B + 1) := by
          rw [incCount_append]; simp [incCount, List.filter, Seg.isInc, hn]
        omega
      have hfind : find mInc (flatten ((A ++ Seg.mk n :: B).map (substOne n w))) (flatten A).length =
          findFrom mInc (flatten ((A ++ Seg.mk n :: B).map (substOne n w))) 0 := by
        apply find_of_findFrom
        · rw [hseg, flatten_append]; simp
        · intro p hp
          rw [hseg, flatten_append, findFrom_skip_segs A _ 0 hwfA hA] at hp
          have := findFrom_ge _ _ _ _ hp
          omega
      rw [hfind, ih _ hwf' hcnt', List.map_map]
      congr 2
      apply List.map_congr_left
      intro s _
      simp only [Function.comp]
      rw [← hw]
      exact substInc_substOne inc n hn s

theorem incCount_le_length : ∀ segs : List Seg, incCount segs ≤ (flatten segs).length := by
  intro segs
  induction segs with
  | nil => simp [incCount]
  | cons s r ih =>
    rw [flatten_cons]
    simp only [incCount, List.filter] at ih ⊢
    cases hs : s.isInc with
    | true =>
      cases s with
      | lit t => simp [Seg.isInc] at hs
      | mk n => simp only [List.length_cons, List.length_append, Seg.flat]; omega
    | false => simp only [List.length_append]; omega

/-! ### the map-driven `replace` of the empty-call-stack branch -/

def substMap (m : List (Str × Str)) : Seg → Seg
  | .lit s => .lit s
  | .mk n => match m.lookup (mark n) with
    | some v => .lit v
    | none => .mk n

theorem replaceMapGo_drop (m : List (Str × Str)) : ∀ (s : Str) (k : Nat) (st : Bool),
    replaceMapGo m k st s = replaceMapGo m 0 st (s.drop k) := by
  intro s
  induction s with
  | nil => intro k st; cases k <;> simp [replaceMapGo]
  | cons c r ih =>
    intro k st
    cases k with
    | zero => simp
    | succ k => simp [replaceMapGo, ih k st]

theorem replaceMapGo_skip (m : List (Str × Str)) : ∀ (p q : Str), noOpen p →
    replaceMapGo m 0 false (p ++ q) = p ++ replaceMapGo m 0 false q := by
  intro p
  induction p with
  | nil => intro q _; rfl
  | cons c p ih =>
    intro q hp
    have hc : c ≠ '{' := hp c (by simp)
    simp only [List.cons_append, replaceMapGo, hc, if_false]
    rw [ih q (fun c' hc' => hp c' (by simp [hc']))]

theorem replaceMap_flatten (m : List (Str × Str)) : ∀ segs : List Seg, SegsWF segs →
    replaceMap m (flatten segs) = flatten (segs.map (substMap m)) := by
  unfold replaceMap
  intro segs
  induction segs with
  | nil => intro _; simp [replaceMapGo]
  | cons s r ih =>
    intro hwf
    have hr : SegsWF r := fun x hx => hwf x (by simp [hx])
    have hs : s.wf := hwf s (by simp)
    rw [flatten_cons, List.map_cons, flatten_cons]
    cases s with
    | lit t =>
      simp only [Seg.flat, substMap]
      rw [replaceMapGo_skip m t _ hs, ih hr]
    | mk n =>
      have hfind : findFrom ['}'] (n ++ ('}' :: flatten r)) 0 = some n.length := by
        rw [findFrom_skip '}' [] n _ 0 (fun c hc => (hs c hc).2)]
        rw [findFrom_hit ['}'] '}' _ _ (by simp [List.isPrefixOf])]; simp
      have hkey : '{' :: (n ++ ('}' :: flatten r)).take (n.length + 1) = mark n := by
        have : n ++ ('}' :: flatten r) = (n ++ ['}']) ++ flatten r := by simp
        rw [this]
        have hl : n.length + 1 = (n ++ ['}']).length := by simp
        rw [hl, List.take_left]; rfl
      have hflat : (Seg.mk n).flat ++ flatten r = '{' :: (n ++ ('}' :: flatten r)) := by simp [Seg.flat]
      rw [hflat]
      simp only [replaceMapGo, if_true, hfind, hkey, substMap]
      cases hl : m.lookup (mark n) with
      | some v =>
        simp only [Seg.flat]
        rw [replaceMapGo_drop]
        have : (n ++ ('}' :: flatten r)).drop (n.length + 1) = flatten r := by
          have h2 : n ++ ('}' :: flatten r) = (n ++ ['}']) ++ flatten r := by simp
          have hl2 : n.length + 1 = (n ++ ['}']).length := by simp
          rw [h2, hl2, List.drop_left]
        rw [this, ih hr]
      | none =>
        simp only [Seg.flat]
        have h2 : n ++ ('}' :: flatten r) = (n ++ ['}']) ++ flatten r := by simp
        rw [h2, replaceMapGo_skip m (n ++ ['}']) _ ?_, ih hr]
        · simp
        · intro c hc
          simp only [List.mem_append, List.mem_singleton] at hc
          rcases hc with hc | hc
          · exact (hs c hc).1
          · rw [hc]; decide

/-! ### values that never hold a '{' -/

theorem digit_ne : ∀ m, m < 10 → Char.ofNat (48 + m) ≠ '{' ∧ Char.ofNat (48 + m) ≠ '}' := by decide

theorem natDecAux_noBrace : ∀ (fuel n : Nat) (acc : Str), noBrace acc → noBrace (natDecAux fuel n acc) := by
  intro fuel
  induction fuel with
  | zero => intro n acc h; exact h
  | succ fuel ih =>
    intro n acc h
    have hd : noBrace (digitChar n :: acc) := by
      intro c hc
      simp only [List.mem_cons] at hc
      rcases hc with rfl | hc
      · exact digit_ne (n % 10) (Nat.mod_lt _ (by decide))
      · exact h c hc
    simp only [natDecAux]
    split
    · exact hd
    · exact ih _ _ hd

theorem natDec_noBrace (n : Nat) : noBrace (natDec n) :=
  natDecAux_noBrace _ _ [] (fun c hc => by simp at hc)

theorem intDec_noBrace (i : Int) : noBrace (intDec i) := by
  cases i with
  | ofNat n => exact natDec_noBrace n
  | negSucc n =>
    intro c hc
    simp only [intDec, List.mem_cons] at hc
    rcases hc with rfl | hc
    · decide
    · exact natDec_noBrace _ c hc

theorem sevStr_noOpen (n : Nat) : noOpen (sevStr n) := by
  unfold sevStr noOpen
  split <;> decide

theorem toNative_noOpen {s : Str} (h : noOpen s) : noOpen (toNative s) := by
  intro c hc
  simp only [toNative, List.mem_map] at hc
  obtain ⟨a, ha, rfl⟩ := hc
  split
  · decide
  · exact h a ha

theorem noOpen_append {a b : Str} (ha : noOpen a) (hb : noOpen b) : noOpen (a ++ b) := by
  intro c hc
  simp only [List.mem_append] at hc
  rcases hc with h | h
  · exact ha c h
  · exact hb c h

theorem noOpen_cons {c : Char} {a : Str} (hc : c ≠ '{') (ha : noOpen a) : noOpen (c :: a) := by
  intro x hx
  simp only [List.mem_cons] at hx
  rcases hx with rfl | h
  · exact hc
  · exact ha x h

theorem stringify_noOpen (l : Loc) (h : noOpen l.file) : noOpen (stringify l) := by
  unfold stringify
  apply noOpen_cons (by decide)
  apply noOpen_append
  · apply noOpen_append (toNative_noOpen h)
    split
    · apply noOpen_cons (by decide)
      apply noOpen_append (intDec_noBrace _).noOpen
      simp only [Bool.false_eq_true, if_false]
      intro c hc; simp at hc
    · intro c hc; simp at hc
  · exact noOpen_cons (by decide) (fun c hc => by simp at hc)

theorem callStackToString_noOpen : ∀ st : List Loc, (∀ l ∈ st, noOpen l.file) → noOpen (callStackToString st) := by
  intro st
  induction st with
  | nil => intro _ c hc; simp [callStackToString] at hc
  | cons l r ih =>
    intro h
    cases r with
    | nil => simpa [callStackToString] using stringify_noOpen l (h l (by simp))
    | cons l2 r2 =>
      simp only [callStackToString]
      apply noOpen_append
      · apply noOpen_append (stringify_noOpen l (h l (by simp)))
        unfold noOpen; decide
      · exact ih (fun x hx => h x (by simp [hx]))

/-! ### assembling `toString` -/

theorem mark_id : "{id}".toList = mark "id".toList := by decide
theorem mark_severity : "{severity}".toList = mark "severity".toList := by decide
theorem mark_cwe : "{cwe}".toList = mark "cwe".toList := by decide
theorem mark_message : "{message}".toList = mark "message".toList := by decide
theorem mark_remark : "{remark}".toList = mark "remark".toList := by decide
theorem mark_callstack : "{callstack}".toList = mark "callstack".toList := by decide
theorem mark_file : "{file}".toList = mark "file".toList := by decide
theorem mark_line : "{line}".toList = mark "line".toList := by decide
theorem mark_column : "{column}".toList = mark "column".toList := by decide
theorem mark_code : "{code}".toList = mark "code".toList := by decide
theorem mark_info : "{info}".toList = mark "info".toList := by decide

theorem nb_id : noBrace "id".toList := by unfold noBrace; decide
theorem nb_severity : noBrace "severity".toList := by unfold noBrace; decide
theorem nb_cwe : noBrace "cwe".toList := by unfold noBrace; decide
theorem nb_message : noBrace "message".toList := by unfold noBrace; decide
theorem nb_remark : noBrace "remark".toList := by unfold noBrace; decide
theorem nb_callstack : noBrace "callstack".toList := by unfold noBrace; decide
theorem nb_file : noBrace "file".toList := by unfold noBrace; decide
theorem nb_line : noBrace "line".toList := by unfold noBrace; decide
theorem nb_column : noBrace "column".toList := by unfold noBrace; decide
theorem nb_code : noBrace "code".toList := by unfold noBrace; decide
theorem nb_info : noBrace "info".toList := by unfold noBrace; decide

theorem substInc_wf (inc : Bool) (segs : List Seg) (h : SegsWF segs) : SegsWF (segs.map (substInc inc)) := by
  intro s hs
  simp only [List.mem_map] at hs
  obtain ⟨s0, hs0, rfl⟩ := hs
  have := h s0 hs0
  cases s0 with
  | lit t => exact this
  | mk n =>
    simp only [substInc]
    split
    · simp only [Seg.wf]
      split
      · exact noOpen_drop this 13
      · intro c hc; simp at hc
    · exact this

theorem flatten_map (g : Seg → Seg) (segs : List Seg) : flatten (segs.map g) = segs.flatMap (fun s => (g s).flat) := by
  induction segs with
  | nil => rfl
  | cons s r ih => rw [List.map_cons, flatten_cons, ih]; rfl

theorem flatMap_congr' {α β} (f g : α → List β) : ∀ l : List α, (∀ x ∈ l, f x = g x) → l.flatMap f = l.flatMap g := by
  intro l
  induction l with
  | nil => intro _; rfl
  | cons a r ih =>
    intro h
    rw [List.flatMap_cons, List.flatMap_cons, h a (by simp), ih (fun x hx => h x (by simp [hx]))]

/-- the passes before the call-stack fields: id, inconclusive, severity, cwe, message, remark -/
def chainHead (e : Env) (s : Seg) : Seg :=
  substOne "remark".toList e.remark (substOne "message".toList e.message (substOne "cwe".toList e.cwe
    (substOne "severity".toList e.severity (substInc e.inconclusive (substOne "id".toList e.id s)))))

/-- … then callstack, file, line, column (finding with a call stack) -/
def chainStack (e : Env) (s : Seg) : Seg :=
  substOne "column".toList e.column (substOne "line".toList e.line (substOne "file".toList e.file
    (substOne "callstack".toList e.callstack (chainHead e s))))

/-- the ten passes before `{code}` on one marker, for arbitrary field names -/
theorem chain10 (a1 a3 a4 a5 a6 a7 a8 a9 a10 : Str) (v1 v3 v4 v5 v6 v7 v8 v9 v10 : Str) (inc : Bool) (n : Str) :
    (substOne a10 v10 (substOne a9 v9 (substOne a8 v8 (substOne a7 v7 (substOne a6 v6 (substOne a5 v5 (substOne a4 v4
      (substOne a3 v3 (substInc inc (substOne a1 v1 (.mk n))))))))))).flat =
    ((if n = a1 then some v1 else if incP n then some (if inc then n.drop 13 else []) else if n = a3 then some v3
      else if n = a4 then some v4 else if n = a5 then some v5 else if n = a6 then some v6 else if n = a7 then some v7
      else if n = a8 then some v8 else if n = a9 then some v9 else if n = a10 then some v10 else none).getD (mark n)) := by
  by_cases h1 : n = a1
  · subst h1; simp [substOne, substInc, Seg.flat, mark]
  by_cases h2 : incP n = true
  · simp [substOne, substInc, h1, h2, Seg.flat, mark]
  by_cases h3 : n = a3
  · subst h3; simp [substOne, substInc, h1, h2, Seg.flat, mark]
  by_cases h4 : n = a4
  · subst h4; simp [substOne, substInc, h1, h2, h3, Seg.flat, mark]
  by_cases h5 : n = a5
  · subst h5; simp [substOne, substInc, h1, h2, h3, h4, Seg.flat, mark]
  by_cases h6 : n = a6
  · subst h6; simp [substOne, substInc, h1, h2, h3, h4, h5, Seg.flat, mark]
  by_cases h7 : n = a7
  · subst h7; simp [substOne, substInc, h1, h2, h3, h4, h5, h6, Seg.flat, mark]
  by_cases h8 : n = a8
  · subst h8; simp [substOne, substInc, h1, h2, h3, h4, h5, h6, h7, Seg.flat, mark]
  by_cases h9 : n = a9
  · subst h9; simp [substOne, substInc, h1, h2, h3, h4, h5, h6, h7, h8, Seg.flat, mark]
  by_cases h10 : n = a10
  · subst h10; simp [substOne, substInc, h1, h2, h3, h4, h5, h6, h7, h8, h9, Seg.flat, mark]
  simp [substOne, substInc, h1, h2, h3, h4, h5, h6, h7, h8, h9, h10, Seg.flat, mark]

/-- … followed by the `{code}` pass -/
theorem chain11 (a1 a3 a4 a5 a6 a7 a8 a9 a10 a11 : Str) (v1 v3 v4 v5 v6 v7 v8 v9 v10 v11 : Str) (inc : Bool) (n : Str) :
    (substOne a11 v11 (substOne a10 v10 (substOne a9 v9 (substOne a8 v8 (substOne a7 v7 (substOne a6 v6 (substOne a5 v5
      (substOne a4 v4 (substOne a3 v3 (substInc inc (substOne a1 v1 (.mk n)))))))))))).flat =
    ((match (if n = a1 then some v1 else if incP n then some (if inc then n.drop 13 else []) else if n = a3 then some v3
      else if n = a4 then some v4 else if n = a5 then some v5 else if n = a6 then some v6 else if n = a7 then some v7
      else if n = a8 then some v8 else if n = a9 then some v9 else if n = a10 then some v10 else none) with
      | some v => some v
      | none => if n = a11 then some v11 else none).getD (mark n)) := by
  by_cases h1 : n = a1
  · subst h1; simp [substOne, substInc, Seg.flat, mark]
  by_cases h2 : incP n = true
  · simp [substOne, substInc, h1, h2, Seg.flat, mark]
  by_cases h3 : n = a3
  · subst h3; simp [substOne, substInc, h1, h2, Seg.flat, mark]
  by_cases h4 : n = a4
  · subst h4; simp [substOne, substInc, h1, h2, h3, Seg.flat, mark]
  by_cases h5 : n = a5
  · subst h5; simp [substOne, substInc, h1, h2, h3, h4, Seg.flat, mark]
  by_cases h6 : n = a6
  · subst h6; simp [substOne, substInc, h1, h2, h3, h4, h5, Seg.flat, mark]
  by_cases h7 : n = a7
  · subst h7; simp [substOne, substInc, h1, h2, h3, h4, h5, h6, Seg.flat, mark]
  by_cases h8 : n = a8
  · subst h8; simp [substOne, substInc, h1, h2, h3, h4, h5, h6, h7, Seg.flat, mark]
  by_cases h9 : n = a9
  · subst h9; simp [substOne, substInc, h1, h2, h3, h4, h5, h6, h7, h8, Seg.flat, mark]
  by_cases h10 : n = a10
  · subst h10; simp [substOne, substInc, h1, h2, h3, h4, h5, h6, h7, h8, h9, Seg.flat, mark]
  by_cases h11 : n = a11
  · subst h11; simp [substOne, substInc, h1, h2, h3, h4, h5, h6, h7, h8, h9, h10, Seg.flat, mark]
  simp [substOne, substInc, h1, h2, h3, h4, h5, h6, h7, h8, h9, h10, h11, Seg.flat, mark]

/-- the six passes before the call-stack fields, then the map-driven `replace` -/
theorem chain6map (m : List (Str × Str)) (a1 a3 a4 a5 a6 : Str) (v1 v3 v4 v5 v6 : Str) (inc : Bool) (n : Str) :
    (substMap m (substOne a6 v6 (substOne a5 v5 (substOne a4 v4 (substOne a3 v3 (substInc inc (substOne a1 v1 (.mk n)))))))).flat =
    ((if n = a1 then some v1 else if incP n then some (if inc then n.drop 13 else []) else if n = a3 then some v3
      else if n = a4 then some v4 else if n = a5 then some v5 else if n = a6 then some v6 else m.lookup (mark n)).getD (mark n)) := by
  by_cases h1 : n = a1
  · subst h1; simp [substOne, substInc, Seg.flat, mark, substMap]
  by_cases h2 : incP n = true
  · simp [substOne, substInc, h1, h2, Seg.flat, mark, substMap]
  by_cases h3 : n = a3
  · subst h3; simp [substOne, substInc, h1, h2, Seg.flat, mark, substMap]
  by_cases h4 : n = a4
  · subst h4; simp [substOne, substInc, h1, h2, h3, Seg.flat, mark, substMap]
  by_cases h5 : n = a5
  · subst h5; simp [substOne, substInc, h1, h2, h3, h4, Seg.flat, mark, substMap]
  by_cases h6 : n = a6
  · subst h6; simp [substOne, substInc, h1, h2, h3, h4, h5, Seg.flat, mark, substMap]
  cases hl : m.lookup (mark n) <;> simp only [mark] at hl <;>
    simp [substOne, substInc, h1, h2, h3, h4, h5, h6, substMap, Seg.flat, mark, hl]

theorem mark_inj {a b : Str} : mark a = mark b ↔ a = b := by
  constructor
  · intro h
    simp only [mark, List.cons.injEq, true_and] at h
    exact List.append_cancel_right h
  · intro h; rw [h]

theorem mark_beq (a b : Str) : (mark a == mark b) = decide (a = b) := by
  by_cases h : a = b
  · subst h; simp
  · have : mark a ≠ mark b := fun hh => h (mark_inj.mp hh)
    simp [h, this]

/-- looking a marker up in a five-entry map -/
theorem lookup5 (b1 b2 b3 b4 b5 w1 w2 w3 w4 w5 n : Str) :
    List.lookup (mark n) [(mark b1, w1), (mark b2, w2), (mark b3, w3), (mark b4, w4), (mark b5, w5)] =
    if n = b1 then some w1 else if n = b2 then some w2 else if n = b3 then some w3 else if n = b4 then some w4
    else if n = b5 then some w5 else none := by
  simp only [List.lookup, mark_beq]
  by_cases h1 : n = b1
  · subst h1; simp
  by_cases h2 : n = b2
  · subst h2; simp [h1]
  by_cases h3 : n = b3
  · subst h3; simp [h1, h2]
  by_cases h4 : n = b4
  · subst h4; simp [h1, h2, h3]
  by_cases h5 : n = b5
  · subst h5; simp [h1, h2, h3, h4]
  simp [h1, h2, h3, h4, h5]

theorem ifchain_split (a1 a3 a4 a5 a6 a7 a8 a9 a10 a11 : Str) (v1 v3 v4 v5 v6 v7 v8 v9 v10 v11 : Str) (X : Str) (n : Str) :
    (if n = a1 then some v1 else if incP n then some X else if n = a3 then some v3
      else if n = a4 then some v4 else if n = a5 then some v5 else if n = a6 then some v6 else
        (if n = a7 then some v7 else if n = a8 then some v8 else if n = a9 then some v9 else if n = a10 then some v10
         else if n = a11 then some v11 else none)) =
    (match (if n = a1 then some v1 else if incP n then some X else if n = a3 then some v3
      else if n = a4 then some v4 else if n = a5 then some v5 else if n = a6 then some v6 else if n = a7 then some v7
      else if n = a8 then some v8 else if n = a9 then some v9 else if n = a10 then some v10 else none) with
      | some v => some v
      | none => if n = a11 then some v11 else none) := by
  by_cases h1 : n = a1
  · subst h1; simp
  by_cases h2 : incP n = true
  · simp [h1, h2]
  by_cases h3 : n = a3
  · subst h3; simp [h1, h2]
  by_cases h4 : n = a4
  · subst h4; simp [h1, h2, h3]
  by_cases h5 : n = a5
  · subst h5; simp [h1, h2, h3, h4]
  by_cases h6 : n = a6
  · subst h6; simp [h1, h2, h3, h4, h5]
  by_cases h7 : n = a7
  · subst h7; simp [h1, h2, h3, h4, h5, h6]
  by_cases h8 : n = a8
  · subst h8; simp [h1, h2, h3, h4, h5, h6, h7]
  by_cases h9 : n = a9
  · subst h9; simp [h1, h2, h3, h4, h5, h6, h7, h8]
  by_cases h10 : n = a10
  · subst h10; simp [h1, h2, h3, h4, h5, h6, h7, h8, h9]
  simp [h1, h2, h3, h4, h5, h6, h7, h8, h9, h10]

theorem chainStack_flat (e : Env) (s : Seg) : (chainStack e s).flat = substSeg e.valueNoCode s := by
  cases s with
  | lit t => rfl
  | mk n => exact chain10 _ _ _ _ _ _ _ _ _ _ _ _ _ _ _ _ _ _ _ n

theorem chainCode_flat (e : Env) (s : Seg) :
    (substOne "code".toList e.code (chainStack e s)).flat = substSeg e.value s := by
  cases s with
  | lit t => rfl
  | mk n => exact chain11 _ _ _ _ _ _ _ _ _ _ _ _ _ _ _ _ _ _ _ _ _ n

theorem noStackMap_eq : noStackMap = [(mark "callstack".toList, []), (mark "file".toList, "nofile".toList),
    (mark "line".toList, ['0']), (mark "column".toList, ['0']), (mark "code".toList, [])] := by decide

theorem chainNoStack_flat (e : Env) (s : Seg) (h1 : e.callstack = []) (h2 : e.file = "nofile".toList)
    (h3 : e.line = ['0']) (h4 : e.column = ['0']) (h5 : e.code = []) :
    (substMap noStackMap (chainHead e s)).flat = substSeg e.value s := by
  cases s with
  | lit t => rfl
  | mk n =>
    show (substMap noStackMap (chainHead e (.mk n))).flat = (e.value n).getD (mark n)
    unfold chainHead
    rw [chain6map, noStackMap_eq, lookup5]
    unfold Env.value Env.valueNoCode
    rw [h1, h2, h3, h4, h5, ifchain_split]
    rfl

/-! ### the main theorem for the message template -/

/-- no field value that is substituted *before* another pass holds a '{' -/
structure ValuesOK (f : Finding) (verbose : Bool) : Prop where
  id : noOpen (if f.guideline = [] then f.id else f.guideline)
  cls : noOpen f.classification
  msg : noOpen (if verbose then f.verboseMsg else f.shortMsg)
  remark : noOpen f.remark
  files : ∀ l ∈ f.stack, noOpen l.file

theorem chainHead_lit (e : Env) (t : Str) : chainHead e (.lit t) = .lit t := rfl

theorem find_zero (pat s : Str) : find pat s 0 = findFrom pat s 0 := by simp [find]

/-- passes 1–2: `{id}`, then the `{inconclusive:…}` loop — it returns -/
theorem head_loop (brk : Bool) (f : Finding) (verbose : Bool) (code : Str) (segs : List Seg) (hwf : SegsWF segs)
    (hv : ValuesOK f verbose) :
    inconclusiveLoop brk f.inconclusive
        ((far (flatten segs) "{id}".toList (if f.guideline = [] then f.id else f.guideline)).length + 1)
        (far (flatten segs) "{id}".toList (if f.guideline = [] then f.id else f.guideline))
        (find mInc (far (flatten segs) "{id}".toList (if f.guideline = [] then f.id else f.guideline)) 0)
      = some (flatten ((segs.map (substOne "id".toList (envOf f verbose code).id)).map (substInc (envOf f verbose code).inconclusive))) ∧
    SegsWF ((segs.map (substOne "id".toList (envOf f verbose code).id)).map (substInc (envOf f verbose code).inconclusive)) := by
  generalize he : envOf f verbose code = e
  have hid : (if f.guideline = [] then f.id else f.guideline) = e.id := by rw [← he]; rfl
  have hinc : f.inconclusive = e.inconclusive := by rw [← he]; rfl
  rw [hid, hinc]
  have w1 := substOne_wf "id".toList e.id (hid ▸ hv.id) segs hwf
  have e1 : far (flatten segs) "{id}".toList e.id = flatten (segs.map (substOne "id".toList e.id)) := by
    rw [mark_id]; exact far_flatten _ _ nb_id segs hwf
  have w2 := substInc_wf e.inconclusive _ w1
  rw [e1, find_zero]
  exact ⟨inconclusiveLoop_flatten brk e.inconclusive _ _ w1
    (by have := incCount_le_length (segs.map (substOne "id".toList e.id)); omega), w2⟩

/-- passes 3–6 (severity, cwe, message, remark) on the text the loop returned -/
theorem head_passes (f : Finding) (verbose : Bool) (code : Str) (segs : List Seg)
    (w2 : SegsWF ((segs.map (substOne "id".toList (envOf f verbose code).id)).map (substInc (envOf f verbose code).inconclusive)))
    (hv : ValuesOK f verbose) :
    far (far (far (far (flatten ((segs.map (substOne "id".toList (envOf f verbose code).id)).map (substInc (envOf f verbose code).inconclusive)))
        "{severity}".toList (if f.classification = [] then sevStr f.severity else f.classification))
        "{cwe}".toList (natDec f.cwe)) "{message}".toList (if verbose then f.verboseMsg else f.shortMsg))
        "{remark}".toList f.remark
      = flatten (segs.map (chainHead (envOf f verbose code))) ∧ SegsWF (segs.map (chainHead (envOf f verbose code))) := by
  generalize he : envOf f verbose code = e at *
  have hsv : (if f.classification = [] then sevStr f.severity else f.classification) = e.severity := by rw [← he]; rfl
  have hcw : natDec f.cwe = e.cwe := by rw [← he]; rfl
  have hms : (if verbose then f.verboseMsg else f.shortMsg) = e.message := by rw [← he]; rfl
  have hrm : f.remark = e.remark := by rw [← he]; rfl
  have hsev : noOpen e.severity := by
    rw [← hsv]
    split
    · exact sevStr_noOpen _
    · exact hv.cls
  rw [hsv, hcw, hms, hrm]
  have w3 := substOne_wf "severity".toList e.severity hsev _ w2
  have w4 := substOne_wf "cwe".toList e.cwe (hcw ▸ (natDec_noBrace f.cwe).noOpen) _ w3
  have w5 := substOne_wf "message".toList e.message (hms ▸ hv.msg) _ w4
  have w6 := substOne_wf "remark".toList e.remark (hrm ▸ hv.remark) _ w5
  rw [mark_severity, far_flatten _ _ nb_severity _ w2, mark_cwe, far_flatten _ _ nb_cwe _ w3,
    mark_message, far_flatten _ _ nb_message _ w4, mark_remark, far_flatten _ _ nb_remark _ w5]
  simp only [List.map_map] at w6 ⊢
  exact ⟨rfl, w6⟩

/-- `mainText` of a well-formed template returns, and returns the simultaneous substitution (`Spec.renderMain`) -/
theorem mainText_eq_spec (brk : Bool) (src : Loc → Str) (f : Finding) (verbose : Bool) (segs : List Seg) (hwf : SegsWF segs)
    (hv : ValuesOK f verbose) : mainText brk src f verbose (flatten segs) = some (Spec.renderMain src f verbose segs) := by
  unfold mainText Spec.renderMain
  obtain ⟨hloop, w2⟩ := head_loop brk f verbose [] segs hwf hv
  obtain ⟨h6, w6⟩ := head_passes f verbose [] segs w2 hv
  simp only []
  rw [hloop]
  simp only []
  rw [h6]
  cases hlast : f.stack.getLast? with
  | some last =>
    simp only []
    have hmem : last ∈ f.stack := List.mem_of_getLast? hlast
    have hfile : noOpen (toNative last.file) := toNative_noOpen (hv.files last hmem)
    have hcs : noOpen (callStackToString f.stack) := callStackToString_noOpen _ hv.files
    generalize he : envOf f verbose [] = e at *
    have ecs : callStackToString f.stack = e.callstack := by rw [← he]; rfl
    have efile : toNative last.file = e.file := by
      rw [← he]; show _ = (match f.stack.getLast? with | some l => toNative l.file | none => _); rw [hlast]
    have eline : intDec last.line = e.line := by
      rw [← he]; show _ = (match f.stack.getLast? with | some l => intDec l.line | none => _); rw [hlast]
    have ecol : natDec last.column = e.column := by
      rw [← he]; show _ = (match f.stack.getLast? with | some l => natDec l.column | none => _); rw [hlast]
    have w7 := substOne_wf "callstack".toList e.callstack (ecs ▸ hcs) _ w6
    have w8 := substOne_wf "file".toList e.file (efile ▸ hfile) _ w7
    have w9 := substOne_wf "line".toList e.line (eline ▸ (intDec_noBrace last.line).noOpen) _ w8
    have w10 := substOne_wf "column".toList e.column (ecol ▸ (natDec_noBrace last.column).noOpen) _ w9
    rw [ecs, efile, eline, ecol]
    rw [mark_callstack, far_flatten _ _ nb_callstack _ w6, mark_file, far_flatten _ _ nb_file _ w7,
      mark_line, far_flatten _ _ nb_line _ w8, mark_column, far_flatten _ _ nb_column _ w9,
      mark_code, far_flatten _ _ nb_code _ w10]
    simp only [List.map_map]
    have ha : flatten (List.map (substOne "column".toList e.column ∘ substOne "line".toList e.line ∘
        substOne "file".toList e.file ∘ substOne "callstack".toList e.callstack ∘ chainHead e) segs) =
        subst e.valueNoCode segs := by
      rw [flatten_map]
      apply flatMap_congr'
      intro s _
      exact chainStack_flat e s
    have hb : codeOf src f (subst e.valueNoCode segs) =
        readCode (src last) last.column (endlOf (subst e.valueNoCode segs)) := by
      unfold codeOf; rw [hlast]
    rw [ha, hb]
    subst he
    rw [flatten_map]
    congr 1
    apply flatMap_congr'
    intro s _
    exact chainCode_flat (envOf f verbose (readCode (src last) last.column (endlOf (subst (envOf f verbose []).valueNoCode segs)))) s
  | none =>
    simp only []
    have hst : f.stack = [] := List.getLast?_eq_none_iff.mp hlast
    have hc : codeOf src f (subst (envOf f verbose []).valueNoCode segs) = [] := by unfold codeOf; rw [hlast]
    rw [hc, replaceMap_flatten _ _ w6, List.map_map, flatten_map]
    congr 1
    apply flatMap_congr'
    intro s _
    apply chainNoStack_flat (envOf f verbose []) s
    · show callStackToString f.stack = []; rw [hst]; rfl
    · show (match f.stack.getLast? with | some l => toNative l.file | none => _) = _; rw [hlast]
    · show (match f.stack.getLast? with | some l => intDec l.line | none => _) = _; rw [hlast]
    · show (match f.stack.getLast? with | some l => natDec l.column | none => _) = _; rw [hlast]
    · rfl

/-! ### the location template -/

theorem lchain4 (a1 a2 a3 a4 v1 v2 v3 v4 n : Str) :
    (substOne a4 v4 (substOne a3 v3 (substOne a2 v2 (substOne a1 v1 (.mk n))))).flat =
    ((if n = a1 then some v1 else if n = a2 then some v2 else if n = a3 then some v3 else if n = a4 then some v4
      else none).getD (mark n)) := by
  by_cases h1 : n = a1
  · subst h1; simp [substOne, Seg.flat, mark]
  by_cases h2 : n = a2
  · subst h2; simp [substOne, h1, Seg.flat, mark]
  by_cases h3 : n = a3
  · subst h3; simp [substOne, h1, h2, Seg.flat, mark]
  by_cases h4 : n = a4
  · subst h4; simp [substOne, h1, h2, h3, Seg.flat, mark]
  simp [substOne, h1, h2, h3, h4, Seg.flat, mark]

theorem lchain5 (a1 a2 a3 a4 a5 v1 v2 v3 v4 v5 n : Str) :
    (substOne a5 v5 (substOne a4 v4 (substOne a3 v3 (substOne a2 v2 (substOne a1 v1 (.mk n)))))).flat =
    ((match (if n = a1 then some v1 else if n = a2 then some v2 else if n = a3 then some v3 else if n = a4 then some v4
      else none) with
      | some v => some v
      | none => if n = a5 then some v5 else none).getD (mark n)) := by
  by_cases h1 : n = a1
  · subst h1; simp [substOne, Seg.flat, mark]
  by_cases h2 : n = a2
  · subst h2; simp [substOne, h1, Seg.flat, mark]
  by_cases h3 : n = a3
  · subst h3; simp [substOne, h1, h2, Seg.flat, mark]
  by_cases h4 : n = a4
  · subst h4; simp [substOne, h1, h2, h3, Seg.flat, mark]
  by_cases h5 : n = a5
  · subst h5; simp [substOne, h1, h2, h3, h4, Seg.flat, mark]
  simp [substOne, h1, h2, h3, h4, h5, Seg.flat, mark]

def lchain (l : Loc) (shortMsg : Str) (s : Seg) : Seg :=
  substOne "info".toList (if l.info = [] then shortMsg else l.info) (substOne "column".toList (natDec l.column)
    (substOne "line".toList (intDec l.line) (substOne "file".toList (toNative l.file) s)))

theorem lchain_flat (l : Loc) (shortMsg : Str) (s : Seg) : (lchain l shortMsg s).flat = substSeg (locValueNoCode l shortMsg) s := by
  cases s with
  | lit t => rfl
  | mk n => exact lchain4 _ _ _ _ _ _ _ _ n

theorem lchainCode_flat (l : Loc) (shortMsg code : Str) (s : Seg) :
    (substOne "code".toList code (lchain l shortMsg s)).flat = substSeg (locValue l shortMsg code) s := by
  cases s with
  | lit t => rfl
  | mk n => exact lchain5 _ _ _ _ _ _ _ _ _ _ n

/-- one location line of a well-formed location template = simultaneous substitution (`Spec.renderLoc`) -/
theorem locText_eq_spec (src : Loc → Str) (shortMsg : Str) (segs : List Seg) (l : Loc) (hwf : SegsWF segs)
    (hfile : noOpen l.file) (hinfo : noOpen (if l.info = [] then shortMsg else l.info)) :
    locText src shortMsg (flatten segs) l = Spec.renderLoc src shortMsg segs l := by
  unfold locText Spec.renderLoc
  simp only []
  have w1 := substOne_wf "file".toList (toNative l.file) (toNative_noOpen hfile) _ hwf
  have w2 := substOne_wf "line".toList (intDec l.line) (intDec_noBrace l.line).noOpen _ w1
  have w3 := substOne_wf "column".toList (natDec l.column) (natDec_noBrace l.column).noOpen _ w2
  have w4 := substOne_wf "info".toList (if l.info = [] then shortMsg else l.info) hinfo _ w3
  rw [mark_file, far_flatten _ _ nb_file _ hwf, mark_line, far_flatten _ _ nb_line _ w1,
    mark_column, far_flatten _ _ nb_column _ w2, mark_info, far_flatten _ _ nb_info _ w3,
    mark_code, far_flatten _ _ nb_code _ w4]
  simp only [List.map_map]
  have ha : flatten (List.map (substOne "info".toList (if l.info = [] then shortMsg else l.info) ∘
      substOne "column".toList (natDec l.column) ∘ substOne "line".toList (intDec l.line) ∘
      substOne "file".toList (toNative l.file)) segs) = subst (locValueNoCode l shortMsg) segs := by
    rw [flatten_map]
    apply flatMap_congr'
    intro s _
    exact lchain_flat l shortMsg s
  rw [ha, flatten_map]
  apply flatMap_congr'
  intro s _
  exact lchainCode_flat l shortMsg _ s

/-- hypotheses on the values the location template substitutes before `{code}` -/
structure LocValuesOK (f : Finding) : Prop where
  files : ∀ l ∈ f.stack, noOpen l.file
  infos : ∀ l ∈ f.stack, noOpen (if l.info = [] then f.shortMsg else l.info)

/-- `toString` on well-formed templates = the documented simultaneous substitution -/
theorem toString_eq_spec (brk : Bool) (src : Loc → Str) (f : Finding) (verbose : Bool) (segsF segsL : List Seg)
    (hF : SegsWF segsF) (hL : SegsWF segsL) (hv : ValuesOK f verbose)
    (hl : flatten segsL ≠ [] ∧ 2 ≤ f.stack.length → LocValuesOK f) :
    toString brk src f verbose (flatten segsF) (flatten segsL) = some (Spec.render src f verbose segsF segsL) := by
  unfold toString Spec.render
  rw [mainText_eq_spec brk src f verbose segsF hF hv]
  simp only []
  congr 1
  split
  · rename_i hc
    have hlv := hl hc
    congr 1
    apply flatMap_congr'
    intro l hmem
    rw [locText_eq_spec src f.shortMsg segsL l hL (hlv.files l hmem) (hlv.infos l hmem)]
  · simp

/-! ### the template tokenizer -/

theorem flushLit_flat (cur : Str) (acc : List Seg) : flatten (flushLit cur acc).reverse = flatten acc.reverse ++ cur.reverse := by
  unfold flushLit
  split
  · rename_i h; simp at h; simp [h]
  · simp [flatten_append, flatten_cons, Seg.flat]

theorem flushLit_wf (cur : Str) (acc : List Seg) (hc : noOpen cur) (ha : SegsWF acc) : SegsWF (flushLit cur acc) := by
  unfold flushLit
  split
  · exact ha
  · intro s hs
    simp only [List.mem_cons] at hs
    rcases hs with rfl | hs
    · intro c hcm; exact hc c (by simpa using hcm)
    · exact ha s hs

/-- `parseTemplate` only cuts: the segments spell the template, literal text has no '{', names no brace -/
theorem parseGo_spec : ∀ (t : Str) (st : Option Str) (cur : Str) (acc : List Seg) (segs : List Seg),
    parseGo t st cur acc = some segs → noOpen cur → (∀ n, st = some n → noBrace n) → SegsWF acc →
    SegsWF segs ∧ flatten segs = flatten acc.reverse ++ (match st with | none => cur.reverse | some n => '{' :: n.reverse) ++ t := by
  intro t
  induction t with
  | nil =>
    intro st cur acc segs h hc hn ha
    cases st with
    | none =>
      simp only [parseGo, Option.some.injEq] at h
      subst h
      refine ⟨?_, by simp [flushLit_flat]⟩
      intro s hs
      exact flushLit_wf cur acc hc ha s (by simpa using hs)
    | some n => simp [parseGo] at h
  | cons c r ih =>
    intro st cur acc segs h hc hn ha
    cases st with
    | none =>
      simp only [parseGo] at h
      split at h
      · rename_i hcb
        have := ih (some []) [] (flushLit cur acc) segs h (fun x hx => by simp at hx)
          (fun n hn' => by simp at hn'; subst hn'; intro x hx; simp at hx) (flushLit_wf cur acc hc ha)
        refine ⟨this.1, ?_⟩
        rw [this.2, flushLit_flat, hcb]; simp
      · rename_i hcb
        have := ih none (c :: cur) acc segs h (noOpen_cons hcb hc) (fun n hn' => by simp at hn') ha
        refine ⟨this.1, ?_⟩
        rw [this.2]; simp
    | some n =>
      have hnb := hn n rfl
      simp only [parseGo] at h
      split at h
      · simp at h
      · rename_i hc1
        split at h
        · rename_i hc2
          have hwf : SegsWF (Seg.mk n.reverse :: acc) := by
            intro s hs
            simp only [List.mem_cons] at hs
            rcases hs with rfl | hs
            · intro x hx; exact hnb x (by simpa using hx)
            · exact ha s hs
          have := ih none [] (Seg.mk n.reverse :: acc) segs h (fun x hx => by simp at hx) (fun n hn' => by simp at hn') hwf
          refine ⟨this.1, ?_⟩
          rw [this.2, hc2]; simp [flatten_append, flatten_cons, Seg.flat]
        · rename_i hc2
          have hnb' : noBrace (c :: n) := by
            intro x hx
            simp only [List.mem_cons] at hx
            rcases hx with rfl | hx
            · exact ⟨hc1, hc2⟩
            · exact hnb x hx
          have := ih (some (c :: n)) cur acc segs h hc (fun m hm => by simp at hm; subst hm; exact hnb') ha
          refine ⟨this.1, ?_⟩
          rw [this.2]; simp

theorem parseTemplate_spec (t : Str) (segs : List Seg) (h : parseTemplate t = some segs) :
    SegsWF segs ∧ flatten segs = t := by
  have := parseGo_spec t none [] [] segs h (fun x hx => by simp at hx) (fun n hn => by simp at hn)
    (fun s hs => by simp at hs)
  simpa using this

/-! ### Bool hypotheses, duplicate filter -/

theorem openFree_noOpen {s : Str} (h : openFree s = true) : noOpen s := by
  intro c hc
  unfold openFree at h
  rw [List.all_eq_true] at h
  have := h c hc
  simpa using this

theorem stdLoggerGo_mem (render : Finding → Str) : ∀ (fs : List Finding) (shown : List Str) (f : Finding),
    f ∈ stdLoggerGo render fs shown → f ∈ fs ∧ f.severity ≠ 8 ∧ render f ∉ shown := by
  intro fs
  induction fs with
  | nil => intro shown f h; simp [stdLoggerGo] at h
  | cons g r ih =>
    intro shown f h
    simp only [stdLoggerGo] at h
    split at h
    · have := ih shown f h; exact ⟨by simp [this.1], this.2⟩
    · rename_i hsev
      split at h
      · have := ih shown f h; exact ⟨by simp [this.1], this.2⟩
      · rename_i hshown
        simp only [List.mem_cons] at h
        rcases h with rfl | h
        · exact ⟨by simp, hsev, by simpa using hshown⟩
        · have := ih (render g :: shown) f h
          exact ⟨by simp [this.1], this.2.1, fun hm => this.2.2 (by simp [hm])⟩

/-- no rendering is printed twice -/
theorem each_once_nodup (render : Finding → Str) : ∀ (fs : List Finding) (shown : List Str),
    ((stdLoggerGo render fs shown).map render).Nodup := by
  intro fs
  induction fs with
  | nil => intro shown; simp [stdLoggerGo]
  | cons g r ih =>
    intro shown
    simp only [stdLoggerGo]
    split
    · exact ih shown
    · split
      · exact ih shown
      · rw [List.map_cons, List.nodup_cons]
        refine ⟨?_, ih _⟩
        intro hm
        simp only [List.mem_map] at hm
        obtain ⟨f, hf, he⟩ := hm
        have := (stdLoggerGo_mem render r (render g :: shown) f hf).2.2
        exact this (by simp [he])

/-- every rendering of a non-internal finding is printed (so, with `each_once_nodup`, exactly once) -/
theorem each_once_covered (render : Finding → Str) : ∀ (fs : List Finding) (shown : List Str) (f : Finding),
    f ∈ fs → f.severity ≠ 8 → render f ∈ shown ∨ render f ∈ (stdLoggerGo render fs shown).map render := by
  intro fs
  induction fs with
  | nil => intro shown f h; simp at h
  | cons g r ih =>
    intro shown f hf hsev
    simp only [List.mem_cons] at hf
    simp only [stdLoggerGo]
    rcases hf with rfl | hf
    · rw [if_neg hsev]
      split
      · rename_i hs; left; simpa using hs
      · right; simp
    · split
      · exact ih shown f hf hsev
      · split
        · exact ih shown f hf hsev
        · rcases ih (render g :: shown) f hf hsev with h | h
          · simp only [List.mem_cons] at h
            rcases h with h | h
            · right; simp [h]
            · left; exact h
          · right; simp only [List.map_cons, List.mem_cons]; right; exact h

theorem stdLoggerGo_all (render : Finding → Str) : ∀ (fs : List Finding) (shown : List Str),
    ((fs.filter (fun f => f.severity ≠ 8)).map render).Nodup →
    (∀ f ∈ fs, f.severity ≠ 8 → render f ∉ shown) →
    stdLoggerGo render fs shown = fs.filter (fun f => f.severity ≠ 8) := by
  intro fs
  induction fs with
  | nil => intro shown _ _; rfl
  | cons g r ih =>
    intro shown hnd hns
    simp only [stdLoggerGo]
    by_cases hsev : g.severity = 8
    · rw [if_pos hsev]
      have : (g :: r).filter (fun f => decide (f.severity ≠ 8)) = r.filter (fun f => decide (f.severity ≠ 8)) := by
        simp [List.filter, hsev]
      rw [this] at hnd ⊢
      exact ih shown hnd (fun f hf => hns f (by simp [hf]))
    · rw [if_neg hsev]
      have hflt : (g :: r).filter (fun f => decide (f.severity ≠ 8)) = g :: r.filter (fun f => decide (f.severity ≠ 8)) := by
        simp [List.filter, hsev]
      rw [hflt] at hnd ⊢
      rw [List.map_cons, List.nodup_cons] at hnd
      have hg : render g ∉ shown := hns g (by simp) hsev
      have : shown.contains (render g) = false := by simpa using hg
      rw [this]
      simp only [Bool.false_eq_true, if_false]
      congr 1
      apply ih _ hnd.2
      intro f hf hfs hm
      simp only [List.mem_cons] at hm
      rcases hm with hm | hm
      · apply hnd.1
        rw [← hm]
        exact List.mem_map.mpr ⟨f, by simp [List.mem_filter, hf, hfs], rfl⟩
      · exact hns f (by simp [hf]) hfs hm


end Cppcheck.Template

import Cppcheck.Model.Template
/-
Helper lemmas for C26 (text output): `findAndReplace` over a template cut into segments.
-/
namespace Cppcheck.Template
open Cppcheck.XmlEsc

/-! ### `far` (findAndReplace) -/

theorem farGo_drop (pat to : Str) : ∀ (s : Str) (k : Nat), farGo pat to k s = farGo pat to 0 (s.drop k) := by
  intro s
  induction s with
  | nil => intro k; cases k <;> simp [farGo]
  | cons c r ih =>
    intro k
    cases k with
    | zero => simp
    | succ k => simp [farGo, ih k]

/-- unfolding of `far` on a non-empty source -/
theorem far_cons (pat to : Str) (hp : pat ≠ []) (c : Char) (r : Str) :
    far (c :: r) pat to =
      if pat.isPrefixOf (c :: r) then to ++ far ((c :: r).drop pat.length) pat to else c :: far r pat to := by
  unfold far
  simp only [farGo]
  split
  · rw [farGo_drop]
    cases pat with
    | nil => exact absurd rfl hp
    | cons a t => simp
  · rfl

@[simp] theorem far_nil (pat to : Str) : far [] pat to = [] := by simp [far, farGo]

/-- a match at the front is replaced, the scan goes on behind it -/
theorem far_prefix (pat to : Str) (hp : pat ≠ []) (q : Str) : far (pat ++ q) pat to = to ++ far q pat to := by
  cases pat with
  | nil => exact absurd rfl hp
  | cons a t =>
    have h : (a :: t).isPrefixOf (a :: (t ++ q)) = true := by
      rw [List.isPrefixOf_iff_prefix]; exact List.prefix_append (a :: t) q
    have := far_cons (a :: t) to hp a (t ++ q)
    simp only [List.cons_append] at *
    rw [this, if_pos h]
    congr 2
    have : (a :: (t ++ q)) = (a :: t) ++ q := rfl
    rw [this, List.drop_left]

/-- text that does not hold the first byte of the pattern is copied -/
theorem far_skip (h : Char) (t to : Str) (p q : Str) (hp : ∀ c ∈ p, c ≠ h) :
    far (p ++ q) (h :: t) to = p ++ far q (h :: t) to := by
  induction p with
  | nil => rfl
  | cons c p ih =>
    have hc : c ≠ h := hp c (by simp)
    have : (h :: t).isPrefixOf (c :: (p ++ q)) = false := by
      simp [List.isPrefixOf, Ne.symm hc]
    rw [List.cons_append, far_cons _ _ (by simp), this]
    simp only [Bool.false_eq_true, if_false, List.cons_append]
    rw [ih (fun c' hc' => hp c' (by simp [hc']))]

/-! ### markers -/

/-- `{name}` -/
def mark (n : Str) : Str := '{' :: (n ++ ['}'])

def noOpen (s : Str) : Prop := ∀ c ∈ s, c ≠ '{'
def noBrace (s : Str) : Prop := ∀ c ∈ s, c ≠ '{' ∧ c ≠ '}'

theorem noBrace.noOpen {s : Str} (h : noBrace s) : noOpen s := fun c hc => (h c hc).1

/-- two markers with brace-free names: one is a prefix of (the other followed by anything) only if they are equal -/
theorem name_prefix_eq : ∀ (n n' q : Str), noBrace n → noBrace n' → (n ++ ['}']) <+: (n' ++ '}' :: q) → n = n' := by
  intro n
  induction n with
  | nil =>
    intro n' q _ h' hpre
    cases n' with
    | nil => rfl
    | cons b n' =>
      simp only [List.nil_append, List.cons_append, List.cons_prefix_cons] at hpre
      exact absurd hpre.1.symm (h' b (by simp)).2
  | cons a n ih =>
    intro n' q h h' hpre
    cases n' with
    | nil =>
      simp only [List.cons_append, List.nil_append, List.cons_prefix_cons] at hpre
      exact absurd hpre.1 (h a (by simp)).2
    | cons b n' =>
      simp only [List.cons_append, List.cons_prefix_cons] at hpre
      have := ih n' q (fun c hc => h c (by simp [hc])) (fun c hc => h' c (by simp [hc])) hpre.2
      rw [hpre.1, this]

theorem mark_ne_nil (n : Str) : mark n ≠ [] := by simp [mark]

/-- another marker is copied -/
theorem far_other_mark (n n' to q : Str) (hn : noBrace n) (hn' : noBrace n') (hne : n' ≠ n) :
    far (mark n' ++ q) (mark n) to = mark n' ++ far q (mark n) to := by
  have hnp : (mark n).isPrefixOf (mark n' ++ q) = false := by
    apply Bool.eq_false_iff.mpr
    intro h
    rw [List.isPrefixOf_iff_prefix] at h
    simp only [mark, List.cons_append, List.cons_prefix_cons, true_and, List.append_assoc] at h
    exact hne (name_prefix_eq n n' q hn hn' h).symm
  have h1 : mark n' ++ q = '{' :: ((n' ++ ['}']) ++ q) := by simp [mark]
  rw [h1, far_cons _ _ (mark_ne_nil n), ← h1, hnp]
  simp only [Bool.false_eq_true, if_false]
  have : far ((n' ++ ['}']) ++ q) (mark n) to = (n' ++ ['}']) ++ far q (mark n) to := by
    apply far_skip
    intro c hc
    simp only [List.mem_append, List.mem_singleton] at hc
    rcases hc with hc | hc
    · exact (hn' c hc).1
    · rw [hc]; decide
  rw [this]; simp [mark]

/-! ### segments -/

def Seg.wf : Seg → Prop
  | .lit s => noOpen s
  | .mk n => noBrace n

def SegsWF (segs : List Seg) : Prop := ∀ s ∈ segs, s.wf

/-- replace the markers named `n` by the literal `v` -/
def substOne (n v : Str) : Seg → Seg
  | .lit s => .lit s
  | .mk n' => if n' = n then .lit v else .mk n'

theorem flatten_cons (s : Seg) (r : List Seg) : flatten (s :: r) = s.flat ++ flatten r := by
  simp [flatten]

@[simp] theorem flatten_nil : flatten [] = [] := rfl

theorem flatten_append (a b : List Seg) : flatten (a ++ b) = flatten a ++ flatten b := by
  simp [flatten]

/-- one `findAndReplace(result, "{n}", v)` pass over a well-formed template = replacing the `{n}` segments -/
theorem far_flatten (n v : Str) (hn : noBrace n) :
    ∀ segs : List Seg, SegsWF segs → far (flatten segs) (mark n) v = flatten (segs.map (substOne n v)) := by
  intro segs
  induction segs with
  | nil => intro _; simp
  | cons s r ih =>
    intro hwf
    have hr : SegsWF r := fun x hx => hwf x (by simp [hx])
    have hs : s.wf := hwf s (by simp)
    rw [flatten_cons, List.map_cons, flatten_cons]
    cases s with
    | lit t =>
      simp only [Seg.flat, substOne]
      rw [mark, far_skip '{' (n ++ ['}']) v t (flatten r) hs, ← mark, ih hr]
    | mk n' =>
      simp only [substOne]
      by_cases h : n' = n
      · subst h
        simp only [if_true, Seg.flat]
        rw [← mark, far_prefix _ _ (mark_ne_nil n'), ih hr]
      · simp only [h, if_false, Seg.flat]
        rw [← mark, far_other_mark n n' v (flatten r) hn hs h, ih hr]

theorem substOne_wf (n v : Str) (hv : noOpen v) (segs : List Seg) (h : SegsWF segs) : SegsWF (segs.map (substOne n v)) := by
  intro s hs
  simp only [List.mem_map] at hs
  obtain ⟨s0, hs0, rfl⟩ := hs
  have := h s0 hs0
  cases s0 with
  | lit t => exact this
  | mk n' =>
    simp only [substOne]
    split
    · exact hv
    · exact this

/-! ### `find` -/

theorem findFrom_ge (pat : Str) : ∀ (s : Str) (i p : Nat), findFrom pat s i = some p → i ≤ p := by
  intro s
  induction s with
  | nil => intro i p h; simp only [findFrom] at h; split at h <;> simp_all
  | cons c r ih =>
    intro i p h
    simp only [findFrom] at h
    split at h
    · simp_all
    · have := ih (i + 1) p h; omega

/-- the first occurrence is also the first occurrence at or after any earlier start -/
theorem findFrom_drop_some (pat : Str) : ∀ (s : Str) (i p : Nat), findFrom pat s i = some p →
    ∀ k, i + k ≤ p → findFrom pat (s.drop k) (i + k) = some p := by
  intro s
  induction s with
  | nil =>
    intro i p h k hk
    simp only [findFrom] at h
    split at h
    · simp only [Option.some.injEq] at h; subst h
      have : k = 0 := by omega
      subst this; simp [findFrom, *]
    · simp at h
  | cons c r ih =>
    intro i p h k hk
    cases k with
    | zero => simpa using h
    | succ k =>
      simp only [findFrom] at h
      split at h
      · simp only [Option.some.injEq] at h; omega
      · have := ih (i + 1) p h k (by omega)
        simpa [Nat.add_assoc, Nat.add_comm 1 k] using this

theorem findFrom_drop_none (pat : Str) : ∀ (s : Str) (i : Nat), findFrom pat s i = none →
    ∀ k j, findFrom pat (s.drop k) j = none := by
  intro s
  induction s with
  | nil =>
    intro i h k j
    simp only [findFrom] at h
    split at h
    · simp at h
    · simp [findFrom, *]
  | cons c r ih =>
    intro i h k j
    simp only [findFrom] at h
    split at h
    · simp at h
    · rename_i hnp
      cases k with
      | zero =>
        simp only [List.drop_zero, findFrom, hnp]
        simpa using ih (i + 1) h 0 (j + 1)
      | succ k => simpa using ih (i + 1) h k j

/-- `s.find(pat, start)` agrees with the first occurrence when `start` is not behind it -/
theorem find_of_findFrom (pat s : Str) (start : Nat) (hs : start ≤ s.length)
    (h : ∀ p, findFrom pat s 0 = some p → start ≤ p) : find pat s start = findFrom pat s 0 := by
  unfold find
  rw [if_pos hs]
  cases hf : findFrom pat s 0 with
  | none => exact findFrom_drop_none pat s 0 hf start start
  | some p =>
    have := findFrom_drop_some pat s 0 p hf start (by have := h p hf; omega)
    simpa using this

theorem findFrom_skip (h : Char) (t : Str) : ∀ (p q : Str) (i : Nat), (∀ c ∈ p, c ≠ h) →
    findFrom (h :: t) (p ++ q) i = findFrom (h :: t) q (i + p.length) := by
  intro p
  induction p with
  | nil => intro q i _; simp
  | cons c p ih =>
    intro q i hp
    have hc : c ≠ h := hp c (by simp)
    have : (h :: t).isPrefixOf (c :: (p ++ q)) = false := by simp [List.isPrefixOf, Ne.symm hc]
    simp only [List.cons_append, findFrom, this, Bool.false_eq_true, if_false]
    rw [ih q (i + 1) (fun c' hc' => hp c' (by simp [hc']))]
    simp [Nat.add_assoc, Nat.add_comm 1]

theorem findFrom_hit (pat : Str) (c : Char) (r : Str) (i : Nat) (h : pat.isPrefixOf (c :: r) = true) :
    findFrom pat (c :: r) i = some i := by
  simp [findFrom, h]

/-! ### the `{inconclusive:…}` loop -/

def Seg.isInc : Seg → Bool
  | .lit _ => false
  | .mk n => incP n

def substInc (inc : Bool) : Seg → Seg
  | .lit s => .lit s
  | .mk n => if incP n then .lit (if inc then n.drop 13 else []) else .mk n

theorem mInc_eq : mInc = '{' :: incPre := by decide

/-- a prefix without '}' of `n ++ '}' :: q` is a prefix of `n` -/
theorem prefix_of_noClose : ∀ (p n q : Str), (∀ c ∈ p, c ≠ '}') → p <+: (n ++ '}' :: q) → p <+: n := by
  intro p
  induction p with
  | nil => intro n q _ _; exact List.nil_prefix
  | cons a p ih =>
    intro n q hp hpre
    cases n with
    | nil =>
      simp only [List.nil_append, List.cons_prefix_cons] at hpre
      exact absurd hpre.1 (hp a (by simp))
    | cons b n =>
      simp only [List.cons_append, List.cons_prefix_cons] at hpre ⊢
      exact ⟨hpre.1, ih n q (fun c hc => hp c (by simp [hc])) hpre.2⟩

theorem incPre_noClose : ∀ c ∈ incPre, c ≠ '}' := by decide

theorem mInc_prefix_mark (n q : Str) : mInc.isPrefixOf (mark n ++ q) = true → incP n = true := by
  intro h
  rw [List.isPrefixOf_iff_prefix, mInc_eq] at h
  simp only [mark, List.cons_append, List.cons_prefix_cons, true_and, List.append_assoc, List.singleton_append] at h
  unfold incP
  rw [List.isPrefixOf_iff_prefix]
  exact prefix_of_noClose incPre n q incPre_noClose h

theorem mInc_prefix_of_incP (n q : Str) (h : incP n = true) : mInc.isPrefixOf (mark n ++ q) = true := by
  unfold incP at h
  rw [List.isPrefixOf_iff_prefix] at h ⊢
  rw [mInc_eq]
  simp only [mark, List.cons_append, List.cons_prefix_cons, true_and, List.append_assoc]
  exact List.IsPrefix.trans h (List.prefix_append n _)

theorem mark_length (n : Str) : (mark n).length = n.length + 2 := by simp [mark]

/-- segments without `{inconclusive:` marker are skipped by the search -/
theorem findFrom_skip_segs : ∀ (A : List Seg) (q : Str) (i : Nat), SegsWF A → (∀ s ∈ A, s.isInc = false) →
    findFrom mInc (flatten A ++ q) i = findFrom mInc q (i + (flatten A).length) := by
  intro A
  induction A with
  | nil => intro q i _ _; simp
  | cons s r ih =>
    intro q i hwf hni
    have hr : SegsWF r := fun x hx => hwf x (by simp [hx])
    have hnr : ∀ s ∈ r, s.isInc = false := fun x hx => hni x (by simp [hx])
    have hs : s.wf := hwf s (by simp)
    rw [flatten_cons, List.append_assoc]
    cases s with
    | lit t =>
      simp only [Seg.flat]
      rw [mInc_eq, findFrom_skip '{' incPre t _ i hs, ← mInc_eq, ih q _ hr hnr]
      simp [Nat.add_assoc]
    | mk n =>
      have hni' : incP n = false := hni (.mk n) (by simp)
      simp only [Seg.flat]
      have hnp : mInc.isPrefixOf (mark n ++ (flatten r ++ q)) = false := by
        apply Bool.eq_false_iff.mpr
        intro h
        have := mInc_prefix_mark n _ h
        rw [hni'] at this; exact Bool.noConfusion this
      have h1 : mark n ++ (flatten r ++ q) = '{' :: ((n ++ ['}']) ++ (flatten r ++ q)) := by simp [mark]
      rw [← mark, h1]
      simp only [findFrom]
      rw [← h1, hnp]
      simp only [Bool.false_eq_true, if_false]
      rw [mInc_eq, findFrom_skip '{' incPre (n ++ ['}']) _ (i + 1), ← mInc_eq, ih q _ hr hnr]
      · congr 1; simp [mark]; omega
      · intro c hc
        simp only [List.mem_append, List.mem_singleton] at hc
        rcases hc with hc | hc
        · exact (hs c hc).1
        · rw [hc]; decide

theorem split_first_inc : ∀ segs : List Seg, (∀ s ∈ segs, s.isInc = false) ∨
    ∃ A n B, segs = A ++ Seg.mk n :: B ∧ (∀ s ∈ A, s.isInc = false) ∧ incP n = true := by
  intro segs
  induction segs with
  | nil => left; simp
  | cons s r ih =>
    cases hs : s.isInc with
    | true =>
      right
      cases s with
      | lit t => simp [Seg.isInc] at hs
      | mk n => exact ⟨[], n, r, rfl, by simp, hs⟩
    | false =>
      rcases ih with h | ⟨A, n, B, rfl, hA, hn⟩
      · left; intro x hx
        simp only [List.mem_cons] at hx
        rcases hx with rfl | hx
        · exact hs
        · exact h x hx
      · right
        refine ⟨s :: A, n, B, rfl, ?_, hn⟩
        intro x hx
        simp only [List.mem_cons] at hx
        rcases hx with rfl | hx
        · exact hs
        · exact hA x hx

def incCount (segs : List Seg) : Nat := (segs.filter Seg.isInc).length

theorem substOne_noninc (n v : Str) (hn : incP n = true) : ∀ A : List Seg, (∀ s ∈ A, s.isInc = false) → A.map (substOne n v) = A := by
  intro A
  induction A with
  | nil => intro _; rfl
  | cons s r ih =>
    intro h
    rw [List.map_cons, ih (fun x hx => h x (by simp [hx]))]
    have hs := h s (by simp)
    cases s with
    | lit t => rfl
    | mk n' =>
      simp only [substOne]
      split
      · rename_i he; subst he; simp only [Seg.isInc] at hs; rw [hs] at hn; exact Bool.noConfusion hn
      · rfl

theorem incCount_substOne_le (n v : Str) : ∀ segs : List Seg, incCount (segs.map (substOne n v)) ≤ incCount segs := by
  intro segs
  induction segs with
  | nil => simp [incCount]
  | cons s r ih =>
    simp only [incCount, List.map_cons] at ih ⊢
    cases s with
    | lit t => simpa [substOne, List.filter, Seg.isInc] using ih
    | mk n' =>
      simp only [substOne]
      split
      · simp only [List.filter, Seg.isInc]
        split
        · simp only [List.length_cons]; omega
        · exact ih
      · simp only [List.filter]
        split
        · simp only [List.length_cons]; omega
        · exact ih

theorem incCount_append (a b : List Seg) : incCount (a ++ b) = incCount a + incCount b := by
  simp [incCount]

theorem substInc_substOne (inc : Bool) (n : Str) (hn : incP n = true) (s : Seg) :
    substInc inc (substOne n (if inc then n.drop 13 else []) s) = substInc inc s := by
  cases s with
  | lit t => rfl
  | mk n' =>
    simp only [substOne]
    split
    · rename_i he; subst he; simp [substInc, hn]
    · rfl

theorem noOpen_drop {n : Str} (h : noBrace n) (k : Nat) : noOpen (n.drop k) :=
  fun c hc => (h c (List.mem_of_mem_drop hc)).1

theorem incP_length {n : Str} (h : incP n = true) : 13 ≤ n.length := by
  unfold incP at h
  rw [List.isPrefixOf_iff_prefix] at h
  have := h.length_le
  have h13 : incPre.length = 13 := by decide
  omega

theorem incP_drop {n : Str} (h : incP n = true) : n = incPre ++ n.drop 13 := by
  unfold incP at h
  rw [List.isPrefixOf_iff_prefix] at h
  obtain ⟨t, ht⟩ := h
  rw [← ht]
  have : incPre.length = 13 := by decide
  rw [← this, List.drop_left]

theorem close_pos (pa n fb : Str) (hn : noBrace n) :
    find ['}'] (pa ++ (mark n ++ fb)) (pa.length + 1) = some (pa.length + 1 + n.length) := by
  unfold find
  have hlen : pa.length + 1 ≤ (pa ++ (mark n ++ fb)).length := by simp [mark]
  rw [if_pos hlen]
  have hd : (pa ++ (mark n ++ fb)).drop (pa.length + 1) = n ++ ('}' :: fb) := by
    rw [List.drop_length_add_append]; simp [mark]
  rw [hd, findFrom_skip '}' [] n ('}' :: fb) (pa.length + 1) (fun c hc => (hn c hc).2)]
  exact findFrom_hit ['}'] '}' fb _ (by simp [List.isPrefixOf])

theorem take_from (pa n fb : Str) :
    ((pa ++ (mark n ++ fb)).drop pa.length).take (pa.length + 1 + n.length - pa.length + 1) = mark n := by
  rw [List.drop_left]
  have : pa.length + 1 + n.length - pa.length + 1 = (mark n).length := by rw [mark_length]; omega
  rw [this, List.take_left]

theorem take_with (pa n fb : Str) (hn : incP n = true) :
    ((pa ++ (mark n ++ fb)).drop (pa.length + 14)).take (pa.length + 1 + n.length - pa.length - 14) = n.drop 13 := by
  rw [List.drop_length_add_append]
  have h13 := incP_length hn
  have hm : mark n ++ fb = '{' :: (incPre ++ (n.drop 13 ++ ('}' :: fb))) := by
    conv => lhs; rw [incP_drop hn]
    simp [mark]
  have hl : ('{' :: incPre).length = 14 := by decide
  rw [hm]
  have : List.drop 14 ('{' :: (incPre ++ (n.drop 13 ++ ('}' :: fb)))) = n.drop 13 ++ ('}' :: fb) := by
    have h2 : '{' :: (incPre ++ (n.drop 13 ++ ('}' :: fb))) = ('{' :: incPre) ++ (n.drop 13 ++ ('}' :: fb)) := rfl
    rw [h2, ← hl, List.drop_left]
  rw [this]
  have : pa.length + 1 + n.length - pa.length - 14 = (n.drop 13).length := by simp; omega
  rw [this, List.take_left]

theorem substInc_noninc (inc : Bool) : ∀ A : List Seg, (∀ s ∈ A, s.isInc = false) → A.map (substInc inc) = A := by
  intro A
  induction A with
  | nil => intro _; rfl
  | cons s r ih =>
    intro h
    rw [List.map_cons, ih (fun x hx => h x (by simp [hx]))]
    have hs := h s (by simp)
    cases s with
    | lit t => rfl
    | mk n' => simp only [Seg.isInc] at hs; simp [substInc, hs]

/-- the `{inconclusive:…}` loop on a well-formed template = replacing every `{inconclusive:text}` segment by
    `text` (inconclusive finding) or nothing; `fuel` > number of such segments is enough -/
theorem inconclusiveLoop_flatten (inc : Bool) : ∀ (fuel : Nat) (segs : List Seg), SegsWF segs → incCount segs < fuel →
    inconclusiveLoop inc fuel (flatten segs) (findFrom mInc (flatten segs) 0) = flatten (segs.map (substInc inc)) := by
  intro fuel
  induction fuel with
  | zero => intro segs _ h; omega
  | succ fuel ih =>
    intro segs hwf hcnt
    rcases split_first_inc segs with hnone | ⟨A, n, B, hsegs, hA, hn⟩
    · have h0 : findFrom mInc (flatten segs) 0 = none := by
        have := findFrom_skip_segs segs [] 0 hwf hnone
        simp only [List.append_nil] at this
        rw [this, mInc_eq]; simp [findFrom]
      rw [h0, substInc_noninc inc segs hnone]
      simp [inconclusiveLoop]
    · subst hsegs
      have hwfA : SegsWF A := fun x hx => hwf x (by simp [hx])
      have hwfB : SegsWF B := fun x hx => hwf x (by simp [hx])
      have hnb : noBrace n := hwf (.mk n) (by simp)
      have hs : flatten (A ++ Seg.mk n :: B) = flatten A ++ (mark n ++ flatten B) := by
        rw [flatten_append, flatten_cons]; rfl
      have h0 : findFrom mInc (flatten (A ++ Seg.mk n :: B)) 0 = some (flatten A).length := by
        rw [hs, findFrom_skip_segs A _ 0 hwfA hA]
        have hm : mark n ++ flatten B = '{' :: ((n ++ ['}']) ++ flatten B) := by simp [mark]
        have hp := mInc_prefix_of_incP n (flatten B) hn
        rw [hm] at hp ⊢
        rw [findFrom_hit mInc _ _ _ hp]; simp
      rw [h0]
      simp only [inconclusiveLoop]
      rw [hs, close_pos (flatten A) n (flatten B) hnb]
      simp only [take_from, take_with (flatten A) n (flatten B) hn]
      generalize hw : (if inc = true then n.drop 13 else []) = w
      have hwo : noOpen w := by
        rw [← hw]; split
        · exact noOpen_drop hnb 13
        · intro c hc; simp at hc
      rw [← hs, far_flatten n w hnb _ hwf]
      -- the template after this pass
      have hseg : (A ++ Seg.mk n :: B).map (substOne n w) = A ++ Seg.lit w :: B.map (substOne n w) := by
        rw [List.map_append, substOne_noninc n w hn A hA]; simp [substOne]
      have hwf' : SegsWF ((A ++ Seg.mk n :: B).map (substOne n w)) := substOne_wf n w hwo _ hwf
      have hcnt' : incCount ((A ++ Seg.mk n :: B).map (substOne n w)) < fuel := by
        rw [hseg, incCount_append]
        have h1 : incCount (Seg.lit w :: B.map (substOne n w)) = incCount (B.map (substOne n w)) := by
          simp [incCount, List.filter, Seg.isInc]
        have h2 := incCount_substOne_le n w B
        have h3 : incCount (A ++ Seg.mk n :: B) = incCount A + (incCount B + 1) := by
          rw [incCount_append]; simp [incCount, List.filter, Seg.isInc, hn]
        omega
      have hfind : find mInc (flatten ((A ++ Seg.mk n :: B).map (substOne n w))) (flatten A).length =
          findFrom mInc (flatten ((A ++ Seg.mk n :: B).map (substOne n w))) 0 := by
        apply find_of_findFrom
        · rw [hseg, flatten_append]; simp
        · intro p hp
          rw [hseg, flatten_append, findFrom_skip_segs A _ 0 hwfA hA] at hp
          have := findFrom_ge _ _ _ _ hp
          omega
      rw [hfind, ih _ hwf' hcnt', List.map_map]
      congr 1
      apply List.map_congr_left
      intro s _
      simp only [Function.comp]
      rw [← hw]
      exact substInc_substOne inc n hn s

theorem incCount_le_length : ∀ segs : List Seg, incCount segs ≤ (flatten segs).length := by
  intro segs
  induction segs with
  | nil => simp [incCount]
  | cons s r ih =>
    rw [flatten_cons]
    simp only [incCount, List.filter] at ih ⊢
    cases hs : s.isInc with
    | true =>
      cases s with
      | lit t => simp [Seg.isInc] at hs
      | mk n => simp only [List.length_cons, List.length_append, Seg.flat]; omega
    | false => simp only [List.length_append]; omega

/-! ### the map-driven `replace` of the empty-call-stack branch -/

def substMap (m : List (Str × Str)) : Seg → Seg
  | .lit s => .lit s
  | .mk n => match m.lookup (mark n) with
    | some v => .lit v
    | none => .mk n

theorem replaceMapGo_drop (m : List (Str × Str)) : ∀ (s : Str) (k : Nat) (st : Bool),
    replaceMapGo m k st s = replaceMapGo m 0 st (s.drop k) := by
  intro s
  induction s with
  | nil => intro k st; cases k <;> simp [replaceMapGo]
  | cons c r ih =>
    intro k st
    cases k with
    | zero => simp
    | succ k => simp [replaceMapGo, ih k st]

theorem replaceMapGo_skip (m : List (Str × Str)) : ∀ (p q : Str), noOpen p →
    replaceMapGo m 0 false (p ++ q) = p ++ replaceMapGo m 0 false q := by
  intro p
  induction p with
  | nil => intro q _; rfl
  | cons c p ih =>
    intro q hp
    have hc : c ≠ '{' := hp c (by simp)
    simp only [List.cons_append, replaceMapGo, hc, if_false]
    rw [ih q (fun c' hc' => hp c' (by simp [hc']))]

theorem replaceMap_flatten (m : List (Str × Str)) : ∀ segs : List Seg, SegsWF segs →
    replaceMap m (flatten segs) = flatten (segs.map (substMap m)) := by
  unfold replaceMap
  intro segs
  induction segs with
  | nil => intro _; simp [replaceMapGo]
  | cons s r ih =>
    intro hwf
    have hr : SegsWF r := fun x hx => hwf x (by simp [hx])
    have hs : s.wf := hwf s (by simp)
    rw [flatten_cons, List.map_cons, flatten_cons]
    cases s with
    | lit t =>
      simp only [Seg.flat, substMap]
      rw [replaceMapGo_skip m t _ hs, ih hr]
    | mk n =>
      have hfind : findFrom ['}'] (n ++ ('}' :: flatten r)) 0 = some n.length := by
        rw [findFrom_skip '}' [] n _ 0 (fun c hc => (hs c hc).2)]
        rw [findFrom_hit ['}'] '}' _ _ (by simp [List.isPrefixOf])]; simp
      have hkey : '{' :: (n ++ ('}' :: flatten r)).take (n.length + 1) = mark n := by
        have : n ++ ('}' :: flatten r) = (n ++ ['}']) ++ flatten r := by simp
        rw [this]
        have hl : n.length + 1 = (n ++ ['}']).length := by simp
        rw [hl, List.take_left]; rfl
      have hflat : (Seg.mk n).flat ++ flatten r = '{' :: (n ++ ('}' :: flatten r)) := by simp [Seg.flat]
      rw [hflat]
      simp only [replaceMapGo, if_true, hfind, hkey, substMap]
      cases hl : m.lookup (mark n) with
      | some v =>
        simp only [Seg.flat]
        rw [replaceMapGo_drop]
        have : (n ++ ('}' :: flatten r)).drop (n.length + 1) = flatten r := by
          have h2 : n ++ ('}' :: flatten r) = (n ++ ['}']) ++ flatten r := by simp
          have hl2 : n.length + 1 = (n ++ ['}']).length := by simp
          rw [h2, hl2, List.drop_left]
        rw [this, ih hr]
      | none =>
        simp only [Seg.flat]
        have h2 : n ++ ('}' :: flatten r) = (n ++ ['}']) ++ flatten r := by simp
        rw [h2, replaceMapGo_skip m (n ++ ['}']) _ ?_, ih hr]
        · simp
        · intro c hc
          simp only [List.mem_append, List.mem_singleton] at hc
          rcases hc with hc | hc
          · exact (hs c hc).1
          · rw [hc]; decide

/-! ### values that never hold a '{' -/

theorem digit_ne : ∀ m, m < 10 → Char.ofNat (48 + m) ≠ '{' ∧ Char.ofNat (48 + m) ≠ '}' := by decide

theorem natDecAux_noBrace : ∀ (fuel n : Nat) (acc : Str), noBrace acc → noBrace (natDecAux fuel n acc) := by
  intro fuel
  induction fuel with
  | zero => intro n acc h; exact h
  | succ fuel ih =>
    intro n acc h
    have hd : noBrace (digitChar n :: acc) := by
      intro c hc
      simp only [List.mem_cons] at hc
      rcases hc with rfl | hc
      · exact digit_ne (n % 10) (Nat.mod_lt _ (by decide))
      · exact h c hc
    simp only [natDecAux]
    split
    · exact hd
    · exact ih _ _ hd

theorem natDec_noBrace (n : Nat) : noBrace (natDec n) :=
  natDecAux_noBrace _ _ [] (fun c hc => by simp at hc)

theorem intDec_noBrace (i : Int) : noBrace (intDec i) := by
  cases i with
  | ofNat n => exact natDec_noBrace n
  | negSucc n =>
    intro c hc
    simp only [intDec, List.mem_cons] at hc
    rcases hc with rfl | hc
    · decide
    · exact natDec_noBrace _ c hc

theorem sevStr_noOpen (n : Nat) : noOpen (sevStr n) := by
  unfold sevStr noOpen
  split <;> decide

theorem toNative_noOpen {s : Str} (h : noOpen s) : noOpen (toNative s) := by
  intro c hc
  simp only [toNative, List.mem_map] at hc
  obtain ⟨a, ha, rfl⟩ := hc
  split
  · decide
  · exact h a ha

theorem noOpen_append {a b : Str} (ha : noOpen a) (hb : noOpen b) : noOpen (a ++ b) := by
  intro c hc
  simp only [List.mem_append] at hc
  rcases hc with h | h
  · exact ha c h
  · exact hb c h

theorem noOpen_cons {c : Char} {a : Str} (hc : c ≠ '{') (ha : noOpen a) : noOpen (c :: a) := by
  intro x hx
  simp only [List.mem_cons] at hx
  rcases hx with rfl | h
  · exact hc
  · exact ha x h

theorem stringify_noOpen (l : Loc) (h : noOpen l.file) : noOpen (stringify l) := by
  unfold stringify
  apply noOpen_cons (by decide)
  apply noOpen_append
  · apply noOpen_append (toNative_noOpen h)
    split
    · apply noOpen_cons (by decide)
      apply noOpen_append (intDec_noBrace _).noOpen
      simp only [Bool.false_eq_true, if_false]
      intro c hc; simp at hc
    · intro c hc; simp at hc
  · exact noOpen_cons (by decide) (fun c hc => by simp at hc)

theorem callStackToString_noOpen : ∀ st : List Loc, (∀ l ∈ st, noOpen l.file) → noOpen (callStackToString st) := by
  intro st
  induction st with
  | nil => intro _ c hc; simp [callStackToString] at hc
  | cons l r ih =>
    intro h
    cases r with
    | nil => simpa [callStackToString] using stringify_noOpen l (h l (by simp))
    | cons l2 r2 =>
      simp only [callStackToString]
      apply noOpen_append
      · apply noOpen_append (stringify_noOpen l (h l (by simp)))
        unfold noOpen; decide
      · exact ih (fun x hx => h x (by simp [hx]))

/-! ### assembling `toString` -/

theorem mark_id : "{id}".toList = mark "id".toList := by decide
theorem mark_severity : "{severity}".toList = mark "severity".toList := by decide
theorem mark_cwe : "{cwe}".toList = mark "cwe".toList := by decide
theorem mark_message : "{message}".toList = mark "message".toList := by decide
theorem mark_remark : "{remark}".toList = mark "remark".toList := by decide
theorem mark_callstack : "{callstack}".toList = mark "callstack".toList := by decide
theorem mark_file : "{file}".toList = mark "file".toList := by decide
theorem mark_line : "{line}".toList = mark "line".toList := by decide
theorem mark_column : "{column}".toList = mark "column".toList := by decide
theorem mark_code : "{code}".toList = mark "code".toList := by decide
theorem mark_info : "{info}".toList = mark "info".toList := by decide

theorem nb_id : noBrace "id".toList := by unfold noBrace; decide
theorem nb_severity : noBrace "severity".toList := by unfold noBrace; decide
theorem nb_cwe : noBrace "cwe".toList := by unfold noBrace; decide
theorem nb_message : noBrace "message".toList := by unfold noBrace; decide
theorem nb_remark : noBrace "remark".toList := by unfold noBrace; decide
theorem nb_callstack : noBrace "callstack".toList := by unfold noBrace; decide
theorem nb_file : noBrace "file".toList := by unfold noBrace; decide
theorem nb_line : noBrace "line".toList := by unfold noBrace; decide
theorem nb_column : noBrace "column".toList := by unfold noBrace; decide
theorem nb_code : noBrace "code".toList := by unfold noBrace; decide
theorem nb_info : noBrace "info".toList := by unfold noBrace; decide

theorem substInc_wf (inc : Bool) (segs : List Seg) (h : SegsWF segs) : SegsWF (segs.map (substInc inc)) := by
  intro s hs
  simp only [List.mem_map] at hs
  obtain ⟨s0, hs0, rfl⟩ := hs
  have := h s0 hs0
  cases s0 with
  | lit t => exact this
  | mk n =>
    simp only [substInc]
    split
    · simp only [Seg.wf]
      split
      · exact noOpen_drop this 13
      · intro c hc; simp at hc
    · exact this

theorem flatten_map (g : Seg → Seg) (segs : List Seg) : flatten (segs.map g) = segs.flatMap (fun s => (g s).flat) := by
  induction segs with
  | nil => rfl
  | cons s r ih => rw [List.map_cons, flatten_cons, ih]; rfl

theorem flatMap_congr' {α β} (f g : α → List β) : ∀ l : List α, (∀ x ∈ l, f x = g x) → l.flatMap f = l.flatMap g := by
  intro l
  induction l with
  | nil => intro _; rfl
  | cons a r ih =>
    intro h
    rw [List.flatMap_cons, List.flatMap_cons, h a (by simp), ih (fun x hx => h x (by simp [hx]))]

/-- the passes before the call-stack fields: id, inconclusive, severity, cwe, message, remark -/
def chainHead (e : Env) (s : Seg) : Seg :=
  substOne "remark".toList e.remark (substOne "message".toList e.message (substOne "cwe".toList e.cwe
    (substOne "severity".toList e.severity (substInc e.inconclusive (substOne "id".toList e.id s)))))

/-- … then callstack, file, line, column (finding with a call stack) -/
def chainStack (e : Env) (s : Seg) : Seg :=
  substOne "column".toList e.column (substOne "line".toList e.line (substOne "file".toList e.file
    (substOne "callstack".toList e.callstack (chainHead e s))))

theorem chainStack_flat (e : Env) (s : Seg) : (chainStack e s).flat = substSeg e.valueNoCode s := by
  cases s with
  | lit t => rfl
  | mk n =>
    simp only [chainStack, chainHead, substSeg, Env.valueNoCode]
    by_cases h1 : n = "id".toList
    · simp [substOne, substInc, h1, Seg.flat]
    by_cases h2 : incP n = true
    · simp [substOne, substInc, h1, h2, Seg.flat]
    by_cases h3 : n = "severity".toList
    · simp [substOne, substInc, h1, h2, h3, Seg.flat]
    by_cases h4 : n = "cwe".toList
    · simp [substOne, substInc, h1, h2, h3, h4, Seg.flat]
    by_cases h5 : n = "message".toList
    · simp [substOne, substInc, h1, h2, h3, h4, h5, Seg.flat]
    by_cases h6 : n = "remark".toList
    · simp [substOne, substInc, h1, h2, h3, h4, h5, h6, Seg.flat]
    by_cases h7 : n = "callstack".toList
    · simp [substOne, substInc, h1, h2, h3, h4, h5, h6, h7, Seg.flat]
    by_cases h8 : n = "file".toList
    · simp [substOne, substInc, h1, h2, h3, h4, h5, h6, h7, h8, Seg.flat]
    by_cases h9 : n = "line".toList
    · simp [substOne, substInc, h1, h2, h3, h4, h5, h6, h7, h8, h9, Seg.flat]
    by_cases h10 : n = "column".toList
    · simp [substOne, substInc, h1, h2, h3, h4, h5, h6, h7, h8, h9, h10, Seg.flat]
    simp [substOne, substInc, h1, h2, h3, h4, h5, h6, h7, h8, h9, h10, Seg.flat]

theorem chainCode_flat (e : Env) (s : Seg) :
    (substOne "code".toList e.code (chainStack e s)).flat = substSeg e.value s := by
  cases s with
  | lit t => rfl
  | mk n =>
    have hpre := chainStack_flat e (.mk n)
    simp only [substSeg, Env.value] at hpre ⊢
    cases hv : e.valueNoCode n with
    | some v =>
      -- the segment is already a literal
      have : ∃ t, chainStack e (.mk n) = .lit t := by
        simp only [chainStack, chainHead, Env.valueNoCode] at hv ⊢
        by_cases h1 : n = "id".toList
        · simp [substOne, substInc, h1]
        by_cases h2 : incP n = true
        · simp [substOne, substInc, h1, h2]
        by_cases h3 : n = "severity".toList
        · simp [substOne, substInc, h1, h2, h3]
        by_cases h4 : n = "cwe".toList
        · simp [substOne, substInc, h1, h2, h3, h4]
        by_cases h5 : n = "message".toList
        · simp [substOne, substInc, h1, h2, h3, h4, h5]
        by_cases h6 : n = "remark".toList
        · simp [substOne, substInc, h1, h2, h3, h4, h5, h6]
        by_cases h7 : n = "callstack".toList
        · simp [substOne, substInc, h1, h2, h3, h4, h5, h6, h7]
        by_cases h8 : n = "file".toList
        · simp [substOne, substInc, h1, h2, h3, h4, h5, h6, h7, h8]
        by_cases h9 : n = "line".toList
        · simp [substOne, substInc, h1, h2, h3, h4, h5, h6, h7, h8, h9]
        by_cases h10 : n = "column".toList
        · simp [substOne, substInc, h1, h2, h3, h4, h5, h6, h7, h8, h9, h10]
        simp [h1, h2, h3, h4, h5, h6, h7, h8, h9, h10] at hv
      obtain ⟨t, ht⟩ := this
      rw [ht] at hpre ⊢
      rw [hv] at hpre
      simpa [substOne] using hpre
    | none =>
      have : chainStack e (.mk n) = .mk n := by
        simp only [chainStack, chainHead, Env.valueNoCode] at hv ⊢
        by_cases h1 : n = "id".toList
        · simp [h1] at hv
        by_cases h2 : incP n = true
        · simp [h1, h2] at hv
        by_cases h3 : n = "severity".toList
        · simp [h1, h2, h3] at hv
        by_cases h4 : n = "cwe".toList
        · simp [h1, h2, h3, h4] at hv
        by_cases h5 : n = "message".toList
        · simp [h1, h2, h3, h4, h5] at hv
        by_cases h6 : n = "remark".toList
        · simp [h1, h2, h3, h4, h5, h6] at hv
        by_cases h7 : n = "callstack".toList
        · simp [h1, h2, h3, h4, h5, h6, h7] at hv
        by_cases h8 : n = "file".toList
        · simp [h1, h2, h3, h4, h5, h6, h7, h8] at hv
        by_cases h9 : n = "line".toList
        · simp [h1, h2, h3, h4, h5, h6, h7, h8, h9] at hv
        by_cases h10 : n = "column".toList
        · simp [h1, h2, h3, h4, h5, h6, h7, h8, h9, h10] at hv
        simp [substOne, substInc, h1, h2, h3, h4, h5, h6, h7, h8, h9, h10]
      rw [this]
      simp only [substOne]
      split <;> simp [Seg.flat, *]

end Cppcheck.Template

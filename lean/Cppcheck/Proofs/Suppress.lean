import Cppcheck.Model.Suppress
import Cppcheck.Proofs.Glob
/-
Lemmas about the suppression matcher and the report gate.
-/
namespace Cppcheck.Suppress
open Cppcheck.Wire Cppcheck.Glob

/-! ### glob used by the suppression code vs the documented language -/

theorem glob_exact {p : Str} (h : globExact p = true) (n : Str) : glob p n = Spec.globMatches p n := by
  unfold glob Spec.globMatches
  unfold globExact at h
  cases hf : globFixed with
  | true =>
    apply Bool.eq_iff_iff.2
    exact ⟨dfs_sound true _ _, dfs_complete_fixed _ _⟩
  | false =>
    rw [hf] at h
    simp only [Bool.false_or] at h
    apply Bool.eq_iff_iff.2
    exact ⟨dfs_sound false _ _, dfs_complete_partial _ _ h⟩

theorem glob_sound (p n : Str) (h : glob p n = true) : Spec.globMatches p n = true :=
  dfs_sound _ _ _ h

/-! ### isSuppressed = documented rules -/

/-- quantification over `Bool` is decidable (used to decide the propositional skeleton of `isSuppressed`) -/
instance decForallBool (p : Bool → Prop) [∀ b, Decidable (p b)] : Decidable (∀ b, p b) :=
  decidable_of_iff (p true ∧ p false) ⟨fun h b => by cases b; exact h.2; exact h.1, fun h => ⟨h true, h false⟩⟩

theorem chain_matched (c1 c2 c3 c4 c5 sy : Bool) :
    ((if c1 then Res.none else if c2 then Res.none else if c3 then Res.checked else if c4 then Res.checked
      else if c5 then Res.checked else if sy then Res.matched else Res.checked) = Res.matched) ↔
    (c1 = false ∧ c2 = false ∧ c3 = false ∧ c4 = false ∧ c5 = false ∧ sy = true) := by
  cases c1 <;> cases c2 <;> cases c3 <;> cases c4 <;> cases c5 <;> cases sy <;> simp

theorem chain_macro (c1 c3 c4 sy : Bool) :
    ((if c1 then Res.none else if c3 then Res.checked else if c4 then Res.checked
      else if sy then Res.matched else Res.checked) = Res.matched) ↔
    (c1 = false ∧ c3 = false ∧ c4 = false ∧ sy = true) := by
  cases c1 <;> cases c3 <;> cases c4 <;> cases sy <;> simp

/-- the suppression only uses glob patterns on which the current matcher is exact, and is not an unpaired
    begin/end marker -/
def supprExact (s : Suppr) : Bool :=
  globExact s.errorId && globExact s.symbolName && s.type != .blockBegin && s.type != .blockEnd

theorem symbolOk_eq {s : Suppr} (h : globExact s.symbolName = true) (m : Msg) :
    symbolOk s m = Spec.symbolMatches s m := by
  unfold symbolOk Spec.symbolMatches
  have : glob s.symbolName = Spec.globMatches s.symbolName := funext (glob_exact h)
  rw [this]

theorem hash_cond (s : Suppr) (m : Msg) :
    (decide (s.hash > 0) && s.hash != m.hash) = !Spec.hashMatches s m := by
  unfold Spec.hashMatches
  by_cases h0 : s.hash = 0
  · simp [h0]
  · by_cases h1 : s.hash = m.hash
    · simp [h1]
    · have : s.hash > 0 := Nat.pos_of_ne_zero h0
      simp [h0, h1, this]

theorem skel_file (a0 a1 : Bool) : (!a0 && !a1) = false ↔ (a0 || a1) = true := by
  cases a0 <;> cases a1 <;> simp

theorem skel_hash (a2 : Bool) : (!a2) = false ↔ a2 = true := by cases a2 <;> simp

theorem skel_id (a3 a4 a6 : Bool) : (!a3 && (a6 || !a4)) = false ↔ ((a3 || a4) = true ∧ (a3 || !a6) = true) := by
  cases a3 <;> cases a4 <;> cases a6 <;> simp

theorem skel_line (b1 b2 b3 b5 : Bool) :
    (!b1 && !b2 && (!b5 || !b3)) = false ↔ (b1 || b2 || b5 && b3) = true := by
  cases b1 <;> cases b2 <;> cases b3 <;> cases b5 <;> simp

theorem isSuppressed_matched_iff (env : Env) (s : Suppr) (m : Msg) (hx : supprExact s = true) :
    isSuppressed env s m = .matched ↔ Spec.matchesB env s m = true := by
  simp only [supprExact, Bool.and_eq_true, bne_iff_ne, ne_eq] at hx
  obtain ⟨⟨⟨hid, hsym⟩, hnb⟩, hne⟩ := hx
  unfold isSuppressed
  rw [symbolOk_eq hsym, glob_exact hid, hash_cond]
  unfold Spec.matchesB Spec.documented Spec.idlessRule Spec.locationMatches Spec.idMatches Spec.fileMatches
  by_cases hm : s.type = .macro
  · simp only [hm, if_true]
    rw [chain_macro]
    generalize m.macroNames.contains s.macroName = a1
    generalize Spec.hashMatches s m = a2
    generalize s.errorId.isEmpty = a3
    generalize Spec.globMatches s.errorId m.errorId = a4
    generalize Spec.symbolMatches s m = a5
    generalize m.errorId.isEmpty = a6
    cases a1 <;> cases a2 <;> cases a3 <;> cases a4 <;> cases a5 <;> cases a6 <;> simp
  · simp only [hm, if_false]
    rw [chain_matched]
    have e1 : (s.lineNumber != -1) = !decide (s.lineNumber = -1) := by
      by_cases h : s.lineNumber = -1 <;> simp [h]
    have e2 : (s.lineNumber != m.lineNumber) = !decide (m.lineNumber = s.lineNumber) := by
      by_cases h : m.lineNumber = s.lineNumber
      · simp [h]
      · have : s.lineNumber ≠ m.lineNumber := fun h' => h h'.symm
        simp [h, this]
    have e3 : (s.lineNumber + 1 != m.lineNumber) = !decide (m.lineNumber = s.lineNumber + 1) := by
      by_cases h : m.lineNumber = s.lineNumber + 1
      · simp [h]
      · have : s.lineNumber + 1 ≠ m.lineNumber := fun h' => h h'.symm
        simp [h, this]
    have e4 : (decide (m.lineNumber < s.lineBegin) || decide (m.lineNumber > s.lineEnd)) =
        !(decide (s.lineBegin ≤ m.lineNumber) && decide (m.lineNumber ≤ s.lineEnd)) := by
      by_cases h1 : s.lineBegin ≤ m.lineNumber <;> by_cases h2 : m.lineNumber ≤ s.lineEnd <;>
        simp [h1, h2] <;> omega
    rw [e1, e2, e3, e4, skel_file, skel_hash, skel_id]
    simp only [Bool.and_eq_true (_ && _)]
    have hack : (decide False || s.errorId.isEmpty || !m.errorId.isEmpty) = (s.errorId.isEmpty || !m.errorId.isEmpty) := by
      simp
    rw [hack]
    generalize decide (s.lineNumber = -1) = b1
    generalize decide (m.lineNumber = s.lineNumber) = b2
    generalize decide (m.lineNumber = s.lineNumber + 1) = b3
    generalize (decide (s.lineBegin ≤ m.lineNumber) && decide (m.lineNumber ≤ s.lineEnd)) = b4
    generalize s.thisAndNextLine = b5
    generalize (s.fileName.isEmpty || env.fileMatch s.fileName m.fileName) = fl
    generalize Spec.hashMatches s m = a2
    generalize (s.errorId.isEmpty || Spec.globMatches s.errorId m.errorId) = idm
    generalize (s.errorId.isEmpty || !m.errorId.isEmpty) = hk
    generalize Spec.symbolMatches s m = a5
    cases ht : s.type with
    | «macro» => exact absurd ht hm
    | blockBegin => exact absurd ht hnb
    | blockEnd => exact absurd ht hne
    | unique =>
      simp only [decide_true, Bool.true_and, reduceCtorEq, decide_false, Bool.false_and, Bool.and_eq_true]
      rw [skel_line]
      constructor
      · rintro ⟨h1, h2, h3, ⟨h4, h5⟩, -, h6⟩; exact ⟨⟨⟨⟨⟨h2, h1⟩, h3⟩, h4⟩, h6⟩, h5⟩
      · rintro ⟨⟨⟨⟨⟨h2, h1⟩, h3⟩, h4⟩, h6⟩, h5⟩; exact ⟨h1, h2, h3, ⟨h4, h5⟩, trivial, h6⟩
    | file =>
      simp only [reduceCtorEq, decide_false, Bool.false_and, Bool.and_eq_true]
      constructor
      · rintro ⟨-, h2, h3, ⟨h4, h5⟩, -, h6⟩; exact ⟨⟨⟨⟨h2, h3⟩, h4⟩, h6⟩, h5⟩
      · rintro ⟨⟨⟨⟨h2, h3⟩, h4⟩, h6⟩, h5⟩; exact ⟨trivial, h2, h3, ⟨h4, h5⟩, trivial, h6⟩
    | block =>
      simp only [reduceCtorEq, decide_false, decide_true, Bool.false_and, Bool.true_and, Bool.and_eq_true,
        Bool.not_eq_false']
      constructor
      · rintro ⟨-, h2, h3, ⟨h4, h5⟩, h7, h6⟩; exact ⟨⟨⟨⟨⟨h2, h7⟩, h3⟩, h4⟩, h6⟩, h5⟩
      · rintro ⟨⟨⟨⟨⟨h2, h7⟩, h3⟩, h4⟩, h6⟩, h5⟩; exact ⟨trivial, h2, h3, ⟨h4, h5⟩, h7, h6⟩

theorem any_or_eq_contains (l : Str) :
    l.any (fun c => decide (c = '?') || decide (c = '*')) = (l.contains '*' || l.contains '?') := by
  induction l with
  | nil => rfl
  | cons a r ih =>
    simp only [List.any_cons, ih, List.contains_cons]
    have e1 : ('*' == a) = decide (a = '*') := by
      by_cases h : a = '*'
      · subst h; rfl
      · have h' : ¬ ('*' = a) := fun x => h x.symm
        simp [h, h']
    have e2 : ('?' == a) = decide (a = '?') := by
      by_cases h : a = '?'
      · subst h; rfl
      · have h' : ¬ ('?' = a) := fun x => h x.symm
        simp [h, h']
    rw [e1, e2]
    cases decide (a = '*') <;> cases decide (a = '?') <;> cases r.contains '*' <;> cases r.contains '?' <;> rfl

/-- the declarative `Spec.active` is what the implementation's loop header computes -/
theorem active_eq_considered (g : Bool) (m : Msg) (s : Suppr) : Spec.active g m s = considered g m s := by
  unfold Spec.active considered Spec.boundToOneFile isLocal isWildcard
  rw [any_or_eq_contains]
  by_cases hu : m.errorId = unmatchedId
  · have : (s.errorId = m.errorId) ↔ (s.errorId = unmatchedId) := by rw [hu]
    simp only [hu, bne_self_eq_false, Bool.false_or, decide_eq_decide.2 this]
    cases g <;> cases s.fileName.isEmpty <;> cases s.fileName.contains '*' <;> cases s.fileName.contains '?' <;> simp
  · have h1 : (m.errorId != unmatchedId) = true := by simpa using hu
    simp only [h1, Bool.true_or, Bool.and_true]
    cases g <;> cases s.fileName.isEmpty <;> cases s.fileName.contains '*' <;> cases s.fileName.contains '?' <;> simp

/-- a match reported by the current code is always a match by the documented rules (no exactness needed) -/
theorem isSuppressed_matched_sound_glob (s : Suppr) (m : Msg) :
    (glob s.errorId m.errorId = true → Spec.globMatches s.errorId m.errorId = true) :=
  glob_sound _ _

/-! ### flags do not influence matching -/

def eraseFlags (s : Suppr) : Suppr := { s with checked := false, matched := false }

theorem isSuppressed_eraseFlags (env : Env) (s : Suppr) (m : Msg) :
    isSuppressed env (eraseFlags s) m = isSuppressed env s m := rfl

theorem considered_eraseFlags (g : Bool) (m : Msg) (s : Suppr) :
    considered g m (eraseFlags s) = considered g m s := rfl

theorem isMatch_fst (env : Env) (s : Suppr) (m : Msg) :
    (isMatch env s m).1 = decide (isSuppressed env s m = .matched) := by
  unfold isMatch
  cases isSuppressed env s m <;> simp

theorem isMatch_snd_erase (env : Env) (s : Suppr) (m : Msg) :
    eraseFlags (isMatch env s m).2 = eraseFlags s := by
  unfold isMatch
  cases isSuppressed env s m <;> simp [eraseFlags]

/-- does some considered entry match? (the value of `SuppressionList::isSuppressed`) -/
def anyMatch (env : Env) (g : Bool) (m : Msg) (l : List Suppr) : Bool :=
  l.any fun s => considered g m s && decide (isSuppressed env s m = .matched)

theorem listIsSuppressed_fst (env : Env) (g : Bool) (m : Msg) (l : List Suppr) :
    (listIsSuppressed env g m l).1 = anyMatch env g m l := by
  induction l with
  | nil => simp [listIsSuppressed, anyMatch]
  | cons s r ih =>
    simp only [listIsSuppressed]
    unfold anyMatch at ih ⊢
    by_cases hc : considered g m s = true
    · simp [hc, isMatch_fst, ← ih]
    · simp [hc, ← ih]

theorem listIsSuppressed_snd (env : Env) (g : Bool) (m : Msg) (l : List Suppr) :
    (listIsSuppressed env g m l).2.map eraseFlags = l.map eraseFlags := by
  induction l with
  | nil => simp [listIsSuppressed]
  | cons s r ih =>
    simp only [listIsSuppressed]
    by_cases hc : considered g m s = true
    · simp [hc, isMatch_snd_erase, ih]
    · simp [hc, ih]

theorem listIsSuppressedExplicitly_snd (env : Env) (g : Bool) (m : Msg) (l : List Suppr) :
    (listIsSuppressedExplicitly env g m l).2.map eraseFlags = l.map eraseFlags := by
  induction l with
  | nil => simp [listIsSuppressedExplicitly]
  | cons s r ih =>
    simp only [listIsSuppressedExplicitly]
    split
    · split
      · simp [isMatch_snd_erase]
      · simp [isMatch_snd_erase, ih]
    · simp [ih]

theorem anyMatch_congr (env : Env) (g : Bool) (m : Msg) {l l' : List Suppr}
    (h : l.map eraseFlags = l'.map eraseFlags) : anyMatch env g m l = anyMatch env g m l' := by
  have key : ∀ l : List Suppr, anyMatch env g m l = anyMatch env g m (l.map eraseFlags) := by
    intro l
    unfold anyMatch
    rw [List.any_map]
    rfl
  rw [key l, key l', h]

theorem anyMatch_iff (env : Env) (g : Bool) (m : Msg) (l : List Suppr) :
    anyMatch env g m l = true ↔ ∃ s ∈ l, considered g m s = true ∧ isSuppressed env s m = .matched := by
  unfold anyMatch
  simp [List.any_eq_true]

end Cppcheck.Suppress

namespace Cppcheck.Suppress
open Cppcheck.Wire Cppcheck.Glob

/-! ### the report gate -/

/-- lists equal up to the `checked` / `matched` flags -/
def FlagEq (a b : List Suppr) : Prop := a.map eraseFlags = b.map eraseFlags

theorem FlagEq.refl (a : List Suppr) : FlagEq a a := rfl
theorem FlagEq.trans {a b c : List Suppr} (h1 : FlagEq a b) (h2 : FlagEq b c) : FlagEq a c := Eq.trans h1 h2
theorem FlagEq.symm {a b : List Suppr} (h1 : FlagEq a b) : FlagEq b a := Eq.symm h1

/-- value of `isSuppressedExplicitly` -/
def anyExplicit (env : Env) (g : Bool) (m : Msg) (l : List Suppr) : Bool :=
  l.any fun s => ((g || isLocal s) && decide (s.errorId = m.errorId)) && decide (isSuppressed env s m = .matched)

theorem listIsSuppressedExplicitly_fst (env : Env) (g : Bool) (m : Msg) (l : List Suppr) :
    (listIsSuppressedExplicitly env g m l).1 = anyExplicit env g m l := by
  induction l with
  | nil => simp [listIsSuppressedExplicitly, anyExplicit]
  | cons s r ih =>
    simp only [listIsSuppressedExplicitly]
    unfold anyExplicit at ih ⊢
    by_cases hc : ((g || isLocal s) && decide (s.errorId = m.errorId)) = true
    · rw [if_pos hc]
      by_cases hm : (isMatch env s m).1 = true
      · have := hm; rw [isMatch_fst] at this
        simp [hm, hc, this]
      · have := hm; rw [isMatch_fst] at this
        simp [hm, hc, this, ← ih]
    · rw [if_neg hc]
      simp [hc, ← ih]

theorem anyExplicit_congr (env : Env) (g : Bool) (m : Msg) {l l' : List Suppr}
    (h : FlagEq l l') : anyExplicit env g m l = anyExplicit env g m l' := by
  have key : ∀ l : List Suppr, anyExplicit env g m l = anyExplicit env g m (l.map eraseFlags) := by
    intro l
    unfold anyExplicit
    rw [List.any_map]
    rfl
  rw [key l, key l', h]

/-- is the finding suppressed by the `nomsg` list at the gate? -/
def supB (env : Env) (cfg : GCfg) (nomsg : List Suppr) (f : Finding) : Bool :=
  anyMatch env cfg.useGlobal (toMsg env cfg f) nomsg

def explB (env : Env) (cfg : GCfg) (nomsg : List Suppr) (f : Finding) : Bool :=
  anyExplicit env cfg.useGlobal (toMsg env cfg f) nomsg

/-- would the full list (global entries included) suppress the finding?  (`suppressedLater` when the logger runs
    without the global suppressions) -/
def laterB (env : Env) (cfg : GCfg) (nomsg : List Suppr) (f : Finding) : Bool :=
  anyMatch env true (toMsg env cfg f) nomsg

/-- does the finding use the duplicate filter of the suppressed findings? -/
def useSupB (dfix : Bool) (env : Env) (cfg : GCfg) (nomsg : List Suppr) (f : Finding) : Bool :=
  dfix && (supB env cfg nomsg f || (!cfg.useGlobal && laterB env cfg nomsg f))

/-- the two duplicate filters: (`mErrorList`, `mSuppressedErrorList`) -/
abbrev Filters := List Str × List Str

def Filters.sel (ls : Filters) (b : Bool) : List Str := if b then ls.2 else ls.1
def Filters.ins (ls : Filters) (b : Bool) (t : Str) : Filters := if b then (ls.1, t :: ls.2) else (t :: ls.1, ls.2)

/-- what one gate call appends to the output, as a function of the `nomsg` list (flags irrelevant) and the
    duplicate filters -/
def stepOut (dfix : Bool) (env : Env) (cfg : GCfg) (nomsg : List Suppr) (ls : Filters) (f : Finding) : List Out :=
  if f.internal then [{ f := f }]
  else if !f.libReports then []
  else
    (if supB env cfg nomsg f && cfg.safety && f.critical then [{ f := f, asInternal := explB env cfg nomsg f }] else []) ++
    (if f.text.isEmpty || (!cfg.emitDuplicates && (ls.sel (useSupB dfix env cfg nomsg f)).contains f.text) ||
        supB env cfg nomsg f then []
     else [{ f := f, remark := remarkFor cfg f }])

def stepEl (dfix : Bool) (env : Env) (cfg : GCfg) (nomsg : List Suppr) (ls : Filters) (f : Finding) : Filters :=
  if f.internal || !f.libReports || f.text.isEmpty || cfg.emitDuplicates ||
      (ls.sel (useSupB dfix env cfg nomsg f)).contains f.text then ls
  else ls.ins (useSupB dfix env cfg nomsg f) f.text

theorem useSupB_congr (dfix : Bool) (env : Env) (cfg : GCfg) {a b : List Suppr} (h : FlagEq a b) (f : Finding) :
    useSupB dfix env cfg a f = useSupB dfix env cfg b f := by
  unfold useSupB supB laterB
  rw [anyMatch_congr env _ _ h, anyMatch_congr env _ _ h]

theorem stepEl_congr (dfix : Bool) (env : Env) (cfg : GCfg) {a b : List Suppr} (h : FlagEq a b) (ls : Filters)
    (f : Finding) : stepEl dfix env cfg a ls f = stepEl dfix env cfg b ls f := by
  unfold stepEl
  rw [useSupB_congr dfix env cfg h]

theorem stepOut_congr (dfix : Bool) (env : Env) (cfg : GCfg) {a b : List Suppr} (h : FlagEq a b) (ls : Filters)
    (f : Finding) : stepOut dfix env cfg a ls f = stepOut dfix env cfg b ls f := by
  unfold stepOut
  rw [useSupB_congr dfix env cfg h]
  unfold supB explB
  rw [anyMatch_congr env _ _ h, anyExplicit_congr env _ _ h]

theorem exitStep_spec (env : Env) (st : GState) (m : Msg) :
    FlagEq (exitStep env st m).nomsg st.nomsg ∧ (exitStep env st m).out = st.out ∧
    (exitStep env st m).errorList = st.errorList ∧ (exitStep env st m).supErrorList = st.supErrorList := by
  unfold exitStep
  dsimp only
  split
  · exact ⟨rfl, rfl, rfl, rfl⟩
  · split
    · exact ⟨listIsSuppressed_snd _ _ _ _, rfl, rfl, rfl⟩
    · exact ⟨listIsSuppressed_snd _ _ _ _, rfl, rfl, rfl⟩

theorem safetyStep_spec (env : Env) (cfg : GCfg) (st : GState) (f : Finding) (m : Msg) (sup : Bool) :
    FlagEq (safetyStep env cfg st f m sup).nomsg st.nomsg ∧
    (safetyStep env cfg st f m sup).errorList = st.errorList ∧
    (safetyStep env cfg st f m sup).supErrorList = st.supErrorList ∧
    (safetyStep env cfg st f m sup).out = st.out ++
      (if sup && cfg.safety && f.critical then [{ f := f, asInternal := anyExplicit env cfg.useGlobal m st.nomsg }] else []) := by
  unfold safetyStep
  by_cases hc : (sup && cfg.safety && f.critical) = true
  · simp only [hc, if_true]
    split
    · refine ⟨FlagEq.trans (listIsSuppressed_snd _ _ _ _) (listIsSuppressedExplicitly_snd _ _ _ _), rfl, rfl, ?_⟩
      simp [listIsSuppressedExplicitly_fst]
    · refine ⟨listIsSuppressedExplicitly_snd _ _ _ _, rfl, rfl, ?_⟩
      simp [listIsSuppressedExplicitly_fst]
  · simp only [hc, if_false, Bool.false_eq_true]
    split
    · exact ⟨listIsSuppressed_snd _ _ _ _, rfl, rfl, by simp⟩
    · exact ⟨rfl, rfl, rfl, by simp⟩

/-- the part of `reportErrG` after the empty-rendering test, as a function of the state `st2` reached so far -/
def tailStep (dfix : Bool) (env : Env) (cfg : GCfg) (st2 : GState) (f : Finding) (m : Msg) (sup : Bool) : GState :=
  let rl := if dfix && !sup && !cfg.useGlobal then listIsSuppressed env true m st2.nomsg else (false, st2.nomsg)
  let st2b : GState := { st2 with nomsg := rl.2 }
  let useSup := dfix && (sup || rl.1)
  if !cfg.emitDuplicates && (if useSup then st2b.supErrorList else st2b.errorList).contains f.text then st2b
  else
    let st3 : GState :=
      if cfg.emitDuplicates then st2b
      else if useSup then { st2b with supErrorList := f.text :: st2b.supErrorList }
      else { st2b with errorList := f.text :: st2b.errorList }
    if sup then st3
    else
      let st5 := exitStep env st3 m
      { st5 with out := st5.out ++ [{ f := f, remark := remarkFor cfg f }] }

theorem tailStep_spec (dfix : Bool) (env : Env) (cfg : GCfg) (st2 : GState) (f : Finding) (sup us : Bool)
    (nomsg : List Suppr) (hn : FlagEq st2.nomsg nomsg)
    (hus : us = (dfix && (sup || (!cfg.useGlobal && anyMatch env true (toMsg env cfg f) nomsg)))) :
    FlagEq (tailStep dfix env cfg st2 f (toMsg env cfg f) sup).nomsg nomsg ∧
    (tailStep dfix env cfg st2 f (toMsg env cfg f) sup).out = st2.out ++
      (if (!cfg.emitDuplicates && (Filters.sel (st2.errorList, st2.supErrorList) us).contains f.text) || sup then []
       else [{ f := f, remark := remarkFor cfg f }]) ∧
    ((tailStep dfix env cfg st2 f (toMsg env cfg f) sup).errorList,
     (tailStep dfix env cfg st2 f (toMsg env cfg f) sup).supErrorList) =
      (if cfg.emitDuplicates || (Filters.sel (st2.errorList, st2.supErrorList) us).contains f.text
       then (st2.errorList, st2.supErrorList) else Filters.ins (st2.errorList, st2.supErrorList) us f.text) := by
  -- value of `useSup`
  have hrl1 : (dfix && (sup || (if dfix && !sup && !cfg.useGlobal then listIsSuppressed env true (toMsg env cfg f) st2.nomsg
      else (false, st2.nomsg)).1)) = us := by
    rw [hus]
    by_cases h : (dfix && !sup && !cfg.useGlobal) = true
    · simp only [h, if_true, listIsSuppressed_fst, anyMatch_congr env true _ hn]
      simp only [Bool.and_eq_true, Bool.not_eq_true'] at h
      simp [h.1.1, h.1.2, h.2]
    · simp only [h, if_false, Bool.false_eq_true]
      revert h
      generalize anyMatch env true (toMsg env cfg f) nomsg = x
      cases dfix <;> cases sup <;> cases cfg.useGlobal <;> cases x <;> simp
  have hrl2 : FlagEq (if dfix && !sup && !cfg.useGlobal then listIsSuppressed env true (toMsg env cfg f) st2.nomsg
      else (false, st2.nomsg)).2 nomsg := by
    split
    · exact FlagEq.trans (listIsSuppressed_snd _ _ _ _) hn
    · exact hn
  have X := fun st => exitStep_spec env st (toMsg env cfg f)
  unfold tailStep
  dsimp only
  rw [hrl1]
  generalize (if dfix && !sup && !cfg.useGlobal then listIsSuppressed env true (toMsg env cfg f) st2.nomsg
      else (false, st2.nomsg)).2 = nm at hrl2 ⊢
  cases us <;> cases he : cfg.emitDuplicates <;> cases hs : sup <;>
    simp only [Filters.sel, Filters.ins, Bool.not_true, Bool.not_false, Bool.false_and, Bool.true_and,
      Bool.false_eq_true, if_true, if_false, Bool.false_or, Bool.true_or, Bool.or_false, Bool.or_true]
  all_goals first
    | (split
       · exact ⟨hrl2, by simp, rfl⟩
       · first
         | exact ⟨hrl2, by simp, rfl⟩
         | exact ⟨FlagEq.trans (X _).1 hrl2, by simp [(X _).2.1], by simp [(X _).2.2.1, (X _).2.2.2]⟩)
    | exact ⟨hrl2, by simp, rfl⟩
    | exact ⟨hrl2, by simp, trivial⟩
    | exact ⟨FlagEq.trans (X _).1 hrl2, by simp [(X _).2.1], by simp [(X _).2.2.1, (X _).2.2.2]⟩

theorem reportErrG_eq (dfix : Bool) (env : Env) (cfg : GCfg) (st : GState) (f : Finding) :
    reportErrG dfix env cfg st f =
      if f.internal then { st with out := st.out ++ [{ f := f }] }
      else if !f.libReports then st
      else
        let st2 := safetyStep env cfg
          { st with nomsg := (listIsSuppressed env cfg.useGlobal (toMsg env cfg f) st.nomsg).2 } f (toMsg env cfg f)
          (listIsSuppressed env cfg.useGlobal (toMsg env cfg f) st.nomsg).1
        if f.text.isEmpty then st2
        else tailStep dfix env cfg st2 f (toMsg env cfg f) (listIsSuppressed env cfg.useGlobal (toMsg env cfg f) st.nomsg).1 := rfl

theorem reportErrG_spec (dfix : Bool) (env : Env) (cfg : GCfg) (st : GState) (f : Finding) :
    FlagEq (reportErrG dfix env cfg st f).nomsg st.nomsg ∧
    (reportErrG dfix env cfg st f).out = st.out ++ stepOut dfix env cfg st.nomsg (st.errorList, st.supErrorList) f ∧
    ((reportErrG dfix env cfg st f).errorList, (reportErrG dfix env cfg st f).supErrorList) =
      stepEl dfix env cfg st.nomsg (st.errorList, st.supErrorList) f := by
  rw [reportErrG_eq]
  unfold stepOut stepEl
  by_cases hi : f.internal = true
  · simp [hi, FlagEq]
  · by_cases hl : f.libReports = true
    · simp only [hi, hl, Bool.false_eq_true, if_false, Bool.not_true, Bool.false_or]
      have hr1 : (listIsSuppressed env cfg.useGlobal (toMsg env cfg f) st.nomsg).1 = supB env cfg st.nomsg f := by
        rw [listIsSuppressed_fst]; rfl
      have hr2 : FlagEq (listIsSuppressed env cfg.useGlobal (toMsg env cfg f) st.nomsg).2 st.nomsg :=
        listIsSuppressed_snd _ _ _ _
      obtain ⟨s1, s2, s2', s3⟩ := safetyStep_spec env cfg
        { st with nomsg := (listIsSuppressed env cfg.useGlobal (toMsg env cfg f) st.nomsg).2 } f (toMsg env cfg f)
        (listIsSuppressed env cfg.useGlobal (toMsg env cfg f) st.nomsg).1
      have s1' := FlagEq.trans s1 hr2
      have hex : anyExplicit env cfg.useGlobal (toMsg env cfg f)
          (listIsSuppressed env cfg.useGlobal (toMsg env cfg f) st.nomsg).2 = explB env cfg st.nomsg f :=
        anyExplicit_congr env _ _ hr2
      dsimp only at s1' s2 s2' s3 ⊢
      generalize safetyStep env cfg
        { st with nomsg := (listIsSuppressed env cfg.useGlobal (toMsg env cfg f) st.nomsg).2 } f (toMsg env cfg f)
        (listIsSuppressed env cfg.useGlobal (toMsg env cfg f) st.nomsg).1 = st2 at s1' s2 s2' s3 ⊢
      rw [hex, hr1] at s3
      rw [hr1]
      by_cases ht : f.text.isEmpty = true
      · simp [ht, s1', s2, s2', s3]
      · simp only [ht, if_false, Bool.false_eq_true, Bool.false_or]
        obtain ⟨t1, t2, t3⟩ := tailStep_spec dfix env cfg st2 f (supB env cfg st.nomsg f)
          (useSupB dfix env cfg st.nomsg f) st.nomsg s1' (by unfold useSupB laterB; rfl)
        rw [s2, s2'] at t2 t3
        refine ⟨t1, ?_, ?_⟩
        · rw [t2, s3, List.append_assoc]
        · rw [t3]
    · simp [hi, hl, FlagEq]

/-- output of the whole run as a function of the (flag-erased) `nomsg` list -/
def outAcc (dfix : Bool) (env : Env) (cfg : GCfg) (nomsg : List Suppr) : Filters → List Finding → List Out
  | _, [] => []
  | ls, f :: r => stepOut dfix env cfg nomsg ls f ++ outAcc dfix env cfg nomsg (stepEl dfix env cfg nomsg ls f) r

theorem foldl_out (dfix : Bool) (env : Env) (cfg : GCfg) (nomsg : List Suppr) : ∀ (fs : List Finding) (st : GState),
    FlagEq st.nomsg nomsg →
    (fs.foldl (reportErrG dfix env cfg) st).out =
      st.out ++ outAcc dfix env cfg nomsg (st.errorList, st.supErrorList) fs := by
  intro fs
  induction fs with
  | nil => intro st _; simp [outAcc]
  | cons f r ih =>
    intro st h
    obtain ⟨h1, h2, h3⟩ := reportErrG_spec dfix env cfg st f
    simp only [List.foldl_cons, outAcc]
    rw [ih _ (FlagEq.trans h1 h), h2, h3, stepOut_congr dfix env cfg h, stepEl_congr dfix env cfg h, List.append_assoc]

theorem gateG_out (dfix : Bool) (env : Env) (cfg : GCfg) (nomsg nofail : List Suppr) (fs : List Finding) :
    (gateG dfix env cfg nomsg nofail fs).out = outAcc dfix env cfg nomsg ([], []) fs := by
  unfold gateG
  rw [foldl_out dfix env cfg nomsg fs _ (FlagEq.refl _)]
  rfl

/-- a finding is forwarded unaltered -/
def Reported (out : List Out) (f : Finding) : Prop := ∃ o ∈ out, o.f = f ∧ o.asInternal = false

/-- distinct findings render to distinct texts -/
def TextInj (fs : List Finding) : Prop := ∀ f ∈ fs, ∀ g ∈ fs, f.text = g.text → f = g

instance (fs : List Finding) : Decidable (TextInj fs) := by unfold TextInj; infer_instance

/-- the three ways through the gate: internal messages; unsuppressed findings with a non-empty rendering;
    (safety mode) suppressed critical errors that no suppression names explicitly -/
def passes (env : Env) (cfg : GCfg) (nomsg : List Suppr) (f : Finding) : Bool :=
  f.internal ||
  (f.libReports &&
    ((!supB env cfg nomsg f && !f.text.isEmpty) ||
     (supB env cfg nomsg f && cfg.safety && f.critical && !explB env cfg nomsg f)))

/-- like `passes`, additionally knowing the content `el` of the duplicate filter the finding uses -/
def passesEl (env : Env) (cfg : GCfg) (nomsg : List Suppr) (el : List Str) (f : Finding) : Bool :=
  f.internal ||
  (f.libReports &&
    ((!supB env cfg nomsg f && !f.text.isEmpty && (cfg.emitDuplicates || !el.contains f.text)) ||
     (supB env cfg nomsg f && cfg.safety && f.critical && !explB env cfg nomsg f)))

/-- the filter a finding uses -/
def relOf (dfix : Bool) (env : Env) (cfg : GCfg) (nomsg : List Suppr) (ls : Filters) (f : Finding) : List Str :=
  ls.sel (useSupB dfix env cfg nomsg f)

theorem reported_nil (f : Finding) : Reported [] f ↔ False := by simp [Reported]

theorem reported_singleton (o : Out) (f : Finding) : Reported [o] f ↔ (o.f = f ∧ o.asInternal = false) := by
  simp [Reported]

theorem reported_stepOut (dfix : Bool) (env : Env) (cfg : GCfg) (nomsg : List Suppr) (ls : Filters) (g f : Finding) :
    Reported (stepOut dfix env cfg nomsg ls g) f ↔
      g = f ∧ passesEl env cfg nomsg (relOf dfix env cfg nomsg ls g) g = true := by
  unfold stepOut passesEl relOf
  by_cases hi : g.internal = true
  · simp [hi, reported_singleton]
  · by_cases hl : g.libReports = true
    · simp only [hi, hl, Bool.false_eq_true, if_false, Bool.not_true, Bool.false_or, Bool.true_and]
      generalize supB env cfg nomsg g = a1
      generalize cfg.safety = a2
      generalize g.critical = a3
      generalize explB env cfg nomsg g = a4
      generalize g.text.isEmpty = a5
      generalize cfg.emitDuplicates = a6
      generalize (ls.sel (useSupB dfix env cfg nomsg g)).contains g.text = a7
      cases a1 <;> cases a2 <;> cases a3 <;> cases a4 <;> cases a5 <;> cases a6 <;> cases a7 <;>
        simp [reported_singleton, reported_nil]
    · simp [hi, hl, reported_nil]

theorem reported_append (a b : List Out) (f : Finding) : Reported (a ++ b) f ↔ Reported a f ∨ Reported b f := by
  unfold Reported
  simp only [List.mem_append]
  constructor
  · rintro ⟨o, ho | ho, h⟩
    · exact Or.inl ⟨o, ho, h⟩
    · exact Or.inr ⟨o, ho, h⟩
  · rintro (⟨o, ho, h⟩ | ⟨o, ho, h⟩)
    · exact ⟨o, Or.inl ho, h⟩
    · exact ⟨o, Or.inr ho, h⟩

theorem sel_ins (ls : Filters) (b c : Bool) (t x : Str) :
    x ∈ (ls.ins b t).sel c ↔ x ∈ ls.sel c ∨ (c = b ∧ x = t) := by
  cases b <;> cases c <;> simp [Filters.ins, Filters.sel] <;> exact Or.comm

theorem stepEl_sub (dfix : Bool) (env : Env) (cfg : GCfg) (nomsg : List Suppr) (ls : Filters) (f : Finding) (c : Bool)
    (t : Str) (h : t ∈ ls.sel c) : t ∈ (stepEl dfix env cfg nomsg ls f).sel c := by
  unfold stepEl
  split
  · exact h
  · exact (sel_ins _ _ _ _ _).2 (Or.inl h)

/-- a rendering enters a filter only in a step whose finding is processed on the normal path, uses that filter and
    was not yet in it -/
def Inserts (dfix : Bool) (env : Env) (cfg : GCfg) (nomsg : List Suppr) (ls : Filters) (g : Finding) (c : Bool) : Prop :=
  g.internal = false ∧ g.libReports = true ∧ g.text.isEmpty = false ∧ cfg.emitDuplicates = false ∧
  useSupB dfix env cfg nomsg g = c ∧ (ls.sel c).contains g.text = false

theorem stepEl_new (dfix : Bool) (env : Env) (cfg : GCfg) (nomsg : List Suppr) (ls : Filters) (g : Finding) (c : Bool)
    (t : Str) (h : t ∈ (stepEl dfix env cfg nomsg ls g).sel c) :
    t ∈ ls.sel c ∨ (t = g.text ∧ Inserts dfix env cfg nomsg ls g c) := by
  unfold stepEl at h
  split at h
  · exact Or.inl h
  · rename_i hc
    simp only [Bool.or_eq_true, Bool.not_eq_true', not_or, Bool.not_eq_true] at hc
    rcases (sel_ins _ _ _ _ _).1 h with h | ⟨hcb, ht⟩
    · exact Or.inl h
    · right
      refine ⟨ht, hc.1.1.1.1, by simpa using hc.1.1.1.2, hc.1.1.2, hc.1.2, hcb.symm, ?_⟩
      rw [hcb]; exact hc.2

/-- `passesEl` only gets harder when the filter grows -/
theorem passesEl_mono (env : Env) (cfg : GCfg) (nomsg : List Suppr) (el el' : List Str) (f : Finding)
    (hsub : ∀ t ∈ el, t ∈ el') (h : passesEl env cfg nomsg el' f = true) : passesEl env cfg nomsg el f = true := by
  unfold passesEl at h ⊢
  by_cases hc : el.contains f.text = true
  · have hc' : f.text ∈ el := by simpa using hc
    have hc'' : f.text ∈ el' := hsub _ hc'
    simpa [hc', hc''] using h
  · have hc' : f.text ∉ el := by simpa using hc
    revert h
    simp only [hc', List.contains_iff_mem, decide_false, Bool.not_false, Bool.or_true, Bool.and_true,
      List.elem_eq_mem]
    generalize decide (f.text ∈ el') = a7
    generalize f.internal = b1
    generalize f.libReports = b2
    generalize supB env cfg nomsg f = a1
    generalize cfg.safety = a2
    generalize f.critical = a3
    generalize explB env cfg nomsg f = a4
    generalize f.text.isEmpty = a5
    generalize cfg.emitDuplicates = a6
    cases b1 <;> cases b2 <;> cases a1 <;> cases a2 <;> cases a3 <;> cases a4 <;> cases a5 <;> cases a6 <;> cases a7 <;> simp

/-- if the finding's rendering is not in the filter, the filter does not matter -/
theorem passesEl_free (env : Env) (cfg : GCfg) (nomsg : List Suppr) (el el' : List Str) (f : Finding)
    (hn : f.text ∉ el') (h : passesEl env cfg nomsg el f = true) : passesEl env cfg nomsg el' f = true := by
  unfold passesEl at h ⊢
  revert h
  simp only [hn, List.contains_iff_mem, decide_false, Bool.not_false, Bool.or_true, Bool.and_true, List.elem_eq_mem]
  generalize decide (f.text ∈ el) = a7
  generalize f.internal = b1
  generalize f.libReports = b2
  generalize supB env cfg nomsg f = a1
  generalize cfg.safety = a2
  generalize f.critical = a3
  generalize explB env cfg nomsg f = a4
  generalize f.text.isEmpty = a5
  generalize cfg.emitDuplicates = a6
  cases b1 <;> cases b2 <;> cases a1 <;> cases a2 <;> cases a3 <;> cases a4 <;> cases a5 <;> cases a6 <;> cases a7 <;> simp

/-- soundness of the gate (no hypothesis): whatever is forwarded unaltered is a finding of the run that passes -/
theorem reported_outAcc_sound (dfix : Bool) (env : Env) (cfg : GCfg) (nomsg : List Suppr) :
    ∀ (fs : List Finding) (ls : Filters) (f : Finding),
    Reported (outAcc dfix env cfg nomsg ls fs) f →
      f ∈ fs ∧ passesEl env cfg nomsg (relOf dfix env cfg nomsg ls f) f = true := by
  intro fs
  induction fs with
  | nil => intro ls f h; simp [outAcc, Reported] at h
  | cons g r ih =>
    intro ls f h
    simp only [outAcc, reported_append, reported_stepOut] at h
    rcases h with ⟨rfl, h⟩ | h
    · exact ⟨List.mem_cons_self, h⟩
    · obtain ⟨hm, hp⟩ := ih _ f h
      exact ⟨List.mem_cons_of_mem _ hm,
        passesEl_mono env cfg nomsg _ _ f (fun t ht => stepEl_sub dfix env cfg nomsg ls g _ t ht) hp⟩

/-- the filter does not block `f` after the step unless the step itself inserted `f`'s rendering into `f`'s filter -/
theorem passesEl_step (dfix : Bool) (env : Env) (cfg : GCfg) (nomsg : List Suppr) (ls : Filters) (g f : Finding)
    (h : passesEl env cfg nomsg (relOf dfix env cfg nomsg ls f) f = true)
    (hn : ¬ (f.text = g.text ∧ Inserts dfix env cfg nomsg ls g (useSupB dfix env cfg nomsg f))) :
    passesEl env cfg nomsg (relOf dfix env cfg nomsg (stepEl dfix env cfg nomsg ls g) f) f = true := by
  unfold relOf at h ⊢
  by_cases hc : f.text ∈ (stepEl dfix env cfg nomsg ls g).sel (useSupB dfix env cfg nomsg f)
  · rcases stepEl_new dfix env cfg nomsg ls g _ _ hc with hc' | hc'
    · unfold passesEl at h ⊢
      simpa [hc, hc'] using h
    · exact absurd hc' hn
  · exact passesEl_free env cfg nomsg _ _ f hc h

/-- completeness when distinct findings have distinct renderings (or duplicates are emitted) -/
theorem reported_outAcc_complete (dfix : Bool) (env : Env) (cfg : GCfg) (nomsg : List Suppr) :
    ∀ (fs : List Finding) (ls : Filters), (cfg.emitDuplicates = true ∨ TextInj fs) →
    ∀ f, f ∈ fs → passesEl env cfg nomsg (relOf dfix env cfg nomsg ls f) f = true →
      Reported (outAcc dfix env cfg nomsg ls fs) f := by
  intro fs
  induction fs with
  | nil => intro ls _ f hm; cases hm
  | cons g r ih =>
    intro ls hd f hm hp
    have hd' : cfg.emitDuplicates = true ∨ TextInj r := by
      rcases hd with hd | hd
      · exact Or.inl hd
      · exact Or.inr (fun a ha b hb => hd a (List.mem_cons_of_mem _ ha) b (List.mem_cons_of_mem _ hb))
    simp only [outAcc, reported_append, reported_stepOut]
    by_cases hfg : f = g
    · exact Or.inl ⟨hfg.symm, hfg ▸ hp⟩
    · have hmr : f ∈ r := by
        rcases List.mem_cons.1 hm with h | h
        · exact absurd h hfg
        · exact h
      right
      apply ih _ hd' f hmr
      apply passesEl_step dfix env cfg nomsg ls g f hp
      rintro ⟨ht, -, -, -, he, -, -⟩
      rcases hd with hd | hd
      · rw [hd] at he; cases he
      · exact hfg (hd f hm g List.mem_cons_self ht)

/-- completeness on renderings for the current duplicate filters (no hypothesis on the renderings): the rendering of
    every passing finding that the full suppression list does not suppress either is forwarded, carried by a passing
    finding of the run -/
theorem reported_outAcc_texts (env : Env) (cfg : GCfg) (nomsg : List Suppr) :
    ∀ (fs : List Finding) (ls : Filters) (f : Finding), f ∈ fs →
    (!cfg.useGlobal && laterB env cfg nomsg f) = false →
    passesEl env cfg nomsg (relOf true env cfg nomsg ls f) f = true →
    ∃ g ∈ fs, g.text = f.text ∧ Reported (outAcc true env cfg nomsg ls fs) g := by
  intro fs
  induction fs with
  | nil => intro ls f hm; cases hm
  | cons h r ih =>
    intro ls f hm hnl hp
    by_cases hfh : f = h
    · subst hfh
      refine ⟨f, List.mem_cons_self, rfl, ?_⟩
      simp only [outAcc, reported_append, reported_stepOut]
      exact Or.inl (by simpa using hp)
    · have hmr : f ∈ r := by
        rcases List.mem_cons.1 hm with h' | h'
        · exact absurd h' hfh
        · exact h'
      by_cases hblock : (f.text = h.text ∧ Inserts true env cfg nomsg ls h (useSupB true env cfg nomsg f))
      · obtain ⟨ht, hi, hl, hte, he, hus, hc⟩ := hblock
        by_cases hsf : supB env cfg nomsg f = true
        · -- `f` passes on the safety path: the filters do not matter, continue with the tail
          have hp' : passesEl env cfg nomsg (relOf true env cfg nomsg (stepEl true env cfg nomsg ls h) f) f = true := by
            unfold passesEl at hp ⊢
            revert hp
            simp only [hsf, Bool.not_true, Bool.false_and, Bool.false_or, Bool.true_and]
            exact id
          obtain ⟨g, hg, hgt, hgr⟩ := ih _ f hmr hnl hp'
          refine ⟨g, List.mem_cons_of_mem _ hg, hgt, ?_⟩
          simp only [outAcc, reported_append]
          exact Or.inr hgr
        · -- `f` uses `mErrorList`, so does `h`, which is therefore not suppressed and carries the rendering
          have hsf' : supB env cfg nomsg f = false := by simpa using hsf
          have huf : useSupB true env cfg nomsg f = false := by
            unfold useSupB; simp [hsf', hnl]
          rw [huf] at hus hc
          have hsh : supB env cfg nomsg h = false := by
            unfold useSupB at hus
            simp only [Bool.true_and, Bool.or_eq_false_iff] at hus
            exact hus.1
          refine ⟨h, List.mem_cons_self, ht.symm, ?_⟩
          simp only [outAcc, reported_append, reported_stepOut]
          left
          have hnm : h.text ∉ ls.sel false := by simpa using hc
          unfold passesEl relOf
          rw [hus]
          simp [hi, hl, hsh, hte, hnm]
      · obtain ⟨g, hg, hgt, hgr⟩ := ih _ f hmr hnl (passesEl_step true env cfg nomsg ls h f hp hblock)
        refine ⟨g, List.mem_cons_of_mem _ hg, hgt, ?_⟩
        simp only [outAcc, reported_append]
        exact Or.inr hgr

theorem passesEl_nil (dfix : Bool) (env : Env) (cfg : GCfg) (nomsg : List Suppr) (f : Finding) :
    passesEl env cfg nomsg (relOf dfix env cfg nomsg ([], []) f) f = passes env cfg nomsg f := by
  unfold passesEl passes relOf Filters.sel
  cases useSupB dfix env cfg nomsg f <;> simp

/-! ### the executor's gate and the composition worker ∘ executor -/

/-- the finding as the executor sees it: no location macros -/
def toMsgE (env : Env) (cfg : GCfg) (f : Finding) : Msg := toMsg env { cfg with locMacros := [] } f

theorem toMsgE_eq (env : Env) (cfg : GCfg) (f : Finding) :
    toMsgE env cfg f = { toMsg env cfg f with macroNames := [] } := by
  unfold toMsgE toMsg
  cases f.stack.getLast? with
  | none => rfl
  | some p => rfl

/-- would the executor's `nomsg.isSuppressed(msg, {})` suppress the finding? -/
def laterE (env : Env) (cfg : GCfg) (nomsg : List Suppr) (f : Finding) : Bool :=
  anyMatch env true (toMsgE env cfg f) nomsg

def eKeep (env : Env) (cfg : GCfg) (nomsg : List Suppr) (el : List Str) (o : Out) : Bool :=
  o.f.internal || o.asInternal ||
    (!laterE env cfg nomsg o.f && !o.f.text.isEmpty && (cfg.emitDuplicates || !el.contains o.f.text))

def eEl (env : Env) (cfg : GCfg) (nomsg : List Suppr) (el : List Str) (o : Out) : List Str :=
  if o.f.internal || o.asInternal || laterE env cfg nomsg o.f || o.f.text.isEmpty || cfg.emitDuplicates ||
      el.contains o.f.text then el
  else o.f.text :: el

theorem anyMatch_nil_of_isEmpty (env : Env) (g : Bool) (m : Msg) (l : List Suppr) (h : l.isEmpty = true) :
    anyMatch env g m l = false := by
  have : l = [] := by simpa using h
  subst this; rfl

theorem hasToLog_spec (env : Env) (cfg : GCfg) (nomsg : List Suppr) (st : EState) (o : Out)
    (hn : FlagEq st.nomsg nomsg) :
    (hasToLog env cfg st o).1 = eKeep env cfg nomsg st.errorList o ∧
    FlagEq (hasToLog env cfg st o).2.nomsg nomsg ∧
    (hasToLog env cfg st o).2.errorList = eEl env cfg nomsg st.errorList o ∧
    (hasToLog env cfg st o).2.kept = st.kept := by
  by_cases hi : (o.f.internal || o.asInternal) = true
  · have h1 : hasToLog env cfg st o = (true, st) := by unfold hasToLog; rw [if_pos hi]
    rw [h1]
    unfold eKeep eEl
    refine ⟨?_, hn, ?_, rfl⟩
    · simp only [hi, Bool.true_or]
    · simp only [hi, Bool.true_or, if_true]
  · unfold hasToLog eKeep eEl
    simp only [hi, if_false, Bool.false_eq_true, Bool.false_or]
    have hr1 : (if st.nomsg.isEmpty then (false, st.nomsg)
        else listIsSuppressed env true (toMsg env { cfg with locMacros := [] } o.f) st.nomsg).1 = laterE env cfg nomsg o.f := by
      unfold laterE toMsgE
      rw [← anyMatch_congr env true _ hn]
      split
      · rename_i he; rw [anyMatch_nil_of_isEmpty env true _ _ he]
      · rw [listIsSuppressed_fst]
    have hr2 : FlagEq (if st.nomsg.isEmpty then (false, st.nomsg)
        else listIsSuppressed env true (toMsg env { cfg with locMacros := [] } o.f) st.nomsg).2 nomsg := by
      split
      · exact hn
      · exact FlagEq.trans (listIsSuppressed_snd _ _ _ _) hn
    rw [hr1]
    generalize (if st.nomsg.isEmpty then (false, st.nomsg)
        else listIsSuppressed env true (toMsg env { cfg with locMacros := [] } o.f) st.nomsg).2 = nm at hr2 ⊢
    cases laterE env cfg nomsg o.f <;> cases o.f.text.isEmpty <;> cases cfg.emitDuplicates <;>
      cases hc : st.errorList.contains o.f.text <;>
      simp only [hc, if_true, if_false, Bool.false_eq_true, Bool.not_true, Bool.not_false, Bool.true_and, Bool.false_and,
        Bool.and_false, Bool.and_true, Bool.or_true, Bool.or_false, Bool.true_or, Bool.false_or] <;>
      first
        | exact ⟨rfl, hr2, rfl, rfl⟩
        | exact ⟨trivial, hr2, trivial, trivial⟩
        | (refine ⟨?_, hr2, ?_, ?_⟩ <;> first | rfl | trivial)

/-- what the executor keeps, as a function of the (flag-erased) list -/
def eAcc (env : Env) (cfg : GCfg) (nomsg : List Suppr) : List Str → List Out → List Out
  | _, [] => []
  | el, o :: r => (if eKeep env cfg nomsg el o then [o] else []) ++ eAcc env cfg nomsg (eEl env cfg nomsg el o) r

theorem execFold_kept (env : Env) (cfg : GCfg) (nomsg : List Suppr) : ∀ (outs : List Out) (st : EState),
    FlagEq st.nomsg nomsg →
    (outs.foldl (execStep env cfg) st).kept = st.kept ++ eAcc env cfg nomsg st.errorList outs := by
  intro outs
  induction outs with
  | nil => intro st _; simp [eAcc]
  | cons o r ih =>
    intro st hn
    obtain ⟨h1, h2, h3, h4⟩ := hasToLog_spec env cfg nomsg st o hn
    simp only [List.foldl_cons, eAcc]
    have hst : FlagEq (execStep env cfg st o).nomsg nomsg ∧
        (execStep env cfg st o).errorList = eEl env cfg nomsg st.errorList o ∧
        (execStep env cfg st o).kept = st.kept ++ (if eKeep env cfg nomsg st.errorList o then [o] else []) := by
      unfold execStep
      by_cases hk : (hasToLog env cfg st o).1 = true
      · simp only [hk, if_true]
        rw [h1] at hk
        exact ⟨h2, h3, by simp [hk, h4]⟩
      · simp only [hk, if_false, Bool.false_eq_true]
        rw [h1] at hk
        exact ⟨h2, h3, by simp [hk, h4]⟩
    rw [ih _ hst.1, hst.2.1, hst.2.2, List.append_assoc]

theorem execFilter_kept (env : Env) (cfg : GCfg) (nomsg nomsg' : List Suppr) (outs : List Out) (hn : FlagEq nomsg' nomsg) :
    (execFilter env cfg nomsg' outs).kept = eAcc env cfg nomsg [] outs := by
  unfold execFilter
  rw [execFold_kept env cfg nomsg outs _ hn]
  rfl

/-- the executor-side condition for a forwarded, unaltered finding -/
def ePass (env : Env) (cfg : GCfg) (nomsg : List Suppr) (el : List Str) (f : Finding) : Bool :=
  f.internal || (!laterE env cfg nomsg f && !f.text.isEmpty && (cfg.emitDuplicates || !el.contains f.text))

theorem eEl_sub (env : Env) (cfg : GCfg) (nomsg : List Suppr) (el : List Str) (o : Out) (t : Str) (h : t ∈ el) :
    t ∈ eEl env cfg nomsg el o := by
  unfold eEl; split
  · exact h
  · exact List.mem_cons_of_mem _ h

theorem eEl_new (env : Env) (cfg : GCfg) (nomsg : List Suppr) (el : List Str) (o : Out) (t : Str)
    (h : t ∈ eEl env cfg nomsg el o) : t ∈ el ∨ (t = o.f.text ∧ o.asInternal = false ∧ cfg.emitDuplicates = false) := by
  unfold eEl at h
  split at h
  · exact Or.inl h
  · rename_i hc
    simp only [Bool.or_eq_true, not_or, Bool.not_eq_true] at hc
    rcases List.mem_cons.1 h with h | h
    · exact Or.inr ⟨h, hc.1.1.1.1.2, hc.1.2⟩
    · exact Or.inl h

theorem ePass_mono (env : Env) (cfg : GCfg) (nomsg : List Suppr) (el el' : List Str) (f : Finding)
    (hsub : ∀ t ∈ el, t ∈ el') (h : ePass env cfg nomsg el' f = true) : ePass env cfg nomsg el f = true := by
  unfold ePass at h ⊢
  by_cases hc : f.text ∈ el
  · have := hsub _ hc
    simpa [hc, this] using h
  · revert h
    simp only [hc, List.contains_iff_mem, decide_false, Bool.not_false, Bool.or_true, Bool.and_true, List.elem_eq_mem]
    cases f.internal <;> cases laterE env cfg nomsg f <;> cases f.text.isEmpty <;> simp

theorem ePass_free (env : Env) (cfg : GCfg) (nomsg : List Suppr) (el el' : List Str) (f : Finding)
    (hn : f.text ∉ el') (h : ePass env cfg nomsg el f = true) : ePass env cfg nomsg el' f = true := by
  unfold ePass at h ⊢
  revert h
  simp only [hn, List.contains_iff_mem, decide_false, Bool.not_false, Bool.or_true, Bool.and_true, List.elem_eq_mem]
  cases f.internal <;> cases laterE env cfg nomsg f <;> cases f.text.isEmpty <;> simp

theorem reported_keep (env : Env) (cfg : GCfg) (nomsg : List Suppr) (el : List Str) (o : Out) (f : Finding) :
    Reported (if eKeep env cfg nomsg el o then [o] else []) f ↔
      (o.f = f ∧ o.asInternal = false ∧ ePass env cfg nomsg el f = true) := by
  unfold eKeep ePass
  by_cases hf : o.f = f
  · subst hf
    cases ha : o.asInternal <;> cases hi : o.f.internal <;> cases hl : laterE env cfg nomsg o.f <;>
      cases ht : o.f.text.isEmpty <;> cases he : cfg.emitDuplicates <;> cases hc : el.contains o.f.text <;>
      simp [reported_singleton, reported_nil, ha]
  · split <;> simp [reported_singleton, reported_nil, hf]

/-- renderings identify findings among the forwarded messages -/
def OutInj (outs : List Out) : Prop := ∀ o ∈ outs, ∀ o' ∈ outs, o.f.text = o'.f.text → o.f = o'.f

theorem reported_eAcc (env : Env) (cfg : GCfg) (nomsg : List Suppr) : ∀ (outs : List Out) (el : List Str),
    (cfg.emitDuplicates = true ∨ OutInj outs) →
    ∀ f, Reported (eAcc env cfg nomsg el outs) f ↔ (Reported outs f ∧ ePass env cfg nomsg el f = true) := by
  intro outs
  induction outs with
  | nil => intro el _ f; simp [eAcc, Reported]
  | cons o r ih =>
    intro el hd f
    have hd' : cfg.emitDuplicates = true ∨ OutInj r := by
      rcases hd with hd | hd
      · exact Or.inl hd
      · exact Or.inr (fun a ha b hb => hd a (List.mem_cons_of_mem _ ha) b (List.mem_cons_of_mem _ hb))
    have hcons : Reported (o :: r) f ↔ ((o.f = f ∧ o.asInternal = false) ∨ Reported r f) := by
      have := reported_append [o] r f
      simp only [List.singleton_append] at this
      rw [this, reported_singleton]
    simp only [eAcc, reported_append, reported_keep, ih _ hd' f, hcons]
    constructor
    · rintro (⟨h1, h2, h3⟩ | ⟨h1, h2⟩)
      · exact ⟨Or.inl ⟨h1, h2⟩, h3⟩
      · exact ⟨Or.inr h1, ePass_mono env cfg nomsg el _ f (fun t ht => eEl_sub env cfg nomsg el o t ht) h2⟩
    · rintro ⟨h1 | h1, h2⟩
      · exact Or.inl ⟨h1.1, h1.2, h2⟩
      · by_cases ho : o.f = f ∧ o.asInternal = false
        · exact Or.inl ⟨ho.1, ho.2, h2⟩
        · right
          refine ⟨h1, ?_⟩
          by_cases hc : f.text ∈ eEl env cfg nomsg el o
          · rcases eEl_new env cfg nomsg el o _ hc with hc' | ⟨ht, hai, he⟩
            · unfold ePass at h2 ⊢
              simpa [hc, hc'] using h2
            · rcases hd with hd | hd
              · rw [hd] at he; cases he
              · obtain ⟨o', ho', hf', _⟩ := h1
                have : o.f = o'.f := hd o List.mem_cons_self o' (List.mem_cons_of_mem _ ho') (by rw [← ht, hf'])
                exact absurd ⟨this.trans hf', hai⟩ ho
          · exact ePass_free env cfg nomsg _ _ f hc h2

/-- everything a logger forwards is a finding of the run -/
theorem outAcc_mem (dfix : Bool) (env : Env) (cfg : GCfg) (nomsg : List Suppr) : ∀ (fs : List Finding) (ls : Filters),
    ∀ o ∈ outAcc dfix env cfg nomsg ls fs, o.f ∈ fs := by
  intro fs
  induction fs with
  | nil => intro ls o h; simp [outAcc] at h
  | cons g r ih =>
    intro ls o h
    simp only [outAcc, List.mem_append] at h
    rcases h with h | h
    · have : o.f = g := by
        unfold stepOut at h
        split at h
        · simp only [List.mem_singleton] at h; rw [h]
        · split at h
          · cases h
          · simp only [List.mem_append] at h
            rcases h with h | h
            · split at h
              · simp only [List.mem_singleton] at h; rw [h]
              · cases h
            · split at h
              · cases h
              · simp only [List.mem_singleton] at h; rw [h]
      rw [this]; exact List.mem_cons_self
    · exact List.mem_cons_of_mem _ (ih _ o h)

theorem foldl_nomsg (dfix : Bool) (env : Env) (cfg : GCfg) : ∀ (fs : List Finding) (st : GState),
    FlagEq (fs.foldl (reportErrG dfix env cfg) st).nomsg st.nomsg := by
  intro fs
  induction fs with
  | nil => intro st; exact FlagEq.refl _
  | cons f r ih =>
    intro st
    simp only [List.foldl_cons]
    exact FlagEq.trans (ih _) (reportErrG_spec dfix env cfg st f).1

theorem gateG_nomsg (dfix : Bool) (env : Env) (cfg : GCfg) (nomsg nofail : List Suppr) (fs : List Finding) :
    FlagEq (gateG dfix env cfg nomsg nofail fs).nomsg nomsg := by
  unfold gateG
  exact foldl_nomsg dfix env cfg fs _

/-- a non-macro suppression does not look at the macro names -/
theorem isSuppressed_noMacro (env : Env) (s : Suppr) (m : Msg) (hs : s.type ≠ .macro) :
    isSuppressed env s { m with macroNames := [] } = isSuppressed env s m := by
  unfold isSuppressed symbolOk
  simp [hs]

theorem isSuppressed_macro_nil (env : Env) (s : Suppr) (m : Msg) (hs : s.type = .macro) :
    isSuppressed env s { m with macroNames := [] } = .none := by
  unfold isSuppressed
  simp [hs]

theorem considered_mono (m : Msg) (s : Suppr) (h : considered false m s = true) : considered true m s = true := by
  unfold considered at h ⊢
  simp only [Bool.false_or, Bool.and_eq_true] at h
  simp [h.2]

theorem considered_local (g : Bool) (m : Msg) (s : Suppr) (hl : isLocal s = true) :
    considered g m s = considered true m s := by
  unfold considered; simp [hl]

/-- worker (local entries, with macros) or executor (all entries, without macros) ⇔ all entries with macros,
    provided macro suppressions are bound to their file (they always are: they come from inline comments) -/
theorem sup_local_or_later (env : Env) (cfg : GCfg) (nomsg : List Suppr) (f : Finding)
    (hmac : ∀ s ∈ nomsg, s.type = .macro → isLocal s = true) :
    (supB env { cfg with useGlobal := false } nomsg f || laterE env cfg nomsg f) = laterB env cfg nomsg f := by
  apply Bool.eq_iff_iff.2
  unfold supB laterE laterB
  have hm : toMsg env { cfg with useGlobal := false } f = toMsg env cfg f := rfl
  rw [hm, toMsgE_eq]
  simp only [Bool.or_eq_true, anyMatch_iff]
  constructor
  · rintro (⟨s, hs, h1, h2⟩ | ⟨s, hs, h1, h2⟩)
    · exact ⟨s, hs, considered_mono _ _ h1, h2⟩
    · by_cases ht : s.type = .macro
      · rw [isSuppressed_macro_nil env s _ ht] at h2; cases h2
      · rw [isSuppressed_noMacro env s _ ht] at h2
        exact ⟨s, hs, h1, h2⟩
  · rintro ⟨s, hs, h1, h2⟩
    by_cases ht : s.type = .macro
    · left
      refine ⟨s, hs, ?_, h2⟩
      rw [considered_local false _ s (hmac s hs ht)]; exact h1
    · right
      refine ⟨s, hs, h1, ?_⟩
      rw [isSuppressed_noMacro env s _ ht]; exact h2

end Cppcheck.Suppress

import Cppcheck.Model.PPMacro
/-
helper lemmas for C11 / C06 (macros): the ifstates machine against the group semantics, -D / -U, object-like replacement
-/
namespace Cppcheck.PPMacro
open Cppcheck.PPCond

/-! ## conditional inclusion -/

/-- the state of the innermost section `s` agrees with (enclosing group processed, a group of the section already taken) -/
def RelS (a taken : Bool) (s : IfState) : Prop :=
  (a = false → s = .alwaysFalse) ∧ (a = true → taken = false → s = .elseIsTrue) ∧
  (a = true → taken = true → s = .tru ∨ s = .alwaysFalse)

theorem top_cons (s : IfState) (st : IfStack) : top (s :: st) = s := rfl

mutual
theorem items_run : ∀ (its : Items) (st : IfStack) (k : List CLine),
    runC st (its.flat ++ k) = (runC st k).map (its.incl (top st == .tru) ++ ·)
  | .nil, st, k => by simp [Items.flat, Items.incl]
  | .cons i r, st, k => by
    rw [Items.flat, List.append_assoc, item_run i st, items_run r st k]
    cases runC st k <;> simp [Items.incl]
theorem item_run : ∀ (i : Item) (st : IfStack) (k : List CLine),
    runC st (i.flat ++ k) = (runC st k).map (i.incl (top st == .tru) ++ ·)
  | .text n, st, k => by
    simp only [Item.flat, List.cons_append, List.nil_append, runC, Item.incl]
    cases runC st k <;> simp
    split <;> simp
  | .sect c body tail, st, k => by
    simp only [Item.flat, List.cons_append, List.append_assoc, runC]
    have hs : ifOpen st c = (if top st != .tru then IfState.alwaysFalse else if c then .tru else .elseIsTrue) :: st := rfl
    have hr : RelS (top st == .tru) c (if top st != .tru then IfState.alwaysFalse else if c then .tru else .elseIsTrue) := by
      cases h : top st <;> cases c <;> simp [RelS]
    have e : ((if top st != .tru then IfState.alwaysFalse else if c then .tru else .elseIsTrue) == .tru) = ((top st == .tru) && c) := by
      cases h : top st <;> cases c <;> decide
    rw [hs, items_run body _ (tail.flat ++ k), top_cons, e, tail_run tail st _ k (top st == .tru) c hr]
    cases runC st k <;> simp [Item.incl]
theorem tail_run : ∀ (t : Tail) (st : IfStack) (s : IfState) (k : List CLine) (a taken : Bool), RelS a taken s →
    runC (s :: st) (t.flat ++ k) = (runC st k).map (t.incl a taken ++ ·)
  | .endif, st, s, k, a, taken, _ => by
    simp [Tail.flat, runC, Tail.incl]
  | .els body, st, s, k, a, taken, hr => by
    have e : ((if s == .elseIsTrue then IfState.tru else .alwaysFalse) == .tru) = (a && !taken) := by
      obtain ⟨h1, h2, h3⟩ := hr
      cases a <;> cases taken
      · rw [h1 rfl]; decide
      · rw [h1 rfl]; decide
      · rw [h2 rfl rfl]; decide
      · rcases h3 rfl rfl with h | h <;> rw [h] <;> decide
    have e0 : (Tail.els body).flat ++ k = .els :: (body.flat ++ (.endif :: k)) := by simp [Tail.flat]
    rw [e0]
    simp only [runC, List.isEmpty_cons, Bool.false_eq_true, if_false, ifElse]
    rw [items_run body _ (.endif :: k), top_cons, e]
    simp only [runC, List.isEmpty_cons, Bool.false_eq_true, if_false, List.tail_cons]
    cases runC st k <;> simp [Tail.incl]
  | .elif c body tail, st, s, k, a, taken, hr => by
    have hr' : RelS a (taken || c) (if s == .tru then IfState.alwaysFalse else if (s == .elseIsTrue && c) then .tru else s) := by
      obtain ⟨h1, h2, h3⟩ := hr
      cases a <;> cases taken <;> cases c
      · rw [h1 rfl]; simp [RelS]
      · rw [h1 rfl]; simp [RelS]
      · rw [h1 rfl]; simp [RelS]
      · rw [h1 rfl]; simp [RelS]
      · rw [h2 rfl rfl]; simp [RelS]
      · rw [h2 rfl rfl]; simp [RelS]
      · rcases h3 rfl rfl with h | h <;> rw [h] <;> simp [RelS]
      · rcases h3 rfl rfl with h | h <;> rw [h] <;> simp [RelS]
    have e : ((if s == .tru then IfState.alwaysFalse else if (s == .elseIsTrue && c) then .tru else s) == .tru) = (a && !taken && c) := by
      obtain ⟨h1, h2, h3⟩ := hr
      cases a <;> cases taken <;> cases c
      · rw [h1 rfl]; decide
      · rw [h1 rfl]; decide
      · rw [h1 rfl]; decide
      · rw [h1 rfl]; decide
      · rw [h2 rfl rfl]; decide
      · rw [h2 rfl rfl]; decide
      · rcases h3 rfl rfl with h | h <;> rw [h] <;> decide
      · rcases h3 rfl rfl with h | h <;> rw [h] <;> decide
    have e0 : (Tail.elif c body tail).flat ++ k = .elifc c :: (body.flat ++ (tail.flat ++ k)) := by simp [Tail.flat]
    rw [e0]
    simp only [runC, List.isEmpty_cons, Bool.false_eq_true, if_false, ifElif]
    rw [items_run body _ (tail.flat ++ k), top_cons, e, tail_run tail st _ k a (taken || c) hr']
    cases runC st k <;> simp [Tail.incl]
end


/-! ## -D / -U -/

theorem lookup_define_ne {ms : List Macro} {m : Macro} {x : Tok} (h : m.name ≠ x) : lookup (define ms m) x = lookup ms x := by
  unfold lookup define
  have h1 : (m.name == x) = false := by simpa using h
  simp only [List.find?_cons, h1]
  induction ms with
  | nil => rfl
  | cons a r ih =>
    simp only [List.filter_cons]
    by_cases ha : (a.name != m.name) = true
    · simp only [ha, if_true, List.find?_cons]
      cases a.name == x <;> simp [ih]
    · have ha' : a.name = m.name := by simpa using ha
      have : (a.name == x) = false := by rw [ha']; exact h1
      simp [ha, List.find?_cons, this, ih]

theorem lookup_define_self (ms : List Macro) (m : Macro) : lookup (define ms m) m.name = some m := by
  simp [lookup, define]

theorem lookup_undefine_none {ms : List Macro} {n x : Tok} (h : lookup ms x = none) : lookup (undefine ms n) x = none := by
  unfold lookup undefine at *
  simp only [List.find?_eq_none] at h ⊢
  intro a ha
  exact h a (List.mem_filter.mp ha).1

theorem lookup_append_single {ms : List Macro} {m : Macro} {x : Tok} (h : m.name ≠ x) : lookup (ms ++ [m]) x = lookup ms x := by
  unfold lookup
  have h1 : (m.name == x) = false := by simpa using h
  simp [List.find?_append, h1]

theorem lookup_append_keep {ms : List Macro} {m : Macro} {x : Tok} (h : (lookup ms x).isSome = true) :
    (lookup (ms ++ [m]) x).isSome = true := by
  unfold lookup at *
  rw [List.find?_append]
  cases hh : List.find? (fun m => m.name == x) ms with
  | none => rw [hh] at h; simp at h
  | some y => simp

/-- the `dui.defines` loop never defines a name of `dui.undefined` -/
theorem initFrom_undef (undefs : List Tok) (x : Tok) (hx : undefs.contains x = true) :
    ∀ (defines : List (List Char)) (ms0 ms : List Macro), entriesOK defines = true → lookup ms0 x = none →
      initFrom undefs ms0 defines = .ok ms → lookup ms x = none := by
  intro defines
  induction defines with
  | nil => intro ms0 ms _ h0 h; simp only [initFrom] at h; injection h with h; subst h; exact h0
  | cons d r ih =>
    intro ms0 ms hok h0 h
    simp only [entriesOK, List.all_cons, Bool.and_eq_true] at hok
    simp only [initFrom] at h
    cases hs : initStep undefs ms0 d with
    | error e => rw [hs] at h; simp at h
    | ok ms1 =>
      rw [hs] at h
      refine ih ms1 ms hok.2 ?_ h
      unfold initStep at hs
      split at hs
      · injection hs with hs; subst hs; exact h0
      · rename_i hnot
        cases hp : parseEntry d with
        | none => rw [hp] at hs; simp at hs
        | some m =>
          rw [hp] at hs
          injection hs with hs; subst hs
          have hname : m.name = defName d := by have := hok.1; rw [hp] at this; simpa using this
          split
          · exact h0
          · have hn : m.name ≠ x := by
              intro e; rw [hname] at e; rw [e] at hnot; exact hnot hx
            rw [lookup_append_single hn]; exact h0

/-- a name that is defined stays defined during the loop -/
theorem initFrom_keep (undefs : List Tok) (x : Tok) :
    ∀ (defines : List (List Char)) (ms0 ms : List Macro), (lookup ms0 x).isSome = true →
      initFrom undefs ms0 defines = .ok ms → (lookup ms x).isSome = true := by
  intro defines
  induction defines with
  | nil => intro ms0 ms h0 h; simp only [initFrom] at h; injection h with h; subst h; exact h0
  | cons d r ih =>
    intro ms0 ms h0 h
    simp only [initFrom] at h
    cases hs : initStep undefs ms0 d with
    | error e => rw [hs] at h; simp at h
    | ok ms1 =>
      rw [hs] at h
      refine ih ms1 ms ?_ h
      unfold initStep at hs
      split at hs
      · injection hs with hs; subst hs; exact h0
      · cases hp : parseEntry d with
        | none => rw [hp] at hs; simp at hs
        | some m =>
          rw [hp] at hs
          injection hs with hs; subst hs
          split
          · exact h0
          · exact lookup_append_keep h0

/-- every entry whose name is not in `dui.undefined` is defined after the loop -/
theorem initFrom_defines (undefs : List Tok) :
    ∀ (defines : List (List Char)) (ms0 ms : List Macro) (d : List Char), entriesOK defines = true → d ∈ defines →
      undefs.contains (defName d) = false → initFrom undefs ms0 defines = .ok ms → (lookup ms (defName d)).isSome = true := by
  intro defines
  induction defines with
  | nil => intro ms0 ms d _ hd; simp at hd
  | cons d0 r ih =>
    intro ms0 ms d hok hd hnu h
    simp only [entriesOK, List.all_cons, Bool.and_eq_true] at hok
    simp only [initFrom] at h
    cases hs : initStep undefs ms0 d0 with
    | error e => rw [hs] at h; simp at h
    | ok ms1 =>
      rw [hs] at h
      rcases List.mem_cons.mp hd with rfl | hd'
      · refine initFrom_keep undefs _ r ms1 ms ?_ h
        unfold initStep at hs
        rw [if_neg (by rw [hnu]; exact Bool.false_ne_true)] at hs
        cases hp : parseEntry d with
        | none => rw [hp] at hs; simp at hs
        | some m =>
          rw [hp] at hs
          injection hs with hs; subst hs
          have hname : m.name = defName d := by have := hok.1; rw [hp] at this; simpa using this
          rw [← hname]
          split
          · assumption
          · unfold lookup
            rw [List.find?_append]
            cases hh : List.find? (fun x => x.name == m.name) ms0 with
            | none => simp
            | some y => simp
      · exact ih ms1 ms d hok.2 hd' hnu h

/-! ### the file cannot define a name of `dui.undefined` -/

theorem stepDirective_undef (q : Quirks) (undefs : List Tok) (x : Tok) (hx : undefs.contains x = true) (st st' : PState)
    (dn : Tok) (rest : List LTok) (h0 : lookup st.macros x = none) (h : stepDirective q undefs st dn rest = .ok st') :
    lookup st'.macros x = none := by
  unfold stepDirective at h
  repeat' split at h
  all_goals first
    | (exfalso; simp at h; done)
    | (injection h with h; subst h
       first
        | exact h0
        | exact lookup_undefine_none h0
        | (rename_i m _ hnu
           have hn : m.name ≠ x := by intro e; rw [e] at hnu; exact hnu hx
           show lookup (define st.macros m) x = none
           rw [lookup_define_ne hn]; exact h0))

theorem stepLine_undef (q : Quirks) (undefs : List Tok) (x : Tok) (hx : undefs.contains x = true) (st st' : PState)
    (line : List LTok) (h0 : lookup st.macros x = none) (h : stepLine q undefs st line = .ok st') : lookup st'.macros x = none := by
  unfold stepLine at h
  repeat' split at h
  all_goals first
    | (exfalso; simp at h; done)
    | exact stepDirective_undef q undefs x hx st st' _ _ h0 h
    | (injection h with h; subst h; exact h0)

theorem runLines_undef (q : Quirks) (undefs : List Tok) (x : Tok) (hx : undefs.contains x = true) :
    ∀ (lines : List (List LTok)) (st st' : PState), lookup st.macros x = none →
      runLines q undefs st lines = .ok st' → lookup st'.macros x = none := by
  intro lines
  induction lines with
  | nil => intro st st' h0 h; simp only [runLines] at h; injection h with h; subst h; exact h0
  | cons l r ih =>
    intro st st' h0 h
    simp only [runLines] at h
    cases hs : stepLine q undefs st l with
    | error e => rw [hs] at h; simp at h
    | ok st1 => rw [hs] at h; exact ih st1 st' (stepLine_undef q undefs x hx st st1 l h0 hs) h


/-! ## object-like macros whose replacement lists contain no macro name: replacement = substitution -/

def tokOf (s : Tok) : XTok := ⟨s, false⟩

/-- all macros are object-like and named by identifiers; replacement lists contain neither a macro name nor `#` -/
def flatTable (ms : List Macro) : Bool :=
  ms.all fun m => m.params.isNone && isName m.name && m.body.all fun t => (lookup ms t).isNone && t != ['#']

/-- the replacement of one token -/
def substTok (ms : List Macro) (t : XTok) : List XTok :=
  match lookup ms t.s with
  | some m => m.body.map tokOf
  | none => [t]

theorem lookup_some_name {ms : List Macro} {n : Tok} {m : Macro} (h : lookup ms n = some m) : m ∈ ms ∧ m.name = n := by
  unfold lookup at h
  exact ⟨List.mem_of_find?_eq_some h, by simpa using List.find?_some h⟩

theorem subst_plain (q : Quirks) : ∀ (body : List Tok) (out : List XTok), (∀ t ∈ body, (t != ['#']) = true) →
    subst q false [] [] [] body out = some (out.reverse ++ body.map tokOf) := by
  intro body
  induction body using List.rec with
  | nil => intro out _; simp [subst]
  | cons t r ih =>
    intro out h
    have ht : (t == ['#']) = false := by have := h t (by simp); simpa using this
    have hr : ∀ x ∈ r, (x != ['#']) = true := fun x hx => h x (by simp [hx])
    have harg : ∀ (a : List (List XTok)), argOf [] a t = none := by
      intro a; unfold argOf; split <;> simp [indexOf]
    cases r with
    | nil => simp [subst, ht, harg, tokOf]
    | cons h2 r' =>
      rw [subst.eq_def]
      simp only [ht, Bool.false_eq_true, if_false, harg]
      have := ih (tokOf t :: out) hr
      simp only [tokOf] at this ⊢
      simp [this, tokOf]

theorem expand_nonmacro (q : Quirks) (ms : List Macro) : ∀ (ts : List XTok) (dis : List Tok),
    (∀ t ∈ ts, lookup ms t.s = none) → expand q ms dis ts = .ok ts := by
  intro ts
  induction ts with
  | nil => intro dis _; rw [expand]
  | cons t r ih =>
    intro dis h
    have ht := h t (by simp)
    have ihr := ih dis (fun x hx => h x (by simp [hx]))
    rw [expand]
    split
    · simp [ihr, Except.map]
    · split
      · simp [ihr, Except.map]
      · rename_i m hl; rw [ht] at hl; simp at hl


theorem flat_facts {ms : List Macro} (hf : flatTable ms = true) {n : Tok} {m : Macro} (h : lookup ms n = some m) :
    m.params = none ∧ isName n = true ∧ (∀ t ∈ m.body, lookup ms t = none ∧ (t != ['#']) = true) := by
  obtain ⟨hm, hn⟩ := lookup_some_name h
  unfold flatTable at hf
  have := List.all_eq_true.mp hf m hm
  simp only [Bool.and_eq_true, Option.isNone_iff_eq_none, List.all_eq_true] at this
  exact ⟨this.1.1, by rw [← hn]; exact this.1.2, fun t ht => this.2 t ht⟩

theorem no_join (ms : List Macro) (l rest : List XTok) (h : ∀ x ∈ l, lookup ms x.s = none) :
    (match l.getLast?, rest with
      | some a, n :: _ => isFnName ms a && n.s == ['(']
      | _, _ => false) = false := by
  cases hl : l.getLast? with
  | none => rfl
  | some a =>
    cases rest with
    | nil => rfl
    | cons n r =>
      have : a ∈ l := List.mem_of_getLast? hl
      simp [isFnName, h a this]

/-- **object-like macro replacement = substitution** (any length, any number of macros) -/
theorem expand_flat (q : Quirks) (ms : List Macro) (hf : flatTable ms = true) : ∀ (ts : List XTok),
    (∀ t ∈ ts, t.blue = false) → expand q ms [] ts = .ok (ts.flatMap (substTok ms)) := by
  intro ts
  induction ts with
  | nil => intro _; rw [expand]; rfl
  | cons t r ih =>
    intro hb
    have ihr := ih (fun x hx => hb x (by simp [hx]))
    have htb := hb t (by simp)
    rw [expand]
    split
    · rename_i hnn
      -- not an identifier: no macro has this name
      have hl : lookup ms t.s = none := by
        cases hh : lookup ms t.s with
        | none => rfl
        | some m => have := (flat_facts hf hh).2.1; simp [this, htb] at hnn
      simp [ihr, Except.map, substTok, hl]
    · split
      · rename_i hl
        simp [ihr, Except.map, substTok, hl]
      · rename_i m hl
        obtain ⟨hp, _, hbody⟩ := flat_facts hf hl
        have hd : ([] : List Tok).contains t.s = false := by simp
        simp only [hd, Bool.false_eq_true, dite_false]
        split
        · rename_i hpn
          rw [subst_plain q m.body [] (fun x hx => (hbody x hx).2)]
          simp only [List.reverse_nil, List.nil_append, Option.map_some]
          rw [expand_nonmacro q ms _ _ (by
            intro x hx
            simp only [List.mem_map] at hx
            obtain ⟨y, hy, rfl⟩ := hx
            exact (hbody y hy).1)]
          simp only
          split
          · rename_i l n _ hlast
            have hmem : l ∈ m.body.map tokOf := List.mem_of_getLast? hlast
            simp only [List.mem_map] at hmem
            obtain ⟨y, hy, rfl⟩ := hmem
            have hfn : isFnName ms (tokOf y) = false := by simp [isFnName, tokOf, (hbody y hy).1]
            simp [hfn, ihr, Except.map, substTok, hl]
          · simp [ihr, Except.map, substTok, hl]
        · rename_i ps hps
          rw [hp] at hps; simp at hps


/-! ## the directive loop follows the abstract inclusion machine -/

/-- effect of one line on the `ifstates` stack and on the kept lines, as `runC` would compute it from the line's skeleton entry -/
def LineOK (st st' : PState) (i : Nat) (l : List LTok) : Option CLine → Prop
  | none => st'.ifs = st.ifs ∧ (match l with | h :: _ => (h.s != ['#']) = false | [] => True)
  | some (.text j) => j = i ∧ st'.ifs = st.ifs ∧ (match l with | h :: _ => (h.s != ['#']) = true | [] => False)
  | some (.ifc c) => st'.ifs = ifOpen st.ifs c ∧ (match l with | h :: _ => (h.s != ['#']) = false | [] => False)
  | some (.elifc c) => st.ifs.isEmpty = false ∧ st'.ifs = ifElif st.ifs c ∧ (match l with | h :: _ => (h.s != ['#']) = false | [] => False)
  | some .els => st.ifs.isEmpty = false ∧ st'.ifs = ifElse st.ifs ∧ (match l with | h :: _ => (h.s != ['#']) = false | [] => False)
  | some .endif => st.ifs.isEmpty = false ∧ st'.ifs = st.ifs.tail ∧ (match l with | h :: _ => (h.s != ['#']) = false | [] => False)

theorem tokS_ne (a b : String) (h : a.toList ≠ b.toList) : (tokS a == tokS b) = false := by
  simp [tokS, h]

theorem stepDirective_skel (q : Quirks) (undefs : List Tok) (st st' : PState) (dn : Tok) (rest : List LTok)
    (h : stepDirective q undefs st dn rest = .ok st') :
    (isCondOpen dn = true → ∃ c, condOf q st dn rest = .ok c ∧ st'.ifs = ifOpen st.ifs c) ∧
    (dn = tokS "elif" → ∃ c, condOf q st dn rest = .ok c ∧ st.ifs.isEmpty = false ∧ st'.ifs = ifElif st.ifs c) ∧
    (dn = tokS "else" → st.ifs.isEmpty = false ∧ st'.ifs = ifElse st.ifs) ∧
    (dn = tokS "endif" → st.ifs.isEmpty = false ∧ st'.ifs = st.ifs.tail) ∧
    (isCondOpen dn = false → dn ≠ tokS "elif" → dn ≠ tokS "else" → dn ≠ tokS "endif" → st'.ifs = st.ifs) := by
  have e1 : (tokS "elif" == tokS "define") = false := by decide
  have e2 : (tokS "elif" == tokS "include") = false := by decide
  have e3 : (tokS "elif" == tokS "error") = false := by decide
  have e4 : (tokS "else" == tokS "define") = false := by decide
  have e5 : (tokS "else" == tokS "include") = false := by decide
  have e6 : (tokS "else" == tokS "error") = false := by decide
  have e7 : (tokS "endif" == tokS "define") = false := by decide
  have e8 : (tokS "endif" == tokS "include") = false := by decide
  have e9 : (tokS "endif" == tokS "error") = false := by decide
  refine ⟨?_, ?_, ?_, ?_, ?_⟩
  · intro hc
    unfold isCondOpen at hc
    have hne : (dn == tokS "elif") = false ∧ (dn == tokS "else") = false ∧ (dn == tokS "endif") = false ∧
        (dn == tokS "define") = false ∧ (dn == tokS "include") = false ∧ (dn == tokS "error") = false := by
      simp only [Bool.or_eq_true, beq_iff_eq] at hc
      rcases hc with (rfl | rfl) | rfl <;> decide
    obtain ⟨n1, n2, n3, n4, n5, n6⟩ := hne
    unfold stepDirective at h
    simp only [n1, n2, n3, n4, n5, n6, Bool.or_false, Bool.and_false, Bool.false_eq_true, if_false, hc, if_true] at h
    split at h
    · simp at h
    · split at h
      · simp at h
      · rename_i c hc'
        injection h with h; subst h
        exact ⟨c, hc', rfl⟩
  · intro hd; subst hd
    unfold stepDirective at h
    simp only [e1, e2, e3, beq_self_eq_true, Bool.or_true, Bool.true_or, Bool.and_true, Bool.and_false, Bool.false_eq_true, if_false] at h
    split at h
    · simp at h
    · rename_i hne
      simp only [Bool.or_true, if_true] at h
      split at h
      · simp at h
      · split at h
        · simp at h
        · rename_i c hc'
          injection h with h; subst h
          exact ⟨c, hc', by simpa using hne, rfl⟩
  · intro hd; subst hd
    have x1 : (tokS "else" == tokS "elif") = false := by decide
    have x2 : (tokS "else" == tokS "if") = false := by decide
    have x3 : (tokS "else" == tokS "ifdef") = false := by decide
    have x4 : (tokS "else" == tokS "ifndef") = false := by decide
    unfold stepDirective at h
    simp only [e4, e5, e6, x1, x2, x3, x4, beq_self_eq_true, Bool.or_true, Bool.true_or, Bool.or_false, Bool.and_true, Bool.and_false,
      Bool.false_eq_true, if_false, if_true] at h
    split at h
    · simp at h
    · rename_i hne
      injection h with h; subst h
      exact ⟨by simpa using hne, rfl⟩
  · intro hd; subst hd
    have x1 : (tokS "endif" == tokS "elif") = false := by decide
    have x2 : (tokS "endif" == tokS "if") = false := by decide
    have x3 : (tokS "endif" == tokS "ifdef") = false := by decide
    have x4 : (tokS "endif" == tokS "ifndef") = false := by decide
    have x5 : (tokS "endif" == tokS "else") = false := by decide
    unfold stepDirective at h
    simp only [e7, e8, e9, x1, x2, x3, x4, x5, beq_self_eq_true, Bool.or_true, Bool.true_or, Bool.or_false, Bool.and_true, Bool.and_false,
      Bool.false_eq_true, if_false, if_true] at h
    split at h
    · simp at h
    · rename_i hne
      injection h with h; subst h
      exact ⟨by simpa using hne, rfl⟩
  · intro hc h1 h2 h3
    unfold isCondOpen at hc
    have n1 : (dn == tokS "elif") = false := by simpa using h1
    have n2 : (dn == tokS "else") = false := by simpa using h2
    have n3 : (dn == tokS "endif") = false := by simpa using h3
    unfold stepDirective at h
    simp only [n1, n2, n3, hc, Bool.or_false, Bool.and_false, Bool.false_eq_true, if_false] at h
    repeat' split at h
    all_goals first
      | (exfalso; simp at h; done)
      | (injection h with h; subst h; rfl)


theorem stepLine_skel (q : Quirks) (undefs : List Tok) (st st' : PState) (i : Nat) (l : List LTok) (c : Option CLine)
    (hs : skelLine q st i l = .ok c) (h : stepLine q undefs st l = .ok st') : LineOK st st' i l c := by
  cases l with
  | nil =>
    simp only [skelLine] at hs; injection hs with hs; subst hs
    simp only [stepLine] at h; injection h with h; subst h
    exact ⟨rfl, trivial⟩
  | cons hd more =>
    by_cases hh : hd.s = ['#']
    · have hb : (hd.s == ['#']) = true := by simpa using hh
      have hnb : (hd.s != ['#']) = false := by simp [hh]
      simp only [skelLine, hb, if_true] at hs
      simp only [stepLine, hb, if_true] at h
      cases more with
      | nil =>
        simp only at hs h; injection hs with hs; subst hs; injection h with h; subst h
        exact ⟨rfl, hnb⟩
      | cons d rest =>
        simp only at hs h
        by_cases hn : isName d.s = true
        · simp only [hn, Bool.not_true, Bool.false_eq_true, if_false] at hs h
          obtain ⟨k1, k2, k3, k4, k5⟩ := stepDirective_skel q undefs st st' d.s rest h
          by_cases c1 : isCondOpen d.s = true
          · obtain ⟨b, hb1, hb2⟩ := k1 c1
            simp only [c1, if_true, hb1, Except.map] at hs
            injection hs with hs; subst hs
            exact ⟨hb2, hnb⟩
          · have c1' : isCondOpen d.s = false := by simpa using c1
            simp only [c1', Bool.false_eq_true, if_false] at hs
            by_cases c2 : d.s = tokS "elif"
            · obtain ⟨b, hb1, hb2, hb3⟩ := k2 c2
              have : (d.s == tokS "elif") = true := by simp [c2]
              simp only [this, if_true, hb1, Except.map] at hs
              injection hs with hs; subst hs
              exact ⟨hb2, hb3, hnb⟩
            · have n2 : (d.s == tokS "elif") = false := by simpa using c2
              simp only [n2, Bool.false_eq_true, if_false] at hs
              by_cases c3 : d.s = tokS "else"
              · obtain ⟨hb2, hb3⟩ := k3 c3
                have : (d.s == tokS "else") = true := by simp [c3]
                simp only [this, if_true] at hs
                injection hs with hs; subst hs
                exact ⟨hb2, hb3, hnb⟩
              · have n3 : (d.s == tokS "else") = false := by simpa using c3
                simp only [n3, Bool.false_eq_true, if_false] at hs
                by_cases c4 : d.s = tokS "endif"
                · obtain ⟨hb2, hb3⟩ := k4 c4
                  have : (d.s == tokS "endif") = true := by simp [c4]
                  simp only [this, if_true] at hs
                  injection hs with hs; subst hs
                  exact ⟨hb2, hb3, hnb⟩
                · have n4 : (d.s == tokS "endif") = false := by simpa using c4
                  simp only [n4, Bool.false_eq_true, if_false] at hs
                  injection hs with hs; subst hs
                  exact ⟨k5 c1' c2 c3 c4, hnb⟩
        · have hn' : isName d.s = false := by simpa using hn
          simp only [hn', Bool.not_false, if_true] at hs h
          injection hs with hs; subst hs; injection h with h; subst h
          exact ⟨rfl, hnb⟩
    · have hb : (hd.s == ['#']) = false := by simpa using hh
      have hnb : (hd.s != ['#']) = true := by simp [hh]
      simp only [skelLine, hb, Bool.false_eq_true, if_false] at hs
      injection hs with hs; subst hs
      simp only [stepLine, hb, Bool.false_eq_true, if_false] at h
      refine ⟨rfl, ?_, hnb⟩
      split at h
      · injection h with h; subst h; rfl
      · split at h
        · simp at h
        · injection h with h; subst h; rfl

/-- **the directive loop keeps exactly the lines the abstract machine `runC` keeps on the skeleton of the run** -/
theorem runLines_kept_eq_runC (q : Quirks) (undefs : List Tok) : ∀ (lines : List (List LTok)) (st : PState) (i : Nat)
    (sk : List CLine) (k : List Nat), skelLines q undefs st i lines = .ok sk → keptLines q undefs st i lines = .ok k →
      runC st.ifs sk = some k := by
  intro lines
  induction lines with
  | nil =>
    intro st i sk k h1 h2
    simp only [skelLines] at h1; simp only [keptLines] at h2
    injection h1 with h1; injection h2 with h2; subst h1 h2
    rfl
  | cons l r ih =>
    intro st i sk k h1 h2
    simp only [skelLines] at h1
    simp only [keptLines] at h2
    cases hc : skelLine q st i l with
    | error e => rw [hc] at h1; cases hst : stepLine q undefs st l <;> rw [hst] at h1 <;> simp at h1
    | ok c =>
      cases hst : stepLine q undefs st l with
      | error e => rw [hst] at h2; simp at h2
      | ok st' =>
        rw [hc, hst] at h1
        rw [hst] at h2
        simp only at h1 h2
        cases hsk : skelLines q undefs st' (i + 1) r with
        | error e => rw [hsk] at h1; simp [Except.map] at h1
        | ok sk' =>
          cases hk : keptLines q undefs st' (i + 1) r with
          | error e => rw [hk] at h2; simp [Except.map] at h2
          | ok k' =>
            rw [hsk] at h1; rw [hk] at h2
            simp only [Except.map] at h1 h2
            injection h1 with h1; injection h2 with h2
            subst h1 h2
            have ihr := ih st' (i + 1) sk' k' hsk hk
            have hl := stepLine_skel q undefs st st' i l c hc hst
            cases c with
            | none =>
              obtain ⟨e1, e2⟩ := hl
              rw [e1] at ihr
              cases l with
              | nil => simpa using ihr
              | cons hd tl => simp only at e2; simp [e2, ihr]
            | some cl =>
              cases cl with
              | text j =>
                obtain ⟨rfl, e1, e2⟩ := hl
                rw [e1] at ihr
                cases l with
                | nil => exact absurd e2 (by simp)
                | cons hd tl =>
                  simp only at e2
                  simp only [List.singleton_append, runC, ihr, Option.map_some, e2, Bool.true_and]
                  split <;> simp
              | ifc b =>
                obtain ⟨e1, e2⟩ := hl
                rw [e1] at ihr
                cases l with
                | nil => exact absurd e2 (by simp)
                | cons hd tl => simp only at e2; simp [runC, ihr, e2]
              | elifc b =>
                obtain ⟨e0, e1, e2⟩ := hl
                rw [e1] at ihr
                cases l with
                | nil => exact absurd e2 (by simp)
                | cons hd tl => simp only at e2; simp [runC, ihr, e2, e0]
              | els =>
                obtain ⟨e0, e1, e2⟩ := hl
                rw [e1] at ihr
                cases l with
                | nil => exact absurd e2 (by simp)
                | cons hd tl => simp only at e2; simp [runC, ihr, e2, e0]
              | endif =>
                obtain ⟨e0, e1, e2⟩ := hl
                rw [e1] at ihr
                cases l with
                | nil => exact absurd e2 (by simp)
                | cons hd tl => simp only at e2; simp [runC, ihr, e2, e0]


/-! ## a function-like macro whose replacement list contains no macro name and no `#`: simultaneous parameter substitution -/

/-- the replacement list with every parameter replaced by its argument -/
def substParams (ps : List Tok) (args : List (List XTok)) (body : List Tok) : List XTok :=
  body.flatMap fun s => match argOf ps args s with
    | some a => a
    | none => [tokOf s]

theorem nextIsPaste_false : ∀ (l : List Tok), (∀ t ∈ l, (t != ['#']) = true) → nextIsPaste l = false := by
  intro l h
  match l with
  | [] => rfl
  | [a] => rfl
  | a :: b :: r =>
    have : (a == ['#']) = false := by simpa using h a (by simp)
    simp [nextIsPaste, this]

theorem subst_params (q : Quirks) (ps : List Tok) (raw args : List (List XTok)) (hva : ps.contains (tokS "__VA_ARGS__") = false) :
    ∀ (body : List Tok) (out : List XTok), (∀ t ∈ body, (t != ['#']) = true) →
      subst q true ps raw args body out = some (out.reverse ++ substParams ps args body) := by
  have hraw : ∀ t, (argOf ps raw t).isSome = (argOf ps args t).isSome := by
    intro t; unfold argOf; split <;> simp [Option.isSome_map]
  have hv : ∀ t a, argOf ps args t = some a → (t == tokS "__VA_ARGS__") = false := by
    intro t a h
    unfold argOf at h
    split at h
    · cases hi : indexOf ps t with
      | none => rw [hi] at h; simp at h
      | some i =>
        have hmem : ∀ (l : List Tok) (j : Nat), indexOf l t = some j → l.contains t = true := by
          intro l
          induction l with
          | nil => intro j hj; simp [indexOf] at hj
          | cons p r ih =>
            intro j hj
            simp only [indexOf] at hj
            by_cases hp : (p == t) = true
            · have : p = t := by simpa using hp
              simp [this]
            · simp only [hp, Bool.false_eq_true, if_false] at hj
              cases hr : indexOf r t with
              | none => rw [hr] at hj; simp at hj
              | some j' => have := ih j' hr; simp_all
        have := hmem ps i hi
        cases hb : (t == tokS "__VA_ARGS__") with
        | false => rfl
        | true =>
          have : t = tokS "__VA_ARGS__" := by simpa using hb
          subst this; simp_all
    · simp at h
  intro body
  induction body using List.rec with
  | nil => intro out _; simp [subst, substParams]
  | cons t r ih =>
    intro out h
    have ht : (t == ['#']) = false := by have := h t (by simp); simpa using this
    have hr : ∀ x ∈ r, (x != ['#']) = true := fun x hx => h x (by simp [hx])
    cases r with
    | nil =>
      cases ha : argOf ps args t with
      | none => simp [subst, ht, ha, substParams, tokOf]
      | some a => simp [subst, ht, ha, substParams]
    | cons h2 r' =>
      rw [subst.eq_def]
      simp only [ht, Bool.false_eq_true, if_false]
      have hnp : nextIsPaste (h2 :: r') = false := nextIsPaste_false _ hr
      cases ha : argOf ps args t with
      | none =>
        have hrn : argOf ps raw t = none := by
          have := hraw t; rw [ha] at this
          cases hx : argOf ps raw t with
          | none => rfl
          | some y => rw [hx] at this; simp at this
        have := ih (tokOf t :: out) hr
        simp only [tokOf] at this
        simp [this, substParams, ha, hrn, tokOf]
      | some a =>
        obtain ⟨rr, hrr⟩ : ∃ rr, argOf ps raw t = some rr := by
          have := hraw t; rw [ha] at this
          cases hx : argOf ps raw t with
          | none => rw [hx] at this; simp at this
          | some y => exact ⟨y, rfl⟩
        have hvt := hv t a ha
        have := ih (a.reverse ++ out) hr
        simp only [hrr, hnp, Bool.false_eq_true, if_false, hvt, Bool.and_false, Bool.false_and]
        simp [this, substParams, ha]

theorem mapM_ok_eq {α β : Type} (f : α → Except XErr β) (g : α → β) : ∀ (l : List α), (∀ x ∈ l, f x = .ok (g x)) →
    l.mapM f = .ok (l.map g) := by
  intro l
  induction l with
  | nil => intro _; rfl
  | cons a r ih =>
    intro h
    have h1 := h a (by simp)
    have h2 := ih (fun x hx => h x (by simp [hx]))
    simp [List.mapM_cons, h1, h2, bind, Except.bind, pure, Except.pure]


/-- replacement lists contain neither a macro name nor `#` (macros may be function-like) -/
def flatBodies (ms : List Macro) : Bool :=
  ms.all fun m => m.body.all fun t => (lookup ms t).isNone && t != ['#']

theorem flatBodies_facts {ms : List Macro} (hf : flatBodies ms = true) {n : Tok} {m : Macro} (h : lookup ms n = some m) :
    ∀ t ∈ m.body, lookup ms t = none ∧ (t != ['#']) = true := by
  obtain ⟨hm, _⟩ := lookup_some_name h
  unfold flatBodies at hf
  have := List.all_eq_true.mp hf m hm
  simp only [Bool.and_eq_true, Option.isNone_iff_eq_none, List.all_eq_true] at this
  exact fun t ht => this t ht

/-- a token the rescan leaves alone: it names no macro, or it is painted -/
def Inert (ms : List Macro) (x : XTok) : Prop := lookup ms x.s = none ∨ x.blue = true

theorem expand_inert (q : Quirks) (ms : List Macro) : ∀ (ts : List XTok) (dis : List Tok),
    (∀ t ∈ ts, Inert ms t) → expand q ms dis ts = .ok ts := by
  intro ts
  induction ts with
  | nil => intro dis _; rw [expand]
  | cons t r ih =>
    intro dis h
    have ht := h t (by simp)
    have ihr := ih dis (fun x hx => h x (by simp [hx]))
    rw [expand]
    split
    · simp [ihr, Except.map]
    · rename_i hnb
      split
      · simp [ihr, Except.map]
      · rename_i m hl
        rcases ht with h0 | h0
        · rw [h0] at hl; simp at hl
        · simp [h0] at hnb

theorem substParams_inert {ms : List Macro} {ps : List Tok} {args : List (List XTok)} {body : List Tok}
    (hb : ∀ t ∈ body, lookup ms t = none) (ha : ∀ a ∈ args, ∀ x ∈ a, Inert ms x) :
    ∀ x ∈ substParams ps args body, Inert ms x := by
  intro x hx
  simp only [substParams, List.mem_flatMap] at hx
  obtain ⟨s, hs, hx⟩ := hx
  cases hao : argOf ps args s with
  | none => rw [hao] at hx; simp at hx; subst hx; exact Or.inl (hb s hs)
  | some a =>
    rw [hao] at hx
    simp only at hx
    unfold argOf at hao
    split at hao
    · cases hi : indexOf ps s with
      | none => rw [hi] at hao; simp at hao
      | some i =>
        rw [hi] at hao
        simp only [Option.map_some, Option.some.injEq] at hao
        subst hao
        by_cases hlt : i < args.length
        · have : args.getD i [] = args[i] := by simp [List.getD, hlt]
          rw [this] at hx
          exact ha _ (List.getElem_mem hlt) x hx
        · have : args.getD i [] = [] := by simp [List.getD, List.getElem?_eq_none (by omega : args.length ≤ i)]
          rw [this] at hx; simp at hx
    · simp at hao

theorem mapM_ok_of_getElem {α β : Type} (f : α → Except XErr β) : ∀ (l : List α) (r : List β) (hl : r.length = l.length),
    (∀ i (h : i < l.length), f l[i] = .ok (r[i]'(by omega))) → l.mapM f = .ok r := by
  intro l
  induction l with
  | nil => intro r hl _; cases r with
    | nil => rfl
    | cons _ _ => simp at hl
  | cons a l' ih =>
    intro r hl h
    cases r with
    | nil => simp at hl
    | cons b r' =>
      have h0 := h 0 (by simp)
      have hr := ih r' (by simpa using hl) (fun i hi => by have := h (i + 1) (by simp; omega); simpa using this)
      simp only [List.getElem_cons_zero] at h0
      simp [List.mapM_cons, h0, hr, bind, Except.bind, pure, Except.pure]

/-- the context in which the arguments of an invocation of `n` are macro replaced: that of the caller (6.10.3.1); the variant
`argInherit` (not the code, not the standard) adds the invoked macro's own name -/
def argCtx (q : Quirks) (n : Tok) (dis : List Tok) : List Tok := if q.argInherit then n :: dis else dis

/-- **function-like macro replacement with nested invocations in the arguments** = simultaneous substitution of the parameters by
the arguments, each macro replaced ON ITS OWN in the caller's context (`argCtx`), provided the replaced arguments are inert
(contain only tokens that name no macro or are painted) and the replacement list itself contains no macro name and no `#`. -/
theorem expand_fn_nested (q : Quirks) (ms : List Macro) (t lp : XTok) (m : Macro) (ps : List Tok) (dis : List Tok)
    (rest1 rest2 : List XTok) (args expd : List (List XTok))
    (hbody : ∀ x ∈ m.body, lookup ms x = none ∧ (x != ['#']) = true)
    (htn : isName t.s = true) (htb : t.blue = false) (hl : lookup ms t.s = some m) (hps : m.params = some ps)
    (hnv : m.variadic = false) (hne : ps.length ≠ 0) (hva : ps.contains (tokS "__VA_ARGS__") = false) (hlp : lp.s = ['('])
    (hpa : parseArgs rest1 = some (args, rest2)) (hlen : args.length = ps.length) (hdis : dis.contains t.s = false)
    (hel : expd.length = args.length)
    (hexp : ∀ i (h : i < args.length),
      (if plainUse ps m.body (min i (ps.length - 1)) then expand q ms (argCtx q t.s dis) args[i] else .ok args[i]) =
        .ok (expd[i]'(by omega)))
    (hin : ∀ e ∈ expd, ∀ x ∈ e, Inert ms x) :
    expand q ms dis (t :: lp :: rest1) = (expand q ms dis rest2).map (substParams ps expd m.body ++ ·) := by
  have hbind : bindArgs m ps args = some args := by simp [bindArgs, hne, hnv, hlen]
  have hbind2 : bindArgs m ps expd = some expd := by simp [bindArgs, hne, hnv, hel, hlen]
  have hmap : (args.zipIdx.attach.mapM fun (x : { x // x ∈ args.zipIdx }) =>
      if plainUse ps m.body (min x.1.2 (ps.length - 1)) then
        (if q.argInherit then expand q ms (t.s :: dis) x.1.1 else expand q ms dis x.1.1)
      else (.ok x.1.1 : Except XErr (List XTok))) = .ok expd := by
    apply mapM_ok_of_getElem _ _ _ (by simp [hel])
    intro i hi
    have hi' : i < args.length := by simpa using hi
    have e1 : (args.zipIdx.attach[i]).1.1 = args[i] := by simp
    have e2 : (args.zipIdx.attach[i]).1.2 = i := by simp
    simp only [e1, e2]
    have := hexp i hi'
    unfold argCtx at this
    by_cases hp : plainUse ps m.body (min i (ps.length - 1)) = true
    · simp only [hp, if_true] at this ⊢
      split <;> simp_all
    · simp only [hp, Bool.false_eq_true, if_false] at this ⊢
      simpa using this
  have hsub := subst_params q ps args expd hva m.body [] (fun x hx => (hbody x hx).2)
  simp only [List.reverse_nil, List.nil_append] at hsub
  have hnm : ∀ x ∈ substParams ps expd m.body, Inert ms x :=
    substParams_inert (fun x hx => (hbody x hx).1) hin
  have hexp2 := expand_inert q ms (substParams ps expd m.body) (t.s :: dis) hnm
  rw [expand]
  simp only [htn, htb, Bool.not_true, Bool.or_self, Bool.false_eq_true, if_false]
  split
  · rename_i h0; rw [hl] at h0; simp at h0
  · rename_i m' hl'
    have hm : m' = m := by rw [hl] at hl'; injection hl' with h; exact h.symm
    subst hm
    simp only [hdis, Bool.false_eq_true, dite_false]
    split
    · rename_i hpn; rw [hps] at hpn; simp at hpn
    · rename_i ps' hps'
      have : ps' = ps := by rw [hps] at hps'; injection hps' with h; exact h.symm
      subst this
      have hlp' : (lp.s != ['(']) = false := by simp [hlp]
      simp only [hlp', Bool.false_eq_true, if_false]
      split
      · rename_i h0; rw [hpa] at h0; simp at h0
      · rename_i args' rest2' hpa'
        have e : args' = args ∧ rest2' = rest2 := by
          rw [hpa] at hpa'; injection hpa' with h; injection h with h1 h2; exact ⟨h1.symm, h2.symm⟩
        obtain ⟨rfl, rfl⟩ := e
        simp only [hbind]
        rw [hmap]
        simp only [hbind2, hsub, hexp2]
        split
        · rename_i l n _ hlast
          have hfn : isFnName ms l = false := by
            rcases hnm l (List.mem_of_getLast? hlast) with h0 | h0 <;> simp [isFnName, h0]
          simp [hfn]
        · simp

/-- the case of arguments without macro names (and `flatBodies` tables): plain simultaneous substitution -/
theorem expand_fn_flat (q : Quirks) (ms : List Macro) (hf : flatBodies ms = true) (t lp : XTok) (m : Macro) (ps : List Tok)
    (rest1 rest2 : List XTok) (args : List (List XTok))
    (htn : isName t.s = true) (htb : t.blue = false) (hl : lookup ms t.s = some m) (hps : m.params = some ps)
    (hnv : m.variadic = false) (hne : ps.length ≠ 0) (hva : ps.contains (tokS "__VA_ARGS__") = false) (hlp : lp.s = ['('])
    (hpa : parseArgs rest1 = some (args, rest2)) (hlen : args.length = ps.length)
    (hargs : ∀ a ∈ args, ∀ x ∈ a, lookup ms x.s = none) :
    expand q ms [] (t :: lp :: rest1) = (expand q ms [] rest2).map (substParams ps args m.body ++ ·) :=
  expand_fn_nested q ms t lp m ps [] rest1 rest2 args args (flatBodies_facts hf hl) htn htb hl hps hnv hne hva hlp hpa hlen
    (by simp) rfl
    (fun i h => by
      split
      · exact expand_inert q ms _ _ (fun x hx => Or.inl (hargs _ (List.getElem_mem h) x hx))
      · rfl)
    (fun e he x hx => Or.inl (hargs e he x hx))


/-- 6.10.3.4p2: a token that names a macro whose replacement is being rescanned is painted and left alone -/
theorem expand_blue (q : Quirks) (ms : List Macro) (dis : List Tok) (t : XTok) (rest : List XTok) (m : Macro)
    (htn : isName t.s = true) (htb : t.blue = false) (hl : lookup ms t.s = some m) (hd : dis.contains t.s = true) :
    expand q ms dis (t :: rest) = (expand q ms dis rest).map ({ t with blue := true } :: ·) := by
  rw [expand]
  simp only [htn, htb, Bool.not_true, Bool.or_self, Bool.false_eq_true, if_false]
  split
  · rename_i h0; rw [hl] at h0; simp at h0
  · rename_i m' hl'
    simp only [hd, dite_true]

end Cppcheck.PPMacro

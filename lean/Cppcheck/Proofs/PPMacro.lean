import Cppcheck.Model.PPMacro
/-
helper lemmas for C11 / C06 (macros): the ifstates machine against the group semantics, -D / -U, object-like replacement
-/
namespace Cppcheck.PPMacro
open Cppcheck.PPCond

/-! ## conditional inclusion -/

/-- the state of the innermost section `s` agrees with (enclosing group processed, a group of the section already taken) -/
def RelS (a taken : Bool) (s : IfState) : Prop :=
  (a = false → s = .alwaysFalse) ∧ (a = true → taken = false → s = .elseIsTrue) ∧
  (a = true → taken = true → s = .tru ∨ s = .alwaysFalse)

theorem top_cons (s : IfState) (st : IfStack) : top (s :: st) = s := rfl

mutual
theorem items_run : ∀ (its : Items) (st : IfStack) (k : List CLine),
    runC st (its.flat ++ k) = (runC st k).map (its.incl (top st == .tru) ++ ·)
  | .nil, st, k => by simp [Items.flat, Items.incl]
  | .cons i r, st, k => by
    rw [Items.flat, List.append_assoc, item_run i st, items_run r st k]
    cases runC st k <;> simp [Items.incl]
theorem item_run : ∀ (i : Item) (st : IfStack) (k : List CLine),
    runC st (i.flat ++ k) = (runC st k).map (i.incl (top st == .tru) ++ ·)
  | .text n, st, k => by
    simp only [Item.flat, List.cons_append, List.nil_append, runC, Item.incl]
    cases runC st k <;> simp
    split <;> simp
  | .sect c body tail, st, k => by
    simp only [Item.flat, List.cons_append, List.append_assoc, runC]
    have hs : ifOpen st c = (if top st != .tru then IfState.alwaysFalse else if c then .tru else .elseIsTrue) :: st := rfl
    have hr : RelS (top st == .tru) c (if top st != .tru then IfState.alwaysFalse else if c then .tru else .elseIsTrue) := by
      cases h : top st <;> cases c <;> simp [RelS]
    have e : ((if top st != .tru then IfState.alwaysFalse else if c then .tru else .elseIsTrue) == .tru) = ((top st == .tru) && c) := by
      cases h : top st <;> cases c <;> decide
    rw [hs, items_run body _ (tail.flat ++ k), top_cons, e, tail_run tail st _ k (top st == .tru) c hr]
    cases runC st k <;> simp [Item.incl]
theorem tail_run : ∀ (t : Tail) (st : IfStack) (s : IfState) (k : List CLine) (a taken : Bool), RelS a taken s →
    runC (s :: st) (t.flat ++ k) = (runC st k).map (t.incl a taken ++ ·)
  | .endif, st, s, k, a, taken, _ => by
    simp [Tail.flat, runC, Tail.incl]
  | .els body, st, s, k, a, taken, hr => by
    have e : ((if s == .elseIsTrue then IfState.tru else .alwaysFalse) == .tru) = (a && !taken) := by
      obtain ⟨h1, h2, h3⟩ := hr
      cases a <;> cases taken
      · rw [h1 rfl]; decide
      · rw [h1 rfl]; decide
      · rw [h2 rfl rfl]; decide
      · rcases h3 rfl rfl with h | h <;> rw [h] <;> decide
    have e0 : (Tail.els body).flat ++ k = .els :: (body.flat ++ (.endif :: k)) := by simp [Tail.flat]
    rw [e0]
    simp only [runC, List.isEmpty_cons, Bool.false_eq_true, if_false, ifElse]
    rw [items_run body _ (.endif :: k), top_cons, e]
    simp only [runC, List.isEmpty_cons, Bool.false_eq_true, if_false, List.tail_cons]
    cases runC st k <;> simp [Tail.incl]
  | .elif c body tail, st, s, k, a, taken, hr => by
    have hr' : RelS a (taken || c) (if s == .tru then IfState.alwaysFalse else if (s == .elseIsTrue && c) then .tru else s) := by
      obtain ⟨h1, h2, h3⟩ := hr
      cases a <;> cases taken <;> cases c
      · rw [h1 rfl]; simp [RelS]
      · rw [h1 rfl]; simp [RelS]
      · rw [h1 rfl]; simp [RelS]
      · rw [h1 rfl]; simp [RelS]
      · rw [h2 rfl rfl]; simp [RelS]
      · rw [h2 rfl rfl]; simp [RelS]
      · rcases h3 rfl rfl with h | h <;> rw [h] <;> simp [RelS]
      · rcases h3 rfl rfl with h | h <;> rw [h] <;> simp [RelS]
    have e : ((if s == .tru then IfState.alwaysFalse else if (s == .elseIsTrue && c) then .tru else s) == .tru) = (a && !taken && c) := by
      obtain ⟨h1, h2, h3⟩ := hr
      cases a <;> cases taken <;> cases c
      · rw [h1 rfl]; decide
      · rw [h1 rfl]; decide
      · rw [h1 rfl]; decide
      · rw [h1 rfl]; decide
      · rw [h2 rfl rfl]; decide
      · rw [h2 rfl rfl]; decide
      · rcases h3 rfl rfl with h | h <;> rw [h] <;> decide
      · rcases h3 rfl rfl with h | h <;> rw [h] <;> decide
    have e0 : (Tail.elif c body tail).flat ++ k = .elifc c :: (body.flat ++ (tail.flat ++ k)) := by simp [Tail.flat]
    rw [e0]
    simp only [runC, List.isEmpty_cons, Bool.false_eq_true, if_false, ifElif]
    rw [items_run body _ (tail.flat ++ k), top_cons, e, tail_run tail st _ k a (taken || c) hr']
    cases runC st k <;> simp [Tail.incl]
end


/-! ## -D / -U -/

theorem lookup_define_ne {ms : List Macro} {m : Macro} {x : Tok} (h : m.name ≠ x) : lookup (define ms m) x = lookup ms x := by
  unfold lookup define
  have h1 : (m.name == x) = false := by simpa using h
  simp only [List.find?_cons, h1]
  induction ms with
  | nil => rfl
  | cons a r ih =>
    simp only [List.filter_cons]
    by_cases ha : (a.name != m.name) = true
    · simp only [ha, if_true, List.find?_cons]
      cases a.name == x <;> simp [ih]
    · have ha' : a.name = m.name := by simpa using ha
      have : (a.name == x) = false := by rw [ha']; exact h1
      simp [ha, List.find?_cons, this, ih]

theorem lookup_define_self (ms : List Macro) (m : Macro) : lookup (define ms m) m.name = some m := by
  simp [lookup, define]

theorem lookup_undefine_none {ms : List Macro} {n x : Tok} (h : lookup ms x = none) : lookup (undefine ms n) x = none := by
  unfold lookup undefine at *
  simp only [List.find?_eq_none] at h ⊢
  intro a ha
  exact h a (List.mem_filter.mp ha).1

theorem lookup_append_single {ms : List Macro} {m : Macro} {x : Tok} (h : m.name ≠ x) : lookup (ms ++ [m]) x = lookup ms x := by
  unfold lookup
  have h1 : (m.name == x) = false := by simpa using h
  simp [List.find?_append, h1]

theorem lookup_append_keep {ms : List Macro} {m : Macro} {x : Tok} (h : (lookup ms x).isSome = true) :
    (lookup (ms ++ [m]) x).isSome = true := by
  unfold lookup at *
  rw [List.find?_append]
  cases hh : List.find? (fun m => m.name == x) ms with
  | none => rw [hh] at h; simp at h
  | some y => simp

/-- the `dui.defines` loop never defines a name of `dui.undefined` -/
theorem initFrom_undef (undefs : List Tok) (x : Tok) (hx : undefs.contains x = true) :
    ∀ (defines : List (List Char)) (ms0 ms : List Macro), entriesOK defines = true → lookup ms0 x = none →
      initFrom undefs ms0 defines = .ok ms → lookup ms x = none := by
  intro defines
  induction defines with
  | nil => intro ms0 ms _ h0 h; simp only [initFrom] at h; injection h with h; subst h; exact h0
  | cons d r ih =>
    intro ms0 ms hok h0 h
    simp only [entriesOK, List.all_cons, Bool.and_eq_true] at hok
    simp only [initFrom] at h
    cases hs : initStep undefs ms0 d with
    | error e => rw [hs] at h; simp at h
    | ok ms1 =>
      rw [hs] at h
      refine ih ms1 ms hok.2 ?_ h
      unfold initStep at hs
      split at hs
      · injection hs with hs; subst hs; exact h0
      · rename_i hnot
        cases hp : parseEntry d with
        | none => rw [hp] at hs; simp at hs
        | some m =>
          rw [hp] at hs
          injection hs with hs; subst hs
          have hname : m.name = defName d := by have := hok.1; rw [hp] at this; simpa using this
          split
          · exact h0
          · have hn : m.name ≠ x := by
              intro e; rw [hname] at e; rw [e] at hnot; exact hnot hx
            rw [lookup_append_single hn]; exact h0

/-- a name that is defined stays defined during the loop -/
theorem initFrom_keep (undefs : List Tok) (x : Tok) :
    ∀ (defines : List (List Char)) (ms0 ms : List Macro), (lookup ms0 x).isSome = true →
      initFrom undefs ms0 defines = .ok ms → (lookup ms x).isSome = true := by
  intro defines
  induction defines with
  | nil => intro ms0 ms h0 h; simp only [initFrom] at h; injection h with h; subst h; exact h0
  | cons d r ih =>
    intro ms0 ms h0 h
    simp only [initFrom] at h
    cases hs : initStep undefs ms0 d with
    | error e => rw [hs] at h; simp at h
    | ok ms1 =>
      rw [hs] at h
      refine ih ms1 ms ?_ h
      unfold initStep at hs
      split at hs
      · injection hs with hs; subst hs; exact h0
      · cases hp : parseEntry d with
        | none => rw [hp] at hs; simp at hs
        | some m =>
          rw [hp] at hs
          injection hs with hs; subst hs
          split
          · exact h0
          · exact lookup_append_keep h0

/-- every entry whose name is not in `dui.undefined` is defined after the loop -/
theorem initFrom_defines (undefs : List Tok) :
    ∀ (defines : List (List Char)) (ms0 ms : List Macro) (d : List Char), entriesOK defines = true → d ∈ defines →
      undefs.contains (defName d) = false → initFrom undefs ms0 defines = .ok ms → (lookup ms (defName d)).isSome = true := by
  intro defines
  induction defines with
  | nil => intro ms0 ms d _ hd; simp at hd
  | cons d0 r ih =>
    intro ms0 ms d hok hd hnu h
    simp only [entriesOK, List.all_cons, Bool.and_eq_true] at hok
    simp only [initFrom] at h
    cases hs : initStep undefs ms0 d0 with
    | error e => rw [hs] at h; simp at h
    | ok ms1 =>
      rw [hs] at h
      rcases List.mem_cons.mp hd with rfl | hd'
      · refine initFrom_keep undefs _ r ms1 ms ?_ h
        unfold initStep at hs
        rw [if_neg (by rw [hnu]; exact Bool.false_ne_true)] at hs
        cases hp : parseEntry d with
        | none => rw [hp] at hs; simp at hs
        | some m =>
          rw [hp] at hs
          injection hs with hs; subst hs
          have hname : m.name = defName d := by have := hok.1; rw [hp] at this; simpa using this
          rw [← hname]
          split
          · assumption
          · unfold lookup
            rw [List.find?_append]
            cases hh : List.find? (fun x => x.name == m.name) ms0 with
            | none => simp
            | some y => simp
      · exact ih ms1 ms d hok.2 hd' hnu h

/-! ### the file cannot define a name of `dui.undefined` -/

theorem stepDirective_undef (q : Quirks) (undefs : List Tok) (x : Tok) (hx : undefs.contains x = true) (st st' : PState)
    (dn : Tok) (rest : List LTok) (h0 : lookup st.macros x = none) (h : stepDirective q undefs st dn rest = .ok st') :
    lookup st'.macros x = none := by
  unfold stepDirective at h
  repeat' split at h
  all_goals first
    | (exfalso; simp at h; done)
    | (injection h with h; subst h
       first
        | exact h0
        | exact lookup_undefine_none h0
        | (rename_i m _ hnu
           have hn : m.name ≠ x := by intro e; rw [e] at hnu; exact hnu hx
           show lookup (define st.macros m) x = none
           rw [lookup_define_ne hn]; exact h0))

theorem stepLine_undef (q : Quirks) (undefs : List Tok) (x : Tok) (hx : undefs.contains x = true) (st st' : PState)
    (line : List LTok) (h0 : lookup st.macros x = none) (h : stepLine q undefs st line = .ok st') : lookup st'.macros x = none := by
  unfold stepLine at h
  repeat' split at h
  all_goals first
    | (exfalso; simp at h; done)
    | exact stepDirective_undef q undefs x hx st st' _ _ h0 h
    | (injection h with h; subst h; exact h0)

theorem runLines_undef (q : Quirks) (undefs : List Tok) (x : Tok) (hx : undefs.contains x = true) :
    ∀ (lines : List (List LTok)) (st st' : PState), lookup st.macros x = none →
      runLines q undefs st lines = .ok st' → lookup st'.macros x = none := by
  intro lines
  induction lines with
  | nil => intro st st' h0 h; simp only [runLines] at h; injection h with h; subst h; exact h0
  | cons l r ih =>
    intro st st' h0 h
    simp only [runLines] at h
    cases hs : stepLine q undefs st l with
    | error e => rw [hs] at h; simp at h
    | ok st1 => rw [hs] at h; exact ih st1 st' (stepLine_undef q undefs x hx st st1 l h0 hs) h


/-! ## object-like macros whose replacement lists contain no macro name: replacement = substitution -/

def tokOf (s : Tok) : XTok := ⟨s, false⟩

/-- all macros are object-like and named by identifiers; replacement lists contain neither a macro name nor `#` -/
def flatTable (ms : List Macro) : Bool :=
  ms.all fun m => m.params.isNone && isName m.name && m.body.all fun t => (lookup ms t).isNone && t != ['#']

/-- the replacement of one token -/
def substTok (ms : List Macro) (t : XTok) : List XTok :=
  match lookup ms t.s with
  | some m => m.body.map tokOf
  | none => [t]

theorem lookup_some_name {ms : List Macro} {n : Tok} {m : Macro} (h : lookup ms n = some m) : m ∈ ms ∧ m.name = n := by
  unfold lookup at h
  exact ⟨List.mem_of_find?_eq_some h, by simpa using List.find?_some h⟩

theorem subst_plain (q : Quirks) : ∀ (body : List Tok) (out : List XTok), (∀ t ∈ body, (t != ['#']) = true) →
    subst q false [] [] [] body out = some (out.reverse ++ body.map tokOf) := by
  intro body
  induction body using List.rec with
  | nil => intro out _; simp [subst]
  | cons t r ih =>
    intro out h
    have ht : (t == ['#']) = false := by have := h t (by simp); simpa using this
    have hr : ∀ x ∈ r, (x != ['#']) = true := fun x hx => h x (by simp [hx])
    have harg : ∀ (a : List (List XTok)), argOf [] a t = none := by
      intro a; unfold argOf; split <;> simp [indexOf]
    cases r with
    | nil => simp [subst, ht, harg, tokOf]
    | cons h2 r' =>
      rw [subst.eq_def]
      simp only [ht, Bool.false_eq_true, if_false, harg]
      have := ih (tokOf t :: out) hr
      simp only [tokOf] at this ⊢
      simp [this, tokOf]

theorem expand_nonmacro (q : Quirks) (ms : List Macro) : ∀ (ts : List XTok) (dis : List Tok),
    (∀ t ∈ ts, lookup ms t.s = none) → expand q ms dis ts = .ok ts := by
  intro ts
  induction ts with
  | nil => intro dis _; rw [expand]
  | cons t r ih =>
    intro dis h
    have ht := h t (by simp)
    have ihr := ih dis (fun x hx => h x (by simp [hx]))
    rw [expand]
    split
    · simp [ihr, Except.map]
    · split
      · simp [ihr, Except.map]
      · rename_i m hl; rw [ht] at hl; simp at hl


theorem flat_facts {ms : List Macro} (hf : flatTable ms = true) {n : Tok} {m : Macro} (h : lookup ms n = some m) :
    m.params = none ∧ isName n = true ∧ (∀ t ∈ m.body, lookup ms t = none ∧ (t != ['#']) = true) := by
  obtain ⟨hm, hn⟩ := lookup_some_name h
  unfold flatTable at hf
  have := List.all_eq_true.mp hf m hm
  simp only [Bool.and_eq_true, Option.isNone_iff_eq_none, List.all_eq_true] at this
  exact ⟨this.1.1, by rw [← hn]; exact this.1.2, fun t ht => this.2 t ht⟩

theorem no_join (ms : List Macro) (l rest : List XTok) (h : ∀ x ∈ l, lookup ms x.s = none) :
    (match l.getLast?, rest with
      | some a, n :: _ => isFnName ms a && n.s == ['(']
      | _, _ => false) = false := by
  cases hl : l.getLast? with
  | none => rfl
  | some a =>
    cases rest with
    | nil => rfl
    | cons n r =>
      have : a ∈ l := List.mem_of_getLast? hl
      simp [isFnName, h a this]

/-- **object-like macro replacement = substitution** (any length, any number of macros) -/
theorem expand_flat (q : Quirks) (ms : List Macro) (hf : flatTable ms = true) : ∀ (ts : List XTok),
    (∀ t ∈ ts, t.blue = false) → expand q ms [] ts = .ok (ts.flatMap (substTok ms)) := by
  intro ts
  induction ts with
  | nil => intro _; rw [expand]; rfl
  | cons t r ih =>
    intro hb
    have ihr := ih (fun x hx => hb x (by simp [hx]))
    have htb := hb t (by simp)
    rw [expand]
    split
    · rename_i hnn
      -- not an identifier: no macro has this name
      have hl : lookup ms t.s = none := by
        cases hh : lookup ms t.s with
        | none => rfl
        | some m => have := (flat_facts hf hh).2.1; simp [this, htb] at hnn
      simp [ihr, Except.map, substTok, hl]
    · split
      · rename_i hl
        simp [ihr, Except.map, substTok, hl]
      · rename_i m hl
        obtain ⟨hp, _, hbody⟩ := flat_facts hf hl
        have hd : ([] : List Tok).contains t.s = false := by simp
        simp only [hd, Bool.false_eq_true, dite_false]
        split
        · rename_i hpn
          rw [subst_plain q m.body [] (fun x hx => (hbody x hx).2)]
          simp only [List.reverse_nil, List.nil_append, Option.map_some]
          rw [expand_nonmacro q ms _ _ (by
            intro x hx
            simp only [List.mem_map] at hx
            obtain ⟨y, hy, rfl⟩ := hx
            exact (hbody y hy).1)]
          simp only
          split
          · rename_i l n _ hlast
            have hmem : l ∈ m.body.map tokOf := List.mem_of_getLast? hlast
            simp only [List.mem_map] at hmem
            obtain ⟨y, hy, rfl⟩ := hmem
            have hfn : isFnName ms (tokOf y) = false := by simp [isFnName, tokOf, (hbody y hy).1]
            simp [hfn, ihr, Except.map, substTok, hl]
          · simp [ihr, Except.map, substTok, hl]
        · rename_i ps hps
          rw [hp] at hps; simp at hps

end Cppcheck.PPMacro

import Cppcheck.Model.ProcFaults
/-
Helper lemmas for C21 (process executor fault model).
Part A: termination measure, stutter lemmas, deadlock freedom.
Part B: the invariant behind `contained`.
-/
namespace Cppcheck.ProcFaults

/-! ## generic list lemmas -/

theorem sum_map_set {α : Type} (f : α → Nat) : ∀ (l : List α) (i : Nat) (c c' : α), l[i]? = some c →
    ((l.set i c').map f).sum + f c = (l.map f).sum + f c'
  | [], _, _, _, h => by simp at h
  | a :: t, 0, c, c', h => by
    simp at h; subst h; simp only [List.set, List.map_cons, List.sum_cons]; omega
  | a :: t, i + 1, c, c', h => by
    have := sum_map_set f t i c c' (by simpa using h)
    simp only [List.set, List.map_cons, List.sum_cons]; omega

theorem set_same {α : Type} : ∀ (l : List α) (i : Nat) (c : α), l[i]? = some c → l.set i c = l
  | [], _, _, h => by simp at h
  | a :: t, 0, c, h => by simp at h; subst h; rfl
  | a :: t, i + 1, c, h => by
    have := set_same t i c (by simpa using h)
    simp [List.set, this]

theorem map_set_same {α β : Type} (f : α → β) (l : List α) (i : Nat) (c c' : α) (h : l[i]? = some c)
    (hf : f c' = f c) : (l.set i c').map f = l.map f := by
  rw [List.map_set, hf]
  exact set_same _ _ _ (by simp [h])

theorem mem_flatMap_set {α β : Type} (g : α → List β) : ∀ (l : List α) (i : Nat) (c c' : α), l[i]? = some c →
    (∀ r, r ∈ g c → r ∈ g c') → ∀ r, (r ∈ (l.set i c').flatMap g ↔ r ∈ l.flatMap g ∨ r ∈ g c')
  | [], _, _, _, h, _, _ => by simp at h
  | a :: t, 0, c, c', h, hm, r => by
    simp at h; subst h
    simp only [List.set, List.flatMap_cons, List.mem_append]
    constructor
    · rintro (h | h)
      · exact Or.inr h
      · exact Or.inl (Or.inr h)
    · rintro ((h | h) | h)
      · exact Or.inl (hm r h)
      · exact Or.inr h
      · exact Or.inl h
  | a :: t, i + 1, c, c', h, hm, r => by
    have ih := mem_flatMap_set g t i c c' (by simpa using h) hm r
    simp only [List.set, List.flatMap_cons, List.mem_append, ih]
    constructor
    · rintro (h | h | h)
      · exact Or.inl (Or.inl h)
      · exact Or.inl (Or.inr h)
      · exact Or.inr h
    · rintro ((h | h) | h)
      · exact Or.inl h
      · exact Or.inr (Or.inl h)
      · exact Or.inr (Or.inr h)

theorem foldl_inv {α β : Type} (P : β → Prop) (f : β → α → β) (hf : ∀ b a, P b → P (f b a)) :
    ∀ (l : List α) (b : β), P b → P (l.foldl f b)
  | [], _, h => h
  | a :: t, b, h => foldl_inv P f hf t (f b a) (hf b a h)

theorem foldl_fixed {α β : Type} (f : β → α → β) (b : β) (hf : ∀ a, f b a = b) : ∀ (l : List α), l.foldl f b = b
  | [] => rfl
  | a :: t => by simp [List.foldl, hf a, foldl_fixed f b hf t]

/-! ## Part A: termination -/

def Child.cost (c : Child) : Nat :=
  2 * (c.w.limit - c.sent) + (c.sent - c.read) + (if c.dead then 0 else 1)
    + (if c.pipeOpen then 1 else 0) + (if c.inTable then 1 else 0)

def Worker.cost (w : Worker) : Nat := 2 * w.limit + 4

def flag (b : Bool) : Nat := if b then 0 else 1

/-- work left for the workers, frames left to read, pipes left to close, children left to reap, files left to spawn -/
def rest (s : State) : Nat := (s.pending.map Worker.cost).sum + (s.kids.map Child.cost).sum

/-- the termination measure: `rest` plus one for leaving the loop -/
def measure (s : State) : Nat := flag s.final + rest s

theorem flag_le (a b : Bool) (h : a = true → b = true) : flag b ≤ flag a := by
  cases a <;> cases b <;> simp_all [flag]

theorem measure_le_of (s s' : State) (hr : rest s' ≤ rest s) (hf : s.final = true → s'.final = true) :
    measure s' ≤ measure s := by
  have := flag_le _ _ hf
  simp only [measure]; omega

theorem measure_lt_of_rest (s s' : State) (hr : rest s' < rest s) (hf : s.final = true → s'.final = true) :
    measure s' < measure s := by
  have := flag_le _ _ hf
  simp only [measure]; omega

theorem measure_lt_of_final (s s' : State) (hr : rest s' ≤ rest s) (h : s.final = false) (h' : s'.final = true) :
    measure s' < measure s := by
  simp only [measure, h, h', flag]; simp; omega

theorem rest_set (s : State) (i : Nat) (c c' : Child) (hc : s.kids[i]? = some c) (s' : State)
    (hp : s'.pending = s.pending) (hk : s'.kids = s.kids.set i c') : rest s' + c.cost = rest s + c'.cost := by
  have := sum_map_set Child.cost s.kids i c c' hc
  simp only [rest, hp, hk]; omega

theorem cost_workerStep_le (c : Child) : c.workerStep.cost ≤ c.cost := by
  obtain ⟨w, sent, dead, read, po, it⟩ := c
  cases dead <;> simp only [Child.workerStep, Child.cost] <;> simp
  split
  · simp; omega
  · simp

theorem cost_workerStep_lt (c : Child) (h : c.dead = false) : c.workerStep.cost < c.cost := by
  obtain ⟨w, sent, dead, read, po, it⟩ := c
  simp only at h; subst h
  simp only [Child.workerStep, Child.cost]; simp
  split
  · simp; omega
  · simp

theorem workerStep_final (i : Nat) (s : State) : (workerStep i s).final = s.final := by
  unfold workerStep; split <;> rfl

theorem rest_workerStep_le (i : Nat) (s : State) : rest (workerStep i s) ≤ rest s := by
  unfold workerStep
  split
  · rename_i c hc
    have := rest_set s i c c.workerStep hc { s with kids := s.kids.set i c.workerStep } rfl rfl
    have := cost_workerStep_le c
    omega
  · exact Nat.le_refl _

theorem measure_workerStep_le (i : Nat) (s : State) : measure (workerStep i s) ≤ measure s :=
  measure_le_of _ _ (rest_workerStep_le i s) (by rw [workerStep_final]; exact id)

theorem measure_workerStep_lt (i : Nat) (s : State) (h : workerEnabled i s = true) :
    measure (workerStep i s) < measure s := by
  apply measure_lt_of_rest _ _ _ (by rw [workerStep_final]; exact id)
  unfold workerEnabled at h
  unfold workerStep
  split
  · rename_i c hc
    simp only [hc] at h
    have := rest_set s i c c.workerStep hc { s with kids := s.kids.set i c.workerStep } rfl rfl
    have := cost_workerStep_lt c (by simpa using h)
    omega
  · rename_i hc; simp [hc] at h

theorem workerStep_stutter (i : Nat) (s : State) (h : workerEnabled i s = false) : workerStep i s = s := by
  unfold workerEnabled at h
  unfold workerStep
  split
  · rename_i c hc
    simp only [hc] at h
    have hd : c.dead = true := by simpa using h
    have : c.workerStep = c := by simp [Child.workerStep, hd]
    rw [this, set_same _ _ _ hc]
  · rfl

/-! spawn -/

theorem spawnStep_final (jobs : Nat) (s : State) : (spawnStep jobs s).final = s.final := by
  unfold spawnStep; split
  · split <;> rfl
  · rfl

theorem cost_new (w : Worker) : (Child.new w).cost + 1 = w.cost := by
  simp [Child.new, Child.cost, Worker.cost]

theorem rest_spawnStep_le (jobs : Nat) (s : State) : rest (spawnStep jobs s) ≤ rest s := by
  unfold spawnStep
  split
  · rename_i w ps hp
    split
    · have := cost_new w
      simp only [rest, hp, List.map_cons, List.sum_cons, List.map_append, List.sum_append, List.sum_nil, List.map_nil]
      omega
    · exact Nat.le_refl _
  · exact Nat.le_refl _

theorem measure_spawnStep_le (jobs : Nat) (s : State) : measure (spawnStep jobs s) ≤ measure s :=
  measure_le_of _ _ (rest_spawnStep_le jobs s) (by rw [spawnStep_final]; exact id)

theorem measure_spawnStep_lt (jobs : Nat) (s : State) (h : spawnEnabled jobs s = true) :
    measure (spawnStep jobs s) < measure s := by
  apply measure_lt_of_rest _ _ _ (by rw [spawnStep_final]; exact id)
  unfold spawnEnabled at h
  unfold spawnStep
  split
  · rename_i w ps hp
    have ht : tableCount s < jobs := by simpa [hp] using h
    simp only [ht, if_true]
    have := cost_new w
    simp only [rest, hp, List.map_cons, List.sum_cons, List.map_append, List.sum_append, List.sum_nil, List.map_nil]
    omega
  · rename_i hp; simp [hp] at h

theorem spawnStep_stutter (jobs : Nat) (s : State) (h : spawnEnabled jobs s = false) :
    spawnStep jobs s = { s with pc := .select } := by
  unfold spawnEnabled at h
  unfold spawnStep
  split
  · rename_i w ps hp
    have ht : ¬ tableCount s < jobs := by simpa [hp] using h
    simp [ht]
  · rfl

/-! select -/

/-- the five possible outcomes of `handleRead` on a readable pipe -/
theorem readOne_cases (i : Nat) (s : State) (c : Child) (hc : s.kids[i]? = some c) (ha : s.aborted = false)
    (hr : (c.pipeOpen && c.ready) = true) :
    (c.read < c.sent ∧ ∃ x, c.w.frameAt c.read = .err x ∧
        readOne i s = { s with kids := s.kids.set i { c with read := c.read + 1 }, log := addLog (.finding x) s.log }) ∨
    (c.read < c.sent ∧ c.w.frameAt c.read = .other ∧
        readOne i s = { s with kids := s.kids.set i { c with read := c.read + 1 } }) ∨
    (c.read < c.sent ∧ ∃ rc, c.w.frameAt c.read = .childEnd rc ∧
        readOne i s = { s with kids := s.kids.set i { c with read := c.read + 1, pipeOpen := false }, result := s.result + rc }) ∨
    (¬ c.read < c.sent ∧ c.dead = true ∧ c.w.partialFrame = true ∧ readOne i s = { s with aborted := true }) ∨
    (¬ c.read < c.sent ∧ c.dead = true ∧ c.w.partialFrame = false ∧
        readOne i s = { s with kids := s.kids.set i { c with pipeOpen := false }, result := s.result + 1 }) := by
  unfold readOne
  simp only [ha, hc, hr, if_true, Bool.false_eq_true, if_false]
  by_cases hlt : c.read < c.sent
  · simp only [hlt, if_true]
    cases hf : c.w.frameAt c.read with
    | err x => exact Or.inl ⟨trivial, x, rfl, rfl⟩
    | other => exact Or.inr (Or.inl ⟨trivial, rfl, rfl⟩)
    | childEnd rc => exact Or.inr (Or.inr (Or.inl ⟨trivial, rc, rfl, rfl⟩))
  · simp only [hlt, if_false]
    have hd : c.dead = true := by
      simp only [Child.ready, Bool.and_eq_true, Bool.or_eq_true, decide_eq_true_eq] at hr
      exact hr.2.resolve_left hlt
    cases hp : c.w.partialFrame with
    | true => exact Or.inr (Or.inr (Or.inr (Or.inl ⟨not_false, hd, rfl, by simp⟩)))
    | false => exact Or.inr (Or.inr (Or.inr (Or.inr ⟨not_false, hd, rfl, by simp⟩)))

theorem readOne_skip (i : Nat) (s : State)
    (h : s.aborted = true ∨ s.kids[i]? = none ∨ ∃ c, s.kids[i]? = some c ∧ (c.pipeOpen && c.ready) = false) :
    readOne i s = s := by
  unfold readOne
  rcases h with h | h | ⟨c, hc, h⟩
  · simp [h]
  · simp [h]
  · simp [hc, h]

theorem readOne_dichotomy (i : Nat) (s : State) :
    readOne i s = s ∨ ∃ c, s.kids[i]? = some c ∧ s.aborted = false ∧ (c.pipeOpen && c.ready) = true := by
  cases ha : s.aborted with
  | true => exact Or.inl (readOne_skip i s (Or.inl ha))
  | false =>
    cases hc : s.kids[i]? with
    | none => exact Or.inl (readOne_skip i s (Or.inr (Or.inl hc)))
    | some c =>
      cases hr : (c.pipeOpen && c.ready) with
      | false => exact Or.inl (readOne_skip i s (Or.inr (Or.inr ⟨c, hc, hr⟩)))
      | true => exact Or.inr ⟨c, rfl, rfl, hr⟩

theorem cost_read (c : Child) (h : c.read < c.sent) : ({ c with read := c.read + 1 } : Child).cost + 1 = c.cost := by
  obtain ⟨w, sent, dead, read, po, it⟩ := c
  simp only [Child.cost] at *; omega

theorem cost_read_close (c : Child) (h : c.read < c.sent) :
    ({ c with read := c.read + 1, pipeOpen := false } : Child).cost + 1 ≤ c.cost := by
  obtain ⟨w, sent, dead, read, po, it⟩ := c
  simp only [Child.cost] at *; simp; omega

theorem cost_close (c : Child) (h : c.pipeOpen = true) : ({ c with pipeOpen := false } : Child).cost + 1 = c.cost := by
  obtain ⟨w, sent, dead, read, po, it⟩ := c
  simp only at h; subst h
  simp only [Child.cost]; simp; omega

/-- a read that does something either consumes measure from `rest` or aborts the parent -/
theorem readOne_progress (i : Nat) (s : State) (c : Child) (hc : s.kids[i]? = some c) (ha : s.aborted = false)
    (hr : (c.pipeOpen && c.ready) = true) :
    (rest (readOne i s) < rest s ∧ (readOne i s).final = s.final) ∨
    (rest (readOne i s) = rest s ∧ (readOne i s).final = true) := by
  have hopen : c.pipeOpen = true := by simp only [Bool.and_eq_true] at hr; exact hr.1
  rcases readOne_cases i s c hc ha hr with ⟨hlt, x, _, he⟩ | ⟨hlt, _, he⟩ | ⟨hlt, rc, _, he⟩ | ⟨_, _, _, he⟩ | ⟨_, _, _, he⟩
  · left; rw [he]
    have := rest_set s i c { c with read := c.read + 1 } hc
      { s with kids := s.kids.set i { c with read := c.read + 1 }, log := addLog (.finding x) s.log } rfl rfl
    have := cost_read c hlt
    exact ⟨by omega, rfl⟩
  · left; rw [he]
    have := rest_set s i c { c with read := c.read + 1 } hc
      { s with kids := s.kids.set i { c with read := c.read + 1 } } rfl rfl
    have := cost_read c hlt
    exact ⟨by omega, rfl⟩
  · left; rw [he]
    have := rest_set s i c { c with read := c.read + 1, pipeOpen := false } hc
      { s with kids := s.kids.set i { c with read := c.read + 1, pipeOpen := false }, result := s.result + rc } rfl rfl
    have := cost_read_close c hlt
    exact ⟨by omega, rfl⟩
  · right; rw [he]; exact ⟨rfl, by simp [State.final]⟩
  · left; rw [he]
    have := rest_set s i c { c with pipeOpen := false } hc
      { s with kids := s.kids.set i { c with pipeOpen := false }, result := s.result + 1 } rfl rfl
    have := cost_close c hopen
    exact ⟨by omega, rfl⟩

theorem readOne_final_mono (i : Nat) (s : State) (h : s.final = true) : (readOne i s).final = true := by
  rcases readOne_dichotomy i s with he | ⟨c, hc, ha, hr⟩
  · rw [he]; exact h
  · rcases readOne_progress i s c hc ha hr with ⟨_, hf⟩ | ⟨_, hf⟩
    · rw [hf]; exact h
    · exact hf

theorem rest_readOne_le (i : Nat) (s : State) : rest (readOne i s) ≤ rest s := by
  rcases readOne_dichotomy i s with he | ⟨c, hc, ha, hr⟩
  · rw [he]; exact Nat.le_refl _
  · rcases readOne_progress i s c hc ha hr with ⟨h, _⟩ | ⟨h, _⟩ <;> omega

theorem measure_readOne_le (i : Nat) (s : State) : measure (readOne i s) ≤ measure s :=
  measure_le_of _ _ (rest_readOne_le i s) (readOne_final_mono i s)

theorem measure_readOne_lt (i : Nat) (s : State) (c : Child) (hc : s.kids[i]? = some c)
    (hr : (c.pipeOpen && c.ready) = true) (hf : s.final = false) : measure (readOne i s) < measure s := by
  have ha : s.aborted = false := by
    simp only [State.final, Bool.or_eq_false_iff] at hf; exact hf.2
  rcases readOne_progress i s c hc ha hr with ⟨h, hfin⟩ | ⟨h, hfin⟩
  · exact measure_lt_of_rest _ _ h (readOne_final_mono i s)
  · exact measure_lt_of_final _ _ (Nat.le_of_eq h) hf hfin

theorem readOne_stutter (i : Nat) (s : State) (h : readEnabled s = false) : readOne i s = s := by
  rcases readOne_dichotomy i s with he | ⟨c, hc, _, hr⟩
  · exact he
  · have hm : c ∈ s.kids := List.mem_of_getElem? hc
    have : s.kids.any (fun c => c.pipeOpen && c.ready) = true := List.any_eq_true.mpr ⟨c, hm, hr⟩
    unfold readEnabled at h; rw [h] at this; cases this

/-- reads on other pipes do not touch child `i` -/
theorem readOne_kids_ne (i j : Nat) (s : State) (h : j ≠ i) : (readOne j s).kids[i]? = s.kids[i]? := by
  rcases readOne_dichotomy j s with he | ⟨c, hc, ha, hr⟩
  · rw [he]
  · rcases readOne_cases j s c hc ha hr with ⟨_, x, _, he⟩ | ⟨_, _, he⟩ | ⟨_, rc, _, he⟩ | ⟨_, _, _, he⟩ | ⟨_, _, _, he⟩ <;>
      rw [he] <;> simp [List.getElem?_set_ne h]

theorem measure_foldl_readOne_le (l : List Nat) (s : State) :
    measure (l.foldl (fun s i => readOne i s) s) ≤ measure s := by
  induction l generalizing s with
  | nil => exact Nat.le_refl _
  | cons a t ih => exact Nat.le_trans (ih (readOne a s)) (measure_readOne_le a s)

theorem measure_foldl_readOne_lt (l : List Nat) (s : State) (i : Nat) (c : Child) (hi : i ∈ l) (hn : l.Nodup)
    (hc : s.kids[i]? = some c) (hr : (c.pipeOpen && c.ready) = true) (hf : s.final = false) :
    measure (l.foldl (fun s i => readOne i s) s) < measure s := by
  induction l generalizing s with
  | nil => cases hi
  | cons a t ih =>
    simp only [List.foldl]
    have hn' : t.Nodup := (List.nodup_cons.mp hn).2
    by_cases hai : a = i
    · subst hai
      exact Nat.lt_of_le_of_lt (measure_foldl_readOne_le t _) (measure_readOne_lt a s c hc hr hf)
    · have hit : i ∈ t := by
        cases hi with
        | head => exact absurd rfl hai
        | tail _ h => exact h
      cases hfin : (readOne a s).final with
      | true =>
        have := measure_lt_of_final s (readOne a s) (rest_readOne_le a s) hf hfin
        exact Nat.lt_of_le_of_lt (measure_foldl_readOne_le t _) this
      | false =>
        have hk : (readOne a s).kids[i]? = some c := by rw [readOne_kids_ne i a s hai]; exact hc
        exact Nat.lt_of_lt_of_le (ih (readOne a s) hit hn' hk hfin) (measure_readOne_le a s)

theorem measure_pc (s : State) (p : Phase) : measure { s with pc := p } = measure s := rfl

theorem measure_selectStep_le (s : State) : measure (selectStep s) ≤ measure s := by
  have := measure_foldl_readOne_le (List.range s.kids.length) s
  simpa only [selectStep, measure_pc] using this

theorem measure_selectStep_lt (s : State) (h : readEnabled s = true) (hf : s.final = false) :
    measure (selectStep s) < measure s := by
  unfold readEnabled at h
  obtain ⟨c, hm, hr⟩ := List.any_eq_true.mp h
  obtain ⟨i, hi⟩ := List.mem_iff_getElem?.mp hm
  have hlt : i < s.kids.length := by
    obtain ⟨h, _⟩ := List.getElem?_eq_some_iff.mp hi; exact h
  have := measure_foldl_readOne_lt (List.range s.kids.length) s i c (List.mem_range.mpr hlt) List.nodup_range hi hr hf
  simpa only [selectStep, measure_pc] using this

theorem selectStep_stutter (s : State) (h : readEnabled s = false) : selectStep s = { s with pc := .wait } := by
  unfold selectStep
  rw [foldl_fixed _ s (fun a => readOne_stutter a s h)]

/-! wait -/

theorem cost_reap (c : Child) (h : c.inTable = true) : ({ c with inTable := false } : Child).cost + 1 = c.cost := by
  obtain ⟨w, sent, dead, read, po, it⟩ := c
  simp only at h; subst h
  simp only [Child.cost]; simp

theorem cost_reap_le (c : Child) : ({ c with inTable := false } : Child).cost ≤ c.cost := by
  obtain ⟨w, sent, dead, read, po, it⟩ := c
  simp only [Child.cost]; simp

theorem reapOne_final (i : Nat) (s : State) : (reapOne i s).final = s.final := by
  unfold reapOne
  split
  · rfl
  · simp only []; split <;> rfl

theorem rest_reapOne (i : Nat) (s : State) (c : Child) (hc : s.kids[i]? = some c) :
    rest (reapOne i s) + c.cost = rest s + ({ c with inTable := false } : Child).cost := by
  unfold reapOne
  simp only [hc]
  split
  · exact rest_set s i c { c with inTable := false } hc _ rfl rfl
  · exact rest_set s i c { c with inTable := false } hc _ rfl rfl

theorem rest_reapOne_le (i : Nat) (s : State) : rest (reapOne i s) ≤ rest s := by
  cases hc : s.kids[i]? with
  | none => simp [reapOne, hc]
  | some c =>
    have := rest_reapOne i s c hc
    have := cost_reap_le c
    omega

theorem rest_reapOne_lt (i : Nat) (s : State) (c : Child) (hc : s.kids[i]? = some c) (hz : c.zombie = true) :
    rest (reapOne i s) < rest s := by
  have ht : c.inTable = true := by simp only [Child.zombie, Bool.and_eq_true] at hz; exact hz.1
  have := rest_reapOne i s c hc
  have := cost_reap c ht
  omega

theorem zombieIdx_spec (s : State) (i : Nat) (h : i ∈ zombieIdx s) : ∃ c, s.kids[i]? = some c ∧ c.zombie = true := by
  unfold zombieIdx at h
  have := (List.mem_filter.mp h).2
  split at this
  · rename_i c hc; exact ⟨c, hc, this⟩
  · cases this

theorem zombieIdx_ne_nil (s : State) (h : reapEnabled s = true) : zombieIdx s ≠ [] := by
  unfold reapEnabled at h
  obtain ⟨c, hm, hz⟩ := List.any_eq_true.mp h
  obtain ⟨i, hi⟩ := List.mem_iff_getElem?.mp hm
  have hlt : i < s.kids.length := by
    obtain ⟨h, _⟩ := List.getElem?_eq_some_iff.mp hi; exact h
  intro hnil
  have : i ∈ zombieIdx s := by
    unfold zombieIdx
    exact List.mem_filter.mpr ⟨List.mem_range.mpr hlt, by simp [hi, hz]⟩
  rw [hnil] at this; cases this

theorem zombieIdx_nil (s : State) (h : reapEnabled s = false) : zombieIdx s = [] := by
  unfold zombieIdx
  apply List.filter_eq_nil_iff.mpr
  intro i _ hi
  split at hi
  · rename_i c hc
    have hm : c ∈ s.kids := List.mem_of_getElem? hc
    have : s.kids.any (·.zombie) = true := List.any_eq_true.mpr ⟨c, hm, hi⟩
    unfold reapEnabled at h
    rw [h] at this; cases this
  · cases hi

/-- the state `waitStep` works on after the `waitpid` call -/
def afterReap (choice : Nat) (s : State) : State :=
  match (zombieIdx s)[choice % (zombieIdx s).length]? with
  | some i => reapOne i s
  | none => s

theorem waitStep_eq (choice : Nat) (s : State) :
    waitStep choice s = if finishEnabled (afterReap choice s) then { afterReap choice s with done := true, pc := .spawn }
      else { afterReap choice s with pc := .spawn } := rfl

theorem rest_afterReap_le (choice : Nat) (s : State) : rest (afterReap choice s) ≤ rest s := by
  unfold afterReap
  split
  · exact rest_reapOne_le _ _
  · exact Nat.le_refl _

theorem afterReap_final (choice : Nat) (s : State) : (afterReap choice s).final = s.final := by
  unfold afterReap
  split
  · exact reapOne_final _ _
  · rfl

/-- with a zombie in the table `waitpid` returns one of them -/
theorem afterReap_reaps (choice : Nat) (s : State) (h : reapEnabled s = true) :
    ∃ i c, s.kids[i]? = some c ∧ c.zombie = true ∧ afterReap choice s = reapOne i s := by
  unfold afterReap
  have hne := zombieIdx_ne_nil s h
  have hpos : 0 < (zombieIdx s).length := List.length_pos_iff.mpr hne
  have hlt : choice % (zombieIdx s).length < (zombieIdx s).length := Nat.mod_lt _ hpos
  rw [List.getElem?_eq_getElem hlt]
  obtain ⟨c, hc, hz⟩ := zombieIdx_spec s _ (List.getElem_mem hlt)
  exact ⟨_, c, hc, hz, rfl⟩

theorem rest_afterReap_lt (choice : Nat) (s : State) (h : reapEnabled s = true) :
    rest (afterReap choice s) < rest s := by
  obtain ⟨i, c, hc, hz, he⟩ := afterReap_reaps choice s h
  rw [he]; exact rest_reapOne_lt i s c hc hz

theorem afterReap_none (choice : Nat) (s : State) (h : reapEnabled s = false) : afterReap choice s = s := by
  simp [afterReap, zombieIdx_nil s h]

theorem waitStep_rest (choice : Nat) (s : State) : rest (waitStep choice s) = rest (afterReap choice s) := by
  rw [waitStep_eq]; split <;> rfl

theorem waitStep_final_mono (choice : Nat) (s : State) (h : s.final = true) : (waitStep choice s).final = true := by
  rw [waitStep_eq]
  have := afterReap_final choice s
  split
  · simp [State.final]
  · rw [h] at this; exact this

theorem measure_waitStep_le (choice : Nat) (s : State) : measure (waitStep choice s) ≤ measure s :=
  measure_le_of _ _ (by rw [waitStep_rest]; exact rest_afterReap_le choice s) (waitStep_final_mono choice s)

theorem measure_waitStep_lt (choice : Nat) (s : State) (hf : s.final = false)
    (h : reapEnabled s = true ∨ finishEnabled s = true) : measure (waitStep choice s) < measure s := by
  by_cases hr : reapEnabled s = true
  · exact measure_lt_of_rest _ _ (by rw [waitStep_rest]; exact rest_afterReap_lt choice s hr) (waitStep_final_mono choice s)
  · have hr' : reapEnabled s = false := by simpa using hr
    have hfin : finishEnabled s = true := h.resolve_left hr
    apply measure_lt_of_final _ _ (by rw [waitStep_rest]; exact rest_afterReap_le choice s) hf
    rw [waitStep_eq, afterReap_none choice s hr']
    simp [hfin, State.final]

theorem waitStep_stutter (choice : Nat) (s : State) (hr : reapEnabled s = false) (hfin : finishEnabled s = false) :
    waitStep choice s = { s with pc := .spawn } := by
  rw [waitStep_eq, afterReap_none choice s hr]; simp [hfin]

/-! whole step -/

def phaseEnabled (jobs : Nat) (s : State) : Bool :=
  match s.pc with
  | .spawn => spawnEnabled jobs s
  | .select => readEnabled s
  | .wait => reapEnabled s || finishEnabled s

def Phase.next : Phase → Phase
  | .spawn => .select
  | .select => .wait
  | .wait => .spawn

def labelEnabled (jobs : Nat) (l : Label) (s : State) : Bool :=
  match l with
  | .parent _ => phaseEnabled jobs s
  | .worker i => workerEnabled i s

theorem measure_step_le (jobs : Nat) (l : Label) (s : State) : measure (step jobs l s) ≤ measure s := by
  unfold step
  split
  · exact Nat.le_refl _
  · cases l with
    | worker i => exact measure_workerStep_le i s
    | parent ch =>
      simp only [parentStep]
      split
      · exact measure_spawnStep_le jobs s
      · exact measure_selectStep_le s
      · exact measure_waitStep_le ch s

theorem measure_step_lt (jobs : Nat) (l : Label) (s : State) (hf : s.final = false) (he : labelEnabled jobs l s = true) :
    measure (step jobs l s) < measure s := by
  unfold step
  simp only [hf, Bool.false_eq_true, if_false]
  cases l with
  | worker i => exact measure_workerStep_lt i s he
  | parent ch =>
    simp only [labelEnabled, phaseEnabled] at he
    simp only [parentStep]
    split
    · rename_i hp; simp only [hp] at he; exact measure_spawnStep_lt jobs s he
    · rename_i hp; simp only [hp] at he; exact measure_selectStep_lt s he hf
    · rename_i hp; simp only [hp] at he
      exact measure_waitStep_lt ch s hf (by simpa using he)

/-- a label that is not enabled only moves the parent's program counter -/
theorem step_stutter (jobs : Nat) (l : Label) (s : State) (hf : s.final = false) (he : labelEnabled jobs l s = false) :
    step jobs l s = match l with
      | .parent _ => { s with pc := s.pc.next }
      | .worker _ => s := by
  unfold step
  simp only [hf, Bool.false_eq_true, if_false]
  cases l with
  | worker i => exact workerStep_stutter i s he
  | parent ch =>
    simp only [labelEnabled, phaseEnabled] at he
    simp only [parentStep]
    split
    · rename_i hp; simp only [hp] at he; rw [spawnStep_stutter jobs s he]; simp [hp, Phase.next]
    · rename_i hp; simp only [hp] at he; rw [selectStep_stutter s he]; simp [hp, Phase.next]
    · rename_i hp; simp only [hp, Bool.or_eq_false_iff] at he
      rw [waitStep_stutter ch s he.1 he.2]; simp [hp, Phase.next]

/-- deadlock freedom: when every spawned worker is dead and no parent phase can do anything, the loop is left -/
theorem no_deadlock (jobs : Nat) (hj : 1 ≤ jobs) (s : State)
    (hdead : ∀ c ∈ s.kids, c.dead = true)
    (hs : spawnEnabled jobs s = false) (hr : readEnabled s = false) (hz : reapEnabled s = false) :
    finishEnabled s = true := by
  have htab : ∀ c ∈ s.kids, c.inTable = false := by
    intro c hc
    cases ht : c.inTable with
    | false => rfl
    | true =>
      have : s.kids.any (·.zombie) = true := List.any_eq_true.mpr ⟨c, hc, by simp [Child.zombie, ht, hdead c hc]⟩
      unfold reapEnabled at hz; rw [hz] at this; cases this
  have hopen : ∀ c ∈ s.kids, c.pipeOpen = false := by
    intro c hc
    cases ht : c.pipeOpen with
    | false => rfl
    | true =>
      have : s.kids.any (fun c => c.pipeOpen && c.ready) = true :=
        List.any_eq_true.mpr ⟨c, hc, by simp [Child.ready, ht, hdead c hc]⟩
      unfold readEnabled at hr; rw [hr] at this; cases this
  have hcount : tableCount s = 0 := by
    unfold tableCount
    have : s.kids.filter (·.inTable) = [] := List.filter_eq_nil_iff.mpr (fun c hc => by simp [htab c hc])
    simp [this]
  have hpend : s.pending.isEmpty = true := by
    unfold spawnEnabled at hs
    cases hp : s.pending.isEmpty with
    | true => rfl
    | false =>
      rw [hp, hcount] at hs
      simp at hs; omega
  unfold finishEnabled
  simp only [hpend, Bool.true_and]
  exact List.all_eq_true.mpr (fun c hc => by simp [htab c hc, hopen c hc])

/-! ### schedules -/

/-- every parent phase and every worker gets a turn again and again -/
def Fair (cfg : Config) (σ : Nat → Label) : Prop :=
  (∀ n, ∃ m, n ≤ m ∧ ∃ ch, σ m = .parent ch) ∧
  (∀ i, i < cfg.workers.length → ∀ n, ∃ m, n ≤ m ∧ σ m = .worker i)

def size (s : State) : Nat := s.kids.length + s.pending.length

theorem size_readOne (i : Nat) (s : State) : size (readOne i s) = size s := by
  rcases readOne_dichotomy i s with he | ⟨c, hc, ha, hr⟩
  · rw [he]
  · rcases readOne_cases i s c hc ha hr with ⟨_, x, _, he⟩ | ⟨_, _, he⟩ | ⟨_, rc, _, he⟩ | ⟨_, _, _, he⟩ | ⟨_, _, _, he⟩ <;>
      rw [he] <;> simp [size]

theorem size_step (jobs : Nat) (l : Label) (s : State) : size (step jobs l s) = size s := by
  unfold step
  split
  · rfl
  · cases l with
    | worker i =>
      simp only [workerStep]; split <;> simp [size]
    | parent ch =>
      simp only [parentStep]
      split
      · unfold spawnStep
        split
        · rename_i w ps hp
          split
          · simp [size, hp]; omega
          · rfl
        · rfl
      · have := foldl_inv (fun t => size t = size s) (fun s i => readOne i s)
          (fun b a hb => by rw [size_readOne]; exact hb) (List.range s.kids.length) s rfl
        simpa only [selectStep, size] using this
      · rw [waitStep_eq]
        have : size (afterReap ch s) = size s := by
          unfold afterReap
          split
          · unfold reapOne
            split
            · rfl
            · simp only []; split <;> simp [size]
          · rfl
        split <;> simpa only [size] using this

theorem size_run (cfg : Config) (σ : Nat → Label) (n : Nat) : size (run cfg σ n) = cfg.workers.length := by
  induction n with
  | zero => simp [run, init, size]
  | succ n ih => simp only [run]; rw [size_step]; exact ih

theorem measure_run_mono (cfg : Config) (σ : Nat → Label) (n d : Nat) :
    measure (run cfg σ (n + d)) ≤ measure (run cfg σ n) := by
  induction d with
  | zero => exact Nat.le_refl _
  | succ d ih => exact Nat.le_trans (measure_step_le cfg.jobs (σ (n + d)) _) ih

/-- forget the parent's program counter -/
def core (s : State) : State := { s with pc := .spawn }

def phaseEnabledAt (jobs : Nat) (p : Phase) (s : State) : Bool :=
  match p with
  | .spawn => spawnEnabled jobs s
  | .select => readEnabled s
  | .wait => reapEnabled s || finishEnabled s

theorem phaseEnabled_eq (jobs : Nat) (s : State) : phaseEnabled jobs s = phaseEnabledAt jobs s.pc (core s) := by
  unfold phaseEnabled phaseEnabledAt
  cases s.pc <;> rfl

theorem workerEnabled_core (i : Nat) (s : State) : workerEnabled i s = workerEnabled i (core s) := rfl

theorem final_core (s : State) : s.final = (core s).final := rfl

def Label.pcAfter (l : Label) (p : Phase) : Phase :=
  match l with
  | .parent _ => p.next
  | .worker _ => p

theorem step_stutter_core (jobs : Nat) (l : Label) (s : State) (hf : s.final = false)
    (he : labelEnabled jobs l s = false) :
    core (step jobs l s) = core s ∧ (step jobs l s).pc = l.pcAfter s.pc := by
  rw [step_stutter jobs l s hf he]
  cases l <;> exact ⟨rfl, rfl⟩

/-- from a non-final state a fair schedule eventually lowers the measure -/
theorem progress (cfg : Config) (hj : 1 ≤ cfg.jobs) (σ : Nat → Label) (hfair : Fair cfg σ) (n : Nat)
    (hnf : (run cfg σ n).final = false) : ∃ m, measure (run cfg σ m) < measure (run cfg σ n) := by
  apply Classical.byContradiction
  intro hcon
  have hge : ∀ m, measure (run cfg σ n) ≤ measure (run cfg σ m) := by
    intro m
    apply Classical.byContradiction
    intro h
    exact hcon ⟨m, Nat.lt_of_not_le h⟩
  -- all later states equal the state at n up to the program counter, and no scheduled label is enabled
  have hstut : ∀ d, core (run cfg σ (n + d)) = core (run cfg σ n) ∧
      labelEnabled cfg.jobs (σ (n + d)) (run cfg σ (n + d)) = false := by
    intro d
    induction d with
    | zero =>
      refine ⟨rfl, ?_⟩
      cases he : labelEnabled cfg.jobs (σ n) (run cfg σ n) with
      | false => rfl
      | true =>
        have := measure_step_lt cfg.jobs (σ n) (run cfg σ n) hnf he
        have h2 : measure (run cfg σ n) ≤ measure (step cfg.jobs (σ n) (run cfg σ n)) := hge (n + 1)
        omega
    | succ d ih =>
      have hfd : (run cfg σ (n + d)).final = false := by rw [final_core, ih.1, ← final_core]; exact hnf
      have hc := (step_stutter_core cfg.jobs (σ (n + d)) _ hfd ih.2).1
      have hcore : core (run cfg σ (n + (d + 1))) = core (run cfg σ n) := by
        rw [← Nat.add_assoc]; simp only [run]; rw [hc]; exact ih.1
      refine ⟨hcore, ?_⟩
      have hfd' : (run cfg σ (n + (d + 1))).final = false := by rw [final_core, hcore, ← final_core]; exact hnf
      cases he : labelEnabled cfg.jobs (σ (n + (d + 1))) (run cfg σ (n + (d + 1))) with
      | false => rfl
      | true =>
        have := measure_step_lt cfg.jobs (σ (n + (d + 1))) _ hfd' he
        have h2 : measure (run cfg σ n) ≤ measure (step cfg.jobs (σ (n + (d + 1))) (run cfg σ (n + (d + 1)))) :=
          hge (n + (d + 1) + 1)
        have h3 := measure_run_mono cfg σ n (d + 1)
        omega
  have hfinal : ∀ d, (run cfg σ (n + d)).final = false := by
    intro d; rw [final_core, (hstut d).1, ← final_core]; exact hnf
  have hpc : ∀ d, (run cfg σ (n + d + 1)).pc = (σ (n + d)).pcAfter (run cfg σ (n + d)).pc := by
    intro d
    show (step cfg.jobs (σ (n + d)) (run cfg σ (n + d))).pc = _
    exact (step_stutter_core cfg.jobs (σ (n + d)) _ (hfinal d) (hstut d).2).2
  -- the next parent turn, reached without a change of the program counter
  have hnext : ∀ k d, (∃ e, e ≤ k ∧ ∃ ch, σ (n + d + e) = .parent ch) →
      ∃ d', d ≤ d' ∧ (∃ ch, σ (n + d') = .parent ch) ∧ (run cfg σ (n + d')).pc = (run cfg σ (n + d)).pc := by
    intro k
    induction k with
    | zero =>
      rintro d ⟨e, he, ch, hch⟩
      have : e = 0 := by omega
      subst this
      exact ⟨d, Nat.le_refl _, ⟨ch, hch⟩, rfl⟩
    | succ k ih =>
      rintro d ⟨e, he, ch, hch⟩
      cases hl : σ (n + d) with
      | parent ch' => exact ⟨d, Nat.le_refl _, ⟨ch', hl⟩, rfl⟩
      | worker i =>
        have he0 : e ≠ 0 := by
          intro h0; subst h0; simp only [Nat.add_zero] at hch; rw [hl] at hch; cases hch
        obtain ⟨d', hd', hp', hpc'⟩ := ih (d + 1) ⟨e - 1, by omega, ch, by
          have : n + (d + 1) + (e - 1) = n + d + e := by omega
          rw [this]; exact hch⟩
        refine ⟨d', by omega, hp', ?_⟩
        rw [hpc']
        have := hpc d
        rw [hl] at this
        simpa only [Nat.add_assoc, Label.pcAfter] using this
  have hnext' : ∀ d, ∃ d', d ≤ d' ∧ (∃ ch, σ (n + d') = .parent ch) ∧
      (run cfg σ (n + d')).pc = (run cfg σ (n + d)).pc := by
    intro d
    obtain ⟨m, hm, ch, hch⟩ := hfair.1 (n + d)
    exact hnext (m - (n + d)) d ⟨m - (n + d), Nat.le_refl _, ch, by
      have : n + d + (m - (n + d)) = m := by omega
      rw [this]; exact hch⟩
  let s := run cfg σ n
  -- a parent turn in phase q is not enabled
  have hphase : ∀ d, (∃ ch, σ (n + d) = .parent ch) → phaseEnabledAt cfg.jobs (run cfg σ (n + d)).pc (core s) = false := by
    rintro d ⟨ch, hch⟩
    have := (hstut d).2
    rw [hch] at this
    simp only [labelEnabled] at this
    rw [phaseEnabled_eq, (hstut d).1] at this
    exact this
  obtain ⟨d1, _, hp1, hpc1⟩ := hnext' 0
  obtain ⟨d2, _, hp2, hpc2⟩ := hnext' (d1 + 1)
  obtain ⟨d3, _, hp3, hpc3⟩ := hnext' (d2 + 1)
  have h1 := hphase d1 hp1
  have h2 := hphase d2 hp2
  have h3 := hphase d3 hp3
  have e1 : (run cfg σ (n + (d1 + 1))).pc = (run cfg σ (n + d1)).pc.next := by
    have := hpc d1
    obtain ⟨ch, hch⟩ := hp1
    rw [hch] at this
    simpa only [Nat.add_assoc, Label.pcAfter] using this
  have e2 : (run cfg σ (n + (d2 + 1))).pc = (run cfg σ (n + d2)).pc.next := by
    have := hpc d2
    obtain ⟨ch, hch⟩ := hp2
    rw [hch] at this
    simpa only [Nat.add_assoc, Label.pcAfter] using this
  rw [hpc3, e2, hpc2, e1, hpc1] at h3
  rw [hpc2, e1, hpc1] at h2
  rw [hpc1] at h1
  simp only [Nat.add_zero] at h1 h2 h3
  have hall : ∀ q, phaseEnabledAt cfg.jobs q (core s) = false := by
    intro q
    cases hp0 : (run cfg σ n).pc <;> rw [hp0] at h1 h2 h3 <;> simp only [Phase.next] at h2 h3 <;> cases q <;> assumption
  have hsp : spawnEnabled cfg.jobs s = false := hall .spawn
  have hrd : readEnabled s = false := hall .select
  have hwt : (reapEnabled s || finishEnabled s) = false := hall .wait
  have hdead : ∀ c ∈ s.kids, c.dead = true := by
    intro c hc
    obtain ⟨i, hi⟩ := List.mem_iff_getElem?.mp hc
    have hlt : i < s.kids.length := by
      obtain ⟨h, _⟩ := List.getElem?_eq_some_iff.mp hi; exact h
    have hsz := size_run cfg σ n
    have hiw : i < cfg.workers.length := by
      simp only [size] at hsz
      have : s.kids.length ≤ cfg.workers.length := by
        show (run cfg σ n).kids.length ≤ _
        omega
      omega
    obtain ⟨m, hm, hσ⟩ := hfair.2 i hiw n
    have := (hstut (m - n)).2
    have hmn : n + (m - n) = m := by omega
    rw [hmn, hσ] at this
    simp only [labelEnabled] at this
    rw [workerEnabled_core, ← hmn, (hstut (m - n)).1, ← workerEnabled_core] at this
    have hi' : (run cfg σ n).kids[i]? = some c := hi
    simp only [workerEnabled, hi'] at this
    simpa using this
  simp only [Bool.or_eq_false_iff] at hwt
  have := no_deadlock cfg.jobs hj s hdead hsp hrd hwt.1
  rw [hwt.2] at this
  cases this

theorem terminates_aux (cfg : Config) (hj : 1 ≤ cfg.jobs) (σ : Nat → Label) (hfair : Fair cfg σ) :
    ∀ k n, measure (run cfg σ n) ≤ k → ∃ m, (run cfg σ m).final = true := by
  intro k
  induction k with
  | zero =>
    intro n hn
    cases hf : (run cfg σ n).final with
    | true => exact ⟨n, hf⟩
    | false =>
      obtain ⟨m, hm⟩ := progress cfg hj σ hfair n hf
      omega
  | succ k ih =>
    intro n hn
    cases hf : (run cfg σ n).final with
    | true => exact ⟨n, hf⟩
    | false =>
      obtain ⟨m, hm⟩ := progress cfg hj σ hfair n hf
      exact ih m (by omega)


/-! ## Part B: the invariant behind `contained` -/

/-- what child `c` has contributed to the log so far -/
def Child.reports (c : Child) : List Report :=
  (c.w.findingsUpTo c.read).map .finding ++
    (if !c.inTable && c.w.crashed then [.internal c.w.file c.w.endStatus] else [])

/-- what child `c` has contributed to `result` so far -/
def Child.contrib (c : Child) : Nat :=
  (if c.pipeOpen then 0 else if c.read = c.w.total then c.w.rc else 1) +
    (if !c.inTable && c.w.crashed then 1 else 0)

structure Child.OK (c : Child) : Prop where
  read_le : c.read ≤ c.sent
  sent_le : c.sent ≤ c.w.limit
  dead_sent : c.dead = true → c.sent = c.w.limit
  reaped_dead : c.inTable = false → c.dead = true
  open_lt : c.pipeOpen = true → c.read < c.w.total
  closed_eq : c.pipeOpen = false → c.read = c.w.limit
  no_partial : c.w.partialFrame = false

structure Inv (ws : List Worker) (s : State) : Prop where
  workers : s.kids.map (·.w) ++ s.pending = ws
  ok : ∀ c ∈ s.kids, c.OK
  nodup : s.log.Nodup
  log_iff : ∀ r, r ∈ s.log ↔ r ∈ s.kids.flatMap Child.reports
  result_eq : s.result = (s.kids.map Child.contrib).sum
  not_aborted : s.aborted = false
  done_all : s.done = true → s.pending = [] ∧ ∀ c ∈ s.kids, c.pipeOpen = false ∧ c.inTable = false

theorem limit_le_total (w : Worker) : w.limit ≤ w.total := by
  unfold Worker.limit
  split
  · exact Nat.le_refl _
  · exact Nat.min_le_right _ _

theorem mem_addLog (r r0 : Report) (log : List Report) : r ∈ addLog r0 log ↔ r ∈ log ∨ r = r0 := by
  unfold addLog
  split
  · rename_i h
    constructor
    · exact Or.inl
    · rintro (h' | h')
      · exact h'
      · rw [h']; exact h
  · simp

theorem nodup_addLog (r0 : Report) (log : List Report) (h : log.Nodup) : (addLog r0 log).Nodup := by
  unfold addLog
  split
  · exact h
  · rename_i hn
    rw [List.nodup_append]
    refine ⟨h, by simp, ?_⟩
    intro a ha b hb
    simp only [List.mem_singleton] at hb
    subst hb
    intro hab; subst hab; exact hn ha

theorem findingsUpTo_succ (w : Worker) (n : Nat) :
    w.findingsUpTo (n + 1) = w.findingsUpTo n ++ (match w.body[n]? with | some (some x) => [x] | _ => []) := by
  unfold Worker.findingsUpTo
  rw [List.take_add_one, List.filterMap_append]
  congr 1
  cases h : w.body[n]? with
  | none => simp
  | some o => cases o <;> simp

/-- generic preservation lemma: child `i` makes a local move `c → c'` that adds the reports `new` and `d` to the result -/
theorem Inv.update {ws : List Worker} {s : State} (inv : Inv ws s) (i : Nat) (c c' : Child) (hc : s.kids[i]? = some c)
    (hw : c'.w = c.w) (hok : c'.OK) (new : List Report) (d : Nat)
    (hrep : ∀ r, r ∈ c'.reports ↔ r ∈ c.reports ∨ r ∈ new)
    (hcon : c'.contrib = c.contrib + d)
    (log' : List Report) (result' : Nat)
    (hnd : log'.Nodup) (hlog : ∀ r, r ∈ log' ↔ r ∈ s.log ∨ r ∈ new) (hres : result' = s.result + d)
    (hdone : s.done = false) : Inv ws { s with kids := s.kids.set i c', log := log', result := result' } := by
  have hmem : c ∈ s.kids := List.mem_of_getElem? hc
  refine ⟨?_, ?_, hnd, ?_, ?_, inv.not_aborted, ?_⟩
  · show (s.kids.set i c').map (·.w) ++ s.pending = ws
    rw [map_set_same (·.w) s.kids i c c' hc hw]; exact inv.workers
  · intro x hx
    rcases List.mem_or_eq_of_mem_set hx with h | h
    · exact inv.ok x h
    · rw [h]; exact hok
  · intro r
    show r ∈ log' ↔ r ∈ (s.kids.set i c').flatMap Child.reports
    rw [hlog, mem_flatMap_set Child.reports s.kids i c c' hc (fun r hr => (hrep r).mpr (Or.inl hr)), hrep, inv.log_iff]
    constructor
    · rintro (h | h)
      · exact Or.inl h
      · exact Or.inr (Or.inr h)
    · rintro (h | h | h)
      · exact Or.inl h
      · exact Or.inl (List.mem_flatMap.mpr ⟨c, hmem, h⟩)
      · exact Or.inr h
  · have := sum_map_set Child.contrib s.kids i c c' hc
    show result' = ((s.kids.set i c').map Child.contrib).sum
    rw [hres, inv.result_eq]; omega
  · intro h; rw [hdone] at h; cases h

theorem Inv.pc {ws : List Worker} {s : State} (inv : Inv ws s) (p : Phase) : Inv ws { s with pc := p } :=
  ⟨inv.workers, inv.ok, inv.nodup, inv.log_iff, inv.result_eq, inv.not_aborted, inv.done_all⟩

theorem Inv.workerStep {ws : List Worker} {s : State} (inv : Inv ws s) (hd : s.done = false) (i : Nat) :
    Inv ws (workerStep i s) := by
  unfold ProcFaults.workerStep
  split
  · rename_i c hc
    have hmem : c ∈ s.kids := List.mem_of_getElem? hc
    have ok := inv.ok c hmem
    have hw : c.workerStep.w = c.w := by unfold Child.workerStep; split <;> (try split) <;> rfl
    refine inv.update i c c.workerStep hc hw ?_ [] 0 ?_ ?_ _ _ inv.nodup (by simp) rfl hd
    · unfold Child.workerStep
      split
      · exact ok
      · rename_i hnd
        split
        · rename_i hlt
          exact ⟨Nat.le_succ_of_le ok.read_le, hlt, fun h => absurd h hnd, ok.reaped_dead, ok.open_lt, ok.closed_eq, ok.no_partial⟩
        · rename_i hge
          exact ⟨ok.read_le, ok.sent_le, fun _ => Nat.le_antisymm ok.sent_le (Nat.le_of_not_lt hge), fun _ => rfl,
            ok.open_lt, ok.closed_eq, ok.no_partial⟩
    · intro r
      have : c.workerStep.reports = c.reports := by unfold Child.workerStep; split <;> (try split) <;> rfl
      rw [this]; simp
    · have : c.workerStep.contrib = c.contrib := by unfold Child.workerStep; split <;> (try split) <;> rfl
      rw [this]; rfl
  · exact inv

theorem Inv.spawnStep {ws : List Worker} {s : State} (inv : Inv ws s) (hd : s.done = false) (jobs : Nat)
    (hmid : ∀ w ∈ ws, w.partialFrame = false) : Inv ws (spawnStep jobs s) := by
  unfold ProcFaults.spawnStep
  split
  · rename_i w ps hp
    split
    · have hwm : w ∈ ws := by
        rw [← inv.workers, hp]; simp
      refine ⟨?_, ?_, inv.nodup, ?_, ?_, inv.not_aborted, ?_⟩
      · have := inv.workers
        rw [hp] at this
        simpa [Child.new] using this
      · intro c hc
        simp only [List.mem_append, List.mem_singleton] at hc
        rcases hc with h | h
        · exact inv.ok c h
        · rw [h]
          refine ⟨Nat.le_refl _, Nat.zero_le _, (fun h => by cases h), (fun h => by cases h), fun _ => ?_, (fun h => by cases h), hmid w hwm⟩
          simp [Child.new, Worker.total]
      · intro r
        rw [inv.log_iff]
        simp [Child.reports, Child.new, Worker.findingsUpTo]
      · have := inv.result_eq
        simp only [List.map_append, List.sum_append, List.map_cons, List.map_nil, List.sum_cons, List.sum_nil]
        simp [Child.contrib, Child.new, this]
      · intro h; rw [hd] at h; cases h
    · exact inv.pc _
  · exact inv.pc _

theorem frameAt_err (w : Worker) (n x : Nat) (h : w.frameAt n = .err x) : w.body[n]? = some (some x) := by
  unfold Worker.frameAt at h
  split at h
  · rename_i y hy; cases h; exact hy
  · cases h
  · cases h

theorem frameAt_other (w : Worker) (n : Nat) (h : w.frameAt n = .other) : w.body[n]? = some none := by
  unfold Worker.frameAt at h
  split at h
  · cases h
  · rename_i hy; exact hy
  · cases h

theorem frameAt_childEnd (w : Worker) (n rc : Nat) (h : w.frameAt n = .childEnd rc) : w.body[n]? = none ∧ rc = w.rc := by
  unfold Worker.frameAt at h
  split at h
  · cases h
  · cases h
  · rename_i hy; cases h; exact ⟨hy, rfl⟩

theorem lt_length_of_getElem? {α : Type} (l : List α) (n : Nat) (a : α) (h : l[n]? = some a) : n < l.length := by
  obtain ⟨h, _⟩ := List.getElem?_eq_some_iff.mp h; exact h

theorem Inv.readOne {ws : List Worker} {s : State} (inv : Inv ws s) (hd : s.done = false) (i : Nat) :
    Inv ws (readOne i s) ∧ (ProcFaults.readOne i s).done = false := by
  rcases readOne_dichotomy i s with he | ⟨c, hc, ha, hr⟩
  · rw [he]; exact ⟨inv, hd⟩
  · have hmem : c ∈ s.kids := List.mem_of_getElem? hc
    have ok := inv.ok c hmem
    have hopen : c.pipeOpen = true := by simp only [Bool.and_eq_true] at hr; exact hr.1
    have hlt_total := ok.open_lt hopen
    rcases readOne_cases i s c hc ha hr with ⟨hlt, x, hf, he⟩ | ⟨hlt, hf, he⟩ | ⟨hlt, rc, hf, he⟩ | ⟨_, _, hpart, _⟩ | ⟨hnlt, hdead, _, he⟩
    · rw [he]
      refine ⟨?_, hd⟩
      have hb := frameAt_err _ _ _ hf
      have hbl := lt_length_of_getElem? _ _ _ hb
      refine inv.update i c { c with read := c.read + 1 } hc rfl ?_ [.finding x] 0 ?_ ?_ _ _
        (nodup_addLog _ _ inv.nodup) (fun r => by rw [mem_addLog]; simp) rfl hd
      · exact ⟨hlt, ok.sent_le, ok.dead_sent, ok.reaped_dead, (fun _ => by simp only [Worker.total]; omega),
          (fun h => by rw [hopen] at h; cases h), ok.no_partial⟩
      · intro r
        simp only [Child.reports, findingsUpTo_succ, hb, List.map_append, List.mem_append, List.map_cons, List.map_nil]
        constructor
        · rintro ((h | h) | h)
          · exact Or.inl (Or.inl h)
          · exact Or.inr h
          · exact Or.inl (Or.inr h)
        · rintro ((h | h) | h)
          · exact Or.inl (Or.inl h)
          · exact Or.inr h
          · exact Or.inl (Or.inr h)
      · simp [Child.contrib, hopen]
    · rw [he]
      refine ⟨?_, hd⟩
      have hb := frameAt_other _ _ hf
      have hbl := lt_length_of_getElem? _ _ _ hb
      refine inv.update i c { c with read := c.read + 1 } hc rfl ?_ [] 0 ?_ ?_ _ _
        inv.nodup (by simp) rfl hd
      · exact ⟨hlt, ok.sent_le, ok.dead_sent, ok.reaped_dead, (fun _ => by simp only [Worker.total]; omega),
          (fun h => by rw [hopen] at h; cases h), ok.no_partial⟩
      · intro r
        simp [Child.reports, findingsUpTo_succ, hb]
      · simp [Child.contrib, hopen]
    · rw [he]
      refine ⟨?_, hd⟩
      obtain ⟨hb, hrc⟩ := frameAt_childEnd _ _ _ hf
      have hbl : c.w.body.length ≤ c.read := by
        rcases Nat.lt_or_ge c.read c.w.body.length with h | h
        · rw [List.getElem?_eq_getElem h] at hb; cases hb
        · exact h
      have hlim := limit_le_total c.w
      have hsl := ok.sent_le
      have hrt : c.read + 1 = c.w.total := by simp only [Worker.total] at *; omega
      refine inv.update i c { c with read := c.read + 1, pipeOpen := false } hc rfl ?_ [] rc ?_ ?_ _ _
        inv.nodup (by simp) rfl hd
      · exact ⟨hlt, ok.sent_le, ok.dead_sent, ok.reaped_dead, (fun h => by cases h),
          (fun _ => by simp only [Worker.total] at *; omega), ok.no_partial⟩
      · intro r
        simp [Child.reports, findingsUpTo_succ, hb]
      · simp only [Child.contrib, hopen, hrt, hrc]; simp; omega
    · rw [ok.no_partial] at hpart; cases hpart
    · rw [he]
      refine ⟨?_, hd⟩
      have hrs : c.read = c.sent := Nat.le_antisymm ok.read_le (Nat.le_of_not_lt hnlt)
      have hsl := ok.dead_sent hdead
      refine inv.update i c { c with pipeOpen := false } hc rfl ?_ [] 1 ?_ ?_ _ _
        inv.nodup (by simp) rfl hd
      · exact ⟨ok.read_le, ok.sent_le, ok.dead_sent, ok.reaped_dead, (fun h => by cases h),
          (fun _ => by rw [hrs, hsl]), ok.no_partial⟩
      · intro r
        simp [Child.reports]
      · have : c.read ≠ c.w.total := Nat.ne_of_lt hlt_total
        simp only [Child.contrib, hopen, this]; simp; omega

theorem Inv.selectStep {ws : List Worker} {s : State} (inv : Inv ws s) (hd : s.done = false) :
    Inv ws (selectStep s) ∧ (ProcFaults.selectStep s).done = false := by
  have := foldl_inv (fun t => Inv ws t ∧ t.done = false) (fun s i => ProcFaults.readOne i s)
    (fun b a hb => hb.1.readOne hb.2 a) (List.range s.kids.length) s ⟨inv, hd⟩
  exact ⟨this.1.pc _, this.2⟩

theorem Inv.reapOne {ws : List Worker} {s : State} (inv : Inv ws s) (hd : s.done = false) (i : Nat) (c : Child)
    (hc : s.kids[i]? = some c) (hz : c.zombie = true) : Inv ws (reapOne i s) := by
  have hmem : c ∈ s.kids := List.mem_of_getElem? hc
  have ok := inv.ok c hmem
  simp only [Child.zombie, Bool.and_eq_true] at hz
  have hok' : ({ c with inTable := false } : Child).OK :=
    ⟨ok.read_le, ok.sent_le, ok.dead_sent, fun _ => hz.2, ok.open_lt, ok.closed_eq, ok.no_partial⟩
  unfold ProcFaults.reapOne
  simp only [hc]
  split
  · rename_i hcr
    have hcr' : c.w.crashed = true := hcr
    refine inv.update i c { c with inTable := false } hc rfl hok' [.internal c.w.file c.w.endStatus] 1 ?_ ?_ _ _
      (nodup_addLog _ _ inv.nodup) (fun r => by rw [mem_addLog]; simp) rfl hd
    · intro r
      simp [Child.reports, hz.1, hcr']
    · simp [Child.contrib, hz.1, hcr']
  · rename_i hcr
    have hcr' : c.w.crashed = false := by simpa [Worker.crashed] using hcr
    refine inv.update i c { c with inTable := false } hc rfl hok' [] 0 ?_ ?_ _ _
      inv.nodup (by simp) rfl hd
    · intro r
      simp [Child.reports, hcr']
    · simp [Child.contrib, hcr']

theorem afterReap_done (choice : Nat) (s : State) : (afterReap choice s).done = s.done := by
  unfold afterReap
  split
  · unfold ProcFaults.reapOne
    split
    · rfl
    · simp only []; split <;> rfl
  · rfl

theorem Inv.afterReap {ws : List Worker} {s : State} (inv : Inv ws s) (hd : s.done = false) (choice : Nat) :
    Inv ws (afterReap choice s) := by
  cases hr : reapEnabled s with
  | false => rw [afterReap_none choice s hr]; exact inv
  | true =>
    obtain ⟨i, c, hc, hz, he⟩ := afterReap_reaps choice s hr
    rw [he]; exact inv.reapOne hd i c hc hz

theorem Inv.waitStep {ws : List Worker} {s : State} (inv : Inv ws s) (hd : s.done = false) (choice : Nat) :
    Inv ws (waitStep choice s) := by
  rw [waitStep_eq]
  have inv' := inv.afterReap hd choice
  split
  · rename_i hfin
    simp only [finishEnabled, Bool.and_eq_true, List.isEmpty_iff, List.all_eq_true, Bool.not_eq_true'] at hfin
    refine ⟨inv'.workers, inv'.ok, inv'.nodup, inv'.log_iff, inv'.result_eq, inv'.not_aborted, fun _ => ⟨hfin.1, ?_⟩⟩
    intro c hc
    have := hfin.2 c hc
    simpa using this
  · exact inv'.pc _

theorem Inv.step {ws : List Worker} {s : State} (inv : Inv ws s) (jobs : Nat) (l : Label)
    (hmid : ∀ w ∈ ws, w.partialFrame = false) : Inv ws (step jobs l s) := by
  unfold ProcFaults.step
  split
  · exact inv
  · rename_i hf
    have hd : s.done = false := by
      simp only [State.final, Bool.or_eq_true, not_or, Bool.not_eq_true] at hf; exact hf.1
    cases l with
    | worker i => exact inv.workerStep hd i
    | parent ch =>
      simp only [parentStep]
      split
      · exact inv.spawnStep hd jobs hmid
      · exact (inv.selectStep hd).1
      · exact inv.waitStep hd ch

theorem Inv.init (cfg : Config) : Inv cfg.workers (init cfg) :=
  ⟨by simp [ProcFaults.init], by simp [ProcFaults.init], by simp [ProcFaults.init], by simp [ProcFaults.init],
    by simp [ProcFaults.init], rfl, fun h => by cases h⟩

theorem Inv.run (cfg : Config) (hmid : ∀ w ∈ cfg.workers, w.partialFrame = false) (σ : Nat → Label) (n : Nat) :
    Inv cfg.workers (run cfg σ n) := by
  induction n with
  | zero => exact Inv.init cfg
  | succ n ih => exact ih.step cfg.jobs (σ n) hmid

/-- in a state left through `break` every child has delivered exactly what the closed form says -/
theorem Inv.final_child {ws : List Worker} {s : State} (inv : Inv ws s) (hdone : s.done = true) (c : Child) (hc : c ∈ s.kids) :
    c.reports = c.w.reports ∧ c.contrib = c.w.contribution := by
  obtain ⟨_, hall⟩ := inv.done_all hdone
  obtain ⟨hpo, hit⟩ := hall c hc
  have ok := inv.ok c hc
  have hrl := ok.closed_eq hpo
  constructor
  · simp [Child.reports, Worker.reports, Worker.delivered, hrl, hit]
  · simp [Child.contrib, Worker.contribution, hrl, hit, hpo]

theorem Inv.final_kids {ws : List Worker} {s : State} (inv : Inv ws s) (hdone : s.done = true) :
    s.kids.map (·.w) = ws := by
  have := inv.workers
  rw [(inv.done_all hdone).1] at this
  simpa using this

theorem Inv.final_log {ws : List Worker} {s : State} (inv : Inv ws s) (hdone : s.done = true) (r : Report) :
    r ∈ s.log ↔ r ∈ ws.flatMap Worker.reports := by
  rw [inv.log_iff, ← inv.final_kids hdone]
  simp only [List.mem_flatMap, List.mem_map]
  constructor
  · rintro ⟨c, hc, hr⟩
    exact ⟨c.w, ⟨c, hc, rfl⟩, by rw [← (inv.final_child hdone c hc).1]; exact hr⟩
  · rintro ⟨w, ⟨c, hc, hw⟩, hr⟩
    exact ⟨c, hc, by rw [(inv.final_child hdone c hc).1, hw]; exact hr⟩

theorem Inv.final_result {ws : List Worker} {s : State} (inv : Inv ws s) (hdone : s.done = true) :
    s.result = (ws.map Worker.contribution).sum := by
  rw [inv.result_eq, ← inv.final_kids hdone, List.map_map]
  congr 1
  apply List.map_congr_left
  intro c hc
  exact (inv.final_child hdone c hc).2


end Cppcheck.ProcFaults

import Cppcheck.Model.MatchEquiv
import Cppcheck.Proofs.Match
import Cppcheck.Proofs.MatchInterp
/- helper lemmas for C05 (1): equivariance of the pattern language under spelling maps (core Lean only) -/
namespace Cppcheck.MatchEquiv
open Cppcheck.Wire Cppcheck.Match

/-- `f` neither creates nor destroys an equality of the spelling `x` with one of the strings in `L` -/
def Respects (f : Str → Str) (L : List Str) (x : Str) : Prop := ∀ s ∈ L, (f x = s ↔ x = s)

/-- every token of the list is respected -/
def Compat (f : Str → Str) (L : List Str) (ts : List Tok) : Prop := ∀ t ∈ ts, Respects f L t.str

instance (f : Str → Str) (L : List Str) (x : Str) : Decidable (Respects f L x) := by
  unfold Respects; exact inferInstance

instance (f : Str → Str) (L : List Str) (ts : List Tok) : Decidable (Compat f L ts) := by
  unfold Compat; exact inferInstance

theorem Respects.mono {f : Str → Str} {L L' : List Str} {x : Str} (h : Respects f L x) (hs : ∀ s ∈ L', s ∈ L) :
    Respects f L' x := fun s hs' => h s (hs s hs')

theorem Compat.mono {f : Str → Str} {L L' : List Str} {ts : List Tok} (h : Compat f L ts) (hs : ∀ s ∈ L', s ∈ L) :
    Compat f L' ts := fun t ht => (h t ht).mono hs

theorem Compat.tail {f : Str → Str} {L : List Str} {t : Tok} {ts : List Tok} (h : Compat f L (t :: ts)) :
    Compat f L ts := fun t' ht' => h t' (by simp [ht'])

theorem respects_eq {f : Str → Str} {L : List Str} {x s : Str} (h : Respects f L x) (hs : s ∈ L) :
    decide (f x = s) = decide (x = s) := by
  have := h s hs
  by_cases hx : x = s
  · subst hx
    simp [this.2 rfl]
  · have : ¬ f x = s := fun h' => hx (this.1 h')
    simp [hx, this]

@[simp] theorem mapTok_str (f : Str → Str) (t : Tok) : (mapTok f t).str = f t.str := rfl
@[simp] theorem mapTok_ty (f : Str → Str) (t : Tok) : (mapTok f t).ty = t.ty := rfl
@[simp] theorem mapTok_varId (f : Str → Str) (t : Tok) : (mapTok f t).varId = t.varId := rfl
@[simp] theorem mapTok_isName (f : Str → Str) (t : Tok) : (mapTok f t).isName = t.isName := rfl

theorem cmd_eval_map (f : Str → Str) (c : Cmd) (t : Tok) (v : Nat) (h : Respects f (cmdLits c) t.str) :
    c.eval (mapTok f t) v = c.eval t v := by
  cases c
  case or =>
    show (decide (t.ty = .eBitOp) && decide (f t.str = ['|'])) = (decide (t.ty = .eBitOp) && decide (t.str = ['|']))
    rw [respects_eq h (by simp [cmdLits])]
  case oror =>
    show (decide (t.ty = .eLogicalOp) && decide (f t.str = ['|', '|'])) = (decide (t.ty = .eLogicalOp) && decide (t.str = ['|', '|']))
    rw [respects_eq h (by simp [cmdLits])]
  all_goals rfl

theorem atom_eval_map (f : Str → Str) (a : Atom) (t : Tok) (v : Nat) (h : Respects f (atomLits a) t.str) :
    a.eval (mapTok f t) v = a.eval t v := by
  cases a with
  | cmd c => exact cmd_eval_map f c t v h
  | lit s =>
    simp only [Atom.eval, mapTok_str]
    exact respects_eq h (by simp [atomLits])

theorem any_atom_eval_map (f : Str → Str) (as : List Atom) (t : Tok) (v : Nat)
    (h : Respects f (as.flatMap atomLits) t.str) :
    as.any (·.eval (mapTok f t) v) = as.any (·.eval t v) := by
  induction as with
  | nil => rfl
  | cons a r ih =>
    simp only [List.any_cons]
    rw [atom_eval_map f a t v (h.mono (by intro s hs; simp [hs])),
      ih (h.mono (by intro s hs; simp only [List.flatMap_cons, List.mem_append]; exact Or.inr hs))]

/-- the `[abc]` test as a Boolean function of the spelling -/
def clsTest (cs : Str) (x : Str) : Bool :=
  match x with
  | [c] => cs.contains c
  | _ => false

theorem clsTest_iff (cs x : Str) : clsTest cs x = true ↔ ∃ c ∈ cs, x = [c] := by
  unfold clsTest
  split
  · rename_i c
    simp
  · rename_i hne
    constructor
    · intro h; cases h
    · rintro ⟨c, _, rfl⟩
      exact absurd rfl (hne c)

theorem clsTest_map (f : Str → Str) (cs x : Str) (h : Respects f (cs.map (fun c => [c])) x) :
    clsTest cs (f x) = clsTest cs x := by
  have key : ∀ y z : Str, (∀ s ∈ cs.map (fun c => [c]), (y = s ↔ z = s)) → clsTest cs y = true → clsTest cs z = true := by
    intro y z hyz hy
    obtain ⟨c, hc, rfl⟩ := (clsTest_iff cs y).1 hy
    have := (hyz [c] (by simp only [List.mem_map]; exact ⟨c, hc, rfl⟩)).1 rfl
    exact (clsTest_iff cs z).2 ⟨c, hc, this⟩
  have h1 := key (f x) x h
  have h2 := key x (f x) (fun s hs => (h s hs).symm)
  cases ha : clsTest cs (f x) <;> cases hb : clsTest cs x <;> simp_all

/-- **word-level equivariance**: renaming the spellings of the tokens by a map that respects the
    strings the pattern words compare with does not change the verdict. -/
theorem semWords_map (f : Str → Str) (v : Nat) :
    ∀ (ws : List Word) (ts : List Tok), Compat f (lits ws) ts →
      semWords ws (ts.map (mapTok f)) v = semWords ws ts v := by
  intro ws
  induction ws with
  | nil => intro ts _; simp [semWords]
  | cons w ws ih =>
    intro ts h
    have hws : Compat f (lits ws) ts :=
      h.mono (by intro s hs; simp only [lits, List.flatMap_cons, List.mem_append]; exact Or.inr hs)
    have hw : Compat f (wordLits w) ts :=
      h.mono (by intro s hs; simp only [lits, List.flatMap_cons, List.mem_append]; exact Or.inl hs)
    cases w with
    | cls cs =>
      cases ts with
      | nil => simp [semWords]
      | cons t r =>
        have ht := hw t (by simp)
        simp only [wordLits] at ht
        have := clsTest_map f cs t.str ht
        simp only [clsTest] at this
        simp only [List.map_cons, semWords, ih r hws.tail]
        exact congrArg (· && semWords ws r v) this
    | alts as opt =>
      cases ts with
      | nil => simp [semWords]
      | cons t r =>
        have ht := hw t (by simp)
        simp only [wordLits] at ht
        simp only [List.map_cons, semWords, any_atom_eval_map f as t v ht, ih r hws.tail]
        have := ih (t :: r) hws
        simp only [List.map_cons] at this
        rw [this]
    | neg s =>
      cases ts with
      | nil => simp [semWords]
      | cons t r =>
        have ht := hw t (by simp)
        have := respects_eq ht (s := s) (by simp [wordLits])
        have e : decide (¬ f t.str = s) = decide (¬ t.str = s) := by simp only [decide_not, this]
        simp only [List.map_cons, semWords, ih r hws.tail, ne_eq]
        exact congrArg (· && semWords ws r v) e
    | one a =>
      cases ts with
      | nil => simp [semWords]
      | cons t r =>
        have ht := hw t (by simp)
        simp only [wordLits] at ht
        simp only [List.map_cons, semWords, atom_eval_map f a t v ht, ih r hws.tail]

/-! ### finite renamings that avoid a reserved set -/

theorem lookup_mem {α β : Type} [BEq α] [LawfulBEq α] (l : List (α × β)) (k : α) (v : β)
    (h : l.lookup k = some v) : (k, v) ∈ l := by
  induction l with
  | nil => simp at h
  | cons kv r ih =>
    obtain ⟨k', v'⟩ := kv
    simp only [List.lookup] at h
    by_cases hk : k == k'
    · simp only [hk] at h
      have : k = k' := by simpa using hk
      cases h
      simp [this]
    · simp only [hk] at h
      exact List.mem_cons_of_mem _ (ih h)

/-- a reserved spelling is left alone and an unreserved one never becomes reserved -/
theorem avoids_spec (σ : Renaming) (R : List Str) (h : σ.avoids R = true) (x : Str) :
    (x ∈ R → σ.f x = x) ∧ (x ∉ R → σ.f x ∉ R) := by
  simp only [Renaming.avoids, List.all_eq_true, Bool.and_eq_true, Bool.not_eq_true', List.contains_eq_mem,
    decide_eq_false_iff_not] at h
  unfold Renaming.f
  cases hl : σ.map.lookup x with
  | none => exact ⟨fun _ => rfl, fun hx => hx⟩
  | some y =>
    have := h (x, y) (lookup_mem _ _ _ hl)
    exact ⟨fun hx => absurd hx this.1, fun _ => this.2⟩

theorem avoids_respects (σ : Renaming) (R : List Str) (h : σ.avoids R = true) (x : Str) : Respects σ.f R x := by
  intro s hs
  have hx := avoids_spec σ R h x
  constructor
  · intro e
    by_cases hxR : x ∈ R
    · rw [hx.1 hxR] at e; exact e
    · exact absurd (e ▸ hs) (hx.2 hxR)
  · intro e
    subst e
    exact hx.1 hs

theorem avoids_compat (σ : Renaming) (R : List Str) (h : σ.avoids R = true) (ts : List Tok) : Compat σ.f R ts :=
  fun t _ => avoids_respects σ R h t.str

/-- a token that satisfies the token-type invariant of C33 keeps it under a renaming that avoids
    the keys of the `tokTypes` table -/
theorem tokWF_map (σ : Renaming) (R : List Str) (h : σ.avoids R = true)
    (hR : ∀ k ∈ tokTypes.map (·.1.toList), k ∈ R) (t : Tok) (ht : TokWF t = true) : TokWF (σ.tok t) = true := by
  have hx := avoids_spec σ R h t.str
  by_cases hxR : t.str ∈ R
  · have : σ.tok t = t := by
      simp only [Renaming.tok, mapTok, hx.1 hxR]
    rw [this]; exact ht
  · have hnot : σ.f t.str ∉ tokTypes.map (·.1.toList) := fun hm => hx.2 hxR (hR _ hm)
    have hl : ∀ (tbl : List (String × List TokType)), σ.f t.str ∉ tbl.map (·.1.toList) → lookupTypes (σ.f t.str) tbl = [] := by
      intro tbl
      induction tbl with
      | nil => intro _; rfl
      | cons kv r ih =>
        intro hm
        obtain ⟨k, tys⟩ := kv
        simp only [List.map_cons, List.mem_cons, not_or] at hm
        simp only [lookupTypes]
        rw [if_neg (fun e => hm.1 e.symm)]
        exact ih hm.2
    simp only [TokWF, Bool.and_eq_true, Bool.or_eq_true, decide_eq_true_eq] at ht ⊢
    refine ⟨Or.inl ?_, ht.2⟩
    simp only [Renaming.tok, mapTok_str]
    exact hl tokTypes hnot

theorem mem_reservedOf_of_pattern (patterns extra : List Str) (p : Str) (hp : p ∈ patterns) (s : Str)
    (hs : s ∈ patLits p) : s ∈ reservedOf patterns extra := by
  simp only [reservedOf, List.mem_append, List.mem_flatMap]
  exact Or.inl (Or.inl ⟨p, hp, hs⟩)

theorem tokTypes_sub_reservedOf (patterns extra : List Str) :
    ∀ k ∈ tokTypes.map (·.1.toList), k ∈ reservedOf patterns extra := by
  intro k hk
  simp only [reservedOf, List.mem_append]
  exact Or.inr hk

end Cppcheck.MatchEquiv

import Cppcheck.Proofs.Unused
import Cppcheck.Proofs.CtuWhole
/-
C22 — the `<FileInfo check="CheckUnusedFunctions">` summary: text round trip, and the single-summary cache file.
-/
namespace Cppcheck.Ctu
open Cppcheck.Wire

/-- a cache file with one summary -/
theorem loadFile_single (hash : Nat) (check text : Str) (es : List Elem) (hc : CheckNameOk check = true) (hr : Renders 1 text es) :
    loadFile (storeFile hash [(check, text)])
      = .ok (if text = [] then [] else [(check, Elem.mk "FileInfo".toList [("check".toList, check)] es)]) := by
  have hi : ∀ x ∈ [(check, text, es)], CheckNameOk x.1 = true ∧ Renders 1 x.2.1 x.2.2 := by
    intro x hx
    simp only [List.mem_cons, List.mem_nil_iff, or_false] at hx
    subst hx
    exact ⟨hc, hr⟩
  have hp := storeFile_parse (h := 1) hash [(check, text, es)] hi (by decide)
  have e : storeFile hash [(check, text)] = storeFile hash ([(check, text, es)].map fun x => (x.1, x.2.1)) := rfl
  rw [e]
  unfold loadFile
  rw [hp]
  have hn : (Elem.mk "analyzerinfo".toList [("hash".toList, showNat hash)] (infoElems [(check, text, es)])).name = "analyzerinfo".toList := rfl
  simp only [hn, ne_eq, not_true_eq_false, if_false, Elem.kids]
  rw [fileInfoKids_infoElems _ (fun x hx => (hi x hx).1)]
  simp only [List.flatMap_cons, List.flatMap_nil, List.append_nil]

end Cppcheck.Ctu

namespace Cppcheck.Unused
open Cppcheck.Wire Cppcheck.Ctu

def Decl.TextOk (d : Decl) : Bool := XmlSafe d.file && XmlSafe d.name && inS 32 d.line && inS 32 d.col
def TU.TextOk (t : TU) : Bool := t.decls.all Decl.TextOk && t.calls.all fun c => XmlSafe c.name

def fdAttrs (d : Decl) : List (Str × Str) :=
  [("file".toList, toxml d.file), ("functionName".toList, toxml d.name), ("lineNumber".toList, showInt d.line), ("column".toList, showInt d.col)]
def fdElem (d : Decl) : Elem := .mk "functiondecl".toList (fdAttrs d) []
def fcallElem (n : Str) : Elem := .mk "functioncall".toList [("functionName".toList, toxml n)] []

def declText (d : Decl) : Str :=
  "    <functiondecl".toList ++ attr "file" (toxml d.file) ++ attr "functionName" (toxml d.name)
    ++ attr "lineNumber" (showInt d.line) ++ attr "column" (showInt d.col) ++ "/>\n".toList
def callText (c : Str) : Str := "    <functioncall".toList ++ attr "functionName" (toxml c) ++ "/>\n".toList

theorem analyzerInfo_eq (t : TU) : analyzerInfo t = t.decls.flatMap declText ++ (callSet t).flatMap callText := rfl

theorem declText_eq (d : Decl) : declText d = ("    ".toList ++ headText "functiondecl".toList (fdAttrs d) ++ ['/', '>']) ++ "\n".toList := by
  unfold declText headText fdAttrs
  rw [show "    <functiondecl".toList = "    ".toList ++ '<' :: "functiondecl".toList from rfl, show "/>\n".toList = ['/', '>'] ++ "\n".toList from rfl]
  simp only [attr_render, ← renderAttrs_append, List.append_assoc, List.cons_append, List.nil_append, List.singleton_append]

theorem callText_eq (c : Str) :
    callText c = ("    ".toList ++ headText "functioncall".toList [("functionName".toList, toxml c)] ++ ['/', '>']) ++ "\n".toList := by
  unfold callText headText
  rw [show "    <functioncall".toList = "    ".toList ++ '<' :: "functioncall".toList from rfl, show "/>\n".toList = ['/', '>'] ++ "\n".toList from rfl]
  simp only [attr_render, List.append_assoc, List.cons_append, List.nil_append]

theorem decls_renders : ∀ l : List Decl, Renders 0 (l.flatMap declText) (l.map fdElem) := by
  intro l
  induction l with
  | nil => exact renders_nil 0
  | cons d r ih =>
    have hok : AttrsOK (fdAttrs d) = true := by
      have : fdAttrs d = ["file".toList, "functionName".toList, "lineNumber".toList, "column".toList].zip
          [toxml d.file, toxml d.name, showInt d.line, showInt d.col] := rfl
      rw [this]
      apply attrsOK_zip _ _ (by decide)
      simp only [List.mem_cons, List.mem_nil_iff, or_false, forall_eq_or_imp, forall_eq]
      exact ⟨clean_toxml _, clean_toxml _, clean_int _, clean_int _⟩
    have h1 : Renders 0 (declText d) ([fdElem d] ++ []) := by
      rw [declText_eq]
      exact renders_append (renders_closed 0 "    ".toList "functiondecl".toList _ (by decide) (by decide) (by decide) hok)
        (renders_ws 0 "\n".toList (by decide))
    have := renders_append h1 ih
    simpa [List.flatMap_cons] using this

theorem calls_renders : ∀ l : List Str, Renders 0 (l.flatMap callText) (l.map fcallElem) := by
  intro l
  induction l with
  | nil => exact renders_nil 0
  | cons c r ih =>
    have hok : AttrsOK [("functionName".toList, toxml c)] = true := by
      have : [("functionName".toList, toxml c)] = ["functionName".toList].zip [toxml c] := rfl
      rw [this]
      apply attrsOK_zip _ _ (by decide)
      simp only [List.mem_cons, List.mem_nil_iff, or_false, forall_eq]
      exact clean_toxml _
    have h1 : Renders 0 (callText c) ([fcallElem c] ++ []) := by
      rw [callText_eq]
      exact renders_append (renders_closed 0 "    ".toList "functioncall".toList _ (by decide) (by decide) (by decide) hok)
        (renders_ws 0 "\n".toList (by decide))
    have := renders_append h1 ih
    simpa [List.flatMap_cons] using this

theorem analyzerInfo_renders (t : TU) : Renders 1 (analyzerInfo t) (t.decls.map fdElem ++ (callSet t).map fcallElem) := by
  rw [analyzerInfo_eq]
  exact renders_mono (by decide) (renders_append (decls_renders _) (calls_renders _))

theorem loadUnusedKids_append (src : Str) (a b : List Elem) (c : Collected) :
    loadUnusedKids src (a ++ b) c = match loadUnusedKids src a c with
      | .ok c' => loadUnusedKids src b c'
      | .threw => .threw := by
  induction a generalizing c with
  | nil => rfl
  | cons e r ih =>
    simp only [List.cons_append, loadUnusedKids]
    split
    · exact ih c
    · split
      · exact ih _
      · split
        · split
          · exact ih c
          · split
            · rfl
            · split
              · rfl
              · exact ih _
        · exact ih c

theorem load_decls (src : Str) : ∀ (l : List Decl) (c : Collected), l.all Decl.TextOk = true →
    loadUnusedKids src (l.map fdElem) c
      = .ok { c with decls := l.foldl (fun mm d => declInsert mm d.name (d.file, d.line, d.col)) c.decls } := by
  intro l
  induction l with
  | nil => intro c _; rfl
  | cons d r ih =>
    intro c h
    simp only [List.all_cons, Bool.and_eq_true] at h
    obtain ⟨hd, hr⟩ := h
    simp only [Decl.TextOk, Bool.and_eq_true] at hd
    obtain ⟨⟨⟨hf, hn⟩, hl⟩, hc⟩ := hd
    have b1 : attrStr (fdElem d) "functionName" = some (attrDecode (toxml d.name)) := by simp only [fdElem, fdAttrs]; find_attr
    have b2 : attrStr (fdElem d) "lineNumber" = some (attrDecode (showInt d.line)) := by simp only [fdElem, fdAttrs]; find_attr
    have b3 : attrStr (fdElem d) "file" = some (attrDecode (toxml d.file)) := by simp only [fdElem, fdAttrs]; find_attr
    have b4 : attrStr (fdElem d) "column" = some (attrDecode (showInt d.col)) := by simp only [fdElem, fdAttrs]; find_attr
    have hname : (fdElem d).name = "functiondecl".toList := rfl
    have hne : ("functiondecl".toList = "functioncall".toList) = False := by decide
    have r32 : ∀ i : Int, inS 32 i = true → i32lo ≤ i ∧ i ≤ i32hi := by
      intro i hi
      simp only [inS, Bool.and_eq_true, decide_eq_true_eq, Int.reducePow, Nat.reduceSub] at hi
      simp only [i32lo, i32hi]; omega
    simp only [List.map_cons, loadUnusedKids, b1, b2, b3, b4, hname, hne, if_false, if_true, Option.getD_some,
      attrDecode_showInt, strToIntS_showInt _ _ _ (r32 _ hl).1 (r32 _ hl).2 (inS32_64 _ hl),
      strToIntS_showInt _ _ _ (r32 _ hc).1 (r32 _ hc).2 (inS32_64 _ hc), decode_safe _ hn, decode_safe _ hf]
    rw [ih _ hr]
    rfl

theorem load_calls (src : Str) : ∀ (l : List Str) (c : Collected), (l.all fun n => XmlSafe n) = true →
    loadUnusedKids src (l.map fcallElem) c = .ok { c with calls := l.foldl setInsert c.calls } := by
  intro l
  induction l with
  | nil => intro c _; rfl
  | cons n r ih =>
    intro c h
    simp only [List.all_cons, Bool.and_eq_true] at h
    have b1 : attrStr (fcallElem n) "functionName" = some (attrDecode (toxml n)) := by simp only [fcallElem]; find_attr
    have hname : (fcallElem n).name = "functioncall".toList := rfl
    simp only [List.map_cons, loadUnusedKids, b1, hname, if_true, decode_safe _ h.1]
    rw [ih _ h.2]
    rfl

theorem callSet_safe (t : TU) (h : (t.calls.all fun c => XmlSafe c.name) = true) : ((callSet t).all fun n => XmlSafe n) = true := by
  apply List.all_eq_true.mpr
  intro n hn
  rw [mem_callSet] at hn
  obtain ⟨c, hc, rfl⟩ := List.mem_map.mp hn
  exact List.all_eq_true.mp h c hc

/-- the unused-function summary of a translation unit, written and read back through the cache file -/
theorem collectText_analyzerInfo (src : Str) (c : Collected) (t : TU) (h : t.TextOk = true) :
    collectText src c (analyzerInfo t) = .ok (collectTU c t) := by
  simp only [TU.TextOk, Bool.and_eq_true] at h
  unfold collectText
  rw [loadFile_single 1 "CheckUnusedFunctions".toList (analyzerInfo t) _ (by decide) (analyzerInfo_renders t)]
  simp only
  by_cases he : analyzerInfo t = []
  · -- empty text: no definitions, no uses
    simp only [he, if_true, List.foldl_nil]
    rw [analyzerInfo_eq, List.append_eq_nil_iff] at he
    have hd : t.decls = [] := by
      cases hdl : t.decls with
      | nil => rfl
      | cons d r =>
        rw [hdl, List.flatMap_cons, List.append_eq_nil_iff] at he
        have := he.1.1
        unfold declText at this
        rw [show "    <functiondecl".toList = ' ' :: "   <functiondecl".toList from rfl] at this
        simp at this
    have hcs : callSet t = [] := by
      cases hcl : callSet t with
      | nil => rfl
      | cons n r =>
        rw [hcl, List.flatMap_cons, List.append_eq_nil_iff] at he
        have := he.2.1
        unfold callText at this
        rw [show "    <functioncall".toList = ' ' :: "   <functioncall".toList from rfl] at this
        simp at this
    simp [collectTU, hd, hcs]
  · rw [if_neg he, List.foldl_cons, List.foldl_nil]
    have hu : isUnusedCheck "CheckUnusedFunctions".toList = true := by decide
    simp only [hu, if_true, Elem.kids]
    rw [loadUnusedKids_append, load_decls src _ _ h.1]
    simp only
    rw [load_calls src _ _ (callSet_safe t h.2)]
    rfl

end Cppcheck.Unused

import Cppcheck.Proofs.Unused
import Cppcheck.Proofs.CtuWhole
/-
C22 — the `<FileInfo check="CheckUnusedFunctions">` summary: text round trip, and the single-summary cache file.
-/
namespace Cppcheck.Ctu
open Cppcheck.Wire

/-- a cache file with one summary -/
theorem loadFile_single (hash : Nat) (check text : Str) (es : List Elem) (hc : CheckNameOk check = true) (hr : Renders 1 text es) :
    loadFile (storeFile hash [(check, text)])
      = .ok (if text = [] then [] else [(check, Elem.mk "FileInfo".toList [("check".toList, check)] es)]) := by
  have hi : ∀ x ∈ [(check, text, es)], CheckNameOk x.1 = true ∧ Renders 1 x.2.1 x.2.2 := by
    intro x hx
    simp only [List.mem_cons, List.mem_nil_iff, or_false] at hx
    subst hx
    exact ⟨hc, hr⟩
  have hp := storeFile_parse (h := 1) hash [(check, text, es)] hi (by decide)
  have e : storeFile hash [(check, text)] = storeFile hash ([(check, text, es)].map fun x => (x.1, x.2.1)) := rfl
  rw [e]
  unfold loadFile
  rw [hp]
  have hn : (Elem.mk "analyzerinfo".toList [("hash".toList, showNat hash)] (infoElems [(check, text, es)])).name = "analyzerinfo".toList := rfl
  simp only [hn, ne_eq, not_true_eq_false, if_false, Elem.kids]
  rw [fileInfoKids_infoElems _ (fun x hx => (hi x hx).1)]
  simp only [List.flatMap_cons, List.flatMap_nil, List.append_nil]

end Cppcheck.Ctu

namespace Cppcheck.Unused
open Cppcheck.Wire Cppcheck.Ctu

def Decl.TextOk (d : Decl) : Bool := XmlSafe d.file && XmlSafe d.name && inS 32 d.line && inS 32 d.col
def TU.TextOk (t : TU) : Bool := t.decls.all Decl.TextOk && t.calls.all fun c => XmlSafe c.name

def fdAttrs (d : Decl) : List (Str × Str) :=
  [("file".toList, toxml d.file), ("functionName".toList, toxml d.name), ("lineNumber".toList, showInt d.line), ("column".toList, showInt d.col)]
def fdElem (d : Decl) : Elem := .mk "functiondecl".toList (fdAttrs d) []
def fcallElem (n : Str) : Elem := .mk "functioncall".toList [("functionName".toList, toxml n)] []

def declText (d : Decl) : Str :=
  "    <functiondecl".toList ++ attr "file" (toxml d.file) ++ attr "functionName" (toxml d.name)
    ++ attr "lineNumber" (showInt d.line) ++ attr "column" (showInt d.col) ++ "/>\n".toList
def callText (c : Str) : Str := "    <functioncall".toList ++ attr "functionName" (toxml c) ++ "/>\n".toList

theorem analyzerInfo_eq (t : TU) : analyzerInfo t = t.decls.flatMap declText ++ (callSet t).flatMap callText := rfl

theorem declText_eq (d : Decl) : declText d = ("    ".toList ++ headText "functiondecl".toList (fdAttrs d) ++ ['/', '>']) ++ "\n".toList := by
  unfold declText headText fdAttrs
  rw [show "    <functiondecl".toList = "    ".toList ++ '<' :: "functiondecl".toList from rfl, show "/>\n".toList = ['/', '>'] ++ "\n".toList from rfl]
  simp only [attr_render, ← renderAttrs_append, List.append_assoc, List.cons_append, List.nil_append, List.singleton_append]

theorem callText_eq (c : Str) :
    callText c = ("    ".toList ++ headText "functioncall".toList [("functionName".toList, toxml c)] ++ ['/', '>']) ++ "\n".toList := by
  unfold callText headText
  rw [show "    <functioncall".toList = "    ".toList ++ '<' :: "functioncall".toList from rfl, show "/>\n".toList = ['/', '>'] ++ "\n".toList from rfl]
  simp only [attr_render, List.append_assoc, List.cons_append, List.nil_append]

theorem decls_renders : ∀ l : List Decl, Renders 0 (l.flatMap declText) (l.map fdElem) := by
  intro l
  induction l with
  | nil => exact renders_nil 0
  | cons d r ih =>
    have hok : AttrsOK (fdAttrs d) = true := by
      have : fdAttrs d = ["file".toList, "functionName".toList, "lineNumber".toList, "column".toList].zip
          [toxml d.file, toxml d.name, showInt d.line, showInt d.col] := rfl
      rw [this]
      apply attrsOK_zip _ _ (by decide)
      simp only [List.mem_cons, List.mem_nil_iff, or_false, forall_eq_or_imp, forall_eq]
      exact ⟨clean_toxml _, clean_toxml _, clean_int _, clean_int _⟩
    have h1 : Renders 0 (declText d) ([fdElem d] ++ []) := by
      rw [declText_eq]
      exact renders_append (renders_closed 0 "    ".toList "functiondecl".toList _ (by decide) (by decide) (by decide) hok)
        (renders_ws 0 "\n".toList (by decide))
    have := renders_append h1 ih
    simpa [List.flatMap_cons] using this

theorem calls_renders : ∀ l : List Str, Renders 0 (l.flatMap callText) (l.map fcallElem) := by
  intro l
  induction l with
  | nil => exact renders_nil 0
  | cons c r ih =>
    have hok : AttrsOK [("functionName".toList, toxml c)] = true := by
      have : [("functionName".toList, toxml c)] = ["functionName".toList].zip [toxml c] := rfl
      rw [this]
      apply attrsOK_zip _ _ (by decide)
      simp only [List.mem_cons, List.mem_nil_iff, or_false, forall_eq]
      exact clean_toxml _
    have h1 : Renders 0 (callText c) ([fcallElem c] ++ []) := by
      rw [callText_eq]
      exact renders_append (renders_closed 0 "    ".toList "functioncall".toList _ (by decide) (by decide) (by decide) hok)
        (renders_ws 0 "\n".toList (by decide))
    have := renders_append h1 ih
    simpa [List.flatMap_cons] using this

theorem analyzerInfo_renders (t : TU) : Renders 1 (analyzerInfo t) (t.decls.map fdElem ++ (callSet t).map fcallElem) := by
  rw [analyzerInfo_eq]
  exact renders_mono (by decide) (renders_append (decls_renders _) (calls_renders _))

theorem loadUnusedKids_append (src : Str) (a b : List Elem) (c : Collected) :
    loadUnusedKids src (a ++ b) c = match loadUnusedKids src a c with
      | .ok c' => loadUnusedKids src b c'
      | .threw => .threw := by
  induction a generalizing c with
  | nil => rfl
  | cons e r ih =>
    simp only [List.cons_append, loadUnusedKids]
    split
    · exact ih c
    · split
      · exact ih _
      · split
        · split
          · exact ih c
          · split
            · rfl
            · split
              · rfl
              · exact ih _
        · exact ih c

theorem load_decls (src : Str) : ∀ (l : List Decl) (c : Collected), l.all Decl.TextOk = true →
    loadUnusedKids src (l.map fdElem) c
      = .ok { c with decls := l.foldl (fun mm d => declInsert mm d.name (d.file, d.line, d.col)) c.decls } := by
  intro l
  induction l with
  | nil => intro c _; rfl
  | cons d r ih =>
    intro c h
    simp only [List.all_cons, Bool.and_eq_true] at h
    obtain ⟨hd, hr⟩ := h
    simp only [Decl.TextOk, Bool.and_eq_true] at hd
    obtain ⟨⟨⟨hf, hn⟩, hl⟩, hc⟩ := hd
    have b1 : attrStr (fdElem d) "functionName" = some (attrDecode (toxml d.name)) := by simp only [fdElem, fdAttrs]; find_attr
    have b2 : attrStr (fdElem d) "lineNumber" = some (attrDecode (showInt d.line)) := by simp only [fdElem, fdAttrs]; find_attr
    have b3 : attrStr (fdElem d) "file" = some (attrDecode (toxml d.file)) := by simp only [fdElem, fdAttrs]; find_attr
    have b4 : attrStr (fdElem d) "column" = some (attrDecode (showInt d.col)) := by simp only [fdElem, fdAttrs]; find_attr
    have hname : (fdElem d).name = "functiondecl".toList := rfl
    have hne : ("functiondecl".toList = "functioncall".toList) = False := by decide
    have r32 : ∀ i : Int, inS 32 i = true → i32lo ≤ i ∧ i ≤ i32hi := by
      intro i hi
      simp only [inS, Bool.and_eq_true, decide_eq_true_eq, Int.reducePow, Nat.reduceSub] at hi
      simp only [i32lo, i32hi]; omega
    simp only [List.map_cons, loadUnusedKids, b1, b2, b3, b4, hname, hne, if_false, if_true, Option.getD_some,
      attrDecode_showInt, strToIntS_showInt _ _ _ (r32 _ hl).1 (r32 _ hl).2 (inS32_64 _ hl),
      strToIntS_showInt _ _ _ (r32 _ hc).1 (r32 _ hc).2 (inS32_64 _ hc), decode_safe _ hn, decode_safe _ hf]
    rw [ih _ hr]
    rfl

theorem load_calls (src : Str) : ∀ (l : List Str) (c : Collected), (l.all fun n => XmlSafe n) = true →
    loadUnusedKids src (l.map fcallElem) c = .ok { c with calls := l.foldl setInsert c.calls } := by
  intro l
  induction l with
  | nil => intro c _; rfl
  | cons n r ih =>
    intro c h
    simp only [List.all_cons, Bool.and_eq_true] at h
    have b1 : attrStr (fcallElem n) "functionName" = some (attrDecode (toxml n)) := by simp only [fcallElem]; find_attr
    have hname : (fcallElem n).name = "functioncall".toList := rfl
    simp only [List.map_cons, loadUnusedKids, b1, hname, if_true, decode_safe _ h.1]
    rw [ih _ h.2]
    rfl

theorem callSet_safe (t : TU) (h : (t.calls.all fun c => XmlSafe c.name) = true) : ((callSet t).all fun n => XmlSafe n) = true := by
  apply List.all_eq_true.mpr
  intro n hn
  rw [mem_callSet] at hn
  obtain ⟨c, hc, rfl⟩ := List.mem_map.mp hn
  exact List.all_eq_true.mp h c hc

def unusedElems (t : TU) : List Elem := t.decls.map fdElem ++ (callSet t).map fcallElem

/-- an empty summary text means: no definitions, no uses -/
theorem collectTU_of_empty (c : Collected) (t : TU) (he : analyzerInfo t = []) : collectTU c t = c := by
  rw [analyzerInfo_eq, List.append_eq_nil_iff] at he
  have hd : t.decls = [] := by
    cases hdl : t.decls with
    | nil => rfl
    | cons d r =>
      rw [hdl, List.flatMap_cons, List.append_eq_nil_iff] at he
      have := he.1.1
      unfold declText at this
      rw [show "    <functiondecl".toList = ' ' :: "   <functiondecl".toList from rfl] at this
      simp at this
  have hcs : callSet t = [] := by
    cases hcl : callSet t with
    | nil => rfl
    | cons n r =>
      rw [hcl, List.flatMap_cons, List.append_eq_nil_iff] at he
      have := he.2.1
      unfold callText at this
      rw [show "    <functioncall".toList = ' ' :: "   <functioncall".toList from rfl] at this
      simp at this
  simp [collectTU, hd, hcs]

/-- the handler on the `<FileInfo check="CheckUnusedFunctions">` element of a translation unit -/
theorem collectStep_unused (src : Str) (c : Collected) (t : TU) (h : t.TextOk = true) :
    collectStep src (.ok c) ("CheckUnusedFunctions".toList,
      Elem.mk "FileInfo".toList [("check".toList, "CheckUnusedFunctions".toList)] (unusedElems t)) = .ok (collectTU c t) := by
  simp only [TU.TextOk, Bool.and_eq_true] at h
  have hu : isUnusedCheck "CheckUnusedFunctions".toList = true := by decide
  simp only [collectStep, hu, if_true, Elem.kids, unusedElems]
  rw [loadUnusedKids_append, load_decls src _ _ h.1]
  simp only
  rw [load_calls src _ _ (callSet_safe t h.2)]
  rfl

theorem collectStep_other (src : Str) (c : Collected) (ce : Str × Elem) (h : isUnusedCheck ce.1 = false) :
    collectStep src (.ok c) ce = .ok c := by
  simp [collectStep, h]

theorem collect_fold_other (src : Str) (c : Collected) : ∀ l : List (Str × Elem), (∀ ce ∈ l, isUnusedCheck ce.1 = false) →
    l.foldl (collectStep src) (.ok c) = .ok c := by
  intro l
  induction l with
  | nil => intro _; rfl
  | cons x r ih =>
    intro h
    rw [List.foldl_cons, collectStep_other src c x (h x (by simp))]
    exact ih (fun y hy => h y (by simp [hy]))

/-- the unused-function summary of a translation unit, written and read back through the cache file -/
theorem collectText_analyzerInfo (src : Str) (c : Collected) (t : TU) (h : t.TextOk = true) :
    collectText src c (analyzerInfo t) = .ok (collectTU c t) := by
  unfold collectText collectFile
  rw [loadFile_single 1 "CheckUnusedFunctions".toList (analyzerInfo t) _ (by decide) (analyzerInfo_renders t)]
  simp only
  by_cases he : analyzerInfo t = []
  · simp only [he, if_true, List.foldl_nil]
    rw [collectTU_of_empty c t he]
  · rw [if_neg he, List.foldl_cons, List.foldl_nil]
    exact collectStep_unused src c t h

/-- the driver's fold over all translation units (each summary through its text) = the text-free collection -/
theorem collectViaText_eq : ∀ (tus : List TU) (c : Collected), (∀ t ∈ tus, t.TextOk = true) →
    tus.foldl textStep (Coll.ok c) = .ok (tus.foldl collectTU c)
  | [], _, _ => rfl
  | t :: r, c, h => by
    simp only [List.foldl_cons, textStep]
    rw [collectText_analyzerInfo [] c t (h t List.mem_cons_self)]
    exact collectViaText_eq r _ (fun t ht => h t (List.mem_cons_of_mem _ ht))

/-! ## the real cache file: five whole-program summaries + the unused-function summary -/

def infos4 (simp : Str → Str) (t : TUSummary) (u : TU) : List (Str × Str × List Elem) :=
  t.infos3 simp ++ [("CheckUnusedFunctions".toList, analyzerInfo u, unusedElems u)]

def kidsOf (x : Str × Str × List Elem) : List (Str × Elem) :=
  if x.2.1 = [] then [] else [(x.1, Elem.mk "FileInfo".toList [("check".toList, x.1)] x.2.2)]

theorem loadFile_storeAll (simp : Str → Str) (hash : Nat) (t : TUSummary) (u : TU) (h : t.Ok simp = true) :
    loadFile (storeAll simp hash t u)
      = .ok ((t.infos3 simp).flatMap kidsOf ++ kidsOf ("CheckUnusedFunctions".toList, analyzerInfo u, unusedElems u)) := by
  have hi : ∀ x ∈ infos4 simp t u, CheckNameOk x.1 = true ∧ Renders 1 x.2.1 x.2.2 := by
    intro x hx
    rcases List.mem_append.mp hx with h1 | h1
    · exact infos3_renders simp t h x h1
    · simp only [List.mem_cons, List.mem_nil_iff, or_false] at h1
      subst h1
      exact ⟨show CheckNameOk "CheckUnusedFunctions".toList = true by decide, analyzerInfo_renders u⟩
  have hp := storeFile_parse (h := 1) hash (infos4 simp t u) hi (by decide)
  have e0 : t.infos simp = (t.infos3 simp).map fun x => (x.1, x.2.1) := rfl
  have e : storeAll simp hash t u = storeFile hash ((infos4 simp t u).map fun x => (x.1, x.2.1)) := by
    unfold storeAll infos4
    rw [List.map_append, e0]
    rfl
  rw [e]
  unfold loadFile
  rw [hp]
  have hn : (Elem.mk "analyzerinfo".toList [("hash".toList, showNat hash)] (infoElems (infos4 simp t u))).name = "analyzerinfo".toList := rfl
  simp only [hn, ne_eq, not_true_eq_false, if_false, Elem.kids]
  rw [fileInfoKids_infoElems _ (fun x hx => (hi x hx).1)]
  unfold infos4
  rw [List.flatMap_append, List.flatMap_cons, List.flatMap_nil, List.append_nil]
  rfl

theorem checkKind_unused : checkKind "CheckUnusedFunctions".toList = 5 := by decide

theorem handleInfo_unused (wp : WholeProgram) (e : Elem) : handleInfo wp ("CheckUnusedFunctions".toList, e) = some wp := by
  simp only [handleInfo, checkKind_unused]

/-- the CTU handler ignores the unused-function element -/
theorem handleInfos_kidsOf_unused (wp : WholeProgram) (text : Str) (es : List Elem) :
    handleInfos (kidsOf ("CheckUnusedFunctions".toList, text, es)) wp = some wp := by
  unfold kidsOf
  by_cases he : text = []
  · rw [if_pos he]; rfl
  · rw [if_neg he, handleInfos_one, handleInfo_unused]

theorem kidsOf_fst (x : Str × Str × List Elem) (ce : Str × Elem) (h : ce ∈ kidsOf x) : ce.1 = x.1 := by
  unfold kidsOf at h
  by_cases he : x.2.1 = []
  · rw [if_pos he] at h; exact absurd h (List.not_mem_nil)
  · rw [if_neg he] at h
    rw [List.mem_singleton.mp h]

/-- the unused-function handler ignores the five other elements -/
theorem infos3_not_unused (simp : Str → Str) (t : TUSummary) : ∀ ce ∈ (t.infos3 simp).flatMap kidsOf, isUnusedCheck ce.1 = false := by
  intro ce hce
  obtain ⟨x, hx, hm⟩ := List.mem_flatMap.mp hce
  rw [kidsOf_fst x ce hm]
  simp only [TUSummary.infos3, List.mem_cons, List.mem_nil_iff, or_false] at hx
  rcases hx with rfl | rfl | rfl | rfl | rfl
  · exact (show isUnusedCheck "ctu".toList = false by decide)
  · exact (show isUnusedCheck "Bounds checking".toList = false by decide)
  · exact (show isUnusedCheck "Class".toList = false by decide)
  · exact (show isUnusedCheck "Null pointer".toList = false by decide)
  · exact (show isUnusedCheck "Uninitialized variables".toList = false by decide)

/-- **both readers on the real cache file** -/
theorem storeAll_both (simp : Str → Str) (hash : Nat) (t : TUSummary) (u : TU) (h : t.Ok simp = true) (hu : u.TextOk = true)
    (wp : WholeProgram) (src : Str) (c : Collected) :
    fromBuildDir [storeAll simp hash t u] wp = some (addInMemory wp t)
    ∧ collectFile src c (storeAll simp hash t u) = .ok (collectTU c u) := by
  constructor
  · simp only [fromBuildDir, loadFile_storeAll simp hash t u h]
    rw [handleInfos_append]
    have h5 := handle_store simp t h wp
    have e5 : ((t.infos3 simp).flatMap fun x => if x.2.1 = [] then [] else [(x.1, Elem.mk "FileInfo".toList [("check".toList, x.1)] x.2.2)])
        = (t.infos3 simp).flatMap kidsOf := rfl
    rw [e5] at h5
    rw [h5, Option.bind_some, handleInfos_kidsOf_unused]
  · unfold collectFile
    rw [loadFile_storeAll simp hash t u h]
    simp only
    rw [List.foldl_append, collect_fold_other src c _ (infos3_not_unused simp t)]
    unfold kidsOf
    by_cases he : analyzerInfo u = []
    · rw [if_pos he, List.foldl_nil, collectTU_of_empty c u he]
    · rw [if_neg he, List.foldl_cons, List.foldl_nil]
      exact collectStep_unused src c u hu

theorem collectFiles_storeAll (simp : Str → Str) : ∀ (l : List (Nat × TUSummary × TU)) (c : Collected),
    (∀ x ∈ l, x.2.1.Ok simp = true ∧ x.2.2.TextOk = true) →
    (l.map fun x => storeAll simp x.1 x.2.1 x.2.2).foldl fileStep (Coll.ok c)
      = .ok ((l.map (·.2.2)).foldl collectTU c)
  | [], _, _ => rfl
  | x :: r, c, h => by
    simp only [List.map_cons, List.foldl_cons, fileStep]
    have hx := h x List.mem_cons_self
    rw [(storeAll_both simp x.1 x.2.1 x.2.2 hx.1 hx.2 WholeProgram.empty [] c).2]
    exact collectFiles_storeAll simp r _ (fun y hy => h y (List.mem_cons_of_mem _ hy))

theorem fromBuildDir_storeAll (simp : Str → Str) : ∀ (l : List (Nat × TUSummary × TU)) (wp : WholeProgram),
    (∀ x ∈ l, x.2.1.Ok simp = true ∧ x.2.2.TextOk = true) →
    fromBuildDir (l.map fun x => storeAll simp x.1 x.2.1 x.2.2) wp = some ((l.map (·.2.1)).foldl addInMemory wp)
  | [], _, _ => rfl
  | x :: r, wp, h => by
    have hx := h x List.mem_cons_self
    have h1 := (storeAll_both simp x.1 x.2.1 x.2.2 hx.1 hx.2 wp [] ⟨[], []⟩).1
    simp only [fromBuildDir, List.map_cons] at h1 ⊢
    cases hl : loadFile (storeAll simp x.1 x.2.1 x.2.2) with
    | ok l =>
      rw [hl] at h1
      simp only at h1 ⊢
      cases hh : handleInfos l wp with
      | none => rw [hh] at h1; simp at h1
      | some wp' =>
        rw [hh] at h1
        simp only [Option.some.injEq] at h1
        simp only [List.foldl_cons]
        rw [h1]
        exact fromBuildDir_storeAll simp r _ (fun y hy => h y (List.mem_cons_of_mem _ hy))
    | loadError => rw [hl] at h1; simp at h1
    | noRoot => rw [hl] at h1; simp at h1
    | badRoot => rw [hl] at h1; simp at h1
    | unmodelled => rw [hl] at h1; simp at h1

end Cppcheck.Unused

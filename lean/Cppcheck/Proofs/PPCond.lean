import Cppcheck.Model.PPCond
/-
helper lemmas for C11 (evaluator): facts about the canonical spelling `toStr v`, about operator tokens, the passes on a
parenthesis-free group, and the parenthesis loop of `constFold`
-/
namespace Cppcheck.PPCond

/-! ## digits -/

theorem toDigits_all_digit (n : Nat) : ∀ c ∈ Nat.toDigits 10 n, c.isDigit = true :=
  fun c hc => Nat.isDigit_of_mem_toDigits (by decide) (by decide) hc

theorem toDigits_ne_nil (n : Nat) : Nat.toDigits 10 n ≠ [] := Nat.toDigits_ne_nil

theorem toDigits_head_digit (n : Nat) : ∃ c r, Nat.toDigits 10 n = c :: r ∧ c.isDigit = true := by
  cases h : Nat.toDigits 10 n with
  | nil => exact absurd h (toDigits_ne_nil n)
  | cons c r => exact ⟨c, r, rfl, toDigits_all_digit n c (by simp [h])⟩

theorem digitVal_of_isDigit {c : Char} (h : c.isDigit = true) : digitVal 10 c = some (c.toNat - 48) := by
  have h' := h
  simp only [Char.isDigit, Bool.and_eq_true, decide_eq_true_eq] at h'
  have h1 : c.toNat ≥ 48 := by have := h'.1; exact this
  have h2 : c.toNat ≤ 57 := by have := h'.2; exact this
  unfold digitVal
  simp only [h, if_true]
  have : c.toNat - 48 < 10 := by omega
  simp [this]

theorem readNatAux_digits : ∀ (l : List Char) (acc : Nat), (∀ c ∈ l, c.isDigit = true) →
    readNatAux 10 l acc = Nat.ofDigitChars 10 l acc := by
  intro l
  induction l with
  | nil => intro acc _; simp [readNatAux, Nat.ofDigitChars]
  | cons c r ih =>
    intro acc h
    have hc := h c (by simp)
    simp only [readNatAux, digitVal_of_isDigit hc]
    rw [ih _ (fun x hx => h x (by simp [hx]))]
    simp [Nat.ofDigitChars]

theorem readNat_toDigits (n : Nat) : readNat 10 (Nat.toDigits 10 n) = some n := by
  obtain ⟨c, r, h, hc⟩ := toDigits_head_digit n
  unfold readNat
  rw [h]
  simp only [digitVal_of_isDigit hc]
  rw [← h, readNatAux_digits _ _ (toDigits_all_digit n)]
  simp [Nat.ofDigitChars_toDigits]


theorem toDigits_head_ne_zero : ∀ (n : Nat), 1 ≤ n → ∃ c r, Nat.toDigits 10 n = c :: r ∧ c ≠ '0' := by
  intro n
  induction n using Nat.strongRecOn with
  | _ n ih =>
    intro h1
    by_cases h : n < 10
    · refine ⟨n.digitChar, [], Nat.toDigits_of_lt_base h, ?_⟩
      intro h0
      have := Nat.digitChar_eq_zero.mp h0
      omega
    · have h10 : 10 ≤ n := by omega
      rw [Nat.toDigits_of_base_le (by decide) h10]
      obtain ⟨c, r, hc, hne⟩ := ih (n / 10) (by omega) (by omega)
      exact ⟨c, r ++ [(n % 10).digitChar], by simp [hc], hne⟩

/-! ## the canonical spelling `toStr v` -/

theorem toStr_head (v : Int) : ∃ c r, toStr v = c :: r ∧ (c.isDigit = true ∨ (c = '-' ∧ ∃ d r', r = d :: r' ∧ d.isDigit = true)) := by
  unfold toStr
  split
  · obtain ⟨c, r, h, hc⟩ := toDigits_head_digit v.natAbs
    exact ⟨'-', _, rfl, Or.inr ⟨rfl, c, r, h, hc⟩⟩
  · obtain ⟨c, r, h, hc⟩ := toDigits_head_digit v.toNat
    exact ⟨c, r, h, Or.inl hc⟩

theorem isDigit_facts {c : Char} (h : c.isDigit = true) :
    c.isAlpha = false ∧ c ≠ '_' ∧ c ≠ '$' ∧ c ≠ '-' ∧ c ≠ '+' ∧ c ≠ '<' ∧ c ≠ '>' ∧ c ≠ '=' ∧ c ≠ '!' ∧ c ≠ '&' ∧ c ≠ '|' ∧ c ≠ '?'
      ∧ c ≠ 'x' ∧ c ≠ 'X' ∧ c ≠ '(' ∧ c ≠ ')' := by
  simp only [Char.isDigit, Bool.and_eq_true, decide_eq_true_eq] at h
  have h1 : c.toNat ≥ 48 := h.1
  have h2 : c.toNat ≤ 57 := h.2
  have hne : ∀ d : Char, (d.toNat < 48 ∨ d.toNat > 57) → c ≠ d := by
    intro d hd hcd; subst hcd; omega
  refine ⟨?_, hne _ (by decide), hne _ (by decide), hne _ (by decide), hne _ (by decide), hne _ (by decide), hne _ (by decide),
    hne _ (by decide), hne _ (by decide), hne _ (by decide), hne _ (by decide), hne _ (by decide), hne _ (by decide), hne _ (by decide),
    hne _ (by decide), hne _ (by decide)⟩
  simp only [Char.isAlpha, Char.isUpper, Char.isLower, Bool.or_eq_false_iff, Bool.and_eq_false_iff, decide_eq_false_iff_not]
  have hv : c.val.toNat = c.toNat := rfl
  constructor
  · rintro ⟨ha, _⟩
    have : c.toNat ≥ 65 := ha
    omega
  · left
    intro ha
    have : c.toNat ≥ 97 := ha
    omega

@[simp] theorem isNumber_toStr (v : Int) : isNumber (toStr v) = true := by
  obtain ⟨c, r, h, hc⟩ := toStr_head v
  rw [h]
  rcases hc with hc | ⟨rfl, d, r', rfl, hd⟩
  · simp [isNumber, hc]
  · simp [isNumber, hd]

@[simp] theorem isName_toStr (v : Int) : isName (toStr v) = false := by
  obtain ⟨c, r, h, hc⟩ := toStr_head v
  rw [h]
  rcases hc with hc | ⟨rfl, d, r', rfl, hd⟩
  · have := isDigit_facts hc
    simp [isName, this.1, this.2.1, this.2.2.1]
  · simp [isName]

@[simp] theorem opOf_toStr (v : Int) : opOf (toStr v) = '\x00' := by
  unfold opOf
  split
  · simp
  · rfl

@[simp] theorem isRpar_toStr (v : Int) : isRpar (toStr v) = false := by simp [isRpar]

theorem toStr_ne_of_head {v : Int} {c : Char} {r : List Char} (h1 : c.isDigit = false) (h2 : c ≠ '-') : toStr v ≠ c :: r := by
  obtain ⟨c', r', h, hc⟩ := toStr_head v
  rw [h]
  intro heq
  injection heq with h3 h4
  subst h3
  rcases hc with hc | ⟨rfl, _⟩
  · simp [hc] at h1
  · exact h2 rfl

@[simp] theorem selMul_toStr (v : Int) : selMul (toStr v) = none := by simp [selMul]
@[simp] theorem selAdd_toStr (v : Int) : selAdd (toStr v) = none := by simp [selAdd]
@[simp] theorem selChar_toStr (c : Char) (o : BinOp) (v : Int) (hc : c ≠ '\x00') : selChar c o (toStr v) = none := by
  simp [selChar]; exact fun h => hc h.symm
@[simp] theorem selShift_toStr (v : Int) : selShift (toStr v) = none := by
  have h1 : toStr v ≠ ['<', '<'] := toStr_ne_of_head (by decide) (by decide)
  have h2 : toStr v ≠ ['>', '>'] := toStr_ne_of_head (by decide) (by decide)
  simp [selShift, h1, h2]
@[simp] theorem selCmp_toStr (v : Int) : selCmp (toStr v) = none := by
  have h1 : toStr v ≠ ['=', '='] := toStr_ne_of_head (by decide) (by decide)
  have h2 : toStr v ≠ ['!', '='] := toStr_ne_of_head (by decide) (by decide)
  have h3 : toStr v ≠ ['>'] := toStr_ne_of_head (by decide) (by decide)
  have h4 : toStr v ≠ ['>', '='] := toStr_ne_of_head (by decide) (by decide)
  have h5 : toStr v ≠ ['<'] := toStr_ne_of_head (by decide) (by decide)
  have h6 : toStr v ≠ ['<', '='] := toStr_ne_of_head (by decide) (by decide)
  simp [selCmp, h1, h2, h3, h4, h5, h6]
@[simp] theorem selLogic_toStr (v : Int) : selLogic (toStr v) = none := by
  have h1 : toStr v ≠ ['&', '&'] := toStr_ne_of_head (by decide) (by decide)
  have h2 : toStr v ≠ ['|', '|'] := toStr_ne_of_head (by decide) (by decide)
  simp [selLogic, h1, h2]
@[simp] theorem toStr_ne_q (v : Int) : (toStr v != ['?']) = true := by
  have : toStr v ≠ ['?'] := toStr_ne_of_head (by decide) (by decide)
  simp [this]

theorem sels_toStr (v : Int) : ∀ s ∈ sels, s (toStr v) = none := by
  intro s hs
  simp only [sels, List.mem_cons, List.mem_nil_iff, or_false] at hs
  rcases hs with rfl | rfl | rfl | rfl | rfl | rfl | rfl | rfl <;> simp

theorem toStr_eq_zero (v : Int) : (toStr v == ['0']) = (v == 0) := by
  by_cases hv : v = 0
  · subst hv; decide
  · have : toStr v ≠ ['0'] := by
      unfold toStr
      split
      · intro h; injection h with h _; exact absurd h (by decide)
      · obtain ⟨c, r, hc, hne⟩ := toDigits_head_ne_zero v.toNat (by omega)
        rw [hc]; intro h; injection h with h _; exact hne h
    rw [beq_eq_false_iff_ne.mpr this, beq_eq_false_iff_ne.mpr hv]

theorem neg_toStr {a : Int} (h : 0 < a) : '-' :: toStr a = toStr (-a) := by
  unfold toStr
  have h1 : ¬ a < 0 := by omega
  have h2 : -a < 0 := by omega
  simp only [h1, h2, if_true, if_false]
  congr 2
  omega

theorem toStr_chars (v : Int) : ∀ c ∈ toStr v, c.isDigit = true ∨ c = '-' := by
  intro c hc
  unfold toStr at hc
  split at hc
  · simp only [List.mem_cons] at hc
    rcases hc with rfl | hc
    · exact Or.inr rfl
    · exact Or.inl (toDigits_all_digit _ _ hc)
  · exact Or.inl (toDigits_all_digit _ _ hc)

theorem isHex_toStr (v : Int) : isHex (toStr v) = false := by
  unfold isHex
  cases h : toStr v with
  | nil => simp
  | cons c r =>
    cases r with
    | nil => simp
    | cons d r' =>
      have hd : d.isDigit = true ∨ d = '-' := toStr_chars v d (by rw [h]; simp)
      have h1 : d ≠ 'x' := by
        rcases hd with hd | rfl
        · exact (isDigit_facts hd).2.2.2.2.2.2.2.2.2.2.2.2.1
        · decide
      have h2 : d ≠ 'X' := by
        rcases hd with hd | rfl
        · exact (isDigit_facts hd).2.2.2.2.2.2.2.2.2.2.2.2.2.1
        · decide
      simp [List.take, h1, h2]

theorem isOct_toStr (v : Int) : isOct (toStr v) = false := by
  unfold toStr
  split
  · simp [isOct]
  · rename_i h
    by_cases h0 : v.toNat = 0
    · rw [h0]; decide
    · obtain ⟨c, r, hc, hne⟩ := toDigits_head_ne_zero v.toNat (by omega)
      rw [hc]
      unfold isOct
      split
      · rename_i heq; injection heq with h1 _; exact absurd h1.symm (fun h => hne h.symm)
      · rfl

theorem clampLL_id {v : Int} (h1 : llMin ≤ v) (h2 : v ≤ llMax) : clampLL v = v := by
  unfold clampLL
  rw [if_neg (by omega), if_neg (by omega)]

theorem signSplit_digit {c : Char} {r : List Char} (h : c.isDigit = true) : signSplit (c :: r) = (false, c :: r) := by
  have hf := isDigit_facts h
  unfold signSplit
  split
  · rename_i heq; injection heq with h _; exact absurd h hf.2.2.2.1
  · rename_i heq; injection heq with h _; exact absurd h hf.2.2.2.2.1
  · rfl

theorem stringToLL_toStr {v : Int} (h1 : llMin ≤ v) (h2 : v ≤ llMax) : stringToLL (toStr v) = v := by
  unfold stringToLL
  rw [isHex_toStr, isOct_toStr]
  simp only [Bool.false_eq_true, if_false]
  by_cases hneg : v < 0
  · have e : toStr v = '-' :: Nat.toDigits 10 v.natAbs := by simp [toStr, hneg]
    rw [e]
    simp only [extractLL, signSplit, readNat_toDigits, if_true]
    have : - ((v.natAbs : Nat) : Int) = v := by omega
    rw [this]
    exact clampLL_id h1 h2
  · have e : toStr v = Nat.toDigits 10 v.toNat := by simp [toStr, hneg]
    rw [e]
    obtain ⟨c, r, hc, hd⟩ := toDigits_head_digit v.toNat
    have e2 : signSplit (Nat.toDigits 10 v.toNat) = (false, Nat.toDigits 10 v.toNat) := by rw [hc]; exact signSplit_digit hd
    simp only [extractLL, e2, readNat_toDigits, Bool.false_eq_true, if_false]
    have : ((v.toNat : Nat) : Int) = v := by omega
    rw [this]
    exact clampLL_id h1 h2


/-! ## operator tokens and the end of a group -/

/-- the rest of the list after a group: nothing, or the closing parenthesis and whatever follows -/
def Stop (tl : List Tok) : Prop := tl = [] ∨ ∃ p, tl = [')'] :: p

/-- a token that separates two operands of a group (binary operator, `?`, `:`) -/
def IsOpTok (t : Tok) : Prop :=
  isNumber t = false ∧ isName t = false ∧ isRpar t = false ∧ opOf t ≠ '!' ∧ opOf t ≠ '~'

theorem isOpTok_binTok (o : BinOp) : IsOpTok (binTok o) := by unfold IsOpTok; cases o <;> decide
theorem isOpTok_q : IsOpTok ['?'] := by unfold IsOpTok; decide
theorem isOpTok_colon : IsOpTok [':'] := by unfold IsOpTok; decide

theorem stop_head_not_num {tl : List Tok} (h : Stop tl) : ∀ n r, tl = n :: r → isNumber n = false := by
  intro n r e
  rcases h with h | ⟨p, h⟩
  · simp [h] at e
  · rw [h] at e; injection e with e1 _; subst e1; decide

/-! ## constFoldUnaryNotPosNeg -/

theorem unaryPass_stop (rev : List Tok) {tl : List Tok} (h : Stop tl) : unaryPass rev tl = rev.reverse ++ tl := by
  rcases h with h | ⟨p, h⟩
  · subst h; simp [unaryPass]
  · subst h
    have hr : isRpar [')'] = true := by decide
    cases p with
    | nil => simp [unaryPass, hr]
    | cons n r => rw [unaryPass]; simp [hr]

/-- an operand without unary operator: the scan moves on -/
theorem unaryPass_num (rev : List Tok) (v : Int) (tl : List Tok) (hp : prevIsNumOrName rev = false)
    (hn : ∀ n r, tl = n :: r → isNumber n = false) :
    unaryPass rev (toStr v :: tl) = unaryPass (toStr v :: rev) tl := by
  cases tl with
  | nil => simp [unaryPass]
  | cons n r =>
    have := hn n r rfl
    rw [unaryPass]
    simp [hp, this]

/-- the token a unary operator and its (canonical) operand are folded to -/
def unTokRes (o : UnOp) (v : Int) : Tok :=
  match o with
  | .not => if v == 0 then ['1'] else ['0']
  | .compl => toStr ((~~~ (bv v)).toInt)
  | .pos => toStr v
  | .neg => '-' :: toStr v

theorem unaryPass_un (rev : List Tok) (o : UnOp) (v : Int) (tl : List Tok) (hp : prevIsNumOrName rev = false)
    (h1 : llMin ≤ v) (h2 : v ≤ llMax) :
    unaryPass rev (unTok o :: toStr v :: tl) = unaryPass (unTokRes o v :: rev) tl := by
  rw [unaryPass]
  cases o with
  | not =>
    have : isRpar (unTok .not) = false := by decide
    have h3 : opOf (unTok .not) = '!' := by decide
    simp [this, h3, unTokRes, toStr_eq_zero]
  | compl =>
    have : isRpar (unTok .compl) = false := by decide
    have h3 : opOf (unTok .compl) = '~' := by decide
    simp [this, h3, unTokRes, stringToLL_toStr h1 h2]
  | pos =>
    have : isRpar (unTok .pos) = false := by decide
    have h3 : opOf (unTok .pos) = '+' := by decide
    simp [this, h3, unTokRes, hp]
  | neg =>
    have : isRpar (unTok .neg) = false := by decide
    have h3 : opOf (unTok .neg) = '-' := by decide
    simp [this, h3, unTokRes, hp]

/-- an operator token after a number: the scan moves on -/
theorem unaryPass_op (rev : List Tok) {t : Tok} (ht : IsOpTok t) (tl : List Tok) (hp : prevIsNumOrName rev = true) :
    unaryPass rev (t :: tl) = unaryPass (t :: rev) tl := by
  obtain ⟨h1, h2, h3, h4, h5⟩ := ht
  cases tl with
  | nil => simp [unaryPass, h3]
  | cons n r =>
    rw [unaryPass]
    simp [h3, h4, h5, hp]


/-! ## the binary passes -/

theorem binPass_stop (sel : Tok → Option BinOp) (rev : List Tok) {tl : List Tok} (h : Stop tl) :
    binPass sel rev tl = .ok (rev.reverse ++ tl) := by
  have hr : isRpar [')'] = true := by decide
  rcases h with h | ⟨p, h⟩
  · subst h; simp [binPass]
  · subst h
    cases p with
    | nil => simp [binPass]
    | cons n r => rw [binPass]; simp [hr]

/-- a pass leaves a group alone when it recognises none of its tokens -/
theorem binPass_noop (sel : Tok → Option BinOp) : ∀ (l rev tl : List Tok), Stop tl →
    (∀ t ∈ l, sel t = none ∧ isRpar t = false) → binPass sel rev (l ++ tl) = .ok (rev.reverse ++ l ++ tl) := by
  intro l
  induction l with
  | nil => intro rev tl h _; simpa using binPass_stop sel rev h
  | cons t l' ih =>
    intro rev tl h hl
    have ht := hl t (by simp)
    have ih' := ih (t :: rev) tl h (fun x hx => hl x (by simp [hx]))
    cases hrest : l' ++ tl with
    | nil =>
      have : l' = [] ∧ tl = [] := by simpa using hrest
      simp [this.1, this.2, binPass]
    | cons n r =>
      rw [List.cons_append, hrest, binPass]
      simp only [ht.2, Bool.false_eq_true, if_false, ht.1]
      rw [← hrest, ih']
      simp

/-- the pass that recognises the operator folds `a op b` -/
theorem binPass_fold (sel : Tok → Option BinOp) {t : Tok} {o : BinOp} (ht : sel t = some o) (hr : isRpar t = false)
    (hs : ∀ v, sel (toStr v) = none) {a b : Int} (ha1 : llMin ≤ a) (ha2 : a ≤ llMax) (hb1 : llMin ≤ b) (hb2 : b ≤ llMax)
    {tl : List Tok} (h : Stop tl) :
    binPass sel [] (toStr a :: t :: toStr b :: tl) =
      match applyBin o a b with
      | .ok r => .ok (toStr r :: tl)
      | .error e => .error e := by
  rw [binPass]
  simp only [isRpar_toStr, Bool.false_eq_true, if_false, hs]
  rw [binPass]
  simp only [hr, Bool.false_eq_true, if_false, ht, isNumber_toStr, Bool.and_self, if_true,
    stringToLL_toStr ha1 ha2, stringToLL_toStr hb1 hb2]
  cases applyBin o a b with
  | error e => rfl
  | ok r => simpa using binPass_stop sel [toStr r] h

/-- index of the pass that folds an operator -/
def passIdx : BinOp → Nat
  | .mul | .div | .mod => 0
  | .add | .sub => 1
  | .shl | .shr => 2
  | .eq | .ne | .gt | .ge | .lt | .le => 3
  | .band => 4
  | .bxor => 5
  | .bor => 6
  | .land | .lor => 7

theorem sels_split (o : BinOp) :
    (∀ s ∈ sels.take (passIdx o), s (binTok o) = none) ∧ (sels[passIdx o]?.bind fun s => s (binTok o)) = some o := by
  cases o <;> decide

theorem binPasses_noop : ∀ (ss : List (Tok → Option BinOp)) (l tl : List Tok), Stop tl →
    (∀ s ∈ ss, ∀ t ∈ l, s t = none ∧ isRpar t = false) → binPasses ss (l ++ tl) = .ok (l ++ tl) := by
  intro ss
  induction ss with
  | nil => intro l tl _ _; rfl
  | cons s r ih =>
    intro l tl h hl
    have := binPass_noop s l [] tl h (fun t ht => hl s (by simp) t ht)
    simp only [binPasses, this, List.reverse_nil, List.nil_append]
    exact ih l tl h (fun s' hs' => hl s' (by simp [hs']))

/-- all binary passes on `a op b`: the operator is applied once -/
theorem binPasses_bin (o : BinOp) {a b : Int} (ha1 : llMin ≤ a) (ha2 : a ≤ llMax) (hb1 : llMin ≤ b) (hb2 : b ≤ llMax)
    {tl : List Tok} (h : Stop tl) :
    binPasses sels (toStr a :: binTok o :: toStr b :: tl) =
      match applyBin o a b with
      | .ok r => .ok (toStr r :: tl)
      | .error e => .error e := by
  have hop := isOpTok_binTok o
  have key : ∀ (ss : List (Tok → Option BinOp)) (i : Nat), (∀ s ∈ ss, ∀ v, s (toStr v) = none) →
      (∀ s ∈ ss.take i, s (binTok o) = none) → (ss[i]?.bind fun s => s (binTok o)) = some o →
      binPasses ss (toStr a :: binTok o :: toStr b :: tl) =
        match applyBin o a b with
        | .ok r => .ok (toStr r :: tl)
        | .error e => .error e := by
    intro ss
    induction ss with
    | nil => intro i _ _ h3; simp at h3
    | cons s r ih =>
      intro i h1 h2 h3
      cases i with
      | zero =>
        have hs : s (binTok o) = some o := by simpa using h3
        have := binPass_fold s hs hop.2.2.1 (h1 s (by simp)) ha1 ha2 hb1 hb2 h
        simp only [binPasses, this]
        cases applyBin o a b with
        | error e => rfl
        | ok v =>
          simpa using binPasses_noop r [toStr v] tl h (fun s' hs' t ht => by
            simp at ht; subst ht; exact ⟨h1 s' (by simp [hs']) v, isRpar_toStr v⟩)
      | succ j =>
        have hs : s (binTok o) = none := h2 s (by simp)
        have := binPass_noop s [toStr a, binTok o, toStr b] [] tl h (by
          intro t ht
          simp at ht
          rcases ht with rfl | rfl | rfl
          · exact ⟨h1 s (by simp) a, isRpar_toStr a⟩
          · exact ⟨hs, hop.2.2.1⟩
          · exact ⟨h1 s (by simp) b, isRpar_toStr b⟩)
        simp only [List.cons_append, List.nil_append, List.reverse_nil] at this
        simp only [binPasses, this]
        exact ih j (fun s' hs' => h1 s' (by simp [hs'])) (fun s' hs' => h2 s' (by simp [hs'])) (by simpa using h3)
  exact key sels (passIdx o) (fun s hs v => sels_toStr v s hs) (sels_split o).1 (sels_split o).2


/-! ## constFoldQuestionOp -/

theorem questionScan_noop (hp : Bool) : ∀ (l rev tl : List Tok), Stop tl →
    (∀ t ∈ l, (t != ['?']) = true ∧ isRpar t = false) → questionScan hp rev (l ++ tl) = .ok none := by
  intro l
  induction l with
  | nil =>
    intro rev tl h _
    have hr : isRpar [')'] = true := by decide
    rcases h with h | ⟨p, h⟩
    · subst h; simp [questionScan]
    · subst h
      match p with
      | [] => simp [questionScan, hr]
      | [a] => simp [questionScan, hr]
      | a :: b :: r => simp [questionScan, hr]
  | cons t l' ih =>
    intro rev tl h hl
    have ht := hl t (by simp)
    have ih' := ih (t :: rev) tl h (fun x hx => hl x (by simp [hx]))
    have e : (t :: l') ++ tl = t :: (l' ++ tl) := rfl
    rw [e]
    match hrest : l' ++ tl with
    | [] => simp [questionScan, ht.1, ht.2]
    | [a] =>
      rw [questionScan.eq_def]
      simp only [ht.2, Bool.false_eq_true, if_false, ht.1, if_true]
      rw [← hrest]; exact ih'
    | a :: b :: r =>
      rw [questionScan.eq_def]
      simp only [ht.2, Bool.false_eq_true, if_false, ht.1, if_true]
      rw [← hrest]; exact ih'

theorem questionPass_noop (hp : Bool) (n : Nat) (l tl : List Tok) (h : Stop tl)
    (hl : ∀ t ∈ l, (t != ['?']) = true ∧ isRpar t = false) : questionPass hp n (l ++ tl) = .ok (l ++ tl) := by
  cases n with
  | zero => rfl
  | succ k => simp [questionPass, questionScan_noop hp l [] tl h hl]

theorem questionScan_fold (hp : Bool) (c t f : Int) (tl : List Tok) :
    questionScan hp [] (toStr c :: ['?'] :: toStr t :: [':'] :: toStr f :: tl) =
      .ok (some ((if c ≠ 0 then toStr t else toStr f) :: tl)) := by
  rw [questionScan]
  simp only [isRpar_toStr, Bool.false_eq_true, if_false, toStr_ne_q, if_true]
  rw [questionScan]
  have h1 : isRpar ['?'] = false := by decide
  have h2 : (['?'] != ['?']) = false := by decide
  have h3 : (opOf [':'] != ':') = false := by decide
  simp only [h1, h2, h3, Bool.false_eq_true, if_false, List.isEmpty_cons, Bool.false_and, isNumber_toStr, Bool.not_true,
    List.reverse_nil, List.nil_append]
  have : (toStr c != ['0']) = (c != 0) := by
    have := toStr_eq_zero c
    simp only [bne, this]
  by_cases hc : c = 0
  · subst hc; simp [this]
  · simp [this, hc]

theorem questionPass_fold (hp : Bool) (n : Nat) (c t f : Int) {tl : List Tok} (h : Stop tl) :
    questionPass hp (n + 2) (toStr c :: ['?'] :: toStr t :: [':'] :: toStr f :: tl) =
      .ok ((if c ≠ 0 then toStr t else toStr f) :: tl) := by
  rw [questionPass, questionScan_fold]
  simp only
  have := questionPass_noop hp (n + 1) [if c ≠ 0 then toStr t else toStr f] tl h (by
    intro x hx
    simp at hx
    subst hx
    split <;> simp)
  simpa using this


/-! ## arithmetic: the compiled `long long` operations agree with the specification on representable results -/

def InR (v : Int) : Prop := llMin ≤ v ∧ v ≤ llMax

theorem inRange_iff {x : Int} : inRange false x = true ↔ InR x := by
  simp only [inRange, Bool.false_eq_true, if_false, Bool.and_eq_true, decide_eq_true_eq]
  unfold two63 InR llMin llMax
  omega

theorem wrap_id {x : Int} (h : InR x) : wrap x = x := by
  unfold InR llMin llMax at h
  unfold wrap
  omega

theorem b2i_InR (b : Bool) : InR (b2i b) := by
  cases b <;> simp [b2i, InR, llMin, llMax]

theorem toInt_InR (x : BitVec 64) : InR x.toInt := by
  have h1 := BitVec.le_toInt x
  have h2 := @BitVec.toInt_le 64 x
  have e : (2 : Int) ^ (64 - 1) = 9223372036854775808 := by decide
  rw [e] at h1 h2
  simp only [InR, llMin, llMax]
  omega

theorem arith_false {x : Int} {r : Val} (h : arith false x = some r) : r = ⟨x, false⟩ ∧ InR x := by
  unfold arith at h
  simp only [Bool.false_eq_true, if_false] at h
  split at h
  · rename_i hr
    injection h with h
    exact ⟨h.symm, inRange_iff.mp hr⟩
  · simp at h

theorem bv_toInt {a : Int} (h : InR a) : (bv a).toInt = a := by
  unfold bv
  unfold InR llMin llMax at h
  have e : (2 : Int) ^ (64 - 1) = 9223372036854775808 := by decide
  apply BitVec.toInt_ofInt_eq_self (by decide)
  · rw [e]; omega
  · rw [e]; omega


theorem shl_eq {a b : Int} (ha : InR a) (ha0 : 0 ≤ a) (hb0 : 0 ≤ b) (hb : b < 64) (hr : InR (a * 2 ^ b.toNat)) :
    (bv a <<< (b % 64).toNat).toInt = a * 2 ^ b.toNat := by
  have hb' : b % 64 = b := Int.emod_eq_of_lt hb0 hb
  rw [hb', BitVec.toInt_shiftLeft]
  have hn : ((bv a).toNat : Int) = a := by
    unfold bv
    rw [BitVec.toNat_ofInt]
    unfold InR llMin llMax at ha
    have e64 : ((2 ^ 64 : Nat) : Int) = 18446744073709551616 := by decide
    rw [e64]
    omega
  have e : ((((bv a).toNat <<< b.toNat : Nat)) : Int) = a * 2 ^ b.toNat := by
    rw [Nat.shiftLeft_eq, Int.natCast_mul, hn, Int.natCast_pow]; rfl
  rw [e]
  unfold InR llMin llMax at hr
  apply Int.bmod_eq_of_le_mul_two <;> simp <;> omega

theorem shr_eq {a b : Int} (ha : InR a) (hb0 : 0 ≤ b) (hb : b < 64) :
    ((bv a).sshiftRight (b % 64).toNat).toInt = a / 2 ^ b.toNat := by
  have hb' : b % 64 = b := Int.emod_eq_of_lt hb0 hb
  rw [hb', BitVec.toInt_sshiftRight, bv_toInt ha, Int.shiftRight_eq_div_pow]
  rfl

/-- on representable operands and a representable result the compiled operation is the C operation -/
theorem applyBin_eq_spec {o : BinOp} {a b : Int} {r : Val} (ha : InR a) (hb : InR b)
    (h : specBin o ⟨a, false⟩ ⟨b, false⟩ = some r) : applyBin o a b = .ok r.v ∧ r.u = false ∧ InR r.v := by
  cases o <;> simp only [specBin, Bool.or_self, Bool.false_eq_true, if_false] at h
  case mul => obtain ⟨rfl, hr⟩ := arith_false h; exact ⟨by simp [applyBin, wrap_id hr], rfl, hr⟩
  case add => obtain ⟨rfl, hr⟩ := arith_false h; exact ⟨by simp [applyBin, wrap_id hr], rfl, hr⟩
  case sub => obtain ⟨rfl, hr⟩ := arith_false h; exact ⟨by simp [applyBin, wrap_id hr], rfl, hr⟩
  case div =>
    split at h
    · simp at h
    · rename_i hy
      obtain ⟨rfl, hr⟩ := arith_false h
      refine ⟨?_, rfl, hr⟩
      have : ¬ (b = -1 ∧ a = llMin) := by
        rintro ⟨rfl, rfl⟩
        revert hr; unfold InR llMin llMax; decide
      simp [applyBin, hy, this]
  case mod =>
    split at h
    · simp at h
    · rename_i hy
      split at h
      · simp at h
      · rename_i hq
        obtain ⟨rfl, hr⟩ := arith_false h
        refine ⟨?_, rfl, hr⟩
        have : ¬ (b = -1 ∧ a = llMin) := by
          rintro ⟨rfl, rfl⟩
          revert hq; unfold llMin two63; decide
        simp [applyBin, hy, this]
  case shl =>
    split at h
    · simp at h
    · rename_i hb2
      simp only [Bool.or_eq_true, decide_eq_true_eq, not_or, Int.not_lt] at hb2
      split at h
      · simp at h
      · rename_i ha2
        obtain ⟨rfl, hr⟩ := arith_false h
        have ha0 : 0 ≤ a := by simpa using ha2
        exact ⟨by simp [applyBin, shl_eq ha ha0 hb2.1 (by omega) hr], rfl, hr⟩
  case shr =>
    split at h
    · simp at h
    · rename_i hb2
      simp only [Bool.or_eq_true, decide_eq_true_eq, not_or, Int.not_lt] at hb2
      injection h with h
      subst h
      have e := shr_eq ha hb2.1 (by omega : b < 64)
      refine ⟨by simp [applyBin, e], rfl, ?_⟩
      rw [← e]; exact toInt_InR _
  case eq => injection h with h; subst h; exact ⟨rfl, rfl, b2i_InR _⟩
  case ne => injection h with h; subst h; exact ⟨rfl, rfl, b2i_InR _⟩
  case gt => injection h with h; subst h; exact ⟨rfl, rfl, b2i_InR _⟩
  case ge => injection h with h; subst h; exact ⟨rfl, rfl, b2i_InR _⟩
  case lt => injection h with h; subst h; exact ⟨rfl, rfl, b2i_InR _⟩
  case le => injection h with h; subst h; exact ⟨rfl, rfl, b2i_InR _⟩
  case band => injection h with h; subst h; exact ⟨rfl, rfl, toInt_InR _⟩
  case bxor => injection h with h; subst h; exact ⟨rfl, rfl, toInt_InR _⟩
  case bor => injection h with h; subst h; exact ⟨rfl, rfl, toInt_InR _⟩
  case land => injection h with h; subst h; exact ⟨rfl, rfl, b2i_InR _⟩
  case lor => injection h with h; subst h; exact ⟨rfl, rfl, b2i_InR _⟩


/-! ## a group without parentheses: operands `[unop] number` separated by operator tokens -/

theorem unTokRes_eq {o : UnOp} {v : Int} {r : Val} (hv : InR v) (h : specUn o ⟨v, false⟩ = some r) (hneg : o = .neg → 0 < v) :
    unTokRes o v = toStr r.v ∧ r.u = false ∧ InR r.v := by
  cases o <;> simp only [specUn, Bool.false_eq_true, if_false] at h
  case not =>
    injection h with h; subst h
    refine ⟨?_, rfl, b2i_InR _⟩
    by_cases hv : v = 0
    · subst hv; decide
    · have : (v == 0) = false := by simpa using hv
      simp only [unTokRes, this, Bool.false_eq_true, if_false, b2i]; decide
  case pos => injection h with h; subst h; exact ⟨rfl, rfl, hv⟩
  case neg =>
    obtain ⟨rfl, hr⟩ := arith_false h
    exact ⟨neg_toStr (hneg rfl), rfl, hr⟩
  case compl => injection h with h; subst h; exact ⟨rfl, rfl, toInt_InR _⟩

/-- an operand of a group: optional unary operator and a canonical number -/
def ua : Option UnOp → Int → List Tok
  | none, v => [toStr v]
  | some o, v => [unTok o, toStr v]

/-- `w` is the value of the operand `ua u v` -/
def UVal (u : Option UnOp) (v w : Int) : Prop :=
  match u with
  | none => w = v
  | some o => unTokRes o v = toStr w

theorem prev_toStr (v : Int) (rev : List Tok) : prevIsNumOrName (toStr v :: rev) = true := by simp [prevIsNumOrName]
theorem prev_op {t : Tok} (ht : IsOpTok t) (rev : List Tok) : prevIsNumOrName (t :: rev) = false := by
  simp [prevIsNumOrName, ht.1, ht.2.1]

theorem unaryPass_operand (rev : List Tok) (u : Option UnOp) {v w : Int} (tl : List Tok) (hp : prevIsNumOrName rev = false)
    (hn : ∀ n r, tl = n :: r → isNumber n = false) (hv : InR v) (hw : UVal u v w) :
    unaryPass rev (ua u v ++ tl) = unaryPass (toStr w :: rev) tl := by
  cases u with
  | none => simp only [UVal] at hw; subst hw; exact unaryPass_num rev _ tl hp hn
  | some o => simp only [UVal] at hw; rw [← hw]; exact unaryPass_un rev o v tl hp hv.1 hv.2

theorem op_head_not_num {t : Tok} (ht : IsOpTok t) (l : List Tok) : ∀ n r, t :: l = n :: r → isNumber n = false := by
  intro n r e; injection e with e _; subst e; exact ht.1

theorem sels_q : ∀ s ∈ sels, s ['?'] = none ∧ s [':'] = none := by decide

theorem passes_single (hp : Bool) (u : Option UnOp) {v w : Int} {tl : List Tok} (h : Stop tl) (hv : InR v) (hw : UVal u v w) :
    passes hp (ua u v ++ tl) = .ok (toStr w :: tl) := by
  unfold passes
  rw [unaryPass_operand [] u tl rfl (stop_head_not_num h) hv hw, unaryPass_stop _ h]
  have := binPasses_noop sels [toStr w] tl h (fun s hs t ht => by
    simp at ht; subst ht; exact ⟨sels_toStr w s hs, isRpar_toStr w⟩)
  simp only [List.reverse_cons, List.reverse_nil, List.nil_append, List.singleton_append] at this ⊢
  rw [this]
  have := questionPass_noop hp (toStr w :: tl).length [toStr w] tl h (fun t ht => by simp at ht; subst ht; simp)
  simpa using this

theorem passes_bin (hp : Bool) (o : BinOp) (u1 u2 : Option UnOp) {a a' b b' : Int} {tl : List Tok} (h : Stop tl)
    (ha : InR a) (hb : InR b) (ha' : UVal u1 a a') (hb' : UVal u2 b b') (hra : InR a') (hrb : InR b') :
    passes hp (ua u1 a ++ binTok o :: (ua u2 b ++ tl)) =
      match applyBin o a' b' with
      | .ok r => .ok (toStr r :: tl)
      | .error e => .error e := by
  have hop := isOpTok_binTok o
  unfold passes
  rw [unaryPass_operand [] u1 _ rfl (op_head_not_num hop _) ha ha',
    unaryPass_op _ hop _ (prev_toStr _ _),
    unaryPass_operand _ u2 tl (prev_op hop _) (stop_head_not_num h) hb hb',
    unaryPass_stop _ h]
  simp only [List.reverse_cons, List.reverse_nil, List.nil_append, List.append_assoc, List.cons_append]
  rw [binPasses_bin o hra.1 hra.2 hrb.1 hrb.2 h]
  cases applyBin o a' b' with
  | error e => rfl
  | ok r =>
    have := questionPass_noop hp (toStr r :: tl).length [toStr r] tl h (fun t ht => by simp at ht; subst ht; simp)
    simpa using this

theorem passes_cond (hp : Bool) (u1 u2 u3 : Option UnOp) {c c' t t' f f' : Int} {tl : List Tok} (h : Stop tl)
    (hc : InR c) (ht : InR t) (hf : InR f) (hc' : UVal u1 c c') (ht' : UVal u2 t t') (hf' : UVal u3 f f') :
    passes hp (ua u1 c ++ ['?'] :: (ua u2 t ++ [':'] :: (ua u3 f ++ tl))) =
      .ok ((if c' ≠ 0 then toStr t' else toStr f') :: tl) := by
  unfold passes
  rw [unaryPass_operand [] u1 _ rfl (op_head_not_num isOpTok_q _) hc hc',
    unaryPass_op _ isOpTok_q _ (prev_toStr _ _),
    unaryPass_operand _ u2 _ (prev_op isOpTok_q _) (op_head_not_num isOpTok_colon _) ht ht',
    unaryPass_op _ isOpTok_colon _ (prev_toStr _ _),
    unaryPass_operand _ u3 tl (prev_op isOpTok_colon _) (stop_head_not_num h) hf hf',
    unaryPass_stop _ h]
  simp only [List.reverse_cons, List.reverse_nil, List.nil_append, List.append_assoc, List.cons_append]
  have := binPasses_noop sels [toStr c', ['?'], toStr t', [':'], toStr f'] tl h (fun s hs x hx => by
    simp at hx
    rcases hx with rfl | rfl | rfl | rfl | rfl
    · exact ⟨sels_toStr _ s hs, isRpar_toStr _⟩
    · exact ⟨(sels_q s hs).1, by decide⟩
    · exact ⟨sels_toStr _ s hs, isRpar_toStr _⟩
    · exact ⟨(sels_q s hs).2, by decide⟩
    · exact ⟨sels_toStr _ s hs, isRpar_toStr _⟩)
  simp only [List.cons_append, List.nil_append] at this
  rw [this]
  have e : (toStr c' :: ['?'] :: toStr t' :: [':'] :: toStr f' :: tl).length = (tl.length + 3) + 2 := by simp
  show questionPass hp (toStr c' :: ['?'] :: toStr t' :: [':'] :: toStr f' :: tl).length _ = _
  rw [e]
  exact questionPass_fold hp _ c' t' f' h


/-! ## the parenthesis loop of `constFold` -/

def NoL (l : List Tok) : Prop := ∀ t ∈ l, (opOf t == '(') = false

theorem NoL_nil : NoL [] := by intro t ht; simp at ht
theorem NoL_cons {t : Tok} {l : List Tok} (ht : (opOf t == '(') = false) (hl : NoL l) : NoL (t :: l) := by
  intro x hx; simp at hx; rcases hx with rfl | hx; exact ht; exact hl x hx
theorem NoL_append {a b : List Tok} (ha : NoL a) (hb : NoL b) : NoL (a ++ b) := by
  intro x hx; simp at hx; rcases hx with hx | hx; exact ha x hx; exact hb x hx
theorem NoL_toStr (v : Int) : (opOf (toStr v) == '(') = false := by simp
theorem NoL_binTok (o : BinOp) : (opOf (binTok o) == '(') = false := by cases o <;> decide
theorem NoL_unTok (o : UnOp) : (opOf (unTok o) == '(') = false := by cases o <;> decide
theorem NoL_ua (u : Option UnOp) (v : Int) : NoL (ua u v) := by
  cases u with
  | none => exact NoL_cons (NoL_toStr v) NoL_nil
  | some o => exact NoL_cons (NoL_unTok o) (NoL_cons (NoL_toStr v) NoL_nil)

theorem splitLast_none : ∀ {l : List Tok}, NoL l → splitLastLpar l = none := by
  intro l
  induction l with
  | nil => intro _; rfl
  | cons t r ih =>
    intro h
    have h1 := ih (fun x hx => h x (by simp [hx]))
    have h2 := h t (by simp)
    simp [splitLastLpar, h1, h2]

theorem splitLast_some : ∀ (pre rest : List Tok), NoL rest → splitLastLpar (pre ++ ['('] :: rest) = some (pre, rest) := by
  intro pre
  induction pre with
  | nil =>
    intro rest h
    have : (opOf ['('] == '(') = true := by decide
    simp [splitLastLpar, splitLast_none h, this]
  | cons t r ih =>
    intro rest h
    simp [splitLastLpar, ih rest h]

/-- one round of the loop on the last parenthesised group -/
theorem constFold_paren (n : Nat) (pre g post : List Tok) (x : Tok) (hg : NoL g) (hpost : NoL post)
    (hp : passes true (g ++ [')'] :: post) = .ok (x :: [')'] :: post)) :
    constFold (n + 1) (pre ++ ['('] :: (g ++ [')'] :: post)) = constFold n (pre ++ x :: post) := by
  have hn : NoL (g ++ [')'] :: post) := NoL_append hg (NoL_cons (by decide) hpost)
  have hr : isRpar [')'] = true := by decide
  rw [constFold]
  simp [splitLast_some pre _ hn, hp, hr]

/-- the last round: no parenthesis left -/
theorem constFold_top (n : Nat) (g : List Tok) (r : List Tok) (hg : NoL g) (hne : g ≠ [])
    (hp : passes false g = .ok r) : constFold (n + 1) g = .ok r := by
  rw [constFold]
  cases g with
  | nil => exact absurd rfl hne
  | cons t l => simp [splitLast_none hg, hp]


/-! ## trees: the tokens `evaluate` folds, the number of parenthesised groups, inversion of `valueStrict` -/

/-- the tokens of `printPF e` after `defined`, the names and the literals have been replaced -/
def pk (isDef : Tok → Bool) : E → List Tok
  | .lit l => [toStr l.n]
  | .defd x _ => [toStr (b2i (isDef x))]
  | .ident _ => [toStr 0]
  | .un o e => unTok o :: (if isCompound e then paren (pk isDef e) else pk isDef e)
  | .bin o a b =>
    (if isCompound a then paren (pk isDef a) else pk isDef a) ++ binTok o ::
    (if isCompound b then paren (pk isDef b) else pk isDef b)
  | .cond c t f =>
    (if isCompound c then paren (pk isDef c) else pk isDef c) ++ ['?'] ::
    ((if isCompound t then paren (pk isDef t) else pk isDef t) ++ [':'] ::
    (if isCompound f then paren (pk isDef f) else pk isDef f))

def opd (isDef : Tok → Bool) (x : E) : List Tok := if isCompound x then paren (pk isDef x) else pk isDef x

/-- parenthesised groups in `pk e` -/
def G : E → Nat
  | .lit _ | .defd _ _ | .ident _ => 0
  | .un _ e => G e + (if isCompound e then 1 else 0)
  | .bin _ a b => (G a + (if isCompound a then 1 else 0)) + (G b + (if isCompound b then 1 else 0))
  | .cond c t f => (G c + (if isCompound c then 1 else 0)) + (G t + (if isCompound t then 1 else 0)) + (G f + (if isCompound f then 1 else 0))

def Gop (x : E) : Nat := G x + (if isCompound x then 1 else 0)

def sz : E → Nat
  | .lit _ | .defd _ _ | .ident _ => 1
  | .un _ e => sz e + 1
  | .bin _ a b => sz a + sz b + 1
  | .cond c t f => sz c + sz t + sz f + 1

structure Hyp (isDef : Tok → Bool) (e : E) (v : Int) : Prop where
  val : valueStrict isDef e = some v
  lits : plainLits e = true
  un : unaryOk isDef e = true

theorem specUn_InR {o : UnOp} {v : Int} {r : Val} (hv : InR v) (h : specUn o ⟨v, false⟩ = some r) : r.u = false ∧ InR r.v := by
  cases o <;> simp only [specUn, Bool.false_eq_true, if_false] at h
  case not => injection h with h; subst h; exact ⟨rfl, b2i_InR _⟩
  case pos => injection h with h; subst h; exact ⟨rfl, hv⟩
  case neg => obtain ⟨rfl, hr⟩ := arith_false h; exact ⟨rfl, hr⟩
  case compl => injection h with h; subst h; exact ⟨rfl, toInt_InR _⟩

theorem valueStrict_un {isDef : Tok → Bool} {o : UnOp} {y : E} {v : Int} (h : valueStrict isDef (.un o y) = some v) :
    ∃ vy r, valueStrict isDef y = some vy ∧ specUn o ⟨vy, false⟩ = some r ∧ r.v = v := by
  simp only [valueStrict] at h
  cases hy : valueStrict isDef y with
  | none => simp [hy] at h
  | some vy =>
    simp only [hy] at h
    cases hr : specUn o ⟨vy, false⟩ with
    | none => simp [hr] at h
    | some r => simp [hr] at h; exact ⟨vy, r, rfl, hr, h⟩

theorem valueStrict_bin {isDef : Tok → Bool} {o : BinOp} {a b : E} {v : Int} (h : valueStrict isDef (.bin o a b) = some v) :
    ∃ va vb r, valueStrict isDef a = some va ∧ valueStrict isDef b = some vb ∧ specBin o ⟨va, false⟩ ⟨vb, false⟩ = some r ∧ r.v = v := by
  simp only [valueStrict] at h
  cases ha : valueStrict isDef a with
  | none => simp [ha] at h
  | some va =>
    cases hb : valueStrict isDef b with
    | none => simp [ha, hb] at h
    | some vb =>
      simp only [ha, hb] at h
      cases hr : specBin o ⟨va, false⟩ ⟨vb, false⟩ with
      | none => simp [hr] at h
      | some r => simp [hr] at h; exact ⟨va, vb, r, rfl, rfl, hr, h⟩

theorem valueStrict_cond {isDef : Tok → Bool} {c t f : E} {v : Int} (h : valueStrict isDef (.cond c t f) = some v) :
    ∃ x y z, valueStrict isDef c = some x ∧ valueStrict isDef t = some y ∧ valueStrict isDef f = some z ∧
      v = if x ≠ 0 then y else z := by
  simp only [valueStrict] at h
  cases hc : valueStrict isDef c with
  | none => simp [hc] at h
  | some x =>
    cases ht : valueStrict isDef t with
    | none => simp [hc, ht] at h
    | some y =>
      cases hf : valueStrict isDef f with
      | none => simp [hc, ht, hf] at h
      | some z =>
        simp only [hc, ht, hf] at h
        injection h with h
        exact ⟨x, y, z, rfl, rfl, rfl, h.symm⟩

theorem valueStrict_InR (isDef : Tok → Bool) : ∀ (e : E) (v : Int), valueStrict isDef e = some v → InR v := by
  intro e
  induction e with
  | lit l =>
    intro v h
    simp only [valueStrict] at h
    split at h
    · rename_i hl; injection h with h; subst h
      unfold two63 at hl; unfold InR llMin llMax; omega
    · simp at h
  | defd x p => intro v h; simp only [valueStrict] at h; injection h with h; subst h; exact b2i_InR _
  | ident x => intro v h; simp only [valueStrict] at h; injection h with h; subst h; exact b2i_InR false
  | un o y ih =>
    intro v h
    obtain ⟨vy, r, hy, hr, rfl⟩ := valueStrict_un h
    exact (specUn_InR (ih vy hy) hr).2
  | bin o a b iha ihb =>
    intro v h
    obtain ⟨va, vb, r, ha, hb, hr, rfl⟩ := valueStrict_bin h
    exact (applyBin_eq_spec (iha va ha) (ihb vb hb) hr).2.2
  | cond c t f ihc iht ihf =>
    intro v h
    obtain ⟨x, y, z, hc, ht, hf, rfl⟩ := valueStrict_cond h
    split
    · exact iht y ht
    · exact ihf z hf


theorem pk_leaf {isDef : Tok → Bool} {e : E} {v : Int} (hl : isLeaf e = true) (h : valueStrict isDef e = some v) :
    pk isDef e = [toStr v] ∧ G e = 0 ∧ isCompound e = false := by
  cases e <;> simp [isLeaf] at hl
  case lit l =>
    simp only [valueStrict] at h
    split at h
    · injection h with h; subst h; exact ⟨rfl, rfl, rfl⟩
    · simp at h
  case defd x p => simp only [valueStrict] at h; injection h with h; subst h; exact ⟨rfl, rfl, rfl⟩
  case ident x => simp only [valueStrict] at h; injection h with h; subst h; exact ⟨rfl, rfl, rfl⟩

/-- what an operand looks like once its inner parentheses are gone -/
def Reduces (isDef : Tok → Bool) (e : E) (v : Int) : Prop :=
  ∃ u w0, UVal u w0 v ∧ InR w0 ∧ ∀ (pre post : List Tok) (n : Nat), NoL post →
    constFold (n + Gop e) (pre ++ (opd isDef e ++ post)) = constFold n (pre ++ (ua u w0 ++ post))

def Folds (isDef : Tok → Bool) (e : E) (v : Int) : Prop :=
  ∀ (pre post : List Tok) (n : Nat), NoL post →
    constFold (n + G e + 1) (pre ++ ['('] :: (pk isDef e ++ [')'] :: post)) = constFold n (pre ++ toStr v :: post)

/-- in any context the inner parentheses of `pk e` disappear and leave a group `fg` that the passes fold to the value -/
def Flat (isDef : Tok → Bool) (e : E) (v : Int) : Prop :=
  ∃ fg : List Tok, NoL fg ∧ fg ≠ [] ∧ (∀ hp tl, Stop tl → passes hp (fg ++ tl) = .ok (toStr v :: tl)) ∧
    ∀ (pre post : List Tok) (n : Nat), NoL post →
      constFold (n + G e) (pre ++ (pk isDef e ++ post)) = constFold n (pre ++ (fg ++ post))

theorem stop_rpar (post : List Tok) : Stop ([')'] :: post) := Or.inr ⟨post, rfl⟩

theorem folds_of_flat {isDef : Tok → Bool} {e : E} {v : Int} (h : Flat isDef e v) : Folds isDef e v := by
  obtain ⟨fg, hfg, _, hpass, hred⟩ := h
  intro pre post n hp
  have e1 : pre ++ ['('] :: (pk isDef e ++ [')'] :: post) = (pre ++ [['(']]) ++ (pk isDef e ++ ([')'] :: post)) := by simp
  have e2 : n + G e + 1 = (n + 1) + G e := by omega
  rw [e1, e2, hred _ _ _ (NoL_cons (by decide) hp)]
  have e3 : (pre ++ [['(']]) ++ (fg ++ ([')'] :: post)) = pre ++ ['('] :: (fg ++ [')'] :: post) := by simp
  rw [e3]
  exact constFold_paren n pre fg post (toStr v) hfg hp (hpass true _ (stop_rpar post))

theorem top_of_flat {isDef : Tok → Bool} {e : E} {v : Int} (h : Flat isDef e v) (n : Nat) :
    constFold (n + G e + 1) (pk isDef e) = .ok [toStr v] := by
  obtain ⟨fg, hfg, hne, hpass, hred⟩ := h
  have e2 : n + G e + 1 = (n + 1) + G e := by omega
  have := hred [] [] (n + 1) NoL_nil
  simp only [List.nil_append, List.append_nil] at this
  rw [e2, this]
  have hp := hpass false [] (Or.inl rfl)
  simp only [List.append_nil] at hp
  exact constFold_top n fg _ hfg hne hp

theorem reduces_of_folds {isDef : Tok → Bool} {e : E} {v : Int} (hc : isCompound e = true) (hv : InR v) (h : Folds isDef e v) :
    Reduces isDef e v := by
  refine ⟨none, v, rfl, hv, ?_⟩
  intro pre post n hp
  have := h pre post n hp
  simp only [Gop, opd, hc, if_true, paren, ua, List.cons_append, List.append_assoc, List.nil_append] at this ⊢
  exact this

theorem opd_un (isDef : Tok → Bool) (o : UnOp) (y : E) : opd isDef (.un o y) = unTok o :: opd isDef y := rfl
theorem Gop_un (o : UnOp) (y : E) : Gop (.un o y) = Gop y := rfl

/-- a non-compound operand: its reduced form is also its flat group -/
theorem flat_of_reduces {isDef : Tok → Bool} {e : E} {v : Int} (hc : isCompound e = false)
    (u : Option UnOp) (w0 : Int) (huv : UVal u w0 v) (hw : InR w0)
    (hred : ∀ (pre post : List Tok) (n : Nat), NoL post →
      constFold (n + Gop e) (pre ++ (opd isDef e ++ post)) = constFold n (pre ++ (ua u w0 ++ post))) : Flat isDef e v := by
  refine ⟨ua u w0, NoL_ua u w0, by cases u <;> simp [ua], fun hp tl h => passes_single hp u h hw huv, ?_⟩
  intro pre post n hp
  have := hred pre post n hp
  simp only [Gop, opd, hc, Bool.false_eq_true, if_false, Nat.add_zero] at this
  exact this

theorem main_aux (isDef : Tok → Bool) : ∀ (k : Nat) (e : E), sz e ≤ k → ∀ v, Hyp isDef e v →
    Flat isDef e v ∧ Reduces isDef e v := by
  intro k
  induction k with
  | zero => intro e he; cases e <;> simp [sz] at he
  | succ k ih =>
    intro e he v hyp
    have hvr := valueStrict_InR isDef e v hyp.val
    have leafCase : isLeaf e = true → Flat isDef e v ∧ Reduces isDef e v := by
      intro hl
      have := pk_leaf hl hyp.val
      have hred : ∀ (pre post : List Tok) (n : Nat), NoL post →
          constFold (n + Gop e) (pre ++ (opd isDef e ++ post)) = constFold n (pre ++ (ua none v ++ post)) := by
        intro pre post n _
        have e1 : opd isDef e = [toStr v] := by simp only [opd, this.2.2, this.1]; rfl
        have e2 : Gop e = 0 := by simp only [Gop, this.2.1, this.2.2]; rfl
        rw [e1, e2]; rfl
      exact ⟨flat_of_reduces this.2.2 none v rfl hvr hred, none, v, rfl, hvr, hred⟩
    cases e with
    | lit l => exact leafCase rfl
    | defd x p => exact leafCase rfl
    | ident x => exact leafCase rfl
    | un o y =>
      obtain ⟨vy, r, hy, hr, hrv⟩ := valueStrict_un hyp.val
      have hun := hyp.un
      simp only [unaryOk, Bool.and_eq_true, Bool.or_eq_true, bne_iff_ne, ne_eq] at hun
      obtain ⟨⟨huy, hshape⟩, hneg⟩ := hun
      have hyr := valueStrict_InR isDef y vy hy
      have hnegv : o = .neg → 0 < vy := by
        intro ho
        rcases hneg with hneg | hneg
        · exact absurd ho (by simpa using hneg)
        · rw [hy] at hneg; simpa using hneg
      have huv : UVal (some o) vy v := by
        have := (unTokRes_eq hyr hr hnegv).1
        simp only [UVal]; rw [this, hrv]
      have hred : ∀ (pre post : List Tok) (n : Nat), NoL post →
          constFold (n + Gop (.un o y)) (pre ++ (opd isDef (.un o y) ++ post)) = constFold n (pre ++ (ua (some o) vy ++ post)) := by
        intro pre post n hp
        rw [Gop_un, opd_un]
        rcases hshape with hleaf | hcomp
        · have := pk_leaf hleaf hy
          have e1 : opd isDef y = [toStr vy] := by simp only [opd, this.2.2, this.1]; rfl
          have e2 : Gop y = 0 := by simp only [Gop, this.2.1, this.2.2]; rfl
          rw [e1, e2]
          rfl
        · have hy' : Hyp isDef y vy := ⟨hy, by simpa [plainLits] using hyp.lits, huy⟩
          have hf := folds_of_flat (ih y (by simp [sz] at he; omega) vy hy').1 (pre ++ [unTok o]) post n hp
          have e1 : opd isDef y = ['('] :: (pk isDef y ++ [[')']]) := by simp only [opd, hcomp, if_true, paren]; rfl
          have e2 : Gop y = G y + 1 := by simp only [Gop, hcomp, if_true]
          rw [e1, e2]
          simp only [ua, List.cons_append, List.append_assoc, List.nil_append] at hf ⊢
          exact hf
      exact ⟨flat_of_reduces rfl (some o) vy huv hyr hred, some o, vy, huv, hyr, hred⟩
    | bin o a b =>
      obtain ⟨va, vb, r, ha, hb, hr, hrv⟩ := valueStrict_bin hyp.val
      have hl := hyp.lits
      have hu := hyp.un
      simp only [plainLits, unaryOk, Bool.and_eq_true] at hl hu
      have hya : Hyp isDef a va := ⟨ha, hl.1, hu.1⟩
      have hyb : Hyp isDef b vb := ⟨hb, hl.2, hu.2⟩
      have hsa : sz a ≤ k := by simp [sz] at he; omega
      have hsb : sz b ≤ k := by simp [sz] at he; omega
      obtain ⟨ua1, wa, hua, hwa, hra⟩ := (ih a hsa va hya).2
      obtain ⟨ub1, wb, hub, hwb, hrb⟩ := (ih b hsb vb hyb).2
      have hvar := valueStrict_InR isDef a va ha
      have hvbr := valueStrict_InR isDef b vb hb
      have happ := (applyBin_eq_spec hvar hvbr hr).1
      rw [hrv] at happ
      have hflat : Flat isDef (.bin o a b) v := by
        refine ⟨ua ua1 wa ++ binTok o :: ua ub1 wb, NoL_append (NoL_ua _ _) (NoL_cons (NoL_binTok o) (NoL_ua _ _)),
          by simp, ?_, ?_⟩
        · intro hp tl h
          have := passes_bin hp o ua1 ub1 h hwa hwb hua hub hvar hvbr
          rw [happ] at this
          simpa using this
        · intro pre post n hp
          have e1 : pre ++ (pk isDef (.bin o a b) ++ post) = (pre ++ (opd isDef a ++ [binTok o])) ++ (opd isDef b ++ post) := by
            simp [pk, opd]
          have e2 : n + G (.bin o a b) = (n + Gop a) + Gop b := by simp [G, Gop]; omega
          rw [e1, e2, hrb _ _ _ hp]
          have e3 : (pre ++ (opd isDef a ++ [binTok o])) ++ (ua ub1 wb ++ post) =
              pre ++ (opd isDef a ++ (binTok o :: (ua ub1 wb ++ post))) := by simp
          rw [e3, hra _ _ _ (NoL_cons (NoL_binTok o) (NoL_append (NoL_ua _ _) hp))]
          simp
      exact ⟨hflat, reduces_of_folds rfl hvr (folds_of_flat hflat)⟩
    | cond c t f =>
      obtain ⟨x, y, z, hc, ht, hf, hv⟩ := valueStrict_cond hyp.val
      have hl := hyp.lits
      have hu := hyp.un
      simp only [plainLits, unaryOk, Bool.and_eq_true] at hl hu
      have hyc : Hyp isDef c x := ⟨hc, hl.1.1, hu.1.1⟩
      have hyt : Hyp isDef t y := ⟨ht, hl.1.2, hu.1.2⟩
      have hyf : Hyp isDef f z := ⟨hf, hl.2, hu.2⟩
      have hsc : sz c ≤ k := by simp [sz] at he; omega
      have hst : sz t ≤ k := by simp [sz] at he; omega
      have hsf : sz f ≤ k := by simp [sz] at he; omega
      obtain ⟨u1, wc, huc, hwc, hrc⟩ := (ih c hsc x hyc).2
      obtain ⟨u2, wt, hut, hwt, hrt⟩ := (ih t hst y hyt).2
      obtain ⟨u3, wf, huf, hwf, hrf⟩ := (ih f hsf z hyf).2
      have hflat : Flat isDef (.cond c t f) v := by
        refine ⟨ua u1 wc ++ ['?'] :: (ua u2 wt ++ [':'] :: ua u3 wf),
          NoL_append (NoL_ua _ _) (NoL_cons (by decide) (NoL_append (NoL_ua _ _) (NoL_cons (by decide) (NoL_ua _ _)))),
          by simp, ?_, ?_⟩
        · intro hp tl h
          have := passes_cond hp u1 u2 u3 h hwc hwt hwf huc hut huf
          rw [hv]
          have e8 : (if x ≠ 0 then toStr y else toStr z) = toStr (if x ≠ 0 then y else z) := by split <;> rfl
          rw [← e8]
          simpa using this
        · intro pre post n hp
          have e1 : pre ++ (pk isDef (.cond c t f) ++ post) =
              (pre ++ (opd isDef c ++ ['?'] :: (opd isDef t ++ [[':']]))) ++ (opd isDef f ++ post) := by
            simp [pk, opd]
          have e2 : n + G (.cond c t f) = (n + Gop c + Gop t) + Gop f := by simp [G, Gop]; omega
          rw [e1, e2, hrf _ _ _ hp]
          have e3 : (pre ++ (opd isDef c ++ ['?'] :: (opd isDef t ++ [[':']]))) ++ (ua u3 wf ++ post) =
              (pre ++ (opd isDef c ++ [['?']])) ++ (opd isDef t ++ ([':'] :: (ua u3 wf ++ post))) := by simp
          rw [e3, hrt _ _ _ (NoL_cons (by decide) (NoL_append (NoL_ua _ _) hp))]
          have e5 : (pre ++ (opd isDef c ++ [['?']])) ++ (ua u2 wt ++ ([':'] :: (ua u3 wf ++ post))) =
              pre ++ (opd isDef c ++ (['?'] :: (ua u2 wt ++ [':'] :: (ua u3 wf ++ post)))) := by simp
          rw [e5, hrc _ _ _ (NoL_cons (by decide) (NoL_append (NoL_ua _ _) (NoL_cons (by decide) (NoL_append (NoL_ua _ _) hp))))]
          simp
      exact ⟨hflat, reduces_of_folds rfl hvr (folds_of_flat hflat)⟩

theorem flat_of_hyp {isDef : Tok → Bool} {e : E} {v : Int} (h : Hyp isDef e v) : Flat isDef e v :=
  (main_aux isDef (sz e) e (Nat.le_refl _) v h).1


/-! ## from the printed tokens to `pk`: `defined`, names, literals -/

/-- tree printer with every binary / conditional operand in parentheses, parametric in the spelling of the leaves -/
def pr (leaf : E → List Tok) : E → List Tok
  | .lit l => leaf (.lit l)
  | .defd x p => leaf (.defd x p)
  | .ident x => leaf (.ident x)
  | .un o e => unTok o :: (if isCompound e then paren (pr leaf e) else pr leaf e)
  | .bin o a b =>
    (if isCompound a then paren (pr leaf a) else pr leaf a) ++ binTok o ::
    (if isCompound b then paren (pr leaf b) else pr leaf b)
  | .cond c t f =>
    (if isCompound c then paren (pr leaf c) else pr leaf c) ++ ['?'] ::
    ((if isCompound t then paren (pr leaf t) else pr leaf t) ++ [':'] ::
    (if isCompound f then paren (pr leaf f) else pr leaf f))

def leaf0 : E → List Tok
  | .lit l => [litTok l]
  | .defd x p => if p then ["defined".toList, ['('], x, [')']] else ["defined".toList, x]
  | .ident x => [x]
  | _ => []

def leaf1 (isDef : Tok → Bool) : E → List Tok
  | .lit l => [litTok l]
  | .defd x _ => [toStr (b2i (isDef x))]
  | .ident x => [x]
  | _ => []

def leaf2 (isDef : Tok → Bool) : E → List Tok
  | .lit l => [toStr l.n]
  | .defd x _ => [toStr (b2i (isDef x))]
  | .ident _ => [toStr 0]
  | _ => []

theorem printPF_eq_pr : ∀ e : E, printPF e = pr leaf0 e := by
  intro e
  induction e with
  | lit l => rfl
  | defd x p => rfl
  | ident x => rfl
  | un o e ih => simp only [printPF, pr, ih]
  | bin o a b iha ihb => simp only [printPF, pr, iha, ihb]
  | cond c t f ihc iht ihf => simp only [printPF, pr, ihc, iht, ihf, List.append_assoc, List.cons_append, List.nil_append]

theorem pk_eq_pr (isDef : Tok → Bool) : ∀ e : E, pk isDef e = pr (leaf2 isDef) e := by
  intro e
  induction e with
  | lit l => rfl
  | defd x p => rfl
  | ident x => rfl
  | un o e ih => simp only [pk, pr, ih]
  | bin o a b iha ihb => simp only [pk, pr, iha, ihb]
  | cond c t f ihc iht ihf => simp only [pk, pr, ihc, iht, ihf]

/-- structural tokens of a printed tree -/
inductive IsStruct : Tok → Prop
  | un (o : UnOp) : IsStruct (unTok o)
  | bin (o : BinOp) : IsStruct (binTok o)
  | q : IsStruct ['?']
  | colon : IsStruct [':']
  | lpar : IsStruct ['(']
  | rpar : IsStruct [')']

/-- a stage `f` that copies structural tokens and rewrites leaves (in a context `C` that every position after an
operand satisfies) maps `pr leafA e` to `pr leafB e` -/
theorem pr_stage (f : List Tok → Option (List Tok)) (leafA leafB : E → List Tok) (C : List Tok → Prop) (ok : E → Prop)
    (hC : ∀ t l, IsStruct t → t ≠ ['('] → C (t :: l))
    (hs : ∀ t l, IsStruct t → f (t :: l) = (f l).map (t :: ·))
    (hl : ∀ e l, isLeaf e = true → ok e → C l → f (leafA e ++ l) = (f l).map (leafB e ++ ·))
    (hok_un : ∀ o e, ok (.un o e) → ok e)
    (hok_bin : ∀ o a b, ok (.bin o a b) → ok a ∧ ok b)
    (hok_cond : ∀ c t f, ok (.cond c t f) → ok c ∧ ok t ∧ ok f) :
    ∀ (e : E) (l : List Tok), ok e → C l → f (pr leafA e ++ l) = (f l).map (pr leafB e ++ ·) := by
  -- an operand, parenthesised or not
  have opdStep : ∀ (x : E), (∀ l, ok x → C l → f (pr leafA x ++ l) = (f l).map (pr leafB x ++ ·)) →
      ∀ l, ok x → C l →
        f ((if isCompound x then paren (pr leafA x) else pr leafA x) ++ l) =
          (f l).map ((if isCompound x then paren (pr leafB x) else pr leafB x) ++ ·) := by
    intro x ih l hx hc
    by_cases hcx : isCompound x = true
    · simp only [hcx, if_true, paren, List.cons_append, List.append_assoc, List.nil_append]
      rw [hs _ _ .lpar, ih _ hx (hC _ _ .rpar (by decide)), hs _ _ .rpar]
      cases f l <;> simp
    · simp only [hcx, Bool.false_eq_true, if_false]
      exact ih l hx hc
  intro e
  induction e with
  | lit l => intro r h hc; exact hl _ r rfl h hc
  | defd x p => intro r h hc; exact hl _ r rfl h hc
  | ident x => intro r h hc; exact hl _ r rfl h hc
  | un o y ih =>
    intro r h hc
    simp only [pr, List.cons_append]
    rw [hs _ _ (.un o), opdStep y ih r (hok_un o y h) hc]
    cases f r <;> simp
  | bin o a b iha ihb =>
    intro r h hc
    obtain ⟨ha, hb⟩ := hok_bin o a b h
    simp only [pr, List.append_assoc, List.cons_append]
    rw [opdStep a iha _ ha (hC _ _ (.bin o) (by cases o <;> decide)), hs _ _ (.bin o), opdStep b ihb r hb hc]
    cases f r <;> simp
  | cond c t ff ihc iht ihf =>
    intro r h hc
    obtain ⟨h1, h2, h3⟩ := hok_cond c t ff h
    simp only [pr, List.append_assoc, List.cons_append]
    rw [opdStep c ihc _ h1 (hC _ _ .q (by decide)), hs _ _ .q, opdStep t iht _ h2 (hC _ _ .colon (by decide)), hs _ _ .colon,
      opdStep ff ihf r h3 hc]
    cases f r <;> simp


theorem struct_ne_defined {t : Tok} (h : IsStruct t) : (t == "defined".toList) = false := by
  cases h with
  | un o => cases o <;> decide
  | bin o => cases o <;> decide
  | q => decide
  | colon => decide
  | lpar => decide
  | rpar => decide

theorem struct_not_name {t : Tok} (h : IsStruct t) : isName t = false := by
  cases h with
  | un o => cases o <;> decide
  | bin o => cases o <;> decide
  | q => decide
  | colon => decide
  | lpar => decide
  | rpar => decide

theorem rd_plain (isDef : Tok → Bool) {t : Tok} (h : (t == "defined".toList) = false) (l : List Tok) :
    replaceDefined isDef (t :: l) = (replaceDefined isDef l).map (t :: ·) := by
  have h' : ¬ t = ['d', 'e', 'f', 'i', 'n', 'e', 'd'] := by
    intro e; subst e; revert h; decide
  match l with
  | [] => simp [replaceDefined, h']
  | [a] => simp [replaceDefined, h']
  | [a, b] => simp [replaceDefined, h']
  | a :: b :: c :: r => simp [replaceDefined, h']

theorem rd_paren (isDef : Tok → Bool) (x : Tok) (l : List Tok) :
    replaceDefined isDef ("defined".toList :: ['('] :: x :: [')'] :: l) = (replaceDefined isDef l).map (defTok isDef x :: ·) := by
  have h1 : (opOf ['('] == '(') = true := by decide
  have h2 : (opOf [')'] == ')') = true := by decide
  simp [replaceDefined, h1, h2]

theorem rd_noparen (isDef : Tok → Bool) {x : Tok} (hop : (opOf x == '(') = false) (l : List Tok) :
    replaceDefined isDef ("defined".toList :: x :: l) = (replaceDefined isDef l).map (defTok isDef x :: ·) := by
  match l with
  | [] => simp [replaceDefined, hop]
  | [a] => simp [replaceDefined, hop]
  | a :: b :: r => simp [replaceDefined, hop]

theorem litTok_head_digit (l : Lit) : ∃ c r, litTok l = c :: r ∧ c.isDigit = true := by
  unfold litTok
  split
  · exact ⟨'0', _, rfl, by decide⟩
  · exact ⟨'0', _, rfl, by decide⟩
  · obtain ⟨c, r, h, hc⟩ := toDigits_head_digit l.n
    exact ⟨c, _, by rw [h]; rfl, hc⟩

theorem litTok_ne_defined (l : Lit) : (litTok l == "defined".toList) = false := by
  obtain ⟨c, r, h, hc⟩ := litTok_head_digit l
  rw [h]
  have : c ≠ 'd' := by intro hd; subst hd; revert hc; decide
  simp [this]

theorem litTok_not_name (l : Lit) : isName (litTok l) = false := by
  obtain ⟨c, r, h, hc⟩ := litTok_head_digit l
  rw [h]
  have := isDigit_facts hc
  simp [isName, this.1, this.2.1, this.2.2.1]

theorem opOf_of_isName {x : Tok} (h : isName x = true) : opOf x = '\x00' := by
  unfold opOf
  split
  · simp [h]
  · rfl

theorem ite_b2i (b : Bool) : (if b = true then ['1'] else ['0']) = toStr (b2i b) := by cases b <;> decide

theorem stage1 (isDef : Tok → Bool) (e : E) (hw : wfNames e = true) :
    replaceDefined isDef (printPF e) = some (pr (leaf1 isDef) e) := by
  have := pr_stage (replaceDefined isDef) leaf0 (leaf1 isDef) (fun _ => True) (fun e => wfNames e = true)
    (fun _ _ _ _ => trivial)
    (fun t l ht => rd_plain isDef (struct_ne_defined ht) l)
    (by
      intro e l hl hok _
      cases e <;> simp [isLeaf] at hl
      case lit lt => exact rd_plain isDef (litTok_ne_defined lt) l
      case ident x =>
        simp only [wfNames, Bool.and_eq_true, bne_iff_ne, ne_eq] at hok
        exact rd_plain isDef (by simpa using hok.2) l
      case defd x p =>
        simp only [wfNames, Bool.and_eq_true, bne_iff_ne, ne_eq] at hok
        have hop : (opOf x == '(') = false := by rw [opOf_of_isName hok.1]; decide
        cases p with
        | true =>
          simp only [leaf0, if_true, leaf1, List.cons_append, List.nil_append]
          rw [rd_paren, defTok, ite_b2i]
        | false =>
          simp only [leaf0, Bool.false_eq_true, if_false, leaf1, List.cons_append, List.nil_append]
          rw [rd_noparen isDef hop, defTok, ite_b2i])
    (fun o e h => by simpa [wfNames] using h)
    (fun o a b h => by simpa [wfNames] using h)
    (fun c t f h => by simp only [wfNames, Bool.and_eq_true] at h; exact ⟨h.1.1, h.1.2, h.2⟩)
    e [] hw trivial
  rw [printPF_eq_pr]
  simpa [replaceDefined] using this

theorem toOption_map {α β ε : Type} (g : α → β) (x : Except ε α) : (x.map g).toOption = x.toOption.map g := by
  cases x <;> rfl

theorem litTok_plain {l : Lit} (h : (l.base == 10 && !l.usuf && l.lsuf == 0) = true) : litTok l = toStr (l.n : Int) := by
  simp only [Bool.and_eq_true, beq_iff_eq, Bool.not_eq_true'] at h
  obtain ⟨⟨h1, h2⟩, h3⟩ := h
  simp [litTok, h1, h2, h3, toStr]

theorem stage2 (isDef : Tok → Bool) (e : E) (hw : wfNames e = true) (hl : plainLits e = true) :
    simplifyName (pr (leaf1 isDef) e) = .ok (pk isDef e) := by
  have := pr_stage (fun l => (simplifyName l).toOption) (leaf1 isDef) (leaf2 isDef)
    (fun l => ∀ n r, l = n :: r → (n == ['(']) = false) (fun e => wfNames e = true ∧ plainLits e = true)
    (by
      intro t l ht hne n r e
      injection e with e _
      subst e
      simpa using hne)
    (by
      intro t l ht
      rw [simplifyName.eq_def]
      simp [struct_not_name ht, toOption_map])
    (by
      intro e l hleaf hok hc
      cases e <;> simp [isLeaf] at hleaf
      case lit lt =>
        have hp := hok.2
        simp only [plainLits, Bool.and_eq_true] at hp
        have : litTok lt = toStr (lt.n : Int) := litTok_plain (by simp [hp.1])
        simp only [leaf1, leaf2, List.cons_append, List.nil_append]
        rw [this, simplifyName.eq_def]
        simp [toOption_map]
      case defd x p =>
        simp only [leaf1, leaf2, List.cons_append, List.nil_append]
        rw [simplifyName.eq_def]
        simp [toOption_map]
      case ident x =>
        have hn := hok.1
        simp only [wfNames, Bool.and_eq_true] at hn
        simp only [leaf1, leaf2, List.cons_append, List.nil_append]
        rw [simplifyName.eq_def]
        cases l with
        | nil => simp [hn.1, simplifyName]; rfl
        | cons n r =>
          have := hc n r rfl
          simp [hn.1, this, toOption_map]; rfl)
    (fun o e h => by simpa [wfNames, plainLits] using h)
    (fun o a b h => by
      obtain ⟨h1, h2⟩ := h
      simp only [wfNames, plainLits, Bool.and_eq_true] at h1 h2
      exact ⟨⟨h1.1, h2.1⟩, ⟨h1.2, h2.2⟩⟩)
    (fun c t f h => by
      obtain ⟨h1, h2⟩ := h
      simp only [wfNames, plainLits, Bool.and_eq_true] at h1 h2
      exact ⟨⟨h1.1.1, h2.1.1⟩, ⟨h1.1.2, h2.1.2⟩, ⟨h1.2, h2.2⟩⟩)
    e [] ⟨hw, hl⟩ (by intro n r h; simp at h)
  simp only [List.append_nil, simplifyName] at this
  rw [pk_eq_pr]
  cases h : simplifyName (pr (leaf1 isDef) e) with
  | error err => rw [h] at this; simp [Except.toOption] at this
  | ok r => rw [h] at this; simp [Except.toOption] at this; rw [this]


theorem toStr_not_0x (v : Int) : ((toStr v).take 2 == ['0', 'x']) = false := by
  have := isHex_toStr v
  unfold isHex at this
  cases h : toStr v with
  | nil => rfl
  | cons c r =>
    cases r with
    | nil => simp [List.take]
    | cons d r' =>
      have hd : d.isDigit = true ∨ d = '-' := toStr_chars v d (by rw [h]; simp)
      have h1 : d ≠ 'x' := by
        rcases hd with hd | rfl
        · exact (isDigit_facts hd).2.2.2.2.2.2.2.2.2.2.2.2.1
        · decide
      simp [List.take, h1]

theorem pk_tokens (isDef : Tok → Bool) : ∀ (e : E), ∀ t ∈ pk isDef e, IsStruct t ∨ ∃ v, t = toStr v := by
  intro e
  have opd : ∀ x : E, (∀ t ∈ pk isDef x, IsStruct t ∨ ∃ v, t = toStr v) →
      ∀ t ∈ (if isCompound x then paren (pk isDef x) else pk isDef x), IsStruct t ∨ ∃ v, t = toStr v := by
    intro x ih t ht
    by_cases hc : isCompound x = true
    · simp only [hc, if_true, paren, List.mem_cons, List.mem_append, List.mem_nil_iff, or_false] at ht
      rcases ht with (rfl | ht) | rfl
      · exact Or.inl .lpar
      · exact ih t ht
      · exact Or.inl .rpar
    · simp only [hc, Bool.false_eq_true, if_false] at ht; exact ih t ht
  induction e with
  | lit l => intro t ht; simp [pk] at ht; exact Or.inr ⟨_, ht⟩
  | defd x p => intro t ht; simp [pk] at ht; exact Or.inr ⟨_, ht⟩
  | ident x => intro t ht; simp [pk] at ht; exact Or.inr ⟨_, ht⟩
  | un o y ih =>
    intro t ht
    simp only [pk, List.mem_cons] at ht
    rcases ht with rfl | ht
    · exact Or.inl (.un o)
    · exact opd y ih t ht
  | bin o a b iha ihb =>
    intro t ht
    simp only [pk, List.mem_append, List.mem_cons] at ht
    rcases ht with ht | rfl | ht
    · exact opd a iha t ht
    · exact Or.inl (.bin o)
    · exact opd b ihb t ht
  | cond c tt f ihc iht ihf =>
    intro t ht
    simp only [pk, List.mem_append, List.mem_cons] at ht
    rcases ht with ht | rfl | ht | rfl | ht
    · exact opd c ihc t ht
    · exact Or.inl .q
    · exact opd tt iht t ht
    · exact Or.inl .colon
    · exact opd f ihf t ht

theorem stage3 (isDef : Tok → Bool) (e : E) : simplifyNumbers (pk isDef e) = pk isDef e := by
  unfold simplifyNumbers
  conv => rhs; rw [← List.map_id (pk isDef e)]
  apply List.map_congr_left
  intro t ht
  have h0 : (t.take 2 == ['0', 'x']) = false := by
    rcases pk_tokens isDef e t ht with hs | ⟨v, rfl⟩
    · cases hs with
      | un o => cases o <;> decide
      | bin o => cases o <;> decide
      | q => decide
      | colon => decide
      | lpar => decide
      | rpar => decide
    · exact toStr_not_0x v
  simp [h0]

theorem G_le_length (isDef : Tok → Bool) : ∀ e : E, G e ≤ (pk isDef e).length := by
  intro e
  induction e with
  | lit l => simp [G]
  | defd x p => simp [G]
  | ident x => simp [G]
  | un o y ih => simp only [G, pk]; split <;> simp [paren] <;> omega
  | bin o a b iha ihb =>
    simp only [G, pk, List.length_append, List.length_cons]
    split <;> split <;> simp [paren] <;> omega
  | cond c t f ihc iht ihf =>
    simp only [G, pk, List.length_append, List.length_cons]
    split <;> split <;> split <;> simp [paren] <;> omega

/-- **the evaluator on a fully parenthesised tree** -/
theorem evalIf_printPF (isDef : Tok → Bool) (e : E) (v : Int) (hw : wfNames e = true) (h : Hyp isDef e v) :
    evalIf isDef (printPF e) = .ok v := by
  unfold evalIf
  rw [stage1 isDef e hw]
  simp only [evaluate, stage2 isDef e hw h.lits, stage3, bind, Except.bind]
  have hle := G_le_length isDef e
  have e1 : (pk isDef e).length + 1 = ((pk isDef e).length - G e) + G e + 1 := by omega
  rw [e1, top_of_flat (flat_of_hyp h)]
  have hr := valueStrict_InR isDef e v h.val
  simp [stringToLL_toStr hr.1 hr.2]

/-- on trees whose literals are plain the strict value is the value of C17 6.10.1 -/
theorem value_of_strict (isDef : Tok → Bool) : ∀ (e : E) (v : Int), plainLits e = true → valueStrict isDef e = some v →
    value isDef e = some ⟨v, false⟩ ∧ value.typeU e = false := by
  intro e
  induction e with
  | lit l =>
    intro v hl h
    simp only [plainLits, Bool.and_eq_true, Bool.not_eq_true', decide_eq_true_eq] at hl
    simp only [valueStrict] at h
    split at h
    · rename_i hlt
      injection h with h; subst h
      have h64 : ¬ ((l.n : Int) ≥ two64) := by unfold two63 at hlt; unfold two64; omega
      have h63 : ¬ ((l.n : Int) ≥ two63) := by omega
      simp [value, litVal, h64, hl.1.1.2, hlt, value.typeU, h63]
    · simp at h
  | defd x p => intro v _ h; simp only [valueStrict] at h; injection h with h; subst h; exact ⟨rfl, rfl⟩
  | ident x => intro v _ h; simp only [valueStrict] at h; injection h with h; subst h; exact ⟨rfl, rfl⟩
  | un o y ih =>
    intro v hl h
    obtain ⟨vy, r, hy, hr, rfl⟩ := valueStrict_un h
    obtain ⟨h1, h2⟩ := ih vy (by simpa [plainLits] using hl) hy
    have hru := (specUn_InR (valueStrict_InR isDef y vy hy) hr).1
    refine ⟨?_, ?_⟩
    · simp only [value, h1, Option.bind_some, hr]
      cases r; simp_all
    · cases o <;> simp [value.typeU, h2]
  | bin o a b iha ihb =>
    intro v hl h
    obtain ⟨va, vb, r, ha, hb, hr, rfl⟩ := valueStrict_bin h
    simp only [plainLits, Bool.and_eq_true] at hl
    obtain ⟨a1, a2⟩ := iha va hl.1 ha
    obtain ⟨b1, b2⟩ := ihb vb hl.2 hb
    have hres := applyBin_eq_spec (valueStrict_InR isDef a va ha) (valueStrict_InR isDef b vb hb) hr
    have hrr : r = ⟨r.v, false⟩ := by cases r; simp_all
    refine ⟨?_, by cases o <;> simp [value.typeU, a2, b2]⟩
    cases o
    case land =>
      simp only [value, a1, b1]
      simp only [specBin] at hr
      injection hr with hr
      rw [← hr]
      by_cases h0 : va = 0 <;> simp [h0, b2i]
    case lor =>
      simp only [value, a1, b1]
      simp only [specBin] at hr
      injection hr with hr
      rw [← hr]
      by_cases h0 : va = 0 <;> simp [h0, b2i]
    all_goals (simp only [value, a1, b1, hr]; rw [hrr])
  | cond c t f ihc iht ihf =>
    intro v hl h
    obtain ⟨x, y, z, hc, ht, hf, rfl⟩ := valueStrict_cond h
    simp only [plainLits, Bool.and_eq_true] at hl
    obtain ⟨c1, _⟩ := ihc x hl.1.1 hc
    obtain ⟨t1, t2⟩ := iht y hl.1.2 ht
    obtain ⟨f1, f2⟩ := ihf z hl.2 hf
    refine ⟨?_, by simp [value.typeU, t2, f2]⟩
    simp only [value, c1, t2, f2, Bool.or_self, Bool.false_and]
    by_cases h0 : x = 0 <;> simp [h0, t1, f1]

end Cppcheck.PPCond

import Cppcheck.Model.ExcFunnel
/-
C13 (a) — semantics of exception propagation over the extracted table and the generic lemmas that lift the
decidable certificate check (`closed`, `entriesClear`, `pathOk`) to propagation chains of any length.
-/
namespace Cppcheck.ExcFunnel

/-- `Escapes P s f`: an exception raised at site `s` can propagate out of function `f`.
It starts at the site if no enclosing try block of the site's own function takes its type (whether or not the
translator recognised a guard for the site), and it moves from a callee to a caller through every call that is not inside a try
block taking the type. -/
inductive Escapes (P : Prog) (s : Site) : Fn → Prop
  | origin : caughtIn P.hier s.ctx s.ty = false → Escapes P s s.fn
  | call {g f : Fn} {r : Row} : Escapes P s g → r ∈ P.rows → r.fn = g → f ∈ r.callers → Escapes P s f
  | pcall {g : Fn} {r : Row} {e : PEdge} : Escapes P s g → r ∈ P.rows → r.fn = g → e ∈ r.pcallers →
      e.passes P.hier s.ty = true → Escapes P s e.caller

/-- the exception raised at `s` leaves an entry point.  The entry points of the generated table are `main` and static
initialisation (leaving them is `std::terminate`: abnormal termination) and the analysis API `CppCheck::check`,
`CppCheck::checkBuffer`, `CppCheck::analyseWholeProgram` (leaving them means that a problem with the input was not
turned into a finding: the run ends in the last-resort handler of `main`). -/
def Aborts (P : Prog) (s : Site) : Prop := ∃ e ∈ P.entries, Escapes P s e

theorem bitOf_eq_testBit (m f : Nat) : bitOf m f = m.testBit f := by
  unfold bitOf Nat.testBit
  have h : Nat.shiftRight m f = m >>> f := rfl
  rw [h, Nat.one_and_eq_mod_two]
  rcases Nat.mod_two_eq_zero_or_one (m >>> f) with h0 | h1
  · simp [h0]; rfl
  · simp [h1]

theorem bitOf_of_lor {a r f : Nat} (h : Nat.beq (Nat.lor a r) a = true) (hr : bitOf r f = true) :
    bitOf a f = true := by
  have h' : a ||| r = a := Nat.eq_of_beq_eq_true h
  rw [bitOf_eq_testBit] at hr ⊢
  rw [← h', Nat.testBit_or, hr]; simp

theorem mem_any {c : Cert} {types : List Ty} (hw : c.wf types = true) {t : Ty} (ht : t ∈ types) {f : Fn}
    (hm : c.mem t f = true) : bitOf c.any f = true := by
  simp only [Cert.wf, List.all_eq_true] at hw
  exact bitOf_of_lor (hw t ht) hm

theorem escape_sound {P : Prog} {c : Cert} {types : List Ty} {excl : List Nat}
    (hc : closed P c types excl = true) {s : Site} (hs : s ∈ P.sites) (hex : s.id ∉ excl) (hg : s.guard = 0)
    {f : Fn} (h : Escapes P s f) : c.mem s.ty f = true := by
  simp only [closed, Bool.and_eq_true, List.all_eq_true] at hc
  obtain ⟨⟨hwf, hsites⟩, hrows⟩ := hc
  obtain ⟨hty, hok⟩ := hsites s hs
  have htyIn : s.ty ∈ types := by simpa using hty
  induction h with
  | origin hn =>
    simp only [siteOk, Bool.or_eq_true] at hok
    rcases hok with ((hg' | hc') | he') | hm
    · simp [hg] at hg'
    · rw [hn] at hc'; cases hc'
    · exact absurd (by simpa using he') hex
    · exact hm
  | call hgEsc hr hfn hf ih =>
    have hR := hrows _ hr
    simp only [rowOk, Bool.or_eq_true, Bool.not_eq_true', List.all_eq_true] at hR
    rw [hfn] at hR
    rcases hR with hR | hR
    · rw [mem_any hwf htyIn ih] at hR; cases hR
    · have hT := hR _ htyIn
      simp only [Bool.or_eq_true, Bool.not_eq_true', Bool.and_eq_true, List.all_eq_true] at hT
      rcases hT with hT | ⟨hT, _⟩
      · rw [ih] at hT; cases hT
      · exact hT _ hf
  | pcall hgEsc hr hfn he hp ih =>
    have hR := hrows _ hr
    simp only [rowOk, Bool.or_eq_true, Bool.not_eq_true', List.all_eq_true] at hR
    rw [hfn] at hR
    rcases hR with hR | hR
    · rw [mem_any hwf htyIn ih] at hR; cases hR
    · have hT := hR _ htyIn
      simp only [Bool.or_eq_true, Bool.not_eq_true', Bool.and_eq_true, List.all_eq_true] at hT
      rcases hT with hT | ⟨_, hT⟩
      · rw [ih] at hT; cases hT
      · rcases hT _ he with h1 | h1
        · rw [hp] at h1; cases h1
        · exact h1

/-- closed certificate + clear entry points ⇒ no unguarded site outside the excluded list can leave an entry point -/
theorem no_abort {P : Prog} {c : Cert} {types : List Ty} {excl : List Nat}
    (hc : closed P c types excl = true) (he : entriesClear P c types = true)
    {s : Site} (hs : s ∈ P.sites) (hex : s.id ∉ excl) (hg : s.guard = 0) : ¬ Aborts P s := by
  rintro ⟨e, heIn, hesc⟩
  have hm := escape_sound hc hs hex hg hesc
  simp only [entriesClear, List.all_eq_true] at he
  have hty : s.ty ∈ types := by
    simp only [closed, Bool.and_eq_true, List.all_eq_true] at hc
    simpa using (hc.1.2 s hs).1
  have := he e heIn s.ty hty
  rw [hm] at this
  cases this

theorem edgeAt_step {P : Prog} {s : Site} {g f : Fn} {idx : Nat} (h : edgeAt P s.ty g f idx = true)
    (hg : Escapes P s g) : Escapes P s f := by
  unfold edgeAt at h
  split at h
  · cases h
  · rename_i r hr
    have hmem : r ∈ P.rows := List.mem_of_getElem? hr
    simp only [Bool.and_eq_true, Bool.or_eq_true, beq_iff_eq, List.any_eq_true] at h
    obtain ⟨hfn, hcase⟩ := h
    rcases hcase with hc | ⟨e, he, hcaller, hpass⟩
    · exact Escapes.call hg hmem hfn (by simpa using hc)
    · have := Escapes.pcall hg hmem hfn he hpass
      rw [hcaller] at this
      exact this

theorem chainOk_escapes {P : Prog} {s : Site} : ∀ (hops : List (Fn × Nat)) (cur : Fn),
    Escapes P s cur → chainOk P s.ty cur hops = true → ∃ e ∈ P.entries, Escapes P s e
  | [], cur, hcur, h => by
    simp only [chainOk] at h
    exact ⟨cur, by simpa using h, hcur⟩
  | (nxt, idx) :: rest, cur, hcur, h => by
    simp only [chainOk, Bool.and_eq_true] at h
    exact chainOk_escapes rest nxt (edgeAt_step h.1 hcur) h.2

/-- a checked path is a real propagation chain of the model: the listed site aborts the process -/
theorem pathOk_aborts {P : Prog} {p : Path} (h : pathOk P p = true) :
    ∃ s ∈ P.sites, s.id = p.site ∧ Aborts P s := by
  simp only [pathOk, List.any_eq_true, Bool.and_eq_true, beq_iff_eq, Bool.not_eq_true'] at h
  obtain ⟨s, hs, ⟨⟨⟨⟨hid, _⟩, hn⟩, hf⟩, hm⟩⟩ := h
  refine ⟨s, hs, hid, ?_⟩
  have h0 : Escapes P s p.first := by
    rw [hf]; exact Escapes.origin hn
  exact chainOk_escapes p.hops p.first h0 hm

/-! ### handler matching -/

theorem isSub_refl (h : Hier) (n : Nat) (t : Ty) : isSub h n t t = true := by
  cases n <;> simp [isSub]

/-- one more unit of fuel never loses a supertype -/
theorem isSub_mono (h : Hier) : ∀ (n : Nat) (t u : Ty), isSub h n t u = true → isSub h (n + 1) t u = true
  | 0, t, u, hh => by
    simp only [isSub] at hh
    simp [isSub, hh]
  | n + 1, t, u, hh => by
    rw [isSub] at hh
    rw [isSub]
    simp only [Bool.or_eq_true, List.any_eq_true] at hh ⊢
    rcases hh with hh | ⟨b, hb, hh⟩
    · exact Or.inl hh
    · exact Or.inr ⟨b, hb, isSub_mono h n b u hh⟩

/-- a handler for the exact type always takes it, `catch (...)` takes everything -/
theorem catches_self (h : Hier) (t : Ty) : (Handler.ty t).catches h t = true := by
  simp [Handler.catches, Hier.sub, isSub_refl]

theorem catches_all (h : Hier) (t : Ty) : Handler.all.catches h t = true := rfl

/-- handler order is respected: whatever `firstMatch` returns does take the type and every earlier handler does not -/
theorem firstMatch_catches (h : Hier) : ∀ (hs : List (Handler × Action)) (t : Ty) (x : Handler) (a : Action),
    firstMatch h hs t = some (x, a) → x.catches h t = true
  | [], _, _, _, hh => by simp [firstMatch] at hh
  | (y, b) :: rest, t, x, a, hh => by
    simp only [firstMatch] at hh
    split at hh
    · rename_i hc
      have : (y, b) = (x, a) := by simpa using hh
      cases this
      exact hc
    · exact firstMatch_catches h rest t x a hh

theorem firstMatch_none (h : Hier) : ∀ (hs : List (Handler × Action)) (t : Ty),
    firstMatch h hs t = none ↔ caughtBy h (hs.map Prod.fst) t = false
  | [], t => by simp [firstMatch, caughtBy]
  | (y, b) :: rest, t => by
    simp only [firstMatch, caughtBy, List.map_cons, List.any_cons]
    by_cases hc : y.catches h t = true
    · simp [hc]
    · have hc' : y.catches h t = false := by simpa using hc
      have := firstMatch_none h rest t
      simp only [caughtBy] at this
      simp [hc', this]

end Cppcheck.ExcFunnel

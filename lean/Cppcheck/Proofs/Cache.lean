import Cppcheck.Model.Cache
/-
Helper lemmas for Props/C18.lean and Props/C19.lean (core Lean only).

  §1  build directory as an association list (`get`/`put`)
  §2  one file, all files of a run, the whole-program pass: a run over a build directory that holds only honest entries
      reports what a fresh run reports
  §3  decimal numbers and self-delimiting lists: the composition `Encoding.fixed` is uniquely decodable
  §4  files.txt: cache file names are pairwise different, the exact-first lookup finds each file's own line
-/
namespace Cppcheck.Cache
open Cppcheck.Wire

variable {H S F : Type} [DecidableEq H]

/-! ## 1. association list -/

theorem BuildDir.get_put_self (bd : BuildDir H S F) (k : Str) (e : Entry H S F) : (bd.put k e).get k = some e := by
  induction bd with
  | nil => simp [BuildDir.put, BuildDir.get]
  | cons p r ih =>
    obtain ⟨k', e'⟩ := p
    by_cases h : k' = k
    · simp [BuildDir.put, BuildDir.get, h]
    · simp [BuildDir.put, BuildDir.get, h, ih]

theorem BuildDir.get_put_other (bd : BuildDir H S F) (k k2 : Str) (e : Entry H S F) (hne : k2 ≠ k) :
    (bd.put k e).get k2 = bd.get k2 := by
  induction bd with
  | nil =>
    have : ¬ k = k2 := fun h => hne h.symm
    simp [BuildDir.put, BuildDir.get, this]
  | cons p r ih =>
    obtain ⟨k', e'⟩ := p
    by_cases h : k' = k
    · subst h
      have : ¬ k' = k2 := fun h => hne h.symm
      simp [BuildDir.put, BuildDir.get, this]
    · by_cases h2 : k' = k2
      · subst h2
        simp [BuildDir.put, BuildDir.get, h]
      · simp [BuildDir.put, BuildDir.get, h, h2, ih]

/-! ## 2. runs -/

/-- the key determines the analysis input on the inputs `L` -/
def KeyFaithfulOn (E : Encoding) (L : List FileInput) : Prop :=
  ∀ a ∈ L, ∀ b ∈ L, hashInput E a = hashInput E b → a.view = b.view

instance (E : Encoding) (L : List FileInput) : Decidable (KeyFaithfulOn E L) := by
  unfold KeyFaithfulOn; infer_instance

/-- no suppression decision of the run depends on the macro names of a finding the analysis of `tr` produces -/
def MacroFree (W : World H S F) (vis : Finding → Bool) (tr : Tree) : Prop :=
  ∀ i ∈ tr, ∀ f ∈ W.analyze [] i.view, vis f.stored = vis f

instance (W : World H S F) (vis : Finding → Bool) (tr : Tree) : Decidable (MacroFree W vis tr) := by
  unfold MacroFree; infer_instance

/-- the analysis of the files of `tr` gives the same result under the return summaries `sr` as without any -/
def SummFree (W : World H S F) (sr : SummRet) (tr : Tree) : Prop :=
  ∀ i ∈ tr, W.analyze sr i.view = W.analyze [] i.view ∧ W.summary sr i.view = W.summary [] i.view

instance [DecidableEq S] (W : World H S F) (sr : SummRet) (tr : Tree) : Decidable (SummFree W sr tr) := by
  unfold SummFree; infer_instance

/-- every listed file is looked up in the cache file files.txt lists for it, and no two files share one -/
def MapOK (lk : LookupKind) (paths : List Str) : Prop :=
  (filesTxt paths).map (·.afile) = paths.map (cacheFile lk (filesTxt paths)) ∧ ((filesTxt paths).map (·.afile)).Nodup

instance (lk : LookupKind) (paths : List Str) : Decidable (MapOK lk paths) := by
  unfold MapOK; infer_instance

/-- the cache entry is what an analysis of `i` without return summaries writes (the `.sN` part is not constrained) -/
def Honest (W : World H S F) (i : FileInput) (e : Entry H S F) : Prop :=
  e.hash = key W i ∧ e.findings = (W.analyze [] i.view).map Finding.stored ∧ e.summ = W.summary [] i.view

/-- every cache file holds the result of a full analysis of some input of `L` -/
def Inv (W : World H S F) (L : List FileInput) (bd : BuildDir H S F) : Prop :=
  ∀ slot e, bd.get slot = some e → ∃ i ∈ L, Honest W i e

/-- no two hash inputs that occur in `L` collide (the satisfiable form of "std::hash has no collision": a function from all byte
    strings into `size_t` cannot be injective, it can be collision-free on the finitely many inputs of a history) -/
def HashInjOn (W : World H S F) (L : List FileInput) : Prop :=
  ∀ a ∈ L, ∀ b ∈ L, W.hash (hashInput W.enc a) = W.hash (hashInput W.enc b) → hashInput W.enc a = hashInput W.enc b

instance (W : World H S F) (L : List FileInput) : Decidable (HashInjOn W L) := by unfold HashInjOn; infer_instance

theorem Finding.stored_stored (f : Finding) : f.stored.stored = f.stored := rfl

theorem filterMap_report_stored (vis : Finding → Bool) (l : List Finding) (h : ∀ f ∈ l, vis f.stored = vis f) :
    (l.map Finding.stored).filterMap (report vis) = l.filterMap (report vis) := by
  induction l with
  | nil => rfl
  | cons f r ih =>
    have hf := h f (by simp)
    have hr := ih (fun g hg => h g (by simp [hg]))
    simp only [List.map_cons, List.filterMap_cons, report, Finding.stored_stored, hf, hr]

section OneRun
variable (W : World H S F) (L : List FileInput) (sr : SummRet) (vis : Finding → Bool) (ft : List FtLine)

theorem runFile_spec (hinj : HashInjOn W L) (henc : KeyFaithfulOn W.enc L)
    (bd : BuildDir H S F) (hbd : Inv W L bd) (i : FileInput) (hi : i ∈ L)
    (hmac : ∀ f ∈ W.analyze [] i.view, vis f.stored = vis f)
    (hsr : W.analyze sr i.view = W.analyze [] i.view ∧ W.summary sr i.view = W.summary [] i.view) :
    (runFile W sr vis ft bd i).2 = (W.analyze [] i.view).filterMap (report vis)
    ∧ Inv W L (runFile W sr vis ft bd i).1
    ∧ (∃ e, (runFile W sr vis ft bd i).1.get (cacheFile W.lk ft i.path) = some e ∧ e.summ = W.summary [] i.view)
    ∧ (∀ s, s ≠ cacheFile W.lk ft i.path → (runFile W sr vis ft bd i).1.get s = bd.get s) := by
  have hhon : Honest W i (entryOf W sr i) := ⟨rfl, by simp [entryOf, hsr.1], by simp [entryOf, hsr.2]⟩
  cases hr : reuse W bd (cacheFile W.lk ft i.path) i with
  | none =>
    have hrun : runFile W sr vis ft bd i
        = (bd.put (cacheFile W.lk ft i.path) (entryOf W sr i), (W.analyze sr i.view).filterMap (report vis)) := by
      simp only [runFile, hr]
    rw [hrun]
    refine ⟨by rw [hsr.1], ?_, ⟨entryOf W sr i, BuildDir.get_put_self _ _ _, hhon.2.2⟩, fun s hs => BuildDir.get_put_other _ _ _ _ hs⟩
    intro slot e hget
    by_cases hs : slot = cacheFile W.lk ft i.path
    · subst hs
      rw [BuildDir.get_put_self] at hget
      cases hget
      exact ⟨i, hi, hhon⟩
    · rw [BuildDir.get_put_other _ _ _ _ hs] at hget
      exact hbd slot e hget
  | some e =>
    -- a hit: the entry is honest, the hash is injective, the key determines the view
    have hget : bd.get (cacheFile W.lk ft i.path) = some e ∧ e.hash = key W i := by
      unfold reuse at hr
      cases hg : bd.get (cacheFile W.lk ft i.path) with
      | none => simp [hg] at hr
      | some e' =>
        simp only [hg] at hr
        by_cases hc : e'.hash = key W i ∧ hasInternal e'.findings = false
        · simp only [hc, and_self, if_true] at hr
          cases hr; exact ⟨rfl, hc.1⟩
        · simp [hc] at hr
    obtain ⟨j, hj, hej⟩ := hbd _ e hget.1
    have hkey : hashInput W.enc j = hashInput W.enc i := by
      have : W.hash (hashInput W.enc j) = W.hash (hashInput W.enc i) := hej.1.symm.trans hget.2
      exact hinj j hj i hi this
    have hview : j.view = i.view := henc j hj i hi hkey
    have hrun : runFile W sr vis ft bd i = (bd, e.findings.filterMap (report vis)) := by
      simp only [runFile, hr]
    rw [hrun]
    refine ⟨?_, hbd, ⟨e, hget.1, by rw [hej.2.2, hview]⟩, fun s _ => rfl⟩
    show e.findings.filterMap (report vis) = _
    rw [hej.2.1, hview]
    exact filterMap_report_stored vis _ hmac

theorem runFiles_spec (hinj : HashInjOn W L) (henc : KeyFaithfulOn W.enc L) :
    ∀ (files : List FileInput) (bd : BuildDir H S F), Inv W L bd → (∀ i ∈ files, i ∈ L) →
      (∀ i ∈ files, ∀ f ∈ W.analyze [] i.view, vis f.stored = vis f) → SummFree W sr files →
      (runFiles W sr vis ft bd files).2 = files.map (fun i => (W.analyze [] i.view).filterMap (report vis))
      ∧ Inv W L (runFiles W sr vis ft bd files).1
      ∧ ((files.map fun i => cacheFile W.lk ft i.path).Nodup →
          ∀ i ∈ files, ∃ e, (runFiles W sr vis ft bd files).1.get (cacheFile W.lk ft i.path) = some e ∧ e.summ = W.summary [] i.view)
      ∧ (∀ s, (∀ i ∈ files, s ≠ cacheFile W.lk ft i.path) → (runFiles W sr vis ft bd files).1.get s = bd.get s) := by
  intro files
  induction files with
  | nil => intro bd hbd _ _ _; exact ⟨rfl, hbd, fun _ i hi => by simp at hi, fun _ _ => rfl⟩
  | cons i r ih =>
    intro bd hbd hL hmac hsr
    obtain ⟨h1, h2, h3, h4⟩ := runFile_spec W L sr vis ft hinj henc bd hbd i (hL i (by simp)) (hmac i (by simp)) (hsr i (by simp))
    obtain ⟨g1, g2, g3, g4⟩ := ih (runFile W sr vis ft bd i).1 h2 (fun j hj => hL j (by simp [hj])) (fun j hj => hmac j (by simp [hj]))
      (fun j hj => hsr j (by simp [hj]))
    simp only [runFiles]
    refine ⟨by simp [h1, g1], g2, ?_, ?_⟩
    · intro hnd j hj
      simp only [List.map_cons, List.nodup_cons] at hnd
      rcases List.mem_cons.mp hj with rfl | hjr
      · -- the slot of the first file is not touched by the later files
        obtain ⟨e, he, hs⟩ := h3
        refine ⟨e, ?_, hs⟩
        rw [g4 _ (fun k hk heq => hnd.1 (List.mem_map.mpr ⟨k, hk, heq.symm⟩))]
        exact he
      · exact g3 hnd.2 j hjr
    · intro s hs
      rw [g4 s (fun k hk => hs k (by simp [hk])), h4 s (hs i (by simp))]

theorem collect_spec (bd : BuildDir H S F) :
    ∀ (lines : List FtLine) (files : List FileInput),
      lines.map (·.afile) = files.map (fun i => cacheFile W.lk ft i.path) →
      lines.map (·.source) = files.map (·.path) →
      (∀ i ∈ files, ∃ e, bd.get (cacheFile W.lk ft i.path) = some e ∧ e.summ = W.summary [] i.view) →
      collect bd lines = files.map fun i => (i.path, W.summary [] i.view) := by
  intro lines
  induction lines with
  | nil => intro files h1 _ _; cases files with
    | nil => rfl
    | cons _ _ => simp at h1
  | cons l r ih =>
    intro files h1 h2 h3
    cases files with
    | nil => simp at h1
    | cons i fr =>
      simp only [List.map_cons, List.cons.injEq] at h1 h2
      obtain ⟨e, he, hs⟩ := h3 i (by simp)
      simp only [collect, h1.1, he, List.map_cons, h2.1, hs]
      rw [ih fr h1.2 h2.2 (fun j hj => h3 j (by simp [hj]))]

end OneRun

theorem filesTxtFrom_source (seen paths : List Str) : (filesTxtFrom seen paths).map (·.source) = paths := by
  induction paths generalizing seen with
  | nil => rfl
  | cons p r ih => simp [filesTxtFrom, ih]

theorem filesTxt_source (paths : List Str) : (filesTxt paths).map (·.source) = paths := filesTxtFrom_source [] paths

/-- one run over a build directory of honest entries -/
theorem runWithCache_spec (W : World H S F) (L : List FileInput) (vis : Finding → Bool)
    (hinj : HashInjOn W L) (henc : KeyFaithfulOn W.enc L)
    (st : BdState H S F) (hbd : Inv W L st.1) (files : List FileInput) (hL : ∀ i ∈ files, i ∈ L)
    (hmac : MacroFree W vis files) (hsr : SummFree W (srOf W st.1 st.2) files) (hmap : MapOK W.lk (files.map (·.path))) :
    (runWithCache W vis st files).2 = runFresh W vis files ∧ Inv W L (runWithCache W vis st files).1.1 := by
  obtain ⟨g1, g2, g3, _⟩ := runFiles_spec W L (srOf W st.1 st.2) vis (filesTxt (files.map (·.path))) hinj henc files st.1 hbd hL hmac hsr
  have hslots : (filesTxt (files.map (·.path))).map (·.afile)
      = files.map (fun i => cacheFile W.lk (filesTxt (files.map (·.path))) i.path) := by
    rw [hmap.1, List.map_map]; rfl
  have hnd : (files.map fun i => cacheFile W.lk (filesTxt (files.map (·.path))) i.path).Nodup := hslots ▸ hmap.2
  have hc := collect_spec W (filesTxt (files.map (·.path)))
    (runFiles W (srOf W st.1 st.2) vis (filesTxt (files.map (·.path))) st.1 files).1
    (filesTxt (files.map (·.path))) files hslots (filesTxt_source _) (g3 hnd)
  refine ⟨?_, g2⟩
  simp only [runWithCache, runFresh]
  rw [g1, hc]

/-- one run whose workers finish the files in any order `order` (a permutation of the listed files): the whole-program findings
    are those of a fresh run, the per-file findings are those of a fresh run in the order the workers finished -/
theorem runWithCacheSched_spec (W : World H S F) (L : List FileInput) (vis : Finding → Bool)
    (hinj : HashInjOn W L) (henc : KeyFaithfulOn W.enc L)
    (st : BdState H S F) (hbd : Inv W L st.1) (files order : List FileInput) (hperm : order.Perm files) (hL : ∀ i ∈ files, i ∈ L)
    (hmac : MacroFree W vis files) (hsr : SummFree W (srOf W st.1 st.2) files) (hmap : MapOK W.lk (files.map (·.path))) :
    (runWithCacheSched W vis st files order).2.whole = (runFresh W vis files).whole
    ∧ (runWithCacheSched W vis st files order).2.perFile = (runFresh W vis order).perFile
    ∧ Inv W L (runWithCacheSched W vis st files order).1.1 := by
  have hmem : ∀ i, i ∈ order ↔ i ∈ files := fun i => hperm.mem_iff
  obtain ⟨g1, g2, g3, _⟩ := runFiles_spec W L (srOf W st.1 st.2) vis (filesTxt (files.map (·.path))) hinj henc order st.1 hbd
    (fun i hi => hL i ((hmem i).mp hi)) (fun i hi => hmac i ((hmem i).mp hi)) (fun i hi => hsr i ((hmem i).mp hi))
  have hslots : (filesTxt (files.map (·.path))).map (·.afile)
      = files.map (fun i => cacheFile W.lk (filesTxt (files.map (·.path))) i.path) := by
    rw [hmap.1, List.map_map]; rfl
  have hnd : (files.map fun i => cacheFile W.lk (filesTxt (files.map (·.path))) i.path).Nodup := hslots ▸ hmap.2
  have hnd' : (order.map fun i => cacheFile W.lk (filesTxt (files.map (·.path))) i.path).Nodup :=
    (hperm.map _).nodup_iff.mpr hnd
  have hc := collect_spec W (filesTxt (files.map (·.path)))
    (runFiles W (srOf W st.1 st.2) vis (filesTxt (files.map (·.path))) st.1 order).1
    (filesTxt (files.map (·.path))) files hslots (filesTxt_source _) (fun i hi => g3 hnd' i ((hmem i).mpr hi))
  refine ⟨?_, ?_, g2⟩
  · simp only [runWithCacheSched, runFresh]; rw [hc]
  · simp only [runWithCacheSched, runFresh]; rw [g1]

/-- the per-file part alone needs no hypothesis on the file-to-cache-file mapping -/
theorem runWithCache_perFile (W : World H S F) (L : List FileInput) (vis : Finding → Bool)
    (hinj : HashInjOn W L) (henc : KeyFaithfulOn W.enc L)
    (st : BdState H S F) (hbd : Inv W L st.1) (files : List FileInput) (hL : ∀ i ∈ files, i ∈ L)
    (hmac : MacroFree W vis files) (hsr : SummFree W (srOf W st.1 st.2) files) :
    (runWithCache W vis st files).2.perFile = (runFresh W vis files).perFile ∧ Inv W L (runWithCache W vis st files).1.1 := by
  obtain ⟨g1, g2, _, _⟩ := runFiles_spec W L (srOf W st.1 st.2) vis (filesTxt (files.map (·.path))) hinj henc files st.1 hbd hL hmac hsr
  exact ⟨by simp only [runWithCache, runFresh]; rw [g1], g2⟩

theorem exec_spec (W : World H S F) (L : List FileInput) (hinj : HashInjOn W L) (henc : KeyFaithfulOn W.enc L) :
    ∀ (evs : List Event) (st : BdState H S F) (t : Tree), Inv W L st.1 →
      (∀ r ∈ runsOf t evs, (∀ i ∈ r.2, i ∈ L) ∧ MacroFree W r.1 r.2 ∧ MapOK W.lk (r.2.map (·.path))) →
      (∀ r ∈ cachedRuns W st t evs, SummFree W r.1 r.2) →
      execCached W st t evs = execFresh W t evs := by
  intro evs
  induction evs with
  | nil => intro _ _ _ _ _; rfl
  | cons ev r ih =>
    intro st t hbd h hs
    cases ev with
    | edit f =>
      simp only [execCached, execFresh]
      exact ih st (f t) hbd (by simpa [runsOf] using h) (by simpa [cachedRuns] using hs)
    | run vis =>
      simp only [runsOf, List.mem_cons, forall_eq_or_imp] at h
      simp only [cachedRuns, List.mem_cons, forall_eq_or_imp] at hs
      obtain ⟨⟨hL, hmac, hmap⟩, hrest⟩ := h
      obtain ⟨h1, h2⟩ := runWithCache_spec W L vis hinj henc st hbd t hL hmac hs.1 hmap
      simp only [execCached, execFresh]
      rw [h1, ih _ t h2 hrest hs.2]

theorem exec_perFile_spec (W : World H S F) (L : List FileInput) (hinj : HashInjOn W L) (henc : KeyFaithfulOn W.enc L) :
    ∀ (evs : List Event) (st : BdState H S F) (t : Tree), Inv W L st.1 →
      (∀ r ∈ runsOf t evs, (∀ i ∈ r.2, i ∈ L) ∧ MacroFree W r.1 r.2) →
      (∀ r ∈ cachedRuns W st t evs, SummFree W r.1 r.2) →
      (execCached W st t evs).map (·.perFile) = (execFresh W t evs).map (·.perFile) := by
  intro evs
  induction evs with
  | nil => intro _ _ _ _ _; rfl
  | cons ev r ih =>
    intro st t hbd h hs
    cases ev with
    | edit f =>
      simp only [execCached, execFresh]
      exact ih st (f t) hbd (by simpa [runsOf] using h) (by simpa [cachedRuns] using hs)
    | run vis =>
      simp only [runsOf, List.mem_cons, forall_eq_or_imp] at h
      simp only [cachedRuns, List.mem_cons, forall_eq_or_imp] at hs
      obtain ⟨⟨hL, hmac⟩, hrest⟩ := h
      obtain ⟨h1, h2⟩ := runWithCache_perFile W L vis hinj henc st hbd t hL hmac hs.1
      simp only [execCached, execFresh, List.map_cons]
      rw [h1, ih _ t h2 hrest hs.2]

theorem inv_empty (W : World H S F) (L : List FileInput) : Inv W L ([] : BuildDir H S F) := by
  intro slot e h; simp [BuildDir.get] at h

/-! ## 3. unique decodability of `Encoding.fixed` -/

def isDig (c : Char) : Bool := c.isDigit

theorem dec_digits (n : Nat) : ∀ c ∈ dec n, isDig c = true := fun c hc =>
  Nat.isDigit_of_mem_toDigits (by decide) (by decide) hc

theorem dec_ne_nil (n : Nat) : dec n ≠ [] := Nat.toDigits_ne_nil

theorem dec_inj {n m : Nat} (h : dec n = dec m) : n = m := by
  have hn := @Nat.ofDigitChars_ten_toDigits n
  have hm := @Nat.ofDigitChars_ten_toDigits m
  unfold dec at h
  rw [h] at hn
  exact hn.symm.trans hm

/-- two digit strings followed by non-digits: the digit strings, the delimiters and the rests are equal -/
theorem digits_delim_unique :
    ∀ (xs ys : Str) (c d : Char) (r r' : Str), (∀ x ∈ xs, isDig x = true) → (∀ y ∈ ys, isDig y = true) →
      isDig c = false → isDig d = false → xs ++ c :: r = ys ++ d :: r' → xs = ys ∧ c = d ∧ r = r' := by
  intro xs
  induction xs with
  | nil =>
    intro ys c d r r' _ hy hc _ h
    cases ys with
    | nil => simp at h; exact ⟨rfl, h.1, h.2⟩
    | cons y ys' =>
      simp at h
      have := hy y (by simp)
      rw [← h.1, hc] at this; cases this
  | cons x xs' ih =>
    intro ys c d r r' hx hy hc hd h
    cases ys with
    | nil =>
      simp at h
      have := hx x (by simp)
      rw [h.1, hd] at this; cases this
    | cons y ys' =>
      simp only [List.cons_append, List.cons.injEq] at h
      obtain ⟨h1, h2, h3⟩ := ih ys' c d r r' (fun a ha => hx a (by simp [ha])) (fun a ha => hy a (by simp [ha])) hc hd h.2
      exact ⟨by rw [h.1, h1], h2, h3⟩

theorem dec_delim_unique (n m : Nat) (c d : Char) (r r' : Str) (hc : isDig c = false) (hd : isDig d = false)
    (h : dec n ++ c :: r = dec m ++ d :: r') : n = m ∧ c = d ∧ r = r' := by
  obtain ⟨h1, h2, h3⟩ := digits_delim_unique _ _ c d r r' (dec_digits n) (dec_digits m) hc hd h
  exact ⟨dec_inj h1, h2, h3⟩

theorem append_eq_of_length {α} : ∀ (a b c d : List α), a.length = b.length → a ++ c = b ++ d → a = b ∧ c = d := by
  intro a
  induction a with
  | nil => intro b c d hl h; cases b with
    | nil => exact ⟨rfl, h⟩
    | cons _ _ => simp at hl
  | cons x a' ih => intro b c d hl h; cases b with
    | nil => simp at hl
    | cons y b' =>
      simp only [List.cons_append, List.cons.injEq] at h
      simp only [List.length_cons, Nat.add_right_cancel_iff] at hl
      obtain ⟨h1, h2⟩ := ih b' c d hl h.2
      exact ⟨by rw [h.1, h1], h2⟩

/-- `<len>:<bytes>` is a prefix code -/
theorem lenPrefixed_unique (s t r r' : Str) (h : dec s.length ++ ':' :: (s ++ r) = dec t.length ++ ':' :: (t ++ r')) :
    s = t ∧ r = r' := by
  obtain ⟨hl, _, hrest⟩ := dec_delim_unique _ _ ':' ':' _ _ (by decide) (by decide) h
  exact append_eq_of_length s t r r' hl hrest

/-- the code of one token under `Encoding.fixed` -/
theorem encTok_fixed (t : RawTok) :
    encTok Encoding.fixed.tok t = dec t.str.length ++ ':' :: (t.str ++ (dec t.line ++ ':' :: (dec t.col ++ [';']))) := by
  simp [encTok, Encoding.fixed, encTokField, List.flatMap_cons]

theorem encTok_fixed_unique (a b : RawTok) (r r' : Str)
    (h : encTok Encoding.fixed.tok a ++ r = encTok Encoding.fixed.tok b ++ r') :
    a.str = b.str ∧ a.line = b.line ∧ a.col = b.col ∧ r = r' := by
  rw [encTok_fixed, encTok_fixed] at h
  simp only [List.append_assoc, List.cons_append, List.nil_append] at h
  obtain ⟨hs, h1⟩ := lenPrefixed_unique _ _ _ _ h
  obtain ⟨hl, _, h2⟩ := dec_delim_unique _ _ ':' ':' _ _ (by decide) (by decide) h1
  obtain ⟨hc, _, h3⟩ := dec_delim_unique _ _ ';' ';' _ _ (by decide) (by decide) h2
  exact ⟨hs, hl, hc, h3⟩

/-- the first byte of a token code is a digit -/
theorem encTok_fixed_head (t : RawTok) : ∃ c r, encTok Encoding.fixed.tok t = c :: r ∧ isDig c = true := by
  rw [encTok_fixed]
  cases hd : dec t.str.length with
  | nil => exact absurd hd (dec_ne_nil _)
  | cons c r => exact ⟨c, _, rfl, dec_digits t.str.length c (by simp [hd])⟩

/-- code tokens: comment flag false -/
theorem codeToks_comment (ts : List RawTok) : ∀ t ∈ codeToks ts, t.comment = false := by
  intro t ht
  simp [codeToks] at ht
  simpa using ht.2

theorem RawTok.ext' {a b : RawTok} (h1 : a.str = b.str) (h2 : a.line = b.line) (h3 : a.col = b.col) (h4 : a.comment = b.comment) :
    a = b := by
  cases a; cases b; simp_all

/-- token streams followed by something that does not start with a digit -/
theorem flatMap_encTok_fixed_unique :
    ∀ (as bs : List RawTok) (r r' : Str), (∀ t ∈ as, t.comment = false) → (∀ t ∈ bs, t.comment = false) →
      (∀ c q, r = c :: q → isDig c = false) → (∀ c q, r' = c :: q → isDig c = false) →
      as.flatMap (encTok Encoding.fixed.tok) ++ r = bs.flatMap (encTok Encoding.fixed.tok) ++ r' → as = bs ∧ r = r' := by
  intro as
  induction as with
  | nil =>
    intro bs r r' _ _ hr _ h
    cases bs with
    | nil => exact ⟨rfl, by simpa using h⟩
    | cons b bs' =>
      obtain ⟨c, q, hcq, hd⟩ := encTok_fixed_head b
      simp only [List.flatMap_nil, List.nil_append, List.flatMap_cons, hcq, List.cons_append] at h
      have := hr c _ h
      rw [hd] at this; cases this
  | cons a as' ih =>
    intro bs r r' ha hb hr hr' h
    cases bs with
    | nil =>
      obtain ⟨c, q, hcq, hd⟩ := encTok_fixed_head a
      simp only [List.flatMap_nil, List.nil_append, List.flatMap_cons, hcq, List.cons_append] at h
      have := hr' c _ h.symm
      rw [hd] at this; cases this
    | cons b bs' =>
      simp only [List.flatMap_cons, List.append_assoc] at h
      obtain ⟨h1, h2, h3, h4⟩ := encTok_fixed_unique a b _ _ h
      obtain ⟨g1, g2⟩ := ih bs' r r' (fun t ht => ha t (by simp [ht])) (fun t ht => hb t (by simp [ht])) hr hr' h4
      refine ⟨?_, g2⟩
      rw [RawTok.ext' h1 h2 h3 ((ha a (by simp)).trans (hb b (by simp)).symm), g1]

theorem encHdr_fixed (h : Header) :
    encHdr Encoding.fixed h = 'F' :: (dec h.name.length ++ ':' :: (h.name ++ (codeToks h.toks).flatMap (encTok Encoding.fixed.tok))) := by
  simp [encHdr, Encoding.fixed, encHdrField, encToks, List.flatMap_cons]

theorem flatMap_encHdr_fixed_head (hs : List Header) : ∀ c q, hs.flatMap (encHdr Encoding.fixed) = c :: q → isDig c = false := by
  intro c q h
  cases hs with
  | nil => simp at h
  | cons x r =>
    rw [List.flatMap_cons, encHdr_fixed] at h
    simp only [List.cons_append, List.cons.injEq] at h
    rw [← h.1]; decide

theorem flatMap_encHdr_fixed_unique :
    ∀ (as bs : List Header), as.flatMap (encHdr Encoding.fixed) = bs.flatMap (encHdr Encoding.fixed) →
      as.map (fun h => (h.name, codeToks h.toks)) = bs.map (fun h => (h.name, codeToks h.toks)) := by
  intro as
  induction as with
  | nil =>
    intro bs h
    cases bs with
    | nil => rfl
    | cons b r => rw [List.flatMap_cons, encHdr_fixed] at h; simp at h
  | cons a as' ih =>
    intro bs h
    cases bs with
    | nil => rw [List.flatMap_cons, encHdr_fixed] at h; simp at h
    | cons b bs' =>
      simp only [List.flatMap_cons] at h
      rw [encHdr_fixed, encHdr_fixed] at h
      simp only [List.cons_append, List.cons.injEq, true_and, List.append_assoc] at h
      obtain ⟨hn, h1⟩ := lenPrefixed_unique _ _ _ _ h
      obtain ⟨ht, h2⟩ := flatMap_encTok_fixed_unique _ _ _ _ (codeToks_comment _) (codeToks_comment _)
        (flatMap_encHdr_fixed_head as') (flatMap_encHdr_fixed_head bs') h1
      simp only [List.map_cons, hn, ht, ih bs' h2]

/-- **the proposed composition is uniquely decodable**: equal hash data ⇒ equal toolinfo, code tokens, header names and
    header code tokens -/
theorem hashInput_fixed_unique (a b : FileInput) (h : hashInput Encoding.fixed a = hashInput Encoding.fixed b) :
    a.toolinfo = b.toolinfo ∧ codeToks a.main = codeToks b.main
    ∧ a.headers.map (fun h => (h.name, codeToks h.toks)) = b.headers.map (fun h => (h.name, codeToks h.toks)) := by
  have e : ∀ i : FileInput, hashInput Encoding.fixed i
      = dec i.toolinfo.length ++ ':' :: (i.toolinfo ++ ((codeToks i.main).flatMap (encTok Encoding.fixed.tok) ++ i.headers.flatMap (encHdr Encoding.fixed))) := by
    intro i; simp [hashInput, Encoding.fixed, encPreField, encToks, List.flatMap_cons]
  rw [e a, e b] at h
  obtain ⟨h1, h2⟩ := lenPrefixed_unique _ _ _ _ h
  obtain ⟨h3, h4⟩ := flatMap_encTok_fixed_unique _ _ _ _ (codeToks_comment _) (codeToks_comment _)
    (flatMap_encHdr_fixed_head a.headers) (flatMap_encHdr_fixed_head b.headers) h2
  exact ⟨h1, h3, flatMap_encHdr_fixed_unique _ _ h4⟩

/-! ## 4. files.txt -/

def dotA : Str := ".a".toList

theorem afile_inj (b b' : Str) (n n' : Nat) (h : b ++ dotA ++ dec n = b' ++ dotA ++ dec n') : b = b' ∧ n = n' := by
  have hr := congrArg List.reverse h
  simp only [List.reverse_append, dotA] at hr
  have e : ".a".toList.reverse = ['a', '.'] := by decide
  rw [e] at hr
  simp only [List.cons_append, List.nil_append] at hr
  obtain ⟨h1, _, h3⟩ := digits_delim_unique _ _ 'a' 'a' _ _
    (fun x hx => dec_digits n x (List.mem_reverse.mp hx)) (fun x hx => dec_digits n' x (List.mem_reverse.mp hx))
    (by decide) (by decide) hr
  have hb : b.reverse = b'.reverse := by simpa using h3
  exact ⟨List.reverse_inj.mp hb, dec_inj (List.reverse_inj.mp h1)⟩

theorem countBase_append (b : Str) (l1 l2 : List Str) : countBase b (l1 ++ l2) = countBase b l1 + countBase b l2 := by
  induction l1 with
  | nil => simp [countBase]
  | cons p r ih => simp only [List.cons_append, countBase, ih]; omega

theorem filesTxtFrom_shape (paths : List Str) : ∀ (seen : List Str), ∀ l ∈ filesTxtFrom seen paths,
    ∃ b n, l.afile = b ++ dotA ++ dec n ∧ countBase b seen < n := by
  induction paths with
  | nil => intro seen l hl; simp [filesTxtFrom] at hl
  | cons p r ih =>
    intro seen l hl
    simp only [filesTxtFrom, List.mem_cons] at hl
    rcases hl with rfl | hl
    · exact ⟨getFilename p, _, rfl, Nat.lt_succ_self _⟩
    · obtain ⟨b, n, h1, h2⟩ := ih (seen ++ [p]) l hl
      refine ⟨b, n, h1, ?_⟩
      rw [countBase_append] at h2; omega

/-- AnalyzerInformation::getFilesTxt never lists one cache file twice -/
theorem filesTxtFrom_afile_nodup (paths : List Str) : ∀ (seen : List Str), ((filesTxtFrom seen paths).map (·.afile)).Nodup := by
  induction paths with
  | nil => intro seen; simp [filesTxtFrom]
  | cons p r ih =>
    intro seen
    simp only [filesTxtFrom, List.map_cons, List.nodup_cons]
    refine ⟨?_, ih _⟩
    intro hmem
    obtain ⟨l, hl, heq⟩ := List.mem_map.mp hmem
    obtain ⟨b, n, h1, h2⟩ := filesTxtFrom_shape r (seen ++ [p]) l hl
    rw [h1] at heq
    obtain ⟨hb, hn⟩ := afile_inj _ _ _ _ heq
    rw [countBase_append, hb] at h2
    simp [countBase] at h2
    omega

theorem filesTxt_afile_ne_nil (paths : List Str) : ∀ l ∈ filesTxt paths, l.afile.isEmpty = false := by
  intro l hl
  obtain ⟨b, n, h1, _⟩ := filesTxtFrom_shape paths [] l hl
  rw [h1]
  cases b <;> simp [dotA]

theorem inj_on_of_nodup_map {α β} (f : α → β) : ∀ (l : List α), (l.map f).Nodup → ∀ {a b}, a ∈ l → b ∈ l → f a = f b → a = b := by
  intro l
  induction l with
  | nil => intro _ a b ha; simp at ha
  | cons x r ih =>
    intro hnd a b ha hb e
    simp only [List.map_cons, List.nodup_cons, List.mem_map, not_exists, not_and] at hnd
    rcases List.mem_cons.mp ha with rfl | ha' <;> rcases List.mem_cons.mp hb with rfl | hb'
    · rfl
    · exact absurd e.symm (hnd.1 b hb')
    · exact absurd e (hnd.1 a ha')
    · exact ih hnd.2 ha' hb' e

theorem cacheFile_of_lookup (k : LookupKind) (ft : List FtLine) (src a : Str) (h : lookup k ft src = some a)
    (ha : a.isEmpty = false) : cacheFile k ft src = a := by
  simp [cacheFile, h, ha]

/-- a lookup that can only stop at a line naming the same source finds each file's own line -/
theorem map_afile_eq_of_own (k : LookupKind) (ft : List FtLine) (hnd : (ft.map (·.source)).Nodup)
    (hne : ∀ l ∈ ft, l.afile.isEmpty = false)
    (hown : ∀ l ∈ ft, ∃ l' ∈ ft, l'.source = l.source ∧ lookup k ft l.source = some l'.afile) :
    ft.map (·.afile) = (ft.map (·.source)).map (cacheFile k ft) := by
  rw [List.map_map]
  apply List.map_congr_left
  intro l hl
  obtain ⟨l', hl', hs, hlk⟩ := hown l hl
  have : l' = l := inj_on_of_nodup_map _ _ hnd hl' hl hs
  subst this
  exact (cacheFile_of_lookup k ft _ _ hlk (hne _ hl')).symm

theorem lookupExact_own (ft : List FtLine) (l : FtLine) (hl : l ∈ ft) :
    ∃ l' ∈ ft, l'.source = l.source ∧ lookup .exactFirst ft l.source = some l'.afile := by
  cases hf : ft.find? (fun x => x.source == l.source) with
  | none =>
    have := List.find?_eq_none.mp hf l hl
    simp at this
  | some l' =>
    refine ⟨l', List.mem_of_find?_eq_some hf, ?_, ?_⟩
    · simpa using List.find?_some hf
    · simp [lookup, lookupExact, hf]

theorem endsWith_self (s : Str) : endsWith s s = true := by
  simp [endsWith]

theorem lookupSuffix_own (ft : List FtLine) (hsfx : ∀ a ∈ ft, ∀ b ∈ ft, endsWith a.source b.source = true → a.source = b.source)
    (l : FtLine) (hl : l ∈ ft) :
    ∃ l' ∈ ft, l'.source = l.source ∧ lookup .suffixFirst ft l.source = some l'.afile := by
  cases hf : ft.find? (fun x => endsWith l.source x.source) with
  | none =>
    have := List.find?_eq_none.mp hf l hl
    simp [endsWith_self] at this
  | some l' =>
    have hm := List.mem_of_find?_eq_some hf
    refine ⟨l', hm, (hsfx l hl l' hm (by simpa using List.find?_some hf)).symm, ?_⟩
    simp [lookup, lookupSuffix, hf]

/-- with the exact-first lookup every file of a run has its own cache file -/
theorem exactFirst_mapOK (paths : List Str) (hnd : paths.Nodup) : MapOK .exactFirst paths := by
  refine ⟨?_, filesTxtFrom_afile_nodup paths []⟩
  have h := map_afile_eq_of_own .exactFirst (filesTxt paths) (by rw [filesTxt_source]; exact hnd)
    (filesTxt_afile_ne_nil paths) (fun l hl => lookupExact_own _ l hl)
  rw [filesTxt_source] at h
  exact h

/-- no listed path ends with another listed path -/
def NoSuffixPair (paths : List Str) : Prop := ∀ a ∈ paths, ∀ b ∈ paths, endsWith a b = true → a = b

instance (paths : List Str) : Decidable (NoSuffixPair paths) := by unfold NoSuffixPair; infer_instance

/-- with the suffix-first lookup the same holds when no listed path is a proper suffix of another -/
theorem suffixFirst_mapOK (paths : List Str) (hnd : paths.Nodup) (hsfx : NoSuffixPair paths) : MapOK .suffixFirst paths := by
  refine ⟨?_, filesTxtFrom_afile_nodup paths []⟩
  have hsrc : ∀ l ∈ filesTxt paths, l.source ∈ paths := by
    intro l hl
    have := List.mem_map_of_mem (f := (·.source)) hl
    rwa [filesTxt_source] at this
  have h := map_afile_eq_of_own .suffixFirst (filesTxt paths) (by rw [filesTxt_source]; exact hnd)
    (filesTxt_afile_ne_nil paths)
    (fun l hl => lookupSuffix_own _ (fun a ha b hb => hsfx _ (hsrc a ha) _ (hsrc b hb)) l hl)
  rw [filesTxt_source] at h
  exact h

/-! ## 5. toolinfo: a change confined to one block of the chain (C19) -/

theorem renderToolinfo_cons (it : ToolItem) (its : List ToolItem) (sv : SettingsView) :
    renderToolinfo (it :: its) sv = (match renderItem sv it, renderToolinfo its sv with
      | some v, some r => some (v ++ r)
      | _, _ => none) := rfl

theorem renderToolinfo_append (a b : List ToolItem) (sv : SettingsView) :
    renderToolinfo (a ++ b) sv = (match renderToolinfo a sv, renderToolinfo b sv with
      | some x, some y => some (x ++ y)
      | _, _ => none) := by
  induction a with
  | nil =>
    have hn : renderToolinfo [] sv = some [] := rfl
    rw [List.nil_append, hn]
    cases renderToolinfo b sv <;> simp
  | cons it r ih =>
    rw [List.cons_append, renderToolinfo_cons, renderToolinfo_cons, ih]
    cases renderItem sv it <;> cases renderToolinfo r sv <;> cases renderToolinfo b sv <;> simp

/-- two settings whose renderings agree before and after a block of the chain: equal toolinfo ⇒ the block renders equally -/
theorem render_block_cancel (pre blk suf : List ToolItem) (sv sv' : SettingsView)
    (hp : renderToolinfo pre sv = renderToolinfo pre sv') (hs : renderToolinfo suf sv = renderToolinfo suf sv')
    (h : renderToolinfo (pre ++ (blk ++ suf)) sv = renderToolinfo (pre ++ (blk ++ suf)) sv')
    (hsome : (renderToolinfo (pre ++ (blk ++ suf)) sv).isSome = true) :
    renderToolinfo blk sv = renderToolinfo blk sv' := by
  rw [renderToolinfo_append, renderToolinfo_append, renderToolinfo_append, renderToolinfo_append, ← hp, ← hs] at h
  rw [renderToolinfo_append, renderToolinfo_append] at hsome
  cases hP : renderToolinfo pre sv with
  | none => simp [hP] at hsome
  | some P =>
    cases hS : renderToolinfo suf sv with
    | none => cases hB : renderToolinfo blk sv <;> simp [hP, hS, hB] at hsome
    | some S =>
      cases hB : renderToolinfo blk sv with
      | none => simp [hP, hS, hB] at hsome
      | some B =>
        cases hB' : renderToolinfo blk sv' with
        | none => simp [hP, hS, hB, hB'] at h
        | some B' =>
          simp only [hP, hS, hB, hB', Option.some.injEq] at h
          have := List.append_cancel_left h
          rw [List.append_cancel_right this]

theorem decInt_inj {a b : Int} (h : decInt a = decInt b) : a = b := by
  unfold decInt at h
  by_cases ha : a < 0 <;> by_cases hb : b < 0 <;> simp only [ha, hb, if_true, if_false] at h
  · have := dec_inj (List.cons.inj h).2; omega
  · have hd := dec_digits b.natAbs '-' (by rw [← h]; simp)
    exact absurd hd (by decide)
  · have hd := dec_digits a.natAbs '-' (by rw [h]; simp)
    exact absurd hd (by decide)
  · have := dec_inj h; omega

/-- a one-item block: a string member is determined by its rendering -/
theorem render_strField_inj (n : String) (sv sv' : SettingsView) (v : Str)
    (h : renderToolinfo [.strField n] sv = renderToolinfo [.strField n] sv') (hv : assoc? n sv.strs = some v) :
    assoc? n sv'.strs = some v := by
  simp only [renderToolinfo_cons, renderItem, hv] at h
  cases h' : assoc? n sv'.strs with
  | none => simp [renderToolinfo, h'] at h
  | some w => simp [renderToolinfo, h'] at h; rw [h]

/-- … an int member too (`ostream << int`) -/
theorem render_intField_inj (n : String) (sv sv' : SettingsView) (v : Int)
    (h : renderToolinfo [.intField n] sv = renderToolinfo [.intField n] sv') (hv : assoc? n sv.ints = some v) :
    assoc? n sv'.ints = some v := by
  simp only [renderToolinfo_cons, renderItem, hv] at h
  cases h' : assoc? n sv'.ints with
  | none => simp [renderToolinfo, h'] at h
  | some w =>
    simp [renderToolinfo, h'] at h
    rw [decInt_inj h]

/-- … and a flag (`x ? c : ' '` with `c ≠ ' '`) -/
theorem render_boolFlag_inj (n : String) (c : Char) (hc : c ≠ ' ') (sv sv' : SettingsView) (v : Bool)
    (h : renderToolinfo [.boolFlag n c] sv = renderToolinfo [.boolFlag n c] sv') (hv : assoc? n sv.bools = some v) :
    assoc? n sv'.bools = some v := by
  simp only [renderToolinfo_cons, renderItem, hv] at h
  cases h' : assoc? n sv'.bools with
  | none => simp [renderToolinfo, h'] at h
  | some w =>
    simp [renderToolinfo, h'] at h
    cases v <;> cases w <;> simp_all <;> exact absurd h.symm hc

/-! ## 6. the cache document -/

theorem cachedErrors_append {I : Type} (a b : List (DocChild I)) : cachedErrors (a ++ b) = cachedErrors a ++ cachedErrors b := by
  simp [cachedErrors, List.filterMap_append]

theorem cachedErrors_errors {I : Type} (fs : List Finding) : cachedErrors (fs.map (DocChild.error (I := I))) = fs := by
  induction fs with
  | nil => rfl
  | cons f r ih => simp only [List.map_cons, cachedErrors, List.filterMap_cons, DocChild.error?] at *; rw [ih]

theorem cachedErrors_infos {I : Type} (is : List I) : cachedErrors (is.map (DocChild.fileInfo (I := I))) = [] := by
  induction is with
  | nil => rfl
  | cons f r ih => simp only [List.map_cons, cachedErrors, List.filterMap_cons, DocChild.error?] at *; exact ih

end Cppcheck.Cache

import Cppcheck.Proofs.CtuText
/-
C22 — helper lemmas for the XML layer: what the modelled tinyxml2 lexer / tree builder make of text that has
the shape the writers produce (white space, `<name attr="value"…/>`, `<name …>`, `</name>`).
-/
namespace Cppcheck.Ctu
open Cppcheck.Wire

/-! ## names and white space -/

/-- a tinyxml2 name -/
def IsName : Str → Bool
  | [] => false
  | c :: r => isNameStart c && r.all isNameChar

theorem isSpace_cases (c : Char) (h : isSpace c = true) :
    c = ' ' ∨ c = '\t' ∨ c = '\n' ∨ c = Char.ofNat 11 ∨ c = Char.ofNat 12 ∨ c = '\r' := by
  simp only [isSpace, Bool.or_eq_true, decide_eq_true_eq] at h
  rcases h with ((((e | e) | e) | e) | e) | e <;> simp [e]

theorem not_space_of_nameStart (c : Char) (h : isNameStart c = true) : isSpace c = false := by
  cases hs : isSpace c with
  | false => rfl
  | true =>
    exfalso
    rcases isSpace_cases c hs with e | e | e | e | e | e <;> (subst e; revert h; decide)

theorem nameStart_ne (c : Char) (h : isNameStart c = true) : c ≠ '?' ∧ c ≠ '!' ∧ c ≠ '/' ∧ c ≠ '<' ∧ c ≠ '>' := by
  refine ⟨?_, ?_, ?_, ?_, ?_⟩ <;> (intro e; subst e; revert h; decide)

theorem skipWs_append (ws rest : Str) (h : ws.all isSpace = true) : skipWs (ws ++ rest) = skipWs rest := by
  induction ws with
  | nil => rfl
  | cons a r ih =>
    simp only [List.all_cons, Bool.and_eq_true] at h
    simp only [skipWs, List.cons_append, List.dropWhile_cons, h.1, if_true]
    exact ih h.2

theorem skipWs_cons_of_not_space (c : Char) (r : Str) (h : isSpace c = false) : skipWs (c :: r) = c :: r := by
  simp [skipWs, List.dropWhile_cons, h]

theorem skipWs_space_cons (r : Str) : skipWs (' ' :: r) = skipWs r := by
  simp [skipWs, List.dropWhile_cons, isSpace]

theorem takeWhile_append_stop {α : Type} (p : α → Bool) (l : List α) (a : α) (r : List α)
    (hl : l.all p = true) (ha : p a = false) : (l ++ a :: r).takeWhile p = l ∧ (l ++ a :: r).dropWhile p = a :: r := by
  induction l with
  | nil => simp [List.takeWhile_cons, List.dropWhile_cons, ha]
  | cons b t ih =>
    simp only [List.all_cons, Bool.and_eq_true] at hl
    have := ih hl.2
    simp [List.takeWhile_cons, List.dropWhile_cons, hl.1, this.1, this.2]

/-- `ParseName` reads exactly the name when the next character cannot continue it -/
theorem parseName_append (n : Str) (a : Char) (rest : Str) (hn : IsName n = true) (ha : isNameChar a = false) :
    parseName (n ++ a :: rest) = some (n, a :: rest) := by
  cases n with
  | nil => simp [IsName] at hn
  | cons c t =>
    simp only [IsName, Bool.and_eq_true] at hn
    have := takeWhile_append_stop isNameChar t a rest hn.2 ha
    simp [parseName, hn.1, this.1, this.2]

theorem splitAt1_append (q : Char) (v rest : Str) (hv : q ∉ v) : splitAt1 q (v ++ q :: rest) = some (v, rest) := by
  induction v with
  | nil => simp [splitAt1]
  | cons a t ih =>
    have ha : a ≠ q := fun e => hv (by simp [e])
    have ht : q ∉ t := fun e => hv (by simp [e])
    simp [splitAt1, ha, ih ht]

/-! ## attributes -/

/-- the text of an attribute list as every writer produces it: ` name="value"` each -/
def renderAttrs : List (Str × Str) → Str
  | [] => []
  | a :: r => ' ' :: (a.1 ++ ('=' :: '"' :: (a.2 ++ ('"' :: renderAttrs r))))

theorem attr_eq (n : String) (v : Str) (rest : Str) : attr n v ++ rest = renderAttrs [(n.toList, v)] ++ rest := by
  simp [attr, renderAttrs]

theorem renderAttrs_append (a b : List (Str × Str)) : renderAttrs (a ++ b) = renderAttrs a ++ renderAttrs b := by
  induction a with
  | nil => rfl
  | cons x r ih => simp [renderAttrs, ih]

/-- attribute names are names, pairwise different, and no value contains the quote -/
def AttrsWF : List (Str × Str) → Bool
  | [] => true
  | a :: r => IsName a.1 && !(r.any fun b => b.1 == a.1) && !(a.2.contains '"') && AttrsWF r

theorem renderAttrs_length (as : List (Str × Str)) : as.length ≤ (renderAttrs as).length := by
  induction as with
  | nil => simp [renderAttrs]
  | cons a r ih => simp only [renderAttrs, List.length_cons, List.length_append]; omega

theorem parseAttrs_step (f : Nat) (n v rest : Str) (acc : List (Str × Str)) (cl : Closing)
    (hn : IsName n = true) (hv : '"' ∉ v) (hfresh : (acc.any fun a => a.1 == n) = false) :
    parseAttrs (f + 1) (' ' :: (n ++ ('=' :: '"' :: (v ++ ('"' :: rest))))) acc cl = parseAttrs f rest (acc ++ [(n, v)]) cl := by
  cases n with
  | nil => simp [IsName] at hn
  | cons c t =>
    have hc : isNameStart c = true := by simp only [IsName, Bool.and_eq_true] at hn; exact hn.1
    have hsp := not_space_of_nameStart c hc
    have hpn := parseName_append (c :: t) '=' ('"' :: (v ++ ('"' :: rest))) hn (by decide)
    rw [parseAttrs]
    have h1 : skipWs (' ' :: ((c :: t) ++ ('=' :: '"' :: (v ++ ('"' :: rest))))) = c :: (t ++ ('=' :: '"' :: (v ++ ('"' :: rest)))) := by
      rw [skipWs_space_cons]
      exact skipWs_cons_of_not_space c _ hsp
    simp only [h1, hc, if_true]
    have h2 : parseName (c :: (t ++ '=' :: '"' :: (v ++ '"' :: rest))) = some (c :: t, '=' :: '"' :: (v ++ '"' :: rest)) := by
      simpa using hpn
    simp only [h2]
    have h3 : skipWs ('=' :: '"' :: (v ++ '"' :: rest)) = '=' :: '"' :: (v ++ '"' :: rest) := skipWs_cons_of_not_space _ _ (by decide)
    have h4 : skipWs ('"' :: (v ++ '"' :: rest)) = '"' :: (v ++ '"' :: rest) := skipWs_cons_of_not_space _ _ (by decide)
    simp only [reduceCtorEq, if_false, h3, h4, true_or, if_true, splitAt1_append '"' v rest hv, hfresh, Bool.false_eq_true]

theorem parseAttrs_render : ∀ (as : List (Str × Str)) (f : Nat) (tail : Str) (acc : List (Str × Str)) (cl : Closing),
    AttrsWF as = true → (∀ a ∈ as, (acc.any fun b => b.1 == a.1) = false) →
    parseAttrs (f + as.length) (renderAttrs as ++ tail) acc cl = parseAttrs f tail (acc ++ as) cl := by
  intro as
  induction as with
  | nil => intro f tail acc cl _ _; simp [renderAttrs]
  | cons a r ih =>
    intro f tail acc cl hwf hfresh
    simp only [AttrsWF, Bool.and_eq_true, Bool.not_eq_true'] at hwf
    obtain ⟨⟨⟨hn, hdist⟩, hq⟩, hr⟩ := hwf
    have hv : '"' ∉ a.2 := by
      intro hm
      have : a.2.contains '"' = true := by simpa using hm
      rw [this] at hq; exact absurd hq (by decide)
    have e1 : f + (a :: r).length = (f + r.length) + 1 := by simp; omega
    have e2 : renderAttrs (a :: r) ++ tail = ' ' :: (a.1 ++ ('=' :: '"' :: (a.2 ++ ('"' :: (renderAttrs r ++ tail))))) := by
      simp [renderAttrs]
    rw [e1, e2, parseAttrs_step _ _ _ _ _ _ hn hv (hfresh a (by simp))]
    rw [ih f tail (acc ++ [(a.1, a.2)]) cl hr]
    · simp
    · intro b hb
      have h1 := hfresh b (by simp [hb])
      have h2 : (b.1 == a.1) = false := by
        have := List.any_eq_false.mp hdist b hb
        simpa using this
      simp only [List.any_append, h1, List.any_cons, List.any_nil, Bool.or_false, Bool.false_or]
      cases hba : (a.1 == b.1) with
      | false => rfl
      | true =>
        have e := eq_of_beq hba
        rw [e] at h2
        simp at h2

theorem parseAttrs_closed (f : Nat) (rest : Str) (acc : List (Str × Str)) (cl : Closing) :
    parseAttrs (f + 1) ('/' :: '>' :: rest) acc cl = some (acc, .closed, rest) := by
  rw [parseAttrs]
  simp [skipWs_cons_of_not_space '/' ('>' :: rest) (by decide), show isNameStart '/' = false by decide]

theorem parseAttrs_open (f : Nat) (rest : Str) (acc : List (Str × Str)) (cl : Closing) :
    parseAttrs (f + 1) ('>' :: rest) acc cl = some (acc, cl, rest) := by
  rw [parseAttrs]
  simp [skipWs_cons_of_not_space '>' rest (by decide), show isNameStart '>' = false by decide]

/-! ## one token -/

theorem lexOne_tag (s r : Str) (h : skipWs s = '<' :: r) (h1 : ∀ t, r ≠ '?' :: t) (h2 : ∀ t, r ≠ '!' :: t) :
    lexOne s = some (lexTag r) := by
  unfold lexOne
  rw [h]
  split
  · rename_i heq; simp at heq
  · rename_i r1 heq; simp only [List.cons.injEq, true_and] at heq; exact absurd heq (h1 r1)
  · rename_i r1 heq; simp only [List.cons.injEq, true_and] at heq; exact absurd heq (h2 r1)
  · rename_i r' _ _ heq; simp only [List.cons.injEq, true_and] at heq; rw [heq]
  · rename_i hne heq
    simp only [List.cons.injEq] at heq
    exact absurd heq.1.symm (by simpa using hne)

theorem lexOne_text (s : Str) (c : Char) (r : Str) (h : skipWs s = c :: r) (hc : c ≠ '<') : lexOne s = some (lexText s) := by
  unfold lexOne
  rw [h]
  split
  · rename_i heq; simp at heq
  · rename_i heq; simp only [List.cons.injEq] at heq; exact absurd heq.1 hc
  · rename_i heq; simp only [List.cons.injEq] at heq; exact absurd heq.1 hc
  · rename_i heq; simp only [List.cons.injEq] at heq; exact absurd heq.1 hc
  · rfl

theorem lexOne_of_skipWs_eq (s s' : Str) (h : skipWs s = skipWs s') (ht : lexText s = lexText s') : lexOne s = lexOne s' := by
  unfold lexOne
  rw [h]
  split <;> simp_all

theorem lexText_ws : ∀ (ws s : Str), ws.all isSpace = true → lexText (ws ++ s) = lexText s := by
  intro ws
  induction ws with
  | nil => intro s _; rfl
  | cons a t ih =>
    intro s ha
    simp only [List.all_cons, Bool.and_eq_true] at ha
    have hne : a ≠ '<' := by intro e; subst e; exact absurd ha.1 (by decide)
    have := ih s ha.2
    unfold lexText at this ⊢
    simp only [List.cons_append, splitAt1, hne, if_false]
    cases h1 : splitAt1 '<' (t ++ s) with
    | none => rw [h1] at this; simpa using this
    | some p => rw [h1] at this; simpa using this

theorem lexOne_ws (ws s : Str) (h : ws.all isSpace = true) : lexOne (ws ++ s) = lexOne s :=
  lexOne_of_skipWs_eq _ _ (skipWs_append ws s h) (lexText_ws ws s h)

/-- text of a tag head: `<name attrs` -/
def headText (name : Str) (as : List (Str × Str)) : Str := '<' :: (name ++ renderAttrs as)

theorem lexTag_head (name : Str) (as : List (Str × Str)) (tail : Str) (cl : Closing) (rest : Str)
    (hname : IsName name = true) (hwf : AttrsWF as = true)
    (htail : tail = '/' :: '>' :: rest ∧ cl = .closed ∨ tail = '>' :: rest ∧ cl = .opn) :
    lexTag (name ++ (renderAttrs as ++ tail)) = (.tag cl name as, rest) := by
  cases name with
  | nil => simp [IsName] at hname
  | cons c t =>
    have hc : isNameStart c = true := by simp only [IsName, Bool.and_eq_true] at hname; exact hname.1
    obtain ⟨_, _, hs, _, _⟩ := nameStart_ne c hc
    have hsp := not_space_of_nameStart c hc
    -- the character after the name is ' ', '/' or '>'
    have hnext : ∃ a r', renderAttrs as ++ tail = a :: r' ∧ isNameChar a = false := by
      cases as with
      | nil =>
        rcases htail with ⟨e, _⟩ | ⟨e, _⟩
        · exact ⟨'/', '>' :: rest, by simp [renderAttrs, e], by decide⟩
        · exact ⟨'>', rest, by simp [renderAttrs, e], by decide⟩
      | cons a r => exact ⟨' ', _, rfl, by decide⟩
    obtain ⟨a, r', hr', ha⟩ := hnext
    have hpn : parseName (c :: (t ++ (renderAttrs as ++ tail))) = some (c :: t, renderAttrs as ++ tail) := by
      have := parseName_append (c :: t) a r' hname ha
      rw [hr']; simpa using this
    have h1 : skipWs ((c :: t) ++ (renderAttrs as ++ tail)) = c :: (t ++ (renderAttrs as ++ tail)) := skipWs_cons_of_not_space _ _ hsp
    have hcp : closingPrefix (c :: (t ++ (renderAttrs as ++ tail))) = (.opn, c :: (t ++ (renderAttrs as ++ tail))) := by
      unfold closingPrefix
      split
      · rename_i heq; simp only [List.cons.injEq] at heq; exact absurd heq.1 hs
      · rfl
    -- enough fuel for the attribute loop
    have hlen : ∃ g, (renderAttrs as ++ tail).length + 1 = (g + 1) + as.length := by
      have := renderAttrs_length as
      refine ⟨(renderAttrs as ++ tail).length - as.length, ?_⟩
      simp only [List.length_append]; omega
    obtain ⟨g, hg⟩ := hlen
    have h3 : parseAttrs ((renderAttrs as ++ tail).length + 1) (renderAttrs as ++ tail) [] .opn = some (as, cl, rest) := by
      rw [hg, parseAttrs_render as (g + 1) tail [] .opn hwf (by intro _ _; rfl)]
      rcases htail with ⟨e, ecl⟩ | ⟨e, ecl⟩
      · rw [e, ecl, parseAttrs_closed]; simp
      · rw [e, ecl, parseAttrs_open]; simp
    unfold lexTag
    simp only [h1, hcp, hpn, h3]

theorem lexOne_head (ws name : Str) (as : List (Str × Str)) (tail : Str) (cl : Closing) (rest : Str)
    (hws : ws.all isSpace = true) (hname : IsName name = true) (hwf : AttrsWF as = true)
    (htail : tail = '/' :: '>' :: rest ∧ cl = .closed ∨ tail = '>' :: rest ∧ cl = .opn) :
    lexOne (ws ++ '<' :: (name ++ (renderAttrs as ++ tail))) = some (.tag cl name as, rest) := by
  rw [lexOne_ws ws _ hws]
  cases name with
  | nil => simp [IsName] at hname
  | cons c t =>
    have hc : isNameStart c = true := by simp only [IsName, Bool.and_eq_true] at hname; exact hname.1
    obtain ⟨hq, hb, _, _, _⟩ := nameStart_ne c hc
    rw [lexOne_tag _ ((c :: t) ++ (renderAttrs as ++ tail)) (skipWs_cons_of_not_space _ _ (by decide))
      (by intro t' e; simp only [List.cons_append, List.cons.injEq] at e; exact hq e.1)
      (by intro t' e; simp only [List.cons_append, List.cons.injEq] at e; exact hb e.1)]
    rw [lexTag_head (c :: t) as tail cl rest hname hwf htail]

theorem lexOne_closingTag (ws name : Str) (rest : Str) (hws : ws.all isSpace = true) (hname : IsName name = true) :
    lexOne (ws ++ '<' :: '/' :: (name ++ '>' :: rest)) = some (.tag .closing name [], rest) := by
  rw [lexOne_ws ws _ hws]
  rw [lexOne_tag _ ('/' :: (name ++ '>' :: rest)) (skipWs_cons_of_not_space _ _ (by decide)) (by intro t e; simp at e) (by intro t e; simp at e)]
  cases name with
  | nil => simp [IsName] at hname
  | cons c t =>
    have hpn : parseName (c :: (t ++ '>' :: rest)) = some (c :: t, '>' :: rest) := by
      simpa using parseName_append (c :: t) '>' rest hname (by decide)
    have h1 : skipWs ('/' :: ((c :: t) ++ '>' :: rest)) = '/' :: c :: (t ++ '>' :: rest) := skipWs_cons_of_not_space _ _ (by decide)
    have h3 : parseAttrs (('>' :: rest).length + 1) ('>' :: rest) [] .closing = some ([], .closing, rest) := by
      have : ('>' :: rest).length + 1 = (rest.length + 1) + 1 := by simp
      rw [this, parseAttrs_open]
    unfold lexTag
    simp only [h1, closingPrefix, hpn, h3]

theorem lexOne_decl (ws body rest : Str) (hws : ws.all isSpace = true) (h : splitDeclEnd body = some rest) :
    lexOne (ws ++ '<' :: '?' :: body) = some (.decl, rest) := by
  rw [lexOne_ws ws _ hws]
  unfold lexOne
  have h0 : skipWs ('<' :: '?' :: body) = '<' :: '?' :: body := skipWs_cons_of_not_space _ _ (by decide)
  rw [h0]
  simp only [h]

theorem lexOne_allspace (ws : Str) (h : ws.all isSpace = true) : lexOne ws = none := by
  have := skipWs_append ws [] h
  simp only [List.append_nil] at this
  unfold lexOne
  rw [this]
  rfl

/-! ## the token stream: fuel does not matter once it exceeds the length -/

theorem splitAt1_length (q : Char) : ∀ (s p r : Str), splitAt1 q s = some (p, r) → s.length = p.length + 1 + r.length := by
  intro s
  induction s with
  | nil => intro p r h; simp [splitAt1] at h
  | cons c t ih =>
    intro p r h
    simp only [splitAt1] at h
    by_cases hc : c = q
    · simp only [hc, if_true, Option.some.injEq, Prod.mk.injEq] at h
      obtain ⟨rfl, rfl⟩ := h
      simp only [List.length_cons, List.length_nil]; omega
    · simp only [hc, if_false, Option.map_eq_some_iff] at h
      obtain ⟨⟨p', r'⟩, h1, h2⟩ := h
      simp only [Prod.mk.injEq] at h2
      obtain ⟨rfl, rfl⟩ := h2
      have := ih p' r' h1
      simp only [List.length_cons]; omega

theorem splitDeclEnd_length : ∀ (s r : Str), splitDeclEnd s = some r → r.length < s.length := by
  intro s
  induction s with
  | nil => intro r h; simp [splitDeclEnd] at h
  | cons c t ih =>
    intro r h
    simp only [splitDeclEnd] at h
    split at h
    · simp only [Option.some.injEq] at h
      subst h
      simp only [List.length_cons, List.length_tail]; omega
    · have := ih r h
      simp only [List.length_cons]; omega

theorem dropWhile_length_le {α : Type} (p : α → Bool) : ∀ l : List α, (l.dropWhile p).length ≤ l.length := by
  intro l
  induction l with
  | nil => simp
  | cons c t ih =>
    simp only [List.dropWhile_cons]
    split
    · simp only [List.length_cons]; omega
    · simp

theorem skipWs_length (s : Str) : (skipWs s).length ≤ s.length := dropWhile_length_le _ s

theorem parseName_length (s n r : Str) (h : parseName s = some (n, r)) : r.length < s.length := by
  cases s with
  | nil => simp [parseName] at h
  | cons c t =>
    simp only [parseName] at h
    split at h
    · simp only [Option.some.injEq, Prod.mk.injEq] at h
      obtain ⟨_, rfl⟩ := h
      have : (t.dropWhile isNameChar).length ≤ t.length := dropWhile_length_le isNameChar t
      simp only [List.length_cons]; omega
    · simp at h

theorem parseAttrs_length : ∀ (f : Nat) (s : Str) (acc : List (Str × Str)) (cl : Closing) (as : List (Str × Str)) (cl' : Closing) (r : Str),
    parseAttrs f s acc cl = some (as, cl', r) → r.length < s.length := by
  intro f
  induction f with
  | zero => intro s acc cl as cl' r h; simp [parseAttrs] at h
  | succ f ih =>
    intro s acc cl as cl' r h
    rw [parseAttrs] at h
    have hws := skipWs_length s
    cases hs : skipWs s with
    | nil => rw [hs] at h; simp at h
    | cons c t =>
      rw [hs] at h hws
      simp only at h
      split at h
      · -- attribute
        cases hpn : parseName (c :: t) with
        | none => rw [hpn] at h; simp at h
        | some nr =>
          obtain ⟨n, r1⟩ := nr
          rw [hpn] at h
          simp only at h
          have l1 := parseName_length _ _ _ hpn
          split at h
          · simp at h
          · have l2 := skipWs_length r1
            split at h
            · rename_i r2 heq
              rw [heq] at l2
              have l3 := skipWs_length r2
              split at h
              · rename_i q r3 heq2
                rw [heq2] at l3
                split at h
                · cases hsp : splitAt1 q r3 with
                  | none => rw [hsp] at h; simp at h
                  | some vr =>
                    obtain ⟨v, r4⟩ := vr
                    rw [hsp] at h
                    simp only at h
                    have l4 := splitAt1_length q r3 v r4 hsp
                    split at h
                    · simp at h
                    · have := ih _ _ _ _ _ _ h
                      simp only [List.length_cons] at *; omega
                · simp at h
              · simp at h
            · simp at h
      · split at h
        · simp only [Option.some.injEq, Prod.mk.injEq] at h
          obtain ⟨_, _, rfl⟩ := h
          simp only [List.length_cons] at hws; omega
        · split at h
          · simp only [Option.some.injEq, Prod.mk.injEq] at h
            obtain ⟨_, _, rfl⟩ := h
            simp only [List.length_cons, List.length_tail] at hws ⊢; omega
          · simp at h

theorem lexTag_length (r : Str) : (lexTag r).2.length < r.length + 1 := by
  have l1 := skipWs_length r
  have l2 : (closingPrefix (skipWs r)).2.length ≤ (skipWs r).length := by
    unfold closingPrefix
    split
    · rename_i heq; rw [heq]; simp
    · exact Nat.le_refl _
  unfold lexTag
  cases hpn : parseName (closingPrefix (skipWs r)).2 with
  | none => simp only [hpn, List.length_nil]; omega
  | some nr =>
    obtain ⟨n, r3⟩ := nr
    have l3 := parseName_length _ _ _ hpn
    cases hpa : parseAttrs (r3.length + 1) r3 [] (closingPrefix (skipWs r)).1 with
    | none => simp only [hpn, hpa, List.length_nil]; omega
    | some res =>
      obtain ⟨as, cl, r4⟩ := res
      have l4 := parseAttrs_length _ _ _ _ _ _ _ hpa
      simp only [hpn, hpa]; omega

theorem lexText_length (s : Str) (c : Char) (r : Str) (h : skipWs s = c :: r) (hc : c ≠ '<') :
    (lexText s).2.length < s.length ∨ (lexText s).2 = [] := by
  unfold lexText
  cases hsp : splitAt1 '<' s with
  | none => right; rfl
  | some pr =>
    obtain ⟨p, r1⟩ := pr
    have l := splitAt1_length _ _ _ _ hsp
    have hp : p ≠ [] := by
      intro e
      subst e
      cases s with
      | nil => simp [splitAt1] at hsp
      | cons a t =>
        simp only [splitAt1] at hsp
        by_cases ha : a = '<'
        · subst ha
          rw [skipWs_cons_of_not_space _ _ (by decide)] at h
          simp only [List.cons.injEq] at h
          exact hc h.1.symm
        · simp only [ha, if_false, Option.map_eq_some_iff] at hsp
          obtain ⟨⟨p', r'⟩, _, h2⟩ := hsp
          simp at h2
    have : 0 < p.length := List.length_pos_iff.mpr hp
    left; simp only [List.length_cons]; omega

theorem lexOne_length (s : Str) (t : Tok) (r : Str) (h : lexOne s = some (t, r)) : r.length < s.length ∨ r = [] := by
  have hws := skipWs_length s
  cases hs : skipWs s with
  | nil => unfold lexOne at h; rw [hs] at h; simp at h
  | cons c r0 =>
    rw [hs] at hws
    by_cases hc : c = '<'
    · subst hc
      cases r0 with
      | nil =>
        rw [lexOne_tag s [] hs (by simp) (by simp)] at h
        simp only [Option.some.injEq] at h
        have := lexTag_length []
        rw [h] at this
        right; exact List.length_eq_zero_iff.mp (by simpa using this)
      | cons d r1 =>
        by_cases hq : d = '?'
        · subst hq
          unfold lexOne at h
          rw [hs] at h
          simp only at h
          cases hd : splitDeclEnd r1 with
          | none => rw [hd] at h; simp at h; right; exact h.2
          | some r2 =>
            rw [hd] at h
            simp only [Option.some.injEq, Prod.mk.injEq] at h
            obtain ⟨_, rfl⟩ := h
            have := splitDeclEnd_length _ _ hd
            left; simp only [List.length_cons] at hws; omega
        · by_cases hb : d = '!'
          · subst hb
            unfold lexOne at h
            rw [hs] at h
            simp at h
            right; exact h.2
          · rw [lexOne_tag s (d :: r1) hs (by intro t e; simp at e; exact hq e.1) (by intro t e; simp at e; exact hb e.1)] at h
            simp only [Option.some.injEq] at h
            have := lexTag_length (d :: r1)
            rw [h] at this
            left; simp only [List.length_cons] at hws this ⊢; omega
    · rw [lexOne_text s c r0 hs hc] at h
      simp only [Option.some.injEq] at h
      have := lexText_length s c r0 hs hc
      rw [h] at this
      exact this

/-- `lexAll` with the fuel `parseDoc` gives it -/
def lexAll' (s : Str) : List Tok := lexAll (s.length + 1) s

theorem lexAll_fuel : ∀ (f g : Nat) (s : Str), s.length < f → s.length < g → lexAll f s = lexAll g s := by
  intro f
  induction f with
  | zero => intro g s h; omega
  | succ f ih =>
    intro g s hf hg
    cases g with
    | zero => omega
    | succ g =>
      simp only [lexAll]
      cases h : lexOne s with
      | none => rfl
      | some tr =>
        obtain ⟨t, r⟩ := tr
        have hl := lexOne_length s t r h
        have hspos : 0 < s.length := by
          cases s with
          | nil => simp [lexOne, skipWs] at h
          | cons _ _ => simp
        have hr : r.length < f ∧ r.length < g := by
          rcases hl with hl | hl
          · omega
          · subst hl; simp only [List.length_nil]; omega
        cases t with
        | bad => rfl
        | unmodelled => rfl
        | decl => simp only; rw [ih g r hr.1 hr.2]
        | text => simp only; rw [ih g r hr.1 hr.2]
        | tag cl n a => simp only; rw [ih g r hr.1 hr.2]

theorem lexAll'_cons (s : Str) (t : Tok) (r : Str) (h : lexOne s = some (t, r))
    (hnb : t ≠ .bad) (hnu : t ≠ .unmodelled) : lexAll' s = t :: lexAll' r := by
  have hspos : 0 < s.length := by
    cases s with
    | nil => simp [lexOne, skipWs] at h
    | cons _ _ => simp
  have e0 : lexAll (s.length + 1) s = t :: lexAll s.length r := by
    cases t <;> simp_all [lexAll]
  have e : lexAll s.length r = lexAll (r.length + 1) r := by
    rcases lexOne_length s t r h with hr | hr
    · exact lexAll_fuel _ _ _ hr (by omega)
    · subst hr
      exact lexAll_fuel _ _ _ (by simpa using hspos) (by simp)
  unfold lexAll'
  rw [e0, e]

theorem lexAll'_none (s : Str) (h : lexOne s = none) : lexAll' s = [] := by
  unfold lexAll'
  simp [lexAll, h]

theorem lexAll'_ws (ws s : Str) (h : ws.all isSpace = true) : lexAll' (ws ++ s) = lexAll' s := by
  have e := lexOne_ws ws s h
  cases hs : lexOne s with
  | none => rw [lexAll'_none _ (by rw [e, hs]), lexAll'_none _ hs]
  | some tr =>
    obtain ⟨t, r⟩ := tr
    cases t with
    | bad =>
      unfold lexAll'
      simp [lexAll, e, hs]
    | unmodelled =>
      unfold lexAll'
      simp [lexAll, e, hs]
    | decl => rw [lexAll'_cons _ _ _ (by rw [e, hs]) (by simp) (by simp), lexAll'_cons _ _ _ hs (by simp) (by simp)]
    | text => rw [lexAll'_cons _ _ _ (by rw [e, hs]) (by simp) (by simp), lexAll'_cons _ _ _ hs (by simp) (by simp)]
    | tag cl n a => rw [lexAll'_cons _ _ _ (by rw [e, hs]) (by simp) (by simp), lexAll'_cons _ _ _ hs (by simp) (by simp)]

/-! ## the tree builder -/

def pushAll (es : List Elem) : List Frame → List Elem → List Frame × List Elem
  | [], top => ([], top ++ es)
  | fr :: st, top => ({ fr with kids := fr.kids ++ es } :: st, top)

theorem pushAll_nil (st : List Frame) (top : List Elem) : pushAll [] st top = (st, top) := by
  cases st <;> simp [pushAll]

theorem pushAll_append (a b : List Elem) (st : List Frame) (top : List Elem) :
    pushAll (a ++ b) st top = pushAll b (pushAll a st top).1 (pushAll a st top).2 := by
  cases st <;> simp [pushAll]

theorem pushAll_single (e : Elem) (st : List Frame) (top : List Elem) : pushAll [e] st top = pushChild e st top := by
  cases st <;> simp [pushAll, pushChild]

theorem pushAll_length (es : List Elem) (st : List Frame) (top : List Elem) : (pushAll es st top).1.length = st.length := by
  cases st <;> simp [pushAll]

/-- token list `ts` is a complete forest `es` of height at most `h`: the builder consumes it from any state
    (not deeper than `500 - h`) and appends `es` to the innermost open element -/
def Balanced (h : Nat) (ts : List Tok) (es : List Elem) : Prop :=
  ∀ (rest : List Tok) (st : List Frame) (top : List Elem) (d : Bool), st.length + h + 2 < 500 →
    build (ts ++ rest) st top d = build rest (pushAll es st top).1 (pushAll es st top).2 (d && ts.isEmpty)

theorem balanced_nil (h : Nat) : Balanced h [] [] := by
  intro rest st top d _
  simp [pushAll_nil]

theorem balanced_mono {h k : Nat} {ts : List Tok} {es : List Elem} (hk : h ≤ k) (b : Balanced h ts es) : Balanced k ts es := by
  intro rest st top d hd
  exact b rest st top d (by omega)

theorem balanced_append {h : Nat} {t1 t2 : List Tok} {e1 e2 : List Elem} (b1 : Balanced h t1 e1) (b2 : Balanced h t2 e2) :
    Balanced h (t1 ++ t2) (e1 ++ e2) := by
  intro rest st top d hd
  rw [List.append_assoc, b1 (t2 ++ rest) st top d hd, b2 rest _ _ _ (by rw [pushAll_length]; exact hd), pushAll_append]
  congr 1
  cases t1 <;> cases t2 <;> simp

theorem balanced_closed (h : Nat) (n : Str) (a : List (Str × Str)) : Balanced h [.tag .closed n a] [.mk n a []] := by
  intro rest st top d _
  simp [build, pushAll_single]

theorem balanced_wrap {h : Nat} {ts : List Tok} {es : List Elem} (n : Str) (a a' : List (Str × Str)) (b : Balanced h ts es) :
    Balanced (h + 1) (.tag .opn n a :: (ts ++ [.tag .closing n a'])) [.mk n a es] := by
  intro rest st top d hd
  have hdepth : ¬ (st.length + 2 ≥ 500) := by omega
  have e : Tok.tag .opn n a :: (ts ++ [Tok.tag .closing n a']) ++ rest = Tok.tag .opn n a :: (ts ++ (Tok.tag .closing n a' :: rest)) := by simp
  rw [e]
  simp only [build, hdepth, if_false]
  rw [b (Tok.tag .closing n a' :: rest) (⟨n, a, []⟩ :: st) top false (by simp only [List.length_cons]; omega)]
  rw [pushAll_single]
  simp [pushAll, build]

/-! ## NUL-free text -/

theorem cstr_id_of_all (s : Str) (h : s.all (· ≠ NUL) = true) : cstr s = s := by
  apply cstr_of_no_nul
  intro hm
  have := List.all_eq_true.mp h NUL hm
  simp at this

end Cppcheck.Ctu

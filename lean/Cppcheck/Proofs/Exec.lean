import Cppcheck.Model.Exec
import Cppcheck.Proofs.Serialize
import Cppcheck.Proofs.Dedup
/-
Helper lemmas for the executor theorems (C15): the gate / sink invariant that is independent of the order in
which messages arrive, the relation between the per-file logger with and without global suppressions, the
thread system, the process system (through an abstraction whose pipes hold events instead of bytes).
-/
namespace Cppcheck.Exec
open Cppcheck.Wire Cppcheck.Serialize

/-- a message that `hasToLog` lets through unless its text was seen before -/
def Passes (cfg : Cfg) (m : Msg) : Prop :=
  m.severity ≠ .internal ∧ cfg.supG (sview cfg.simp m) = false ∧ cfg.keyGate m ≠ []

theorem gate_cases (cfg : Cfg) (hE : cfg.emitDuplicates = false) (el : List Str) (m : Msg) :
    (m.severity = .internal ∧ gate cfg el m = (true, el)) ∨
    (m.severity ≠ .internal ∧ ¬ Passes cfg m ∧ gate cfg el m = (false, el)) ∨
    (Passes cfg m ∧ cfg.keyGate m ∈ el ∧ gate cfg el m = (false, el)) ∨
    (Passes cfg m ∧ cfg.keyGate m ∉ el ∧ gate cfg el m = (true, cfg.keyGate m :: el)) := by
  unfold gate Passes
  by_cases h1 : m.severity = .internal
  · simp [h1]
  · by_cases h2 : cfg.supG (sview cfg.simp m) = true
    · simp [h1, h2]
    · have h2' : cfg.supG (sview cfg.simp m) = false := by simpa using h2
      by_cases h3 : cfg.keyGate m = []
      · simp [h1, h2', h3]
      · have h3' : (cfg.keyGate m).isEmpty = false := by
          cases hk : cfg.keyGate m with
          | nil => exact absurd hk h3
          | cons _ _ => rfl
        by_cases h4 : cfg.keyGate m ∈ el
        · simp [h1, h2', h3, h3', hE, h4]
        · simp [h1, h2', h3, h3', hE, h4]

/-- the schedule-independent invariant of gate + sink.  `rem`: messages not yet passed to the gate,
    `held`: messages that passed the gate and are not yet printed. -/
structure Inv (cfg : Cfg) (All rem held : List Msg) (el : List Str) (sink : Sink) : Prop where
  shown_eq : sink.shown = sink.reported.map cfg.key2
  nodup : sink.shown.Nodup
  reported : ∀ m ∈ sink.reported, m ∈ All ∧ Passes cfg m
  held_ok : ∀ m ∈ held, m ∈ All ∧ (m.severity = .internal ∨ Passes cfg m)
  covered : ∀ m ∈ All, Passes cfg m → cfg.keyGate m ∈ el ∨ m ∈ rem
  el_ok : ∀ k ∈ el, (∃ m ∈ held, m.severity ≠ .internal ∧ cfg.keyGate m = k) ∨
            (∃ m ∈ All, Passes cfg m ∧ cfg.keyGate m = k ∧ cfg.key2 m ∈ sink.shown)
  rem_sub : ∀ m ∈ rem, m ∈ All

theorem Inv.init (cfg : Cfg) (All : List Msg) : Inv cfg All All [] [] {} where
  shown_eq := rfl
  nodup := List.nodup_nil
  reported := by intro m hm; cases hm
  held_ok := by intro m hm; cases hm
  covered := fun m hm _ => Or.inr hm
  el_ok := by intro k hk; cases hk
  rem_sub := fun _ h => h

theorem Inv.congr {cfg : Cfg} {All rem held rem' held' : List Msg} {el : List Str} {sink : Sink}
    (h : Inv cfg All rem held el sink) (hr : ∀ x, x ∈ rem' ↔ x ∈ rem) (hh : ∀ x, x ∈ held' ↔ x ∈ held) :
    Inv cfg All rem' held' el sink where
  shown_eq := h.shown_eq
  nodup := h.nodup
  reported := h.reported
  held_ok := fun m hm => h.held_ok m ((hh m).1 hm)
  covered := fun m hm hp => (h.covered m hm hp).imp id (fun x => (hr m).2 x)
  el_ok := fun k hk => (h.el_ok k hk).imp (fun ⟨m, hm, h1⟩ => ⟨m, (hh m).2 hm, h1⟩) id
  rem_sub := fun m hm => h.rem_sub m ((hr m).1 hm)

theorem Inv.gate {cfg : Cfg} (hE : cfg.emitDuplicates = false) {All rem held rem' held' : List Msg} {el : List Str}
    {sink : Sink} (h : Inv cfg All rem held el sink) (m : Msg) (hm : m ∈ rem)
    (hr1 : ∀ x ∈ rem, x = m ∨ x ∈ rem') (hr2 : ∀ x ∈ rem', x ∈ rem)
    (hh : ∀ x, x ∈ held' ↔ x ∈ held ∨ ((gate cfg el m).1 = true ∧ x = m)) :
    Inv cfg All rem' held' (gate cfg el m).2 sink := by
  have hmAll := h.rem_sub m hm
  rcases gate_cases cfg hE el m with ⟨hi, hg⟩ | ⟨hi, hnp, hg⟩ | ⟨hp, hk, hg⟩ | ⟨hp, hk, hg⟩
  all_goals rw [hg] at hh ⊢
  all_goals simp only [true_and, false_and, or_false, Bool.false_eq_true] at hh
  · -- internal: passes, el unchanged
    refine ⟨h.shown_eq, h.nodup, h.reported, ?_, ?_, ?_, fun x hx => h.rem_sub x (hr2 x hx)⟩
    · intro x hx
      rcases (hh x).1 hx with hx | hx
      · exact h.held_ok x hx
      · subst hx; exact ⟨hmAll, Or.inl hi⟩
    · intro x hx hp
      rcases h.covered x hx hp with hc | hc
      · exact Or.inl hc
      · rcases hr1 x hc with e | e
        · subst e; exact absurd hi hp.1
        · exact Or.inr e
    · intro k hk
      exact (h.el_ok k hk).imp (fun ⟨x, hx, h1⟩ => ⟨x, (hh x).2 (Or.inl hx), h1⟩) id
  · -- dropped: suppressed globally or empty text
    refine ⟨h.shown_eq, h.nodup, h.reported, fun x hx => h.held_ok x ((hh x).1 hx), ?_, ?_, fun x hx => h.rem_sub x (hr2 x hx)⟩
    · intro x hx hp
      rcases h.covered x hx hp with hc | hc
      · exact Or.inl hc
      · rcases hr1 x hc with e | e
        · subst e; exact absurd hp hnp
        · exact Or.inr e
    · intro k hk
      exact (h.el_ok k hk).imp (fun ⟨x, hx, h1⟩ => ⟨x, (hh x).2 hx, h1⟩) id
  · -- duplicate text
    refine ⟨h.shown_eq, h.nodup, h.reported, fun x hx => h.held_ok x ((hh x).1 hx), ?_, ?_, fun x hx => h.rem_sub x (hr2 x hx)⟩
    · intro x hx hp'
      rcases h.covered x hx hp' with hc | hc
      · exact Or.inl hc
      · rcases hr1 x hc with e | e
        · subst e; exact Or.inl hk
        · exact Or.inr e
    · intro k hk'
      exact (h.el_ok k hk').imp (fun ⟨x, hx, h1⟩ => ⟨x, (hh x).2 hx, h1⟩) id
  · -- new text
    refine ⟨h.shown_eq, h.nodup, h.reported, ?_, ?_, ?_, fun x hx => h.rem_sub x (hr2 x hx)⟩
    · intro x hx
      rcases (hh x).1 hx with hx | hx
      · exact h.held_ok x hx
      · subst hx; exact ⟨hmAll, Or.inr hp⟩
    · intro x hx hp'
      rcases h.covered x hx hp' with hc | hc
      · exact Or.inl (by simp [hc])
      · rcases hr1 x hc with e | e
        · subst e; exact Or.inl (by simp)
        · exact Or.inr e
    · intro k hk'
      simp only [List.mem_cons] at hk'
      rcases hk' with e | hk'
      · subst e; exact Or.inl ⟨m, (hh m).2 (Or.inr rfl), hp.1, rfl⟩
      · exact (h.el_ok k hk').imp (fun ⟨x, hx, h1⟩ => ⟨x, (hh x).2 (Or.inl hx), h1⟩) id

theorem sinkStep_internal (cfg : Cfg) (s : Sink) (m : Msg) (h : m.severity = .internal) :
    (sinkStep cfg s m).shown = s.shown ∧ (sinkStep cfg s m).reported = s.reported := by
  unfold sinkStep
  split
  · exact ⟨rfl, rfl⟩
  · split <;> simp [h]

theorem isBookkeeping_internal (m : Msg) (h : isBookkeeping m = true) : m.severity = .internal := by
  unfold isBookkeeping at h
  simp only [Bool.and_eq_true, decide_eq_true_eq] at h
  exact h.1

theorem sinkStep_plain (cfg : Cfg) (hE : cfg.emitDuplicates = false) (s : Sink) (m : Msg) (h : m.severity ≠ .internal) :
    (cfg.key2 m ∈ s.shown ∧ (sinkStep cfg s m).shown = s.shown ∧ (sinkStep cfg s m).reported = s.reported) ∨
    (cfg.key2 m ∉ s.shown ∧ (sinkStep cfg s m).shown = cfg.key2 m :: s.shown ∧ (sinkStep cfg s m).reported = m :: s.reported) := by
  have hb : isBookkeeping m = false := by
    cases hb : isBookkeeping m with
    | false => rfl
    | true => exact absurd (isBookkeeping_internal m hb) h
  unfold sinkStep
  by_cases hk : cfg.key2 m ∈ s.shown
  · left
    refine ⟨hk, ?_, ?_⟩ <;> (simp only [hb, Bool.false_eq_true, ↓reduceIte, h, hE]; split <;> simp [hk])
  · right
    refine ⟨hk, ?_, ?_⟩ <;> (simp only [hb, Bool.false_eq_true, ↓reduceIte, h, hE]; split <;> simp [hk])

theorem Inv.print {cfg : Cfg} (hE : cfg.emitDuplicates = false) {All rem held held' : List Msg} {el : List Str}
    {sink : Sink} (h : Inv cfg All rem held el sink) (m : Msg) (hm : m ∈ held)
    (hh1 : ∀ x ∈ held, x = m ∨ x ∈ held') (hh2 : ∀ x ∈ held', x ∈ held) :
    Inv cfg All rem held' el (sinkStep cfg sink m) := by
  obtain ⟨hmAll, hmp⟩ := h.held_ok m hm
  by_cases hi : m.severity = .internal
  · obtain ⟨e1, e2⟩ := sinkStep_internal cfg sink m hi
    refine ⟨by rw [e1, e2]; exact h.shown_eq, by rw [e1]; exact h.nodup, by rw [e2]; exact h.reported,
      fun x hx => h.held_ok x (hh2 x hx), h.covered, ?_, h.rem_sub⟩
    intro k hk
    rcases h.el_ok k hk with ⟨x, hx, hxi, hxk⟩ | h2
    · rcases hh1 x hx with e | e
      · subst e; exact absurd hi hxi
      · exact Or.inl ⟨x, e, hxi, hxk⟩
    · rw [e1]; exact Or.inr h2
  · have hp : Passes cfg m := hmp.resolve_left hi
    rcases sinkStep_plain cfg hE sink m hi with ⟨hk, e1, e2⟩ | ⟨hk, e1, e2⟩
    · refine ⟨by rw [e1, e2]; exact h.shown_eq, by rw [e1]; exact h.nodup, by rw [e2]; exact h.reported,
        fun x hx => h.held_ok x (hh2 x hx), h.covered, ?_, h.rem_sub⟩
      intro k hk'
      rw [e1]
      rcases h.el_ok k hk' with ⟨x, hx, hxi, hxk⟩ | h2
      · rcases hh1 x hx with e | e
        · subst e; exact Or.inr ⟨x, hmAll, hp, hxk, hk⟩
        · exact Or.inl ⟨x, e, hxi, hxk⟩
      · exact Or.inr h2
    · refine ⟨by rw [e1, e2, h.shown_eq]; rfl, by rw [e1]; exact List.nodup_cons.2 ⟨hk, h.nodup⟩, ?_,
        fun x hx => h.held_ok x (hh2 x hx), h.covered, ?_, h.rem_sub⟩
      · intro x hx
        rw [e2] at hx
        simp only [List.mem_cons] at hx
        rcases hx with e | hx
        · subst e; exact ⟨hmAll, hp⟩
        · exact h.reported x hx
      · intro k hk'
        rw [e1]
        rcases h.el_ok k hk' with ⟨x, hx, hxi, hxk⟩ | ⟨x, hx, h2, h3, h4⟩
        · rcases hh1 x hx with e | e
          · subst e; exact Or.inr ⟨x, hmAll, hp, hxk, by simp⟩
          · exact Or.inl ⟨x, e, hxi, hxk⟩
        · exact Or.inr ⟨x, hx, h2, h3, by simp [h4]⟩

/-- at the end (nothing left, nothing held) the printed texts are exactly the texts of the passing messages -/
theorem Inv.final {cfg : Cfg} {All : List Msg} {el : List Str} {sink : Sink} (h : Inv cfg All [] [] el sink)
    (hk : ∀ m ∈ All, ∀ m' ∈ All, cfg.keyGate m = cfg.keyGate m' → cfg.key2 m = cfg.key2 m') (k : Str) :
    k ∈ sink.shown ↔ ∃ m ∈ All, Passes cfg m ∧ cfg.key2 m = k := by
  constructor
  · intro hks
    rw [h.shown_eq] at hks
    obtain ⟨m, hm, e⟩ := List.mem_map.1 hks
    exact ⟨m, (h.reported m hm).1, (h.reported m hm).2, e⟩
  · rintro ⟨m, hm, hp, e⟩
    rcases h.covered m hm hp with hc | hc
    · rcases h.el_ok _ hc with ⟨x, hx, _⟩ | ⟨x, hx, _, hxk, hxs⟩
      · cases hx
      · rw [← e, ← hk x hx m hm hxk]; exact hxs
    · cases hc

/-! ### the per-file logger with (-j1) and without (-jN) the global suppressions -/

/-- what survives `hasToLog`'s suppression test -/
def keep (cfg : Cfg) (m : Msg) : Bool := m.severity = .internal || !cfg.supG (sview cfg.simp m)

@[simp] theorem keep_asInternal (cfg : Cfg) (m : Msg) : keep cfg (asInternal m) = true := by
  simp [keep, asInternal]

theorem sview_fwd (simp : Str → Str) (r : Raw) : sview simp r.fwd = sview simp r.msg := by
  unfold Raw.fwd
  split <;> rfl

theorem fwd_severity (r : Raw) : r.fwd.severity = r.msg.severity := by
  unfold Raw.fwd
  split <;> rfl

/-- relation between the duplicate filters of the two loggers; `G`: texts of findings only a global suppression matches -/
structure SeenRel (sS sT : Seen) (G : List Str) : Prop where
  shown : ∀ k, k ∈ sT.shown ↔ k ∈ sS.shown ∨ k ∈ G
  supp : ∀ k, k ∈ sS.suppressed ↔ k ∈ sT.suppressed ∨ k ∈ G

theorem isEmpty_false_of_ne {s : Str} (h : s ≠ []) : s.isEmpty = false := by
  cases s with
  | nil => exact absurd rfl h
  | cons _ _ => rfl

theorem logOne_rel (cfg : Cfg) (hE : cfg.emitDuplicates = false) (sS sT : Seen) (G : List Str) (r : Raw)
    (hrel : SeenRel sS sT G) (hkey : cfg.key r.msg ≠ [])
    (hsafe : cfg.safety = true → cfg.critical r.msg.id = true →
      cfg.supG (sview cfg.simp r.msg) = false ∧ cfg.supGX (sview cfg.simp r.msg) = false)
    (hG : r.plain cfg = true → cfg.key r.msg ∉ G) :
    (logOne cfg true sS r).1 = (logOne cfg false sT r).1.filter (keep cfg) ∧
    (logOne cfg true sS r).2.2 = (logOne cfg false sT r).2.2 ∧
    SeenRel (logOne cfg true sS r).2.1 (logOne cfg false sT r).2.1
      (if cfg.dedupFix = false ∧ r.globalOnly cfg = true then cfg.key r.msg :: G else G) := by
  have hke := isEmpty_false_of_ne hkey
  by_cases hi : r.msg.severity = .internal
  · -- internal messages are forwarded untouched
    simp [logOne, hi, keep, Raw.globalOnly, hrel]
  by_cases hrep' : r.reportable = false
  · simp [logOne, hi, hrep', Raw.globalOnly, hrel]
  have hrep : r.reportable = true := by simpa using hrep'
  by_cases hl : r.locSup = true
  · -- locally suppressed: both loggers suppress; only the safety branch forwards
    have hgo : r.globalOnly cfg = false := by simp [Raw.globalOnly, hl]
    have hx : (cfg.safety && cfg.critical r.msg.id) = true → cfg.supG (sview cfg.simp r.msg) = false ∧ cfg.supGX (sview cfg.simp r.msg) = false := by
      intro h
      simp only [Bool.and_eq_true] at h
      exact hsafe h.1 h.2
    by_cases hc : (cfg.safety && cfg.critical r.msg.id) = true
    · obtain ⟨hg, hgx⟩ := hx hc
      simp only [Bool.and_eq_true] at hc
      by_cases hm1 : cfg.key r.msg ∈ sS.suppressed <;> by_cases hm2 : cfg.key r.msg ∈ sT.suppressed <;>
        by_cases hlx : r.locSupX = true <;>
        simp [logOne, hi, hrep, hl, hc.1, hc.2, hg, hgx, hke, hE, hm1, hm2, hlx, keep, asInternal, hgo] <;>
        (constructor
         · intro k; exact hrel.shown k
         · intro k
           have := hrel.supp k
           by_cases hkk : k = cfg.key r.msg
           · subst hkk; simp_all
           · simp_all)
    · have hc' : (cfg.safety && cfg.critical r.msg.id) = false := by simpa using hc
      by_cases hm1 : cfg.key r.msg ∈ sS.suppressed <;> by_cases hm2 : cfg.key r.msg ∈ sT.suppressed <;>
        simp [logOne, hi, hrep, hl, hc', hke, hE, hm1, hm2, keep, hgo, Bool.and_assoc] <;>
        (constructor
         · intro k; exact hrel.shown k
         · intro k
           have := hrel.supp k
           by_cases hkk : k = cfg.key r.msg
           · subst hkk; simp_all
           · simp_all)
  have hl' : r.locSup = false := by simpa using hl
  by_cases hg : cfg.supG (sview cfg.simp r.msg) = true
  · -- only a global suppression matches
    have hgo : r.globalOnly cfg = true := by simp [Raw.globalOnly, hi, hrep, hl', hg]
    have hnc : (cfg.safety && cfg.critical r.msg.id) = false := by
      cases hs : cfg.safety <;> cases hc : cfg.critical r.msg.id <;> simp
      have := (hsafe hs hc).1
      rw [hg] at this
      cases this
    have hkeepf : keep cfg r.fwd = false := by
      simp [keep, fwd_severity, hi, sview_fwd, hg]
    by_cases hfix : cfg.dedupFix = true
    · by_cases hm1 : cfg.key r.msg ∈ sS.suppressed <;> by_cases hm2 : cfg.key r.msg ∈ sT.suppressed <;>
        simp [logOne, hi, hrep, hl', hg, hnc, hke, hE, hm1, hm2, hfix, hkeepf, hgo, Bool.and_assoc] <;>
        (constructor
         · intro k; exact hrel.shown k
         · intro k
           have := hrel.supp k
           by_cases hkk : k = cfg.key r.msg
           · subst hkk; simp_all
           · simp_all)
    · have hfix' : cfg.dedupFix = false := by simpa using hfix
      by_cases hm1 : cfg.key r.msg ∈ sS.suppressed <;> by_cases hm2 : cfg.key r.msg ∈ sT.shown <;>
        simp [logOne, hi, hrep, hl', hg, hnc, hke, hE, hm1, hm2, hfix', hkeepf, hgo, Bool.and_assoc] <;>
        (constructor
         · intro k
           have := hrel.shown k
           by_cases hkk : k = cfg.key r.msg
           · subst hkk; simp_all
           · simp_all
         · intro k
           have := hrel.supp k
           by_cases hkk : k = cfg.key r.msg
           · subst hkk; simp_all
           · simp_all)
  · -- reported by both loggers
    have hg' : cfg.supG (sview cfg.simp r.msg) = false := by simpa using hg
    have hgo : r.globalOnly cfg = false := by simp [Raw.globalOnly, hg']
    have hpl : r.plain cfg = true := by simp [Raw.plain, hi, hrep, hl', hg']
    have hnG := hG hpl
    have hkeepf : keep cfg r.fwd = true := by
      simp [keep, sview_fwd, hg']
    have hmem : cfg.key r.msg ∈ sT.shown ↔ cfg.key r.msg ∈ sS.shown := by
      rw [hrel.shown]; simp [hnG]
    by_cases hm1 : cfg.key r.msg ∈ sS.shown
    · have hm2 := hmem.2 hm1
      simp [logOne, hi, hrep, hl', hg', hke, hE, hm1, hm2, hgo, hrel]
    · have hm2 : cfg.key r.msg ∉ sT.shown := fun h => hm1 (hmem.1 h)
      simp [logOne, hi, hrep, hl', hg', hke, hE, hm1, hm2, hgo, hkeepf]
      constructor
      · intro k
        have := hrel.shown k
        by_cases hkk : k = cfg.key r.msg
        · subst hkk; simp_all
        · simp_all
      · exact hrel.supp

theorem logRun_cons (cfg : Cfg) (g : Bool) (seen : Seen) (r : Raw) (rs : List Raw) :
    logRun cfg g seen (r :: rs) =
      ((logOne cfg g seen r).1 ++ (logRun cfg g (logOne cfg g seen r).2.1 rs).1,
       (logOne cfg g seen r).2.2 || (logRun cfg g (logOne cfg g seen r).2.1 rs).2) := by
  simp only [logRun]

theorem logRun_rel (cfg : Cfg) (hE : cfg.emitDuplicates = false) :
    ∀ (rs : List Raw) (sS sT : Seen) (G : List Str), SeenRel sS sT G →
      (∀ r ∈ rs, cfg.key r.msg ≠ []) →
      (∀ r ∈ rs, cfg.safety = true → cfg.critical r.msg.id = true →
        cfg.supG (sview cfg.simp r.msg) = false ∧ cfg.supGX (sview cfg.simp r.msg) = false) →
      (∀ r ∈ rs, r.plain cfg = true → cfg.key r.msg ∉ G) →
      (cfg.dedupFix = true ∨ ∀ r ∈ rs, ∀ r' ∈ rs, r.globalOnly cfg = true → r'.plain cfg = true → cfg.key r.msg ≠ cfg.key r'.msg) →
      (logRun cfg true sS rs).1 = (logRun cfg false sT rs).1.filter (keep cfg) ∧
      (logRun cfg true sS rs).2 = (logRun cfg false sT rs).2 := by
  intro rs
  induction rs with
  | nil => intro sS sT G _ _ _ _ _; simp [logRun]
  | cons r rs ih =>
    intro sS sT G hrel hkey hsafe hG hcl
    obtain ⟨h1, h2, h3⟩ := logOne_rel cfg hE sS sT G r hrel (hkey r (by simp)) (hsafe r (by simp)) (hG r (by simp))
    have hG' : ∀ r' ∈ rs, r'.plain cfg = true →
        cfg.key r'.msg ∉ (if cfg.dedupFix = false ∧ r.globalOnly cfg = true then cfg.key r.msg :: G else G) := by
      intro r' hr' hp
      split
      · rename_i hc
        simp only [List.mem_cons, not_or]
        refine ⟨?_, hG r' (by simp [hr']) hp⟩
        rcases hcl with hf | hcl
        · rw [hf] at hc; exact absurd hc.1 (by simp)
        · exact fun e => hcl r (by simp) r' (by simp [hr']) hc.2 hp e.symm
      · exact hG r' (by simp [hr']) hp
    have hcl' : cfg.dedupFix = true ∨ ∀ a ∈ rs, ∀ b ∈ rs, a.globalOnly cfg = true → b.plain cfg = true → cfg.key a.msg ≠ cfg.key b.msg :=
      hcl.imp id (fun h a ha b hb => h a (by simp [ha]) b (by simp [hb]))
    obtain ⟨i1, i2⟩ := ih _ _ _ h3 (fun a ha => hkey a (by simp [ha])) (fun a ha => hsafe a (by simp [ha])) hG' hcl'
    rw [logRun_cons, logRun_cons]
    simp only [List.filter_append, h1, h2, i1, i2, and_self]

/-- every message a logger forwards is a raw message, its copy with the remark, or its internal-severity copy -/
theorem logOne_mem (cfg : Cfg) (g : Bool) (seen : Seen) (r : Raw) (m : Msg) (h : m ∈ (logOne cfg g seen r).1) :
    m = r.msg ∨ m = r.fwd ∨ m = asInternal r.msg := by
  unfold logOne at h
  split at h
  · simp at h; exact Or.inl h
  split at h
  · simp at h
  simp only at h
  repeat' split at h
  all_goals simp only [List.mem_append, List.mem_cons, List.not_mem_nil, or_false, false_or, List.nil_append] at h
  all_goals first
    | (rcases h with h | h <;> subst h <;> simp)
    | (subst h; simp)
    | (cases h)

theorem logRun_mem (cfg : Cfg) (g : Bool) : ∀ (rs : List Raw) (seen : Seen) (m : Msg), m ∈ (logRun cfg g seen rs).1 →
    ∃ r ∈ rs, m = r.msg ∨ m = r.fwd ∨ m = asInternal r.msg := by
  intro rs
  induction rs with
  | nil => intro seen m h; simp [logRun] at h
  | cons r rs ih =>
    intro seen m h
    rw [logRun_cons] at h
    simp only [List.mem_append] at h
    rcases h with h | h
    · exact ⟨r, by simp, logOne_mem cfg g seen r m h⟩
    · obtain ⟨r', hr', h'⟩ := ih _ m h
      exact ⟨r', by simp [hr'], h'⟩

/-! ### the single executor -/

theorem foldl_sinkStep (cfg : Cfg) (hE : cfg.emitDuplicates = false) :
    ∀ (L : List Msg) (s : Sink), s.shown = s.reported.map cfg.key2 → s.shown.Nodup →
      (L.foldl (sinkStep cfg) s).shown = (L.foldl (sinkStep cfg) s).reported.map cfg.key2 ∧
      (L.foldl (sinkStep cfg) s).shown.Nodup ∧
      (∀ k, k ∈ (L.foldl (sinkStep cfg) s).shown ↔ k ∈ s.shown ∨ ∃ m ∈ L, m.severity ≠ .internal ∧ cfg.key2 m = k) ∧
      (∀ m ∈ (L.foldl (sinkStep cfg) s).reported, m ∈ s.reported ∨ (m ∈ L ∧ m.severity ≠ .internal)) := by
  intro L
  induction L with
  | nil => intro s h1 h2; exact ⟨h1, h2, by simp, by simp⟩
  | cons x L ih =>
    intro s h1 h2
    simp only [List.foldl_cons]
    by_cases hi : x.severity = .internal
    · obtain ⟨e1, e2⟩ := sinkStep_internal cfg s x hi
      obtain ⟨a, b, c, d⟩ := ih (sinkStep cfg s x) (by rw [e1, e2]; exact h1) (by rw [e1]; exact h2)
      refine ⟨a, b, ?_, ?_⟩
      · intro k
        rw [c k, e1]
        constructor
        · rintro (h | ⟨m, hm, h⟩)
          · exact Or.inl h
          · exact Or.inr ⟨m, by simp [hm], h⟩
        · rintro (h | ⟨m, hm, h⟩)
          · exact Or.inl h
          · simp only [List.mem_cons] at hm
            rcases hm with e | hm
            · subst e; exact absurd hi h.1
            · exact Or.inr ⟨m, hm, h⟩
      · intro m hm
        rcases d m hm with h | h
        · rw [e2] at h; exact Or.inl h
        · exact Or.inr ⟨by simp [h.1], h.2⟩
    · rcases sinkStep_plain cfg hE s x hi with ⟨hk, e1, e2⟩ | ⟨hk, e1, e2⟩
      · obtain ⟨a, b, c, d⟩ := ih (sinkStep cfg s x) (by rw [e1, e2]; exact h1) (by rw [e1]; exact h2)
        refine ⟨a, b, ?_, ?_⟩
        · intro k
          rw [c k, e1]
          constructor
          · rintro (h | ⟨m, hm, h⟩)
            · exact Or.inl h
            · exact Or.inr ⟨m, by simp [hm], h⟩
          · rintro (h | ⟨m, hm, h⟩)
            · exact Or.inl h
            · simp only [List.mem_cons] at hm
              rcases hm with e | hm
              · subst e; rw [← h.2]; exact Or.inl hk
              · exact Or.inr ⟨m, hm, h⟩
        · intro m hm
          rcases d m hm with h | h
          · rw [e2] at h; exact Or.inl h
          · exact Or.inr ⟨by simp [h.1], h.2⟩
      · obtain ⟨a, b, c, d⟩ := ih (sinkStep cfg s x) (by rw [e1, e2, h1]; rfl) (by rw [e1]; exact List.nodup_cons.2 ⟨hk, h2⟩)
        refine ⟨a, b, ?_, ?_⟩
        · intro k
          rw [c k, e1]
          constructor
          · rintro (h | ⟨m, hm, h⟩)
            · simp only [List.mem_cons] at h
              rcases h with e | h
              · exact Or.inr ⟨x, by simp, hi, e.symm⟩
              · exact Or.inl h
            · exact Or.inr ⟨m, by simp [hm], h⟩
          · rintro (h | ⟨m, hm, h⟩)
            · exact Or.inl (by simp [h])
            · simp only [List.mem_cons] at hm
              rcases hm with e | hm
              · subst e; exact Or.inl (by simp [h.2])
              · exact Or.inr ⟨m, hm, h⟩
        · intro m hm
          rcases d m hm with h | h
          · rw [e2] at h
            simp only [List.mem_cons] at h
            rcases h with e | h
            · subst e; exact Or.inr ⟨by simp, hi⟩
            · exact Or.inl h
          · exact Or.inr ⟨by simp [h.1], h.2⟩

variable {F : Type}

theorem runSingle_eq (cfg : Cfg) (raws : F → List Raw) :
    ∀ (files : List F) (o : Outcome),
      files.foldl (singleFile cfg raws) o =
        { sink := (files.flatMap fun f => (logRun cfg true {} (raws f)).1).foldl (sinkStep cfg) o.sink,
          result := o.result + (files.map fun f => (logRun cfg true {} (raws f)).2.toNat).sum } := by
  intro files
  induction files with
  | nil => intro o; simp
  | cons f fs ih =>
    intro o
    simp only [List.foldl_cons, ih, singleFile, List.flatMap_cons, List.foldl_append, List.map_cons, List.sum_cons]
    congr 1
    omega

/-! ### decomposition of a list at an index -/

theorem getElem?_split {α : Type} : ∀ {l : List α} {i : Nat} {x : α}, l[i]? = some x →
    ∃ a b, l = a ++ x :: b ∧ a.length = i := by
  intro l
  induction l with
  | nil => intro i x h; simp at h
  | cons y l ih =>
    intro i x h
    cases i with
    | zero => simp at h; subst h; exact ⟨[], l, rfl, rfl⟩
    | succ i =>
      simp at h
      obtain ⟨a, b, e, hl⟩ := ih h
      exact ⟨y :: a, b, by simp [e], by simp [hl]⟩

theorem set_split {α : Type} (a b : List α) (x y : α) : (a ++ x :: b).set a.length y = a ++ y :: b := by
  induction a with
  | nil => rfl
  | cons z a ih => simp [ih]

/-! ### the thread system -/

/-- forwarded messages of one file / its exit bit, as a worker of -jN produces them -/
def outN (cfg : Cfg) (raws : F → List Raw) (f : F) : List Msg := (logRun cfg false {} (raws f)).1
def exN (cfg : Cfg) (raws : F → List Raw) (f : F) : Nat := (logRun cfg false {} (raws f)).2.toNat

def tRem (cfg : Cfg) (raws : F → List Raw) (s : TState F) : List Msg :=
  s.files.flatMap (outN cfg raws) ++ s.workers.flatMap (·.pending)

def tHeld (s : TState F) : List Msg := s.workers.flatMap fun w => w.held.toList

structure TInv (cfg : Cfg) (raws : F → List Raw) (All : List Msg) (total : Nat) (s : TState F) : Prop where
  inv : Inv cfg All (tRem cfg raws s) (tHeld s) s.el s.sink
  res : s.result + (s.files.map (exN cfg raws)).sum = total

theorem tstep_inv (cfg : Cfg) (hE : cfg.emitDuplicates = false) (raws : F → List Raw) (All : List Msg) (total : Nat)
    (s s' : TState F) (l : TLabel) (h : TInv cfg raws All total s) (hs : tstep cfg raws s l = some s') :
    TInv cfg raws All total s' := by
  cases l with
  | next i =>
    simp only [tstep] at hs
    split at hs
    · cases hs
    · rename_i w hw
      obtain ⟨a, b, hab, hlen⟩ := getElem?_split hw
      split at hs
      · cases hs
      · rename_i hcond
        simp only [Bool.or_eq_true, Bool.not_eq_true', List.isEmpty_iff, Option.isSome_iff_exists, not_or, not_exists] at hcond
        have hp : w.pending = [] := by
          have := hcond.1.2
          cases hpp : w.pending with
          | nil => rfl
          | cons x r => simp [hpp] at this
        split at hs
        · -- no file left: the worker finishes
          rename_i hf
          simp only [Option.some.injEq] at hs
          subst hs
          refine ⟨?_, ?_⟩
          · apply h.inv.congr
            · intro x
              simp only [tRem, hab, ← hlen, set_split, List.flatMap_append, List.flatMap_cons, List.mem_append]
            · intro x
              simp only [tHeld, hab, ← hlen, set_split, List.flatMap_append, List.flatMap_cons, List.mem_append]
          · simpa using h.res
        · rename_i f fs hf
          simp only [Option.some.injEq] at hs
          subst hs
          refine ⟨?_, ?_⟩
          · apply h.inv.congr
            · intro x
              simp only [tRem, hf, hab, ← hlen, set_split, List.flatMap_append, List.flatMap_cons, List.mem_append, hp, outN,
                List.not_mem_nil, false_or]
              constructor
              · rintro (h1 | h1 | h1 | h1)
                · exact Or.inl (Or.inr h1)
                · exact Or.inr (Or.inl h1)
                · exact Or.inl (Or.inl h1)
                · exact Or.inr (Or.inr h1)
              · rintro ((h1 | h1) | h1 | h1)
                · exact Or.inr (Or.inr (Or.inl h1))
                · exact Or.inl h1
                · exact Or.inr (Or.inl h1)
                · exact Or.inr (Or.inr (Or.inr h1))
            · intro x
              simp only [tHeld, hab, ← hlen, set_split, List.flatMap_append, List.flatMap_cons, List.mem_append]
          · have := h.res
            simp only [hf, List.map_cons, List.sum_cons, exN] at this ⊢
            omega
  | gate i =>
    simp only [tstep] at hs
    split at hs
    · cases hs
    · rename_i w hw
      obtain ⟨a, b, hab, hlen⟩ := getElem?_split hw
      split at hs
      · rename_i m rest hpend hheld
        simp only [Option.some.injEq] at hs
        subst hs
        refine ⟨?_, h.res⟩
        have hm : m ∈ tRem cfg raws s := by
          simp [tRem, hab, hpend]
        refine Inv.gate hE h.inv m hm ?_ ?_ ?_
        · intro x hx
          simp only [tRem, hab, ← hlen, set_split, List.flatMap_append, List.flatMap_cons, List.mem_append, hpend, List.mem_cons] at hx ⊢
          rcases hx with h1 | h1 | (h1 | h1) | h1
          · exact Or.inr (Or.inl h1)
          · exact Or.inr (Or.inr (Or.inl h1))
          · exact Or.inl h1
          · exact Or.inr (Or.inr (Or.inr (Or.inl h1)))
          · exact Or.inr (Or.inr (Or.inr (Or.inr h1)))
        · intro x hx
          simp only [tRem, hab, ← hlen, set_split, List.flatMap_append, List.flatMap_cons, List.mem_append, hpend, List.mem_cons] at hx ⊢
          rcases hx with h1 | h1 | h1 | h1
          · exact Or.inl h1
          · exact Or.inr (Or.inl h1)
          · exact Or.inr (Or.inr (Or.inl (Or.inr h1)))
          · exact Or.inr (Or.inr (Or.inr h1))
        · intro x
          simp only [tHeld, hab, ← hlen, set_split, List.flatMap_append, List.flatMap_cons, List.mem_append, hheld]
          cases hg : (gate cfg s.el m).1 <;> simp [or_comm, or_left_comm, eq_comm]
      · cases hs
  | print i =>
    simp only [tstep] at hs
    split at hs
    · cases hs
    · rename_i w hw
      obtain ⟨a, b, hab, hlen⟩ := getElem?_split hw
      split at hs
      · rename_i m hheld
        simp only [Option.some.injEq] at hs
        subst hs
        refine ⟨?_, h.res⟩
        have hm : m ∈ tHeld s := by
          simp [tHeld, hab, hheld]
        have := Inv.print hE (held' := tHeld { s with sink := sinkStep cfg s.sink m, workers := s.workers.set i { w with held := none } })
          h.inv m hm ?_ ?_
        · refine this.congr ?_ (fun _ => Iff.rfl)
          intro x
          simp only [tRem, hab, ← hlen, set_split, List.flatMap_append, List.flatMap_cons, List.mem_append]
        · intro x hx
          simp only [tHeld, hab, ← hlen, set_split, List.flatMap_append, List.flatMap_cons, List.mem_append, hheld,
            Option.toList_some, List.mem_singleton, Option.toList_none, List.not_mem_nil, false_or] at hx ⊢
          rcases hx with h1 | h1 | h1
          · exact Or.inr (Or.inl h1)
          · exact Or.inl h1
          · exact Or.inr (Or.inr h1)
        · intro x hx
          simp only [tHeld, hab, ← hlen, set_split, List.flatMap_append, List.flatMap_cons, List.mem_append, hheld,
            Option.toList_some, List.mem_singleton, Option.toList_none, List.not_mem_nil, false_or] at hx ⊢
          rcases hx with h1 | h1
          · exact Or.inl h1
          · exact Or.inr (Or.inr h1)
      · cases hs

theorem trun_inv (cfg : Cfg) (hE : cfg.emitDuplicates = false) (raws : F → List Raw) (All : List Msg) (total : Nat) :
    ∀ (σ : List TLabel) (s s' : TState F), TInv cfg raws All total s → trun cfg raws s σ = some s' →
      TInv cfg raws All total s' := by
  intro σ
  induction σ with
  | nil => intro s s' h hs; simp [trun] at hs; subst hs; exact h
  | cons l σ ih =>
    intro s s' h hs
    simp only [trun] at hs
    split at hs
    · cases hs
    · rename_i s1 h1
      exact ih s1 s' (tstep_inv cfg hE raws All total s s1 l h h1) hs

theorem tinit_inv (cfg : Cfg) (raws : F → List Raw) (files : List F) (jobs : Nat) :
    TInv cfg raws (forwarded cfg raws files) ((files.map (exN cfg raws)).sum) (tinit files jobs) := by
  refine ⟨?_, by simp [tinit]⟩
  apply (Inv.init cfg (forwarded cfg raws files)).congr
  · intro x
    have : (List.replicate jobs ({} : Worker)).flatMap (·.pending) = [] := by
      induction jobs with
      | zero => rfl
      | succ n ih => simp [List.replicate_succ, ih]
    simp [tRem, tinit, this, forwarded, outN]
  · intro x
    have : (List.replicate jobs ({} : Worker)).flatMap (fun w => w.held.toList) = [] := by
      induction jobs with
      | zero => rfl
      | succ n ih => simp [List.replicate_succ, ih]
    simp [tHeld, tinit, this]

theorem terminal_empty (cfg : Cfg) (raws : F → List Raw) (s : TState F) (h : s.terminal = true) :
    tRem cfg raws s = [] ∧ tHeld s = [] ∧ s.files = [] := by
  simp only [TState.terminal, Bool.and_eq_true, List.isEmpty_iff, List.all_eq_true, Option.isNone_iff_eq_none] at h
  obtain ⟨hf, hw⟩ := h
  refine ⟨?_, ?_, hf⟩
  · simp only [tRem, hf, List.flatMap_nil, List.nil_append]
    apply List.flatMap_eq_nil_iff.2
    intro w hw'
    exact (hw w hw').1.2
  · simp only [tHeld]
    apply List.flatMap_eq_nil_iff.2
    intro w hw'
    simp [(hw w hw').2]

/-! ### single executor = schedule-independent characterisation -/

/-- the three per-file hypotheses, as propositions -/
def FilesOK (cfg : Cfg) (raws : F → List Raw) (files : List F) : Prop :=
  ∀ f ∈ files, keyOK cfg (raws f) = true ∧ safetyOK cfg (raws f) = true ∧ dedupOK cfg (raws f) = true

theorem logRun_single_eq (cfg : Cfg) (hE : cfg.emitDuplicates = false) (rs : List Raw)
    (h1 : keyOK cfg rs = true) (h2 : safetyOK cfg rs = true) (h3 : dedupOK cfg rs = true) :
    (logRun cfg true {} rs).1 = (logRun cfg false {} rs).1.filter (keep cfg) ∧
    (logRun cfg true {} rs).2 = (logRun cfg false {} rs).2 := by
  simp only [keyOK, List.all_eq_true, Bool.and_eq_true, Bool.not_eq_true'] at h1
  apply logRun_rel cfg hE rs {} {} [] ⟨by simp, by simp⟩
  · intro r hr e
    have := (h1 r hr).1
    rw [e] at this
    simp at this
  · intro r hr hs hc
    simp only [safetyOK, hs, Bool.not_true, Bool.false_or, List.all_eq_true, Bool.or_eq_true, Bool.not_eq_true',
      Bool.and_eq_true] at h2
    rcases h2 r hr with h | h
    · rw [hc] at h; cases h
    · exact h
  · intro r _ _ h; cases h
  · simp only [dedupOK, Bool.or_eq_true, List.all_eq_true, Bool.not_eq_true', Bool.and_eq_false_iff, beq_eq_false_iff_ne] at h3
    rcases h3 with h | h
    · exact Or.inl h
    · right
      intro r hr r' hr' hg hp e
      rcases h r hr r' hr' with (h | h) | h
      · rw [hg] at h; cases h
      · rw [hp] at h; cases h
      · exact h e

theorem forwarded_key_ne (cfg : Cfg) (raws : F → List Raw) (files : List F) (hok : FilesOK cfg raws files)
    (m : Msg) (hm : m ∈ forwarded cfg raws files) (hi : m.severity ≠ .internal) : cfg.keyGate m ≠ [] := by
  simp only [forwarded, List.mem_flatMap] at hm
  obtain ⟨f, hf, hm⟩ := hm
  obtain ⟨r, hr, hcase⟩ := logRun_mem cfg false (raws f) {} m hm
  have h1 := (hok f hf).1
  simp only [keyOK, List.all_eq_true, Bool.and_eq_true, Bool.not_eq_true'] at h1
  have := h1 r hr
  rcases hcase with e | e | e
  · subst e; intro e; rw [e] at this; simp at this
  · subst e; intro e; rw [e] at this; simp at this
  · subst e; exact absurd rfl hi

theorem single_spec (cfg : Cfg) (hE : cfg.emitDuplicates = false) (raws : F → List Raw) (files : List F)
    (hok : FilesOK cfg raws files) :
    (runSingle cfg raws files).sink.shown = (runSingle cfg raws files).sink.reported.map cfg.key2 ∧
    (runSingle cfg raws files).sink.shown.Nodup ∧
    (∀ k, k ∈ (runSingle cfg raws files).sink.shown ↔ ∃ m ∈ forwarded cfg raws files, Passes cfg m ∧ cfg.key2 m = k) ∧
    (∀ m ∈ (runSingle cfg raws files).sink.reported, m ∈ forwarded cfg raws files) ∧
    (runSingle cfg raws files).result = (files.map (exN cfg raws)).sum := by
  have hflat : (files.flatMap fun f => (logRun cfg true {} (raws f)).1) = (forwarded cfg raws files).filter (keep cfg) := by
    simp only [forwarded]
    induction files with
    | nil => rfl
    | cons f fs ih =>
      have := hok f (by simp)
      simp only [List.flatMap_cons, List.filter_append, (logRun_single_eq cfg hE (raws f) this.1 this.2.1 this.2.2).1]
      rw [ih (fun g hg => hok g (by simp [hg]))]
  have hsum : (files.map fun f => (logRun cfg true {} (raws f)).2.toNat) = files.map (exN cfg raws) := by
    apply List.map_congr_left
    intro f hf
    have := hok f hf
    simp only [exN, (logRun_single_eq cfg hE (raws f) this.1 this.2.1 this.2.2).2]
  unfold runSingle
  rw [runSingle_eq, hflat, hsum]
  obtain ⟨a, b, c, d⟩ := foldl_sinkStep cfg hE ((forwarded cfg raws files).filter (keep cfg)) {} rfl List.nodup_nil
  refine ⟨a, b, ?_, ?_, by simp⟩
  · intro k
    rw [c k]
    simp only [List.not_mem_nil, false_or, List.mem_filter]
    constructor
    · rintro ⟨m, ⟨hm, hkeep⟩, hi, e⟩
      refine ⟨m, hm, ⟨hi, ?_, forwarded_key_ne cfg raws files hok m hm hi⟩, e⟩
      simpa [keep, hi] using hkeep
    · rintro ⟨m, hm, hp, e⟩
      exact ⟨m, ⟨hm, by simp [keep, hp.2.1]⟩, hp.1, e⟩
  · intro m hm
    rcases d m hm with h | h
    · cases h
    · exact (List.mem_filter.1 h.1).1

/-- any system that ends with the gate/sink invariant on an empty pool agrees with the single executor -/
theorem outcome_eq_single {β : Type} (cfg : Cfg) (hE : cfg.emitDuplicates = false) (raws : F → List Raw) (files : List F)
    (hok : FilesOK cfg raws files)
    (hk : ∀ m ∈ forwarded cfg raws files, ∀ m' ∈ forwarded cfg raws files, cfg.keyGate m = cfg.keyGate m' → cfg.key2 m = cfg.key2 m')
    (el : List Str) (sink : Sink) (hinv : Inv cfg (forwarded cfg raws files) [] [] el sink) :
    (sink.reported.map cfg.key2).Perm ((runSingle cfg raws files).sink.reported.map cfg.key2) ∧
    ∀ (obs : Msg → β), (∀ m ∈ forwarded cfg raws files, ∀ m' ∈ forwarded cfg raws files, cfg.key2 m = cfg.key2 m' → obs m = obs m') →
      (sink.reported.map obs).Perm ((runSingle cfg raws files).sink.reported.map obs) := by
  obtain ⟨a, b, c, d, _⟩ := single_spec cfg hE raws files hok
  have hperm : (sink.reported.map cfg.key2).Perm ((runSingle cfg raws files).sink.reported.map cfg.key2) := by
    rw [← hinv.shown_eq, ← a]
    apply (List.perm_ext_iff_of_nodup hinv.nodup b).2
    intro k
    rw [hinv.final hk k, c k]
  refine ⟨hperm, ?_⟩
  intro obs hobs
  apply Dedup.perm_map_of_perm_keys cfg.key2 obs _ _ hperm
  intro x hx y hy e
  exact hobs x (hinv.reported x hx).1 y (d y hy) e

/-! ### the process system -/

/-- effect of one complete, well-formed message on the parent (abstract view of `handleRead`): new state, pipe closed -/
def applyEv (cfg : Cfg) (p : Parent) : Ev → Parent × Bool
  | .err m =>
    ({ p with el := (gate cfg p.el m).2, sink := if (gate cfg p.el m).1 then sinkStep cfg p.sink m else p.sink }, false)
  | .suppr inl s =>
    (match supprDecode cfg.simp inl (supprEncode s) with
     | .ok s' => { p with recv := p.recv ++ [s'] }
     | .error _ => p, false)
  | .done n => ({ p with result := p.result + n }, true)

theorem supprEncode_ne_nil (s : Suppr) : (supprEncode s).isEmpty = false := by
  unfold supprEncode
  cases s.toStr <;> simp

theorem deserialize_good (cfg : Cfg) (m : Msg) (h : (Ev.err m).good cfg = true) :
    deserialize cfg.simp (serialize m) = .ok m ∧ (serialize m).length < two32 := by
  simp only [Ev.good, Bool.and_eq_true, decide_eq_true_eq] at h
  obtain ⟨⟨h1, h2⟩, h3⟩ := h
  refine ⟨?_, h2⟩
  have := deserialize_serialize_aux cfg.simp m h1
  rw [h3] at this
  exact this

theorem parentRead_frame (cfg : Cfg) (p : Parent) (ev : Ev) (rest : Str) (h : ev.good cfg = true) :
    parentRead cfg p (ev.frame ++ rest) =
      if (applyEv cfg p ev).2 then .closed (applyEv cfg p ev).1 else .cont (applyEv cfg p ev).1 rest := by
  cases ev with
  | err m =>
    obtain ⟨hd, hl⟩ := deserialize_good cfg m h
    simp only [Ev.frame, parentRead, readFrame_frame '2' (serialize m) rest (by decide) hl, ↓reduceIte, hd, applyEv,
      Bool.false_eq_true]
  | suppr inl s =>
    simp only [Ev.good, Bool.and_eq_true, decide_eq_true_eq] at h
    obtain ⟨hl, hdec⟩ := h
    cases inl with
    | true =>
      simp only [Ev.frame, parentRead, readFrame_frame '3' (supprEncode s) rest (by decide) hl, supprEncode_ne_nil, applyEv]
      cases hd : supprDecode cfg.simp true (supprEncode s) with
      | ok s' => simp [hd]
      | error e => simp [hd] at hdec
    | false =>
      simp only [Ev.frame, parentRead, readFrame_frame '4' (supprEncode s) rest (by decide) hl, supprEncode_ne_nil, applyEv]
      cases hd : supprDecode cfg.simp false (supprEncode s) with
      | ok s' => simp [hd]
      | error e => simp [hd] at hdec
  | done n =>
    simp only [Ev.good, decide_eq_true_eq] at h
    have hn : n = 0 ∨ n = 1 := by omega
    rcases hn with e | e <;> subst e
    · have h1 : readFrame (Serialize.frame '5' (render 0) ++ rest) = .msg '5' (render 0) rest := readFrame_frame _ _ _ (by decide) (by decide)
      have h2 : stoi (render 0) = some 0 := by decide
      simp [Ev.frame, parentRead, h1, h2, applyEv, addResult]
    · have h1 : readFrame (Serialize.frame '5' (render 1) ++ rest) = .msg '5' (render 1) rest := readFrame_frame _ _ _ (by decide) (by decide)
      have h2 : stoi (render 1) = some 1 := by decide
      simp [Ev.frame, parentRead, h1, h2, applyEv, addResult]


/-- a worker whose pipe holds whole events instead of bytes (proof device; `conc` gives the modelled worker back) -/
structure AChild where
  todo : List Ev
  sent : List Ev := []
  exited : Bool := false
  isOpen : Bool := true
  reaped : Bool := false

def AChild.conc (c : AChild) : Child :=
  { todo := c.todo, pipe := c.sent.flatMap Ev.frame, exited := c.exited, isOpen := c.isOpen, reaped := c.reaped }

structure AState (F : Type) where
  files : List F
  children : List AChild := []
  parent : Parent := {}

def AState.conc (a : AState F) : PState F :=
  { files := a.files, children := a.children.map AChild.conc, parent := a.parent, dead := false }

def astep (cfg : Cfg) (jobs : Nat) (raws : F → List Raw) (sups : F → List (Bool × Suppr)) (a : AState F) :
    PLabel → Option (AState F)
  | .fork =>
    match a.files with
    | [] => none
    | f :: fs =>
      if (a.children.filter (fun c => !c.reaped)).length < jobs then
        some { a with files := fs, children := a.children ++ [{ todo := childEvents cfg raws sups f }] }
      else none
  | .send i =>
    match a.children[i]? with
    | none => none
    | some c =>
      match c.todo with
      | [] => none
      | ev :: rest => if c.exited then none else some { a with children := a.children.set i { c with todo := rest, sent := c.sent ++ [ev] } }
  | .exit i =>
    match a.children[i]? with
    | none => none
    | some c => if c.exited || !c.todo.isEmpty then none else some { a with children := a.children.set i { c with exited := true } }
  | .read i =>
    match a.children[i]? with
    | none => none
    | some c =>
      if !c.isOpen || (c.sent.isEmpty && !c.exited) then none
      else match c.sent with
        | [] => some { a with parent := { a.parent with result := a.parent.result + 1 },
                              children := a.children.set i { c with sent := [], isOpen := false } }
        | ev :: rest =>
          if (applyEv cfg a.parent ev).2 then
            some { a with parent := (applyEv cfg a.parent ev).1, children := a.children.set i { c with sent := [], isOpen := false } }
          else
            some { a with parent := (applyEv cfg a.parent ev).1, children := a.children.set i { c with sent := rest } }
  | .reap i =>
    match a.children[i]? with
    | none => none
    | some c => if !c.exited || c.reaped then none else some { a with children := a.children.set i { c with reaped := true } }

def AGood (cfg : Cfg) (a : AState F) : Prop := ∀ c ∈ a.children, ∀ ev ∈ c.sent ++ c.todo, ev.good cfg = true

theorem frame_ne_nil (ev : Ev) : ev.frame ≠ [] := by
  cases ev with
  | err m => simp [Ev.frame, Serialize.frame]
  | suppr inl s => cases inl <;> simp [Ev.frame, Serialize.frame]
  | done n => simp [Ev.frame, Serialize.frame]

theorem pipe_isEmpty (l : List Ev) : (l.flatMap Ev.frame).isEmpty = l.isEmpty := by
  cases l with
  | nil => rfl
  | cons ev r =>
    have := frame_ne_nil ev
    cases h : ev.frame with
    | nil => exact absurd h this
    | cons x y => simp [h]

theorem conc_set (l : List AChild) (i : Nat) (c : AChild) : (l.map AChild.conc).set i c.conc = (l.set i c).map AChild.conc := by
  rw [List.map_set]

/-- the byte-level process model, started from (the concretisation of) an abstract state whose events are all
    well-formed, makes exactly the abstract step -/
theorem pstep_conc (cfg : Cfg) (jobs : Nat) (raws : F → List Raw) (sups : F → List (Bool × Suppr)) (a : AState F)
    (hg : AGood cfg a) (l : PLabel) :
    pstep cfg jobs raws sups a.conc l = (astep cfg jobs raws sups a l).map AState.conc := by
  cases l with
  | fork =>
    simp only [pstep, astep, AState.conc, Bool.false_eq_true, ↓reduceIte]
    cases a.files with
    | nil => rfl
    | cons f fs =>
      have : (List.filter (fun c => !c.reaped) (List.map AChild.conc a.children)).length =
          (List.filter (fun c => !c.reaped) a.children).length := by
        rw [List.filter_map, List.length_map]
        rfl
      simp only [this]
      split <;> simp [AState.conc, AChild.conc]
  | send i =>
    simp only [pstep, astep, AState.conc, List.getElem?_map]
    cases hc : a.children[i]? with
    | none => rfl
    | some c =>
      simp only [Option.map_some, AChild.conc]
      cases ht : c.todo with
      | nil => rfl
      | cons ev rest =>
        simp only
        split
        · rfl
        · simp only [Option.map_some, AState.conc, Option.some.injEq]
          congr 1
          rw [← conc_set]
          simp [AChild.conc, List.flatMap_append]
  | exit i =>
    simp only [pstep, astep, AState.conc, List.getElem?_map]
    cases hc : a.children[i]? with
    | none => rfl
    | some c =>
      simp only [Option.map_some, AChild.conc]
      split
      · rfl
      · simp only [Option.map_some, AState.conc, Option.some.injEq]
        congr 1
        rw [← conc_set]
        simp [AChild.conc]
  | reap i =>
    simp only [pstep, astep, AState.conc, List.getElem?_map, Bool.false_eq_true, ↓reduceIte]
    cases hc : a.children[i]? with
    | none => rfl
    | some c =>
      simp only [Option.map_some, AChild.conc]
      split
      · rfl
      · simp only [Option.map_some, AState.conc, Option.some.injEq]
        congr 1
        rw [← conc_set]
        simp [AChild.conc]
  | read i =>
    simp only [pstep, astep, AState.conc, List.getElem?_map, Bool.false_eq_true, ↓reduceIte]
    cases hc : a.children[i]? with
    | none => rfl
    | some c =>
      have hmem : c ∈ a.children := List.mem_of_getElem? hc
      simp only [Option.map_some, AChild.conc, pipe_isEmpty]
      split
      · rfl
      · cases hs : c.sent with
        | nil =>
          simp only [List.flatMap_nil, parentRead, readFrame, Option.map_some, AState.conc, Option.some.injEq]
          congr 1
          rw [← conc_set]
          simp [AChild.conc]
        | cons ev rest =>
          have hgood : ev.good cfg = true := hg c hmem ev (by simp [hs])
          simp only [List.flatMap_cons, parentRead_frame cfg a.parent ev _ hgood]
          cases hcl : (applyEv cfg a.parent ev).2 with
          | true =>
            simp only [↓reduceIte, Option.map_some, AState.conc, Option.some.injEq]
            congr 1
            rw [← conc_set]
            simp [AChild.conc]
          | false =>
            simp only [Bool.false_eq_true, ↓reduceIte, Option.map_some, AState.conc, Option.some.injEq]
            congr 1
            rw [← conc_set]
            simp [AChild.conc]


def errsOf (evs : List Ev) : List Msg := evs.filterMap fun e => match e with | .err m => some m | _ => none
def doneSum (evs : List Ev) : Nat := (evs.filterMap fun e => match e with | .done n => some n | _ => none).sum
def AChild.evs (c : AChild) : List Ev := c.sent ++ c.todo

def aRem (cfg : Cfg) (raws : F → List Raw) (a : AState F) : List Msg :=
  a.files.flatMap (outN cfg raws) ++ a.children.flatMap fun c => errsOf c.evs

/-- shape of a worker: `done` is its last event; once the parent has read it nothing is left -/
structure ChildOK (c : AChild) : Prop where
  exited_ok : c.exited = true → c.todo = []
  open_ok : c.isOpen = true → ∃ pre n, c.evs = pre ++ [Ev.done n] ∧ ∀ e ∈ pre, ∀ k, e ≠ Ev.done k
  closed_ok : c.isOpen = false → c.sent = [] ∧ c.todo = []

structure AInv (cfg : Cfg) (raws : F → List Raw) (files : List F) (total : Nat) (a : AState F) : Prop where
  good : AGood cfg a
  sub : ∀ f ∈ a.files, f ∈ files
  inv : Inv cfg (forwarded cfg raws files) (aRem cfg raws a) [] a.parent.el a.parent.sink
  res : a.parent.result + (a.files.map (exN cfg raws)).sum + (a.children.map fun c => doneSum c.evs).sum = total
  shape : ∀ c ∈ a.children, ChildOK c

theorem errsOf_append (a b : List Ev) : errsOf (a ++ b) = errsOf a ++ errsOf b := by simp [errsOf, List.filterMap_append]
theorem doneSum_append (a b : List Ev) : doneSum (a ++ b) = doneSum a + doneSum b := by
  simp [doneSum, List.filterMap_append, List.sum_append]

theorem childEvents_errs (cfg : Cfg) (raws : F → List Raw) (sups : F → List (Bool × Suppr)) (f : F) :
    errsOf (childEvents cfg raws sups f) = outN cfg raws f := by
  simp only [childEvents, outN, errsOf, List.filterMap_append, List.filterMap_map]
  have h1 : ∀ l : List Msg, List.filterMap ((fun e => match e with | Ev.err m => some m | _ => none) ∘ Ev.err) l = l := by
    intro l; induction l with
    | nil => rfl
    | cons x l ih => simp [List.filterMap_cons, ih]
  have h2 : ∀ l : List (Bool × Suppr), List.filterMap ((fun e => match e with | Ev.err m => some m | _ => none) ∘ fun p => Ev.suppr p.1 p.2) l = [] := by
    intro l; induction l with
    | nil => rfl
    | cons x l ih => simp [List.filterMap_cons, ih]
  simp [h1, h2]

theorem childEvents_done (cfg : Cfg) (raws : F → List Raw) (sups : F → List (Bool × Suppr)) (f : F) :
    doneSum (childEvents cfg raws sups f) = exN cfg raws f := by
  simp only [childEvents, exN, doneSum, List.filterMap_append, List.filterMap_map]
  have h1 : ∀ l : List Msg, List.filterMap ((fun e => match e with | Ev.done n => some n | _ => none) ∘ Ev.err) l = [] := by
    intro l; induction l with
    | nil => rfl
    | cons x l ih => simp [List.filterMap_cons, ih]
  have h2 : ∀ l : List (Bool × Suppr), List.filterMap ((fun e => match e with | Ev.done n => some n | _ => none) ∘ fun p => Ev.suppr p.1 p.2) l = [] := by
    intro l; induction l with
    | nil => rfl
    | cons x l ih => simp [List.filterMap_cons, ih]
  simp [h1, h2]

theorem childEvents_shape (cfg : Cfg) (raws : F → List Raw) (sups : F → List (Bool × Suppr)) (f : F) :
    ∃ pre n, childEvents cfg raws sups f = pre ++ [Ev.done n] ∧ ∀ e ∈ pre, ∀ k, e ≠ Ev.done k := by
  refine ⟨_, _, rfl, ?_⟩
  intro e he k
  simp only [List.mem_append, List.mem_map] at he
  rcases he with ⟨m, _, rfl⟩ | ⟨p, _, rfl⟩ <;> simp

theorem Inv.deliver {cfg : Cfg} (hE : cfg.emitDuplicates = false) {All rem rem' : List Msg} {el : List Str} {sink : Sink}
    (h : Inv cfg All rem [] el sink) (m : Msg) (hm : m ∈ rem)
    (hr1 : ∀ x ∈ rem, x = m ∨ x ∈ rem') (hr2 : ∀ x ∈ rem', x ∈ rem) :
    Inv cfg All rem' [] (Exec.gate cfg el m).2 (if (Exec.gate cfg el m).1 then sinkStep cfg sink m else sink) := by
  have h1 := Inv.gate hE (held' := if (Exec.gate cfg el m).1 then [m] else []) h m hm hr1 hr2 (by
    intro x
    cases (Exec.gate cfg el m).1 <;> simp)
  cases hg : (Exec.gate cfg el m).1 with
  | false => simpa [hg] using h1
  | true =>
    simp only [hg, ↓reduceIte] at h1 ⊢
    exact Inv.print hE h1 m (by simp) (by intro x hx; simp at hx; exact Or.inl hx) (by intro x hx; cases hx)

theorem flatMap_split {α β : Type} (f : α → List β) (a b : List α) (x : α) (y : β) :
    y ∈ (a ++ x :: b).flatMap f ↔ y ∈ a.flatMap f ∨ y ∈ f x ∨ y ∈ b.flatMap f := by
  simp [List.flatMap_append]

theorem astep_inv (cfg : Cfg) (hE : cfg.emitDuplicates = false) (jobs : Nat) (raws : F → List Raw)
    (sups : F → List (Bool × Suppr)) (files : List F) (total : Nat)
    (hgood : ∀ f ∈ files, ∀ ev ∈ childEvents cfg raws sups f, ev.good cfg = true)
    (a a' : AState F) (l : PLabel) (h : AInv cfg raws files total a) (hs : astep cfg jobs raws sups a l = some a') :
    AInv cfg raws files total a' := by
  cases l with
  | fork =>
    simp only [astep] at hs
    split at hs
    · cases hs
    · rename_i f fs hf
      split at hs
      · simp only [Option.some.injEq] at hs
        subst hs
        have hfm : f ∈ files := h.sub f (by simp [hf])
        refine ⟨?_, fun g hg => h.sub g (by simp [hf, hg]), ?_, ?_, ?_⟩
        · intro c hc ev hev
          simp only [List.mem_append, List.mem_singleton] at hc
          rcases hc with hc | hc
          · exact h.good c hc ev hev
          · subst hc
            simp only [List.nil_append] at hev
            exact hgood f hfm ev hev
        · apply h.inv.congr (hh := fun _ => Iff.rfl)
          intro x
          simp only [aRem, hf, List.flatMap_cons, List.flatMap_append, List.mem_append, List.flatMap_nil, List.append_nil,
            AChild.evs, List.nil_append, childEvents_errs]
          constructor
          · rintro (h1 | h1 | h1)
            · exact Or.inl (Or.inr h1)
            · exact Or.inr h1
            · exact Or.inl (Or.inl h1)
          · rintro ((h1 | h1) | h1)
            · exact Or.inr (Or.inr h1)
            · exact Or.inl h1
            · exact Or.inr (Or.inl h1)
        · have := h.res
          simp only [hf, List.map_cons, List.sum_cons, List.map_append, List.sum_append, List.map_nil, List.sum_nil,
            AChild.evs, List.nil_append, childEvents_done] at this ⊢
          omega
        · intro c hc
          simp only [List.mem_append, List.mem_singleton] at hc
          rcases hc with hc | hc
          · exact h.shape c hc
          · subst hc
            refine ⟨(by intro e; cases e), fun _ => ?_, (by intro e; cases e)⟩
            simpa [AChild.evs] using childEvents_shape cfg raws sups f
      · cases hs
  | send i =>
    simp only [astep] at hs
    split at hs
    · cases hs
    · rename_i c hc
      obtain ⟨la, lb, hab, hlen⟩ := getElem?_split hc
      have hcm : c ∈ a.children := List.mem_of_getElem? hc
      split at hs
      · cases hs
      · rename_i ev rest htodo
        split at hs
        · cases hs
        · rename_i hex
          simp only [Option.some.injEq] at hs
          subst hs
          have hevs : ({ c with todo := rest, sent := c.sent ++ [ev] } : AChild).evs = c.evs := by
            simp [AChild.evs, htodo]
          refine ⟨?_, h.sub, ?_, ?_, ?_⟩
          · intro c' hc' e he
            simp only [hab, ← hlen, set_split, List.mem_append, List.mem_cons] at hc'
            rcases hc' with hc' | hc' | hc'
            · exact h.good c' (by simp [hab, hc']) e he
            · subst hc'
              have : e ∈ c.sent ++ c.todo := by
                simp only [List.mem_append, List.append_assoc, List.mem_cons, List.not_mem_nil, or_false] at he
                simp only [htodo, List.mem_append, List.mem_cons]
                rcases he with h1 | h1 | h1
                · exact Or.inl h1
                · exact Or.inr (Or.inl h1)
                · exact Or.inr (Or.inr h1)
              exact h.good c hcm e this
            · exact h.good c' (by simp [hab, hc']) e he
          · apply h.inv.congr (hh := fun _ => Iff.rfl)
            intro x
            simp only [aRem, hab, ← hlen, set_split, List.flatMap_append, List.flatMap_cons, hevs]
          · have := h.res
            simp only [hab, ← hlen, set_split, List.map_append, List.map_cons, hevs] at this ⊢
            exact this
          · intro c' hc'
            simp only [hab, ← hlen, set_split, List.mem_append, List.mem_cons] at hc'
            rcases hc' with hc' | hc' | hc'
            · exact h.shape c' (by simp [hab, hc'])
            · subst hc'
              obtain ⟨s1, s2, s3⟩ := h.shape c hcm
              refine ⟨fun e => by simp [hex] at e, ?_, ?_⟩
              · intro ho
                rw [hevs]
                exact s2 ho
              · intro ho
                have := (s3 ho).2
                rw [htodo] at this
                cases this
            · exact h.shape c' (by simp [hab, hc'])
  | exit i =>
    simp only [astep] at hs
    split at hs
    · cases hs
    · rename_i c hc
      obtain ⟨la, lb, hab, hlen⟩ := getElem?_split hc
      have hcm : c ∈ a.children := List.mem_of_getElem? hc
      split at hs
      · cases hs
      · rename_i hcond
        simp only [Bool.or_eq_true, Bool.not_eq_true', not_or, Bool.not_eq_true, Bool.not_eq_false] at hcond
        have htodo : c.todo = [] := by simpa using hcond.2
        simp only [Option.some.injEq] at hs
        subst hs
        refine ⟨?_, h.sub, ?_, ?_, ?_⟩
        · intro c' hc' e he
          simp only [hab, ← hlen, set_split, List.mem_append, List.mem_cons] at hc'
          rcases hc' with hc' | hc' | hc'
          · exact h.good c' (by simp [hab, hc']) e he
          · subst hc'; exact h.good c hcm e he
          · exact h.good c' (by simp [hab, hc']) e he
        · apply h.inv.congr (hh := fun _ => Iff.rfl)
          intro x
          simp only [aRem, hab, ← hlen, set_split, List.flatMap_append, List.flatMap_cons, AChild.evs]
        · have := h.res
          simp only [hab, ← hlen, set_split, List.map_append, List.map_cons, AChild.evs] at this ⊢
          exact this
        · intro c' hc'
          simp only [hab, ← hlen, set_split, List.mem_append, List.mem_cons] at hc'
          rcases hc' with hc' | hc' | hc'
          · exact h.shape c' (by simp [hab, hc'])
          · subst hc'
            obtain ⟨s1, s2, s3⟩ := h.shape c hcm
            exact ⟨fun _ => htodo, s2, s3⟩
          · exact h.shape c' (by simp [hab, hc'])
  | reap i =>
    simp only [astep] at hs
    split at hs
    · cases hs
    · rename_i c hc
      obtain ⟨la, lb, hab, hlen⟩ := getElem?_split hc
      have hcm : c ∈ a.children := List.mem_of_getElem? hc
      split at hs
      · cases hs
      · simp only [Option.some.injEq] at hs
        subst hs
        refine ⟨?_, h.sub, ?_, ?_, ?_⟩
        · intro c' hc' e he
          simp only [hab, ← hlen, set_split, List.mem_append, List.mem_cons] at hc'
          rcases hc' with hc' | hc' | hc'
          · exact h.good c' (by simp [hab, hc']) e he
          · subst hc'; exact h.good c hcm e he
          · exact h.good c' (by simp [hab, hc']) e he
        · apply h.inv.congr (hh := fun _ => Iff.rfl)
          intro x
          simp only [aRem, hab, ← hlen, set_split, List.flatMap_append, List.flatMap_cons, AChild.evs]
        · have := h.res
          simp only [hab, ← hlen, set_split, List.map_append, List.map_cons, AChild.evs] at this ⊢
          exact this
        · intro c' hc'
          simp only [hab, ← hlen, set_split, List.mem_append, List.mem_cons] at hc'
          rcases hc' with hc' | hc' | hc'
          · exact h.shape c' (by simp [hab, hc'])
          · subst hc'; exact ⟨(h.shape c hcm).1, (h.shape c hcm).2, (h.shape c hcm).3⟩
          · exact h.shape c' (by simp [hab, hc'])
  | read i =>
    simp only [astep] at hs
    split at hs
    · cases hs
    · rename_i c hc
      obtain ⟨la, lb, hab, hlen⟩ := getElem?_split hc
      have hcm : c ∈ a.children := List.mem_of_getElem? hc
      obtain ⟨s1, s2, s3⟩ := h.shape c hcm
      split at hs
      · cases hs
      · rename_i hcond
        simp only [Bool.or_eq_true, Bool.not_eq_true', Bool.and_eq_true, not_or, Bool.not_eq_false, not_and] at hcond
        obtain ⟨hopen, hne⟩ := hcond
        obtain ⟨pre, n, hevs, hpre⟩ := s2 hopen
        split at hs
        · -- an open pipe at end-of-file cannot occur: `done` has not been read yet
          rename_i hsent
          exfalso
          have hex : c.exited = true := by
            have := hne (by simp [hsent])
            simpa using this
          have := s1 hex
          simp [AChild.evs, hsent, this] at hevs
        · rename_i ev rest hsent
          have hevg : ev.good cfg = true := h.good c hcm ev (by simp [hsent])
          have hevs' : ev :: (rest ++ c.todo) = pre ++ [Ev.done n] := by
            rw [← hevs]; simp [AChild.evs, hsent]
          cases ev with
          | done k =>
            -- the end marker: nothing else is left in this worker
            have hpn : pre = [] := by
              cases pre with
              | nil => rfl
              | cons x pre' =>
                simp only [List.cons_append, List.cons.injEq] at hevs'
                exact absurd hevs'.1.symm (hpre x (by simp) k)
            subst hpn
            simp only [List.nil_append, List.cons.injEq, Ev.done.injEq, List.append_eq_nil_iff] at hevs'
            obtain ⟨hkn, hrest, htodo⟩ := hevs'
            simp only [applyEv, ↓reduceIte, Option.some.injEq] at hs
            subst hs
            refine ⟨?_, h.sub, ?_, ?_, ?_⟩
            · intro c' hc' e he
              simp only [hab, ← hlen, set_split, List.mem_append, List.mem_cons] at hc'
              rcases hc' with hc' | hc' | hc'
              · exact h.good c' (by simp [hab, hc']) e he
              · subst hc'; simp [htodo] at he
              · exact h.good c' (by simp [hab, hc']) e he
            · apply h.inv.congr (hh := fun _ => Iff.rfl)
              intro x
              simp only [aRem, hab, ← hlen, set_split, List.flatMap_append, List.flatMap_cons, AChild.evs, hsent, hrest, htodo,
                errsOf, List.nil_append, List.filterMap_nil, List.append_nil, List.filterMap_cons]
            · have := h.res
              simp only [hab, ← hlen, set_split, List.map_append, List.map_cons, AChild.evs, hsent, hrest, htodo, doneSum,
                List.sum_append, List.sum_cons, List.nil_append, List.filterMap_nil, List.append_nil, List.filterMap_cons,
                List.sum_nil] at this ⊢
              omega
            · intro c' hc'
              simp only [hab, ← hlen, set_split, List.mem_append, List.mem_cons] at hc'
              rcases hc' with hc' | hc' | hc'
              · exact h.shape c' (by simp [hab, hc'])
              · subst hc'
                exact ⟨fun _ => htodo, (by intro e; cases e), fun _ => ⟨rfl, htodo⟩⟩
              · exact h.shape c' (by simp [hab, hc'])
          | err m =>
            have hpc : ∃ pre', pre = Ev.err m :: pre' := by
              cases pre with
              | nil => simp at hevs'
              | cons x pre' => simp only [List.cons_append, List.cons.injEq] at hevs'; exact ⟨pre', by rw [hevs'.1]⟩
            obtain ⟨pre', hp'⟩ := hpc
            subst hp'
            simp only [List.cons_append, List.cons.injEq, true_and] at hevs'
            simp only [applyEv, Bool.false_eq_true, ↓reduceIte, Option.some.injEq] at hs
            subst hs
            have hmrem : m ∈ aRem cfg raws a := by
              simp [aRem, hab, AChild.evs, hsent, errsOf]
            refine ⟨?_, h.sub, ?_, ?_, ?_⟩
            · intro c' hc' e he
              simp only [hab, ← hlen, set_split, List.mem_append, List.mem_cons] at hc'
              rcases hc' with hc' | hc' | hc'
              · exact h.good c' (by simp [hab, hc']) e he
              · subst hc'
                exact h.good c hcm e (by
                  simp only [List.mem_append] at he ⊢
                  rcases he with h1 | h1
                  · exact Or.inl (by simp [hsent, h1])
                  · exact Or.inr h1)
              · exact h.good c' (by simp [hab, hc']) e he
            · refine Inv.deliver hE h.inv m hmrem ?_ ?_
              · intro x hx
                simp only [aRem, hab, ← hlen, set_split, List.mem_append, flatMap_split, AChild.evs, hsent, errsOf,
                  List.cons_append, List.filterMap_cons, List.mem_cons] at hx ⊢
                rcases hx with h1 | h1 | (h1 | h1) | h1
                · exact Or.inr (Or.inl h1)
                · exact Or.inr (Or.inr (Or.inl h1))
                · exact Or.inl h1
                · exact Or.inr (Or.inr (Or.inr (Or.inl h1)))
                · exact Or.inr (Or.inr (Or.inr (Or.inr h1)))
              · intro x hx
                simp only [aRem, hab, ← hlen, set_split, List.mem_append, flatMap_split, AChild.evs, hsent, errsOf,
                  List.cons_append, List.filterMap_cons, List.mem_cons] at hx ⊢
                rcases hx with h1 | h1 | h1 | h1
                · exact Or.inl h1
                · exact Or.inr (Or.inl h1)
                · exact Or.inr (Or.inr (Or.inl (Or.inr h1)))
                · exact Or.inr (Or.inr (Or.inr h1))
            · have := h.res
              simp only [hab, ← hlen, set_split, List.map_append, List.map_cons, AChild.evs, hsent, doneSum,
                List.cons_append, List.filterMap_cons] at this ⊢
              exact this
            · intro c' hc'
              simp only [hab, ← hlen, set_split, List.mem_append, List.mem_cons] at hc'
              rcases hc' with hc' | hc' | hc'
              · exact h.shape c' (by simp [hab, hc'])
              · subst hc'
                refine ⟨s1, fun _ => ⟨pre', n, by simpa [AChild.evs] using hevs', fun e he => hpre e (by simp [he])⟩, ?_⟩
                intro ho; rw [hopen] at ho; cases ho
              · exact h.shape c' (by simp [hab, hc'])
          | suppr inl sp =>
            have hpc : ∃ pre', pre = Ev.suppr inl sp :: pre' := by
              cases pre with
              | nil => simp at hevs'
              | cons x pre' => simp only [List.cons_append, List.cons.injEq] at hevs'; exact ⟨pre', by rw [hevs'.1]⟩
            obtain ⟨pre', hp'⟩ := hpc
            subst hp'
            simp only [List.cons_append, List.cons.injEq, true_and] at hevs'
            cases hd : supprDecode cfg.simp inl (supprEncode sp) with
            | error e => simp [Ev.good, hd] at hevg
            | ok sdec =>
            simp only [applyEv, hd, Bool.false_eq_true, ↓reduceIte, Option.some.injEq] at hs
            subst hs
            refine ⟨?_, h.sub, ?_, ?_, ?_⟩
            · intro c' hc' e he
              simp only [hab, ← hlen, set_split, List.mem_append, List.mem_cons] at hc'
              rcases hc' with hc' | hc' | hc'
              · exact h.good c' (by simp [hab, hc']) e he
              · subst hc'
                exact h.good c hcm e (by
                  simp only [List.mem_append] at he ⊢
                  rcases he with h1 | h1
                  · exact Or.inl (by simp [hsent, h1])
                  · exact Or.inr h1)
              · exact h.good c' (by simp [hab, hc']) e he
            · apply h.inv.congr (hh := fun _ => Iff.rfl)
              intro x
              simp only [aRem, hab, ← hlen, set_split, List.flatMap_append, List.flatMap_cons, AChild.evs, hsent, errsOf,
                List.cons_append, List.filterMap_cons]
            · have := h.res
              simp only [hab, ← hlen, set_split, List.map_append, List.map_cons, AChild.evs, hsent, doneSum,
                List.cons_append, List.filterMap_cons] at this ⊢
              exact this
            · intro c' hc'
              simp only [hab, ← hlen, set_split, List.mem_append, List.mem_cons] at hc'
              rcases hc' with hc' | hc' | hc'
              · exact h.shape c' (by simp [hab, hc'])
              · subst hc'
                refine ⟨s1, fun _ => ⟨pre', n, by simpa [AChild.evs] using hevs', fun e he => hpre e (by simp [he])⟩, ?_⟩
                intro ho; rw [hopen] at ho; cases ho
              · exact h.shape c' (by simp [hab, hc'])

def arun (cfg : Cfg) (jobs : Nat) (raws : F → List Raw) (sups : F → List (Bool × Suppr)) :
    AState F → List PLabel → Option (AState F)
  | a, [] => some a
  | a, l :: ls => match astep cfg jobs raws sups a l with
    | none => none
    | some a' => arun cfg jobs raws sups a' ls

theorem prun_conc (cfg : Cfg) (hE : cfg.emitDuplicates = false) (jobs : Nat) (raws : F → List Raw)
    (sups : F → List (Bool × Suppr)) (files : List F) (total : Nat)
    (hgood : ∀ f ∈ files, ∀ ev ∈ childEvents cfg raws sups f, ev.good cfg = true) :
    ∀ (σ : List PLabel) (a : AState F), AInv cfg raws files total a →
      prun cfg jobs raws sups a.conc σ = (arun cfg jobs raws sups a σ).map AState.conc ∧
      ∀ a', arun cfg jobs raws sups a σ = some a' → AInv cfg raws files total a' := by
  intro σ
  induction σ with
  | nil => intro a h; exact ⟨rfl, fun a' e => by simp [arun] at e; subst e; exact h⟩
  | cons l σ ih =>
    intro a h
    simp only [prun, arun, pstep_conc cfg jobs raws sups a h.good l]
    cases hs : astep cfg jobs raws sups a l with
    | none => exact ⟨rfl, fun a' e => by cases e⟩
    | some a1 =>
      have h1 := astep_inv cfg hE jobs raws sups files total hgood a a1 l h hs
      simpa using ih a1 h1

def ainit (files : List F) : AState F := { files := files }

theorem ainit_inv (cfg : Cfg) (raws : F → List Raw) (files : List F) :
    AInv cfg raws files ((files.map (exN cfg raws)).sum) (ainit files) where
  good := by intro c hc; cases hc
  sub := fun _ h => h
  inv := by
    apply (Inv.init cfg (forwarded cfg raws files)).congr (hh := fun _ => Iff.rfl)
    intro x
    simp [aRem, ainit, forwarded, outN]
  res := by simp [ainit]
  shape := by intro c hc; cases hc

theorem childEvents_good (cfg : Cfg) (raws : F → List Raw) (sups : F → List (Bool × Suppr)) (files : List F)
    (h1 : ∀ m ∈ forwarded cfg raws files, (Ev.err m).good cfg = true)
    (h2 : ∀ f ∈ files, ∀ p ∈ sups f, (Ev.suppr p.1 p.2).good cfg = true) :
    ∀ f ∈ files, ∀ ev ∈ childEvents cfg raws sups f, ev.good cfg = true := by
  intro f hf ev hev
  simp only [childEvents, List.mem_append, List.mem_map, List.mem_singleton] at hev
  rcases hev with (⟨m, hm, rfl⟩ | ⟨p, hp, rfl⟩) | rfl
  · exact h1 m (by simp only [forwarded, List.mem_flatMap]; exact ⟨f, hf, hm⟩)
  · exact h2 f hf p hp
  · cases (logRun cfg false {} (raws f)).2 <;> simp [Ev.good]

theorem aterminal_empty (cfg : Cfg) (raws : F → List Raw) (files : List F) (total : Nat) (a : AState F)
    (h : AInv cfg raws files total a) (ht : a.conc.terminal = true) :
    aRem cfg raws a = [] ∧ a.parent.result = total := by
  simp only [PState.terminal, AState.conc, Bool.not_false, Bool.true_and, Bool.and_eq_true, List.isEmpty_iff,
    List.all_eq_true, List.mem_map, forall_exists_index, and_imp, forall_apply_eq_imp_iff₂, AChild.conc,
    Bool.not_eq_true'] at ht
  obtain ⟨hf, hc⟩ := ht
  have hev : ∀ c ∈ a.children, c.evs = [] := by
    intro c hcm
    have := (h.shape c hcm).closed_ok (hc c hcm).1
    simp [AChild.evs, this.1, this.2]
  constructor
  · simp only [aRem, hf, List.flatMap_nil, List.nil_append]
    apply List.flatMap_eq_nil_iff.2
    intro c hcm
    rw [hev c hcm]; rfl
  · have := h.res
    have hz : (a.children.map fun c => doneSum c.evs) = a.children.map fun _ => 0 := by
      apply List.map_congr_left
      intro c hcm
      rw [hev c hcm]; rfl
    rw [hf, hz] at this
    have hz2 : ∀ l : List AChild, (l.map fun _ => 0).sum = 0 := by
      intro l; induction l with
      | nil => rfl
      | cons x l ih => simp [ih]
    rw [hz2] at this
    simpa using this


/-! ### received suppression state -/

/-- the suppressions the parent will have received once these events are read -/
def supsOf (cfg : Cfg) (evs : List Ev) : List Suppr :=
  evs.filterMap fun e => match e with
    | .suppr inl s => (match supprDecode cfg.simp inl (supprEncode s) with
      | .ok s' => some s'
      | .error _ => none)
    | _ => none

theorem supsOf_append (cfg : Cfg) (a b : List Ev) : supsOf cfg (a ++ b) = supsOf cfg a ++ supsOf cfg b := by
  simp [supsOf, List.filterMap_append]

theorem supsOf_childEvents (cfg : Cfg) (raws : F → List Raw) (sups : F → List (Bool × Suppr)) (f : F) :
    supsOf cfg (childEvents cfg raws sups f) = decodedSups cfg (sups f) := by
  simp only [childEvents, supsOf_append]
  have h1 : ∀ l : List Msg, supsOf cfg (l.map Ev.err) = [] := by
    intro l; induction l with
    | nil => rfl
    | cons x l ih => simpa [supsOf] using ih
  have h2 : ∀ l : List (Bool × Suppr), supsOf cfg (l.map fun p => Ev.suppr p.1 p.2) = decodedSups cfg l := by
    intro l; induction l with
    | nil => rfl
    | cons x l ih =>
      simp only [supsOf, decodedSups, List.map_cons, List.filterMap_cons] at ih ⊢
      cases hd : supprDecode cfg.simp x.1 (supprEncode x.2) <;> simp [ih]
  have h3 : ∀ n, supsOf cfg [Ev.done n] = [] := fun n => rfl
  rw [h1, h2, h3]; simp

/-- received so far + still in the pipes or unsent + still to be produced = everything -/
def ARecv (cfg : Cfg) (raws : F → List Raw) (sups : F → List (Bool × Suppr)) (files : List F) (a : AState F) : Prop :=
  ∀ x : Suppr, a.parent.recv.count x + (a.children.map fun c => (supsOf cfg c.evs).count x).sum +
      (a.files.map fun f => (decodedSups cfg (sups f)).count x).sum =
    (files.map fun f => (decodedSups cfg (sups f)).count x).sum

theorem astep_recv (cfg : Cfg) (jobs : Nat) (raws : F → List Raw) (sups : F → List (Bool × Suppr)) (files : List F)
    (total : Nat) (a a' : AState F) (l : PLabel) (h : AInv cfg raws files total a) (hr : ARecv cfg raws sups files a)
    (hs : astep cfg jobs raws sups a l = some a') : ARecv cfg raws sups files a' := by
  intro x
  have hx := hr x
  cases l with
  | fork =>
    simp only [astep] at hs
    split at hs
    · cases hs
    · rename_i f fs hf
      split at hs
      · simp only [Option.some.injEq] at hs
        subst hs
        simp only [hf, List.map_cons, List.sum_cons, List.map_append, List.sum_append, List.map_nil, List.sum_nil,
          AChild.evs, List.nil_append, supsOf_childEvents] at hx ⊢
        omega
      · cases hs
  | send i =>
    simp only [astep] at hs
    split at hs
    · cases hs
    · rename_i c hc
      obtain ⟨la, lb, hab, hlen⟩ := getElem?_split hc
      split at hs
      · cases hs
      · rename_i ev rest htodo
        split at hs
        · cases hs
        · simp only [Option.some.injEq] at hs
          subst hs
          have hevs : ({ c with todo := rest, sent := c.sent ++ [ev] } : AChild).evs = c.evs := by simp [AChild.evs, htodo]
          simp only [hab, ← hlen, set_split, List.map_append, List.map_cons, hevs] at hx ⊢
          exact hx
  | exit i =>
    simp only [astep] at hs
    split at hs
    · cases hs
    · rename_i c hc
      obtain ⟨la, lb, hab, hlen⟩ := getElem?_split hc
      split at hs
      · cases hs
      · simp only [Option.some.injEq] at hs
        subst hs
        simp only [hab, ← hlen, set_split, List.map_append, List.map_cons, AChild.evs] at hx ⊢
        exact hx
  | reap i =>
    simp only [astep] at hs
    split at hs
    · cases hs
    · rename_i c hc
      obtain ⟨la, lb, hab, hlen⟩ := getElem?_split hc
      split at hs
      · cases hs
      · simp only [Option.some.injEq] at hs
        subst hs
        simp only [hab, ← hlen, set_split, List.map_append, List.map_cons, AChild.evs] at hx ⊢
        exact hx
  | read i =>
    simp only [astep] at hs
    split at hs
    · cases hs
    · rename_i c hc
      obtain ⟨la, lb, hab, hlen⟩ := getElem?_split hc
      have hcm : c ∈ a.children := List.mem_of_getElem? hc
      obtain ⟨s1, s2, s3⟩ := h.shape c hcm
      split at hs
      · cases hs
      · rename_i hcond
        simp only [Bool.or_eq_true, Bool.not_eq_true', Bool.and_eq_true, not_or, Bool.not_eq_false, not_and] at hcond
        obtain ⟨hopen, hne⟩ := hcond
        obtain ⟨pre, n, hevs, hpre⟩ := s2 hopen
        split at hs
        · rename_i hsent
          simp only [Option.some.injEq] at hs
          subst hs
          simp only [hab, ← hlen, set_split, List.map_append, List.map_cons, AChild.evs, hsent] at hx ⊢
          exact hx
        · rename_i ev rest hsent
          have hevg : ev.good cfg = true := h.good c hcm ev (by simp [hsent])
          have hevs' : ev :: (rest ++ c.todo) = pre ++ [Ev.done n] := by
            rw [← hevs]; simp [AChild.evs, hsent]
          cases ev with
          | done k =>
            have hpn : pre = [] := by
              cases pre with
              | nil => rfl
              | cons y pre' =>
                simp only [List.cons_append, List.cons.injEq] at hevs'
                exact absurd hevs'.1.symm (hpre y (by simp) k)
            subst hpn
            simp only [List.nil_append, List.cons.injEq, Ev.done.injEq, List.append_eq_nil_iff] at hevs'
            obtain ⟨_, hrest, htodo⟩ := hevs'
            simp only [applyEv, ↓reduceIte, Option.some.injEq] at hs
            subst hs
            simp only [hab, ← hlen, set_split, List.map_append, List.map_cons, AChild.evs, hsent, hrest, htodo, supsOf,
              List.nil_append, List.filterMap_nil, List.append_nil, List.filterMap_cons] at hx ⊢
            exact hx
          | err m =>
            simp only [applyEv, Bool.false_eq_true, ↓reduceIte, Option.some.injEq] at hs
            subst hs
            simp only [hab, ← hlen, set_split, List.map_append, List.map_cons, AChild.evs, hsent, supsOf,
              List.cons_append, List.filterMap_cons] at hx ⊢
            exact hx
          | suppr inl sp =>
            cases hd : supprDecode cfg.simp inl (supprEncode sp) with
            | error e => simp [Ev.good, hd] at hevg
            | ok sdec =>
              simp only [applyEv, hd, Bool.false_eq_true, ↓reduceIte, Option.some.injEq] at hs
              subst hs
              simp only [hab, ← hlen, set_split, List.map_append, List.map_cons, AChild.evs, hsent, supsOf, hd,
                List.cons_append, List.filterMap_cons, List.count_append, List.count_cons, List.count_nil,
                List.sum_append, List.sum_cons] at hx ⊢
              omega

theorem arun_recv (cfg : Cfg) (hE : cfg.emitDuplicates = false) (jobs : Nat) (raws : F → List Raw)
    (sups : F → List (Bool × Suppr)) (files : List F) (total : Nat)
    (hgood : ∀ f ∈ files, ∀ ev ∈ childEvents cfg raws sups f, ev.good cfg = true) :
    ∀ (σ : List PLabel) (a a' : AState F), AInv cfg raws files total a → ARecv cfg raws sups files a →
      arun cfg jobs raws sups a σ = some a' → ARecv cfg raws sups files a' := by
  intro σ
  induction σ with
  | nil => intro a a' _ hr e; simp [arun] at e; subst e; exact hr
  | cons l σ ih =>
    intro a a' h hr e
    simp only [arun] at e
    cases hs : astep cfg jobs raws sups a l with
    | none => rw [hs] at e; cases e
    | some a1 =>
      rw [hs] at e
      exact ih a1 a' (astep_inv cfg hE jobs raws sups files total hgood a a1 l h hs)
        (astep_recv cfg jobs raws sups files total a a1 l h hr hs) e

theorem aterminal_recv (cfg : Cfg) (raws : F → List Raw) (sups : F → List (Bool × Suppr)) (files : List F) (total : Nat)
    (a : AState F) (h : AInv cfg raws files total a) (hr : ARecv cfg raws sups files a) (ht : a.conc.terminal = true) :
    a.parent.recv.Perm (files.flatMap fun f => decodedSups cfg (sups f)) := by
  simp only [PState.terminal, AState.conc, Bool.not_false, Bool.true_and, Bool.and_eq_true, List.isEmpty_iff,
    List.all_eq_true, List.mem_map, forall_exists_index, and_imp, forall_apply_eq_imp_iff₂, AChild.conc,
    Bool.not_eq_true'] at ht
  obtain ⟨hf, hc⟩ := ht
  have hev : ∀ c ∈ a.children, c.evs = [] := by
    intro c hcm
    have := (h.shape c hcm).closed_ok (hc c hcm).1
    simp [AChild.evs, this.1, this.2]
  apply List.perm_iff_count.2
  intro x
  have hx := hr x
  have hz : (a.children.map fun c => (supsOf cfg c.evs).count x) = a.children.map fun _ => 0 := by
    apply List.map_congr_left
    intro c hcm
    rw [hev c hcm]; rfl
  have hz2 : ∀ l : List AChild, (l.map fun _ => 0).sum = 0 := by
    intro l; induction l with
    | nil => rfl
    | cons y l ih => simp [ih]
  rw [hf, hz, hz2] at hx
  rw [List.count_flatMap]
  simpa [Function.comp_def] using hx


end Cppcheck.Exec
